#!/bin/sh
# Builds /repo with the verification guard OFF (the default build: nothing defines
# MATRIXSSL_VERIF) and runs the repository's pinned test binaries.
# Prints their output; exit 0 iff the build succeeded and every binary exited 0.
REPO=${VERIF_REPO:-/repo}
make -C "$REPO" -j"$(nproc)" >/dev/null 2>&1 || { echo "BUILD FAILED"; exit 1; }
rc=0
for b in crypto/test/algorithmTest crypto/test/rsaTest crypto/test/eccTest crypto/test/hmacTest crypto/test/throughputTest matrixssl/test/sslTest; do
    if [ -x "$REPO/$b" ]; then
        echo "=== $b ==="
        ( cd "$(dirname "$REPO/$b")" && timeout 1500 "./$(basename "$b")" </dev/null 2>&1 ) || { echo "=== $b exited non-zero ==="; rc=1; }
    fi
done
exit $rc
