#!/usr/bin/env python3
"""Driver: discharges the function contracts of /verif/units/<property>/*.c
against the real sources in /repo with CBMC (goto-cc -> goto-instrument --dfcc
-> cbmc), see DESIGN.md section 1.

exit 0  every obligation discharged (KNOWN-FINDING lines allowed)
exit 1  a violated obligation that known_findings.txt does not list
        (stdout: VIOLATION property=<id> replay=<path>[ no-failing-input-found])
exit 2  infrastructure: timeout, out of memory, wrapper does not compile,
        function missing, vacuity canary green, layout parity broken
"""
import argparse, concurrent.futures as cf, glob, json, os, re, resource, shlex, shutil
import subprocess, sys, threading, time

VERIF = os.path.dirname(os.path.dirname(os.path.abspath(__file__)))
REPO = os.environ.get("VERIF_REPO", "/repo")
WORK = os.path.join(VERIF, ".work")
REPLAYS = os.path.join(VERIF, "replays")
GUARD = "MATRIXSSL_VERIF"

INC = ["-I%s/core/config" % REPO, "-I%s/core/include" % REPO,
       "-I%s/core/osdep/include" % REPO, "-I%s/core/include/sfzcl" % REPO,
       "-I%s" % REPO, "-I%s/units/common" % VERIF]

CBMC_CHECKS = ["--bounds-check", "--pointer-check", "--pointer-primitive-check",
               "--div-by-zero-check", "--signed-overflow-check",
               "--undefined-shift-check"]

VACUITY_PATTERNS = ("undefined function should be unreachable",
                    "no candidates for dereferenced function pointer",
                    "no body for callee", "no body for function")

MEM_BUDGET_GB = int(os.environ.get("VERIF_MEM_GB", "44"))
TRACE_JSON_LIMIT = int(os.environ.get("VERIF_TRACE_MB", "150")) << 20
NCPU = int(os.environ.get("VERIF_JOBS", str(min(16, os.cpu_count() or 4))))


class Infra(Exception):
    pass


# --------------------------------------------------------------------------
# unit discovery

def load_unit(path):
    src = open(path).read()
    m = re.search(r"/\*@UNIT\s*(\{.*?\})\s*@\*/", src, re.S)
    if not m:
        raise Infra("%s: no /*@UNIT {...} @*/ header" % path)
    try:
        u = json.loads(m.group(1))
    except Exception as e:
        raise Infra("%s: bad UNIT json: %s" % (path, e))
    u["path"] = path
    u["src"] = src
    u.setdefault("unit", os.path.splitext(os.path.basename(path))[0])
    u.setdefault("replace", [])
    u.setdefault("assumed", [])
    u.setdefault("keep_bodies", [])
    u.setdefault("mode", "bounded")
    if "cases_file" in u:
        u["cases"] = json.load(open(os.path.join(VERIF, "units", u["cases_file"])))
    u.setdefault("cases", [{"name": "default", "defs": []}])
    u.setdefault("timeout", 600)
    u.setdefault("mem_gb", 10)
    u.setdefault("weight_gb", 2)
    u.setdefault("tier", "quick")
    u.setdefault("extra_cbmc", [])
    u.setdefault("native_replay", False)
    u["labels"] = post_labels(src)
    return u


def post_labels(src):
    """labels of the X-macro list  #define POSTS(P) P(label, cond) ...  in order"""
    m = re.search(r"#\s*define\s+POSTS\s*\(\s*P\s*\)(.*?)(?<!\\)\n", src, re.S)
    if not m:
        return []
    body = m.group(1)
    return re.findall(r"\bP\(\s*([A-Za-z_][A-Za-z0-9_]*)\s*,", body)


def discover(pid):
    """units of the property's own directory plus shared units (any directory) that list it in "properties" """
    units = []
    for p in sorted(glob.glob(os.path.join(VERIF, "units", "*", "*.c"))):
        d = os.path.basename(os.path.dirname(p))
        if d == "common":
            continue
        try:
            u = load_unit(p)
        except Infra:
            if d == pid:
                raise
            continue
        if u.get("property") == pid or pid in u.get("properties", []):
            units.append(u)
    return units


def label_owner(u, p):
    """property a failed obligation is attributed to: labels Cxx_name belong to Cxx; other labels to the
    unit's primary property; unlabeled (memory-safety / UB / frame) obligations to C08 when the unit serves C08"""
    if "label" in p:
        m = re.match(r"^(C\d\d)_", p["label"])
        return m.group(1) if m else u["property"]
    props = [u["property"]] + u.get("properties", [])
    return "C08" if "C08" in props else None     # None = everybody


# --------------------------------------------------------------------------
# running tools

def _limits(mem_gb):
    def f():
        b = int(mem_gb * (1 << 30))
        resource.setrlimit(resource.RLIMIT_AS, (b, b))
        os.setsid()
        try:
            # die with the driver (a driver killed by `timeout` used to leave its cbmc behind, holding the job lock)
            import ctypes
            ctypes.CDLL("libc.so.6", use_errno=True).prctl(1, 9, 0, 0, 0)   # PR_SET_PDEATHSIG, SIGKILL
        except Exception:
            pass
    return f


def run(cmd, cwd, timeout, mem_gb, out=None):
    t0 = time.time()
    fo = open(out, "w") if out else subprocess.PIPE
    try:
        p = subprocess.Popen(cmd, cwd=cwd, stdout=fo, stderr=subprocess.STDOUT if not out else subprocess.PIPE,
                             preexec_fn=_limits(mem_gb), text=True)
        try:
            so, se = p.communicate(timeout=timeout)
        except subprocess.TimeoutExpired:
            try:
                os.killpg(p.pid, 9)
            except Exception:
                p.kill()
            p.communicate()
            return None, "timeout after %ds" % timeout, time.time() - t0
    finally:
        if out:
            fo.close()
    txt = (so or "") + (se or "")
    return p.returncode, txt, time.time() - t0


class MemGate:
    """admits jobs while the sum of their expected memory stays in budget"""
    def __init__(self, budget):
        self.budget = budget
        self.used = 0
        self.cv = threading.Condition()

    def acquire(self, w):
        w = min(w, self.budget)
        with self.cv:
            while self.used + w > self.budget:
                self.cv.wait()
            self.used += w
        return w

    def release(self, w):
        with self.cv:
            self.used -= w
            self.cv.notify_all()


GATE = MemGate(MEM_BUDGET_GB)


def tier_defs(u, tier):
    return list(u.get("defs_" + tier, u.get("defs", [])))


def job(u, case, tier, canary):
    """returns dict(status = ok|fail|infra, props=[...], ...)"""
    name = "%s.%s%s" % (u["unit"], case["name"], ".canary" if canary is True else "")
    wd = os.path.join(WORK, u["property"], name)
    shutil.rmtree(wd, ignore_errors=True)
    os.makedirs(wd)
    res = {"unit": u["unit"], "case": case["name"], "canary": canary, "status": "infra",
           "props": [], "solver_s": 0.0, "wall_s": 0.0, "why": "", "wd": wd}
    t0 = time.time()
    w = GATE.acquire(u.get("weight_gb_" + tier, u["weight_gb"]))
    try:
        _job(u, case, tier, canary, wd, res)
    except Infra as e:
        res["status"] = "infra"
        res["why"] = str(e)
    finally:
        GATE.release(w)
    res["wall_s"] = round(time.time() - t0, 2)
    return res


CACHE = os.environ.get("VERIF_CACHE_DIR") or os.path.join(VERIF, ".cache")   # content-hash keyed, may be shared between snapshots


def cache_key(u, defs, extra):
    """content hash of everything the verdict depends on: the preprocessed wrapper (it #includes the real
    sources from the working tree), the tool options and the tool version"""
    import hashlib
    p = subprocess.run(["gcc", "-E", "-P"] + defs + INC + [u["path"]], capture_output=True)
    if p.returncode != 0:
        return None
    h = hashlib.sha256()
    h.update(p.stdout)
    h.update(json.dumps(extra, sort_keys=True).encode())
    h.update(b"cbmc-6.11.0 driver-v4")
    return h.hexdigest()


def _job(u, case, tier, canary, wd, res):
    defs = ["-DVERIF_CBMC", "-D" + GUARD] + ["-D" + d for d in tier_defs(u, tier) + case.get("defs", [])]
    if canary:
        defs.append("-DCANARY")
    key = None
    if not os.environ.get("VERIF_NO_CACHE"):
        key = cache_key(u, defs, {k: (case.get("unwind") if k == "case_unwind" else str(canary) if k == "canary_mode" else u.get(k)) for k in ("case_unwind", "canary_mode", "function", "replace", "unwind", "unwind_" + tier, "unwindset", "unwindset_" + tier,
                                                         "object_bits", "solver", "extra_cbmc", "malloc_may_fail", "leak_check",
                                                         "loop_contracts", "remove_function_pointers", "replace_calls", "plain")})
        cf_ = os.path.join(CACHE, (key or "x") + ".json")

        def from_cache():
            if key and os.path.exists(cf_):
                try:
                    c = json.load(open(cf_))
                    res.update(c)
                    res["cached"] = True
                    res["wd"] = wd
                    return True
                except Exception:
                    return False
            return False
        if from_cache():
            return
    import fcntl
    os.makedirs(CACHE, exist_ok=True)
    # one computation per distinct job across concurrently running checks (properties share units) ...
    lk = open(os.path.join(CACHE, (key or "nokey-%d" % os.getpid()) + ".lock"), "w")
    fcntl.flock(lk, fcntl.LOCK_EX)
    slot = None
    try:
        if key and not os.environ.get("VERIF_NO_CACHE") and from_cache():
            return
        # ... and a machine-wide cap on heavy jobs (expected memory >= 4 GB), whoever started them
        wgb = u.get("weight_gb_" + tier, u["weight_gb"])
        if wgb >= 4:
            nslots = max(1, MEM_BUDGET_GB // int(wgb))
            while slot is None:
                for i in range(nslots):
                    f = open(os.path.join(CACHE, "heavy-slot-%d" % i), "w")
                    try:
                        fcntl.flock(f, fcntl.LOCK_EX | fcntl.LOCK_NB)
                        slot = f
                        break
                    except OSError:
                        f.close()
                if slot is None:
                    time.sleep(2)
        _job_run(u, case, tier, canary, wd, res, defs)
    finally:
        if slot is not None:
            slot.close()
        fcntl.flock(lk, fcntl.LOCK_UN)
        lk.close()
    if key and res["status"] in ("ok", "vacuous", "fail"):
        os.makedirs(CACHE, exist_ok=True)
        tmp = os.path.join(CACHE, "%s.%d.tmp" % (key, os.getpid()))
        keep = {k: res[k] for k in ("status", "props", "solver_s", "checker_cmd") if k in res}
        json.dump(keep, open(tmp, "w"))
        os.replace(tmp, os.path.join(CACHE, key + ".json"))


def _job_run(u, case, tier, canary, wd, res, defs):
    fn = u["function"]
    # the function must still exist in the file the unit names
    srcfile = os.path.join(REPO, u["source"])
    if not os.path.exists(srcfile):
        raise Infra("source file %s is gone" % u["source"])
    if not re.search(r"\b%s\s*\(" % re.escape(fn), open(srcfile, errors="replace").read()):
        raise Infra("function %s not found in %s" % (fn, u["source"]))
    rc, txt, _ = run(["goto-cc"] + defs + INC + ["--function", "harness", u["path"], "-o", "u.gb"], wd, 300, 8)
    if rc != 0:
        raise Infra("goto-cc failed: " + (txt or "")[-1500:])
    cur = "u.gb"
    if u.get("remove_function_pointers"):
        rc, txt, _ = run(["goto-instrument", "--remove-function-pointers", cur, "u_fp.gb"], wd, 300, 8)
        if rc != 0:
            raise Infra("remove-function-pointers failed: " + (txt or "")[-1500:])
        cur = "u_fp.gb"
    if u.get("replace_calls"):
        # harness-checked units: calls to f are redirected to a model body g written in the unit ("f:g")
        rc, txt, _ = run(["goto-instrument"] + sum([["--replace-calls", x] for x in u["replace_calls"]], []) + [cur, "u_rc.gb"], wd, 300, 8)
        if rc != 0:
            raise Infra("replace-calls failed: " + (txt or "")[-1500:])
        cur = "u_rc.gb"
    if u.get("plain"):
        # supporting facts about constant data (label strings, DER prefixes ...): a plain cbmc run of the
        # harness with the program's own static initialisers (DFCC would havoc them); obligations are the
        # harness assertions  PLAIN_ASSERT(label, cond)
        shutil.copy(os.path.join(wd, cur), os.path.join(wd, "u_dfcc.gb"))
        cmd = ["cp", cur, "u_dfcc.gb"]
    else:
        _dfcc(u, fn, cur, wd)
        cmd = ["goto-instrument", "--dfcc", "harness", "--enforce-contract", fn] + sum([["--replace-call-with-contract", g] for g in u["replace"]], []) + \
              (["--apply-loop-contracts"] if u.get("loop_contracts") else []) + [cur, "u_dfcc.gb"]
    _after_instrument(u, case, tier, canary, wd, res, cmd, fn)


def _dfcc(u, fn, cur, wd):
    cmd = ["goto-instrument", "--dfcc", "harness", "--enforce-contract", fn]
    for g in u["replace"]:
        cmd += ["--replace-call-with-contract", g]
    if u.get("loop_contracts"):
        cmd += ["--apply-loop-contracts"]
    cmd += [cur, "u_dfcc.gb"]
    rc, txt, _ = run(cmd, wd, 600, 10)
    if rc != 0:
        raise Infra("goto-instrument --dfcc failed: " + (txt or "")[-2000:])
    open(os.path.join(wd, "dfcc.log"), "w").write(txt or "")


def _after_instrument(u, case, tier, canary, wd, res, cmd, fn):
    cb = ["cbmc", "u_dfcc.gb"] + CBMC_CHECKS + ["--object-bits", str(u.get("object_bits", 12)), "--json-ui", "--trace"]
    if u.get("malloc_may_fail", False):
        cb += ["--malloc-may-fail", "--malloc-fail-null"]
    if u.get("leak_check", False):
        cb += ["--memory-leak-check"]
    uw = case.get("unwind", u.get("unwind_" + tier, u.get("unwind")))
    if uw:
        cb += ["--unwind", str(uw), "--unwinding-assertions"]
    uws = u.get("unwindset_" + tier, u.get("unwindset"))
    if uws:
        cb += ["--unwindset", ",".join(uws)]
        if not uw:
            cb += ["--unwinding-assertions"]
    if u.get("solver"):
        cb += ["--sat-solver", u["solver"]]
    cb += u["extra_cbmc"]
    n_posts = len(u["labels"])
    if canary is True and not u.get("plain"):
        cb += ["--property", "%s.postcondition.%d" % (fn, n_posts + 1)]
    res["checker_cmd"] = " ".join(cmd[:-2]) + " ; " + " ".join(cb)
    tmo = case.get("timeout", u.get("timeout_" + tier, u["timeout"]))
    mem = u.get("mem_gb_" + tier, u["mem_gb"])

    def run_cbmc(with_trace):
        c2 = cb if with_trace else [x for x in cb if x != "--trace"]
        rc_, txt_, dt_ = run(c2, wd, tmo, mem, out=os.path.join(wd, "cbmc.json"))
        if rc_ is None:
            raise Infra("cbmc " + txt_)
        try:
            if with_trace and os.path.getsize(os.path.join(wd, "cbmc.json")) > TRACE_JSON_LIMIT:
                # a counterexample trace of this size cannot be parsed without the driver itself running
                # out of memory (thorough tier, 32 GB seen); the failure is reported without inputs
                return None, dt_
            return json.load(open(os.path.join(wd, "cbmc.json"))), dt_
        except Exception:
            tail = open(os.path.join(wd, "cbmc.json"), errors="replace").read()[-800:]
            raise Infra("cbmc produced no parsable result (rc=%s; out of memory?): %s" % (rc_, tail))

    # First run WITHOUT counterexample traces: with the vacuity canary in the same run every run has one failing
    # property, and its JSON trace (hundreds of MB for the large units) made the driver itself run out of memory
    # when several were parsed at once.  Only when an obligation other than the canary fails is the query
    # repeated with --trace to obtain the counterexample.
    doc, dt = run_cbmc(False)
    res["solver_s"] = round(dt, 2)
    # obligations of this unit that known_findings.txt lists (under whatever property): their failure is expected on
    # the unchanged tree and needs no counterexample - the DTLS modes of tls12_decode carry one (F9d) and their
    # traces are the largest there are
    known_labels = set(k.get("obligation") for k in load_known() if k.get("unit") == u["unit"])
    def _label_of(r):
        if u.get("plain") and r.get("description", "") in u["labels"]:
            return r["description"]
        m_ = re.match(r"^%s\.postcondition\.(\d+)$" % re.escape(fn), r["property"])
        if m_ and 1 <= int(m_.group(1)) <= n_posts:
            return u["labels"][int(m_.group(1)) - 1]
        return None
    def _failing_other_than_canary(d):
        for e in d:
            if "result" in e:
                for r in e["result"]:
                    if r.get("status") != "FAILURE":
                        continue
                    if canary and (r.get("description") == "CANARY" or r["property"] == "%s.postcondition.%d" % (fn, n_posts + 1)):
                        continue
                    if _label_of(r) in known_labels:
                        continue
                    return True
        return False
    if _failing_other_than_canary(doc):
        try:
            doc2, dt2 = run_cbmc(True)
        except Infra as e_:
            # the run that only adds the counterexample ran out of memory or time: the verdicts of the first run stand
            doc2, dt2 = None, 0.0
            res["trace_dropped"] = "counterexample run failed (%s); verdicts are those of the run without --trace" % str(e_)[:200]
        if doc2 is not None:
            doc = doc2
        elif "trace_dropped" not in res:
            res["trace_dropped"] = "counterexample trace larger than %d MB, not parsed" % (TRACE_JSON_LIMIT >> 20)
        res["solver_s"] = round(dt + dt2, 2)
    results = None
    msgs = []
    for e in doc:
        if "result" in e:
            results = e["result"]
        if e.get("messageType") in ("ERROR",):
            msgs.append(e.get("messageText", ""))
        if e.get("messageType") == "WARNING" and "ignoring" in e.get("messageText", ""):
            msgs.append(e.get("messageText", ""))
    if results is None:
        raise Infra("cbmc gave no result list: " + "; ".join(msgs)[-800:])
    if any("ignoring" in m for m in msgs):
        raise Infra("cbmc ignored a construct: " + "; ".join(msgs)[-400:])
    props = []
    for r in results:
        pr = {"id": r["property"], "status": r["status"], "desc": r.get("description", ""),
              "loc": "%s:%s" % (os.path.relpath(r.get("sourceLocation", {}).get("file", "?"), "/") if r.get("sourceLocation") else "?",
                                r.get("sourceLocation", {}).get("line", "?"))}
        if u.get("plain") and r.get("description", "") in u["labels"] + ["CANARY"]:
            pr["label"] = r["description"]
        m = re.match(r"^%s\.postcondition\.(\d+)$" % re.escape(fn), r["property"])
        if m:
            k = int(m.group(1))
            if k <= n_posts:
                pr["label"] = u["labels"][k - 1]
            elif k == n_posts + 1 and canary:
                pr["label"] = "CANARY"
            else:
                pr["label"] = "post%d" % k
        if r["status"] == "FAILURE" and "trace" in r:
            pr["ctrace"] = compact_trace(r["trace"])
            pr["input_hex"] = trace_inputs(r["trace"]) if u.get("native_replay") else None
        props.append(pr)
    res["props"] = props
    if not props:
        raise Infra("zero obligations generated")
    if canary is not True and not u.get("plain"):
        got = len([p for p in props if re.match(r"^%s\.postcondition\.\d+$" % re.escape(fn), p["id"])])
        if got != n_posts + (1 if canary else 0):
            raise Infra("postcondition count %d differs from POSTS labels %d" % (got, n_posts))
    for p in props:
        if p["status"] == "FAILURE" and any(v in p["desc"] for v in VACUITY_PATTERNS):
            raise Infra("a callee has no body or contract (%s at %s): the unit must stub or replace it" % (p["desc"], p["loc"]))
    unwind_failed = [p for p in props if p["status"] == "FAILURE" and ".unwind." in p["id"]]
    for p in props:
        if p["status"] not in ("SUCCESS", "FAILURE"):
            if p["status"] == "UNKNOWN" and any(q["status"] == "FAILURE" for q in props):
                continue    # cbmc reports some non-failed properties as UNKNOWN once another property (e.g. an unwinding assertion) has failed
            raise Infra("obligation %s has status %s" % (p["id"], p["status"]))
    if canary:
        c = [p for p in props if p.get("label") == "CANARY"]
        if not c:
            raise Infra("canary postcondition not found")
        if canary is True:
            res["status"] = "ok" if c[0]["status"] == "FAILURE" else "vacuous"
            return
        # merged canary: the clause that must fail is checked in the same run as the real obligations;
        # it is not an obligation of the unit
        props = [p for p in props if p.get("label") != "CANARY"]
        res["props"] = props
        if c[0]["status"] != "FAILURE":
            res["status"] = "vacuous"
            return
    real = [p for p in props if p["status"] == "FAILURE" and ".unwind." not in p["id"]]
    if unwind_failed and not real:
        raise Infra("unwinding assertion failed (%s at %s): the stated bound no longer closes this loop" % (unwind_failed[0]["id"], unwind_failed[0]["loc"]))
    res["status"] = "fail" if real else "ok"


# --------------------------------------------------------------------------
# known findings

def load_known():
    out = []
    p = os.path.join(VERIF, "known_findings.txt")
    if not os.path.exists(p):
        return out
    for ln in open(p):
        ln = ln.strip()
        if not ln or ln.startswith("#"):
            continue
        kind, _, rest = ln.partition(":")
        if kind.strip() != "finding":
            continue
        head, _, text = rest.partition("::")
        d = {"text": text.strip()}
        for tok in shlex.split(head):
            if "=" in tok:
                k, v = tok.split("=", 1)
                d[k] = v
        out.append(d)
    return out


def obligation_key(p):
    if "label" in p:
        return p["label"]
    base = re.sub(r"\.\d+$", "", p["id"])
    return "%s: %s" % (base, p["desc"])


def is_known(known, pid, unit, p):
    key = obligation_key(p)
    for k in known:
        if k.get("property") == pid and k.get("unit") == unit and k.get("obligation") == key:
            return k
    return None


# --------------------------------------------------------------------------
# replay

def flatten(v):
    """cbmc json value -> little-endian bytes (struct inputs is packed and pointer-free)"""
    if "members" in v:
        return b"".join(flatten(m["value"]) for m in v["members"])
    if "elements" in v:
        return b"".join(flatten(e["value"]) for e in v["elements"])
    if "binary" in v:
        bits = v["binary"]
        n = (len(bits) + 7) // 8
        return int(bits, 2).to_bytes(n, "little")
    raise ValueError("cannot flatten %s" % json.dumps(v)[:200])


def _set_path(tree, path, val):
    """tree: cbmc json value; path like .a[3l].b ; replace the sub-value"""
    toks = re.findall(r"\.([A-Za-z_$][A-Za-z0-9_$]*)|\[(\d+)[a-z]*\]", path)
    node = tree
    for i, (name, idx) in enumerate(toks):
        last = i == len(toks) - 1
        if name:
            ms = node.get("members", [])
            hit = next((m for m in ms if m["name"] == name), None)
            if hit is None:
                return
            if last:
                hit["value"] = val
            node = hit["value"]
        else:
            es = node.get("elements", [])
            hit = next((e for e in es if e["index"] == int(idx)), None)
            if hit is None:
                return
            if last:
                hit["value"] = val
            node = hit["value"]


def trace_inputs(trace):
    """value of the harness input record `in` right after  in = nondet_in()"""
    tree = None
    for st in trace:
        if st.get("stepType") != "assignment" or st.get("sourceLocation", {}).get("function") != "harness":
            continue
        lhs = st.get("lhs", "")
        if lhs == "in":
            tree = json.loads(json.dumps(st.get("value")))
        elif tree is not None and (lhs.startswith("in.") or lhs.startswith("in[")):
            _set_path(tree, lhs[2:], st.get("value"))
    if tree is None:
        return None
    try:
        return flatten(tree).hex()
    except Exception:
        return None


def compact_trace(trace, limit=400):
    out = []
    for st in trace:
        t = st.get("stepType")
        loc = st.get("sourceLocation", {})
        where = "%s:%s" % (os.path.basename(loc.get("file", "?")), loc.get("line", "?"))
        if t == "assignment" and not st.get("hidden") or (t == "assignment" and st.get("lhs") == "in"):
            v = st.get("value", {})
            out.append("%s  %s = %s" % (where, st.get("lhs"), v.get("data", v.get("name", "?"))))
        elif t == "function-call":
            out.append("%s  call %s" % (where, st.get("function", {}).get("displayName")))
        elif t == "function-return":
            out.append("%s  return from %s" % (where, st.get("function", {}).get("displayName")))
        elif t == "failure":
            out.append("%s  FAILURE %s: %s" % (where, st.get("property"), st.get("reason")))
    if len(out) > limit:
        out = out[:limit // 2] + ["... %d steps elided ..." % (len(out) - limit)] + out[-limit // 2:]
    return out


_make_lock = threading.Lock()
_made = [False]


def ensure_libs():
    with _make_lock:
        if _made[0]:
            return
        subprocess.run(["make", "-C", REPO, "libs", "-j", str(NCPU)], stdout=subprocess.DEVNULL, stderr=subprocess.DEVNULL)
        _made[0] = True


def native_replay(u, case, tier, hexin, wd):
    """build the wrapper natively against the real code and run it on the counterexample"""
    ensure_libs()
    defs = ["-DNATIVE_REPLAY"] + ["-D" + d for d in tier_defs(u, tier) + case.get("defs", [])]
    exe = os.path.join(wd, "replay.bin")
    cmd = ["gcc", "-g", "-O0", "-w", "-fsanitize=address,undefined", "-fno-sanitize-recover=undefined", "-Wl,--allow-multiple-definition"] + defs + INC + \
          [u["path"], "-o", exe,
           os.path.join(REPO, "matrixssl/libssl_s.a"), os.path.join(REPO, "crypto/libcrypt_s.a"),
           os.path.join(REPO, "core/libcore_s.a"), "-lpthread"]
    p = subprocess.run(cmd, capture_output=True, text=True)
    if p.returncode != 0:
        return {"built": False, "log": p.stderr[-1500:], "cmd": " ".join(cmd)}
    try:
        q = subprocess.run([exe, hexin], capture_output=True, text=True, timeout=60,
                           env=dict(os.environ, ASAN_OPTIONS="detect_leaks=0"))
        out = (q.stdout + q.stderr)[-3000:]
        rc = q.returncode
    except subprocess.TimeoutExpired:
        out, rc = "native run timed out", -1
    labels = re.findall(r"REPRODUCED (\S+)", out)
    san = "runtime error" in out or "AddressSanitizer" in out
    return {"built": True, "rc": rc, "output": out, "reproduced_labels": labels, "sanitizer_fault": san,
            "cmd": " ".join(cmd) + " && " + exe + " " + hexin}


def write_replay(pid, u, case, tier, p, wd):
    os.makedirs(os.path.join(REPLAYS, pid), exist_ok=True)
    key = obligation_key(p)
    safe = re.sub(r"[^A-Za-z0-9_.-]+", "_", key)[:80]
    path = os.path.join(REPLAYS, pid, "%s.%s.%s.json" % (u["unit"], case["name"], safe))
    rec = {"property": pid, "unit": u["unit"], "case": case["name"], "tier": tier,
           "function": u["function"], "source": u["source"], "wrapper": os.path.relpath(u["path"], VERIF),
           "failed_obligation": key, "cbmc_property": p["id"], "cbmc_description": p["desc"],
           "location": p["loc"], "input_hex": None, "native": None,
           "verifier_trace": p.get("ctrace", [])}
    reproduced = False
    if u.get("native_replay") and p.get("input_hex"):
        hx = p["input_hex"]
        rec["input_hex"] = hx
        if hx is not None:
            nat = native_replay(u, case, tier, hx, wd)
            rec["native"] = nat
            if nat.get("built"):
                if "label" in p:
                    # the postcondition fails on the real code for the verifier's input, or a sanitizer stops the
                    # real code on that input before the postcondition can be evaluated (recorded as such)
                    reproduced = p["label"] in nat.get("reproduced_labels", []) or bool(nat.get("sanitizer_fault"))
                    if reproduced and p["label"] not in nat.get("reproduced_labels", []):
                        rec["reproduced_as"] = "sanitizer fault on the verifier's input before the postcondition was reached"
                else:
                    reproduced = bool(nat.get("sanitizer_fault")) or nat.get("rc", 0) not in (0, 1, 3)
    rec["reproduced_on_real_code"] = reproduced
    json.dump(rec, open(path, "w"), indent=1)
    return path, reproduced


# --------------------------------------------------------------------------
# parity: sizeof/offsetof under goto-cc == under gcc  (DESIGN 1.1)

PARITY_SRC = r'''
#include "matrixssl/matrixsslImpl.h"
#include <stddef.h>
#define ROWS(X) \
  X(sizeof(ssl_t)) X(sizeof(pstm_int)) X(sizeof(pstm_digit)) X(sizeof(pstm_word)) \
  X(sizeof(psX509Cert_t)) X(sizeof(sslSec_t)) X(sizeof(sslRec_t)) X(sizeof(psBuf_t)) \
  X(sizeof(psParseBuf_t)) X(sizeof(psSha256_t)) X(sizeof(psPubKey_t)) \
  X(offsetof(ssl_t, flags)) X(offsetof(ssl_t, hsState)) X(offsetof(ssl_t, sec)) X(offsetof(ssl_t, rec)) \
  X(offsetof(ssl_t, lastRsn)) X(offsetof(ssl_t, dtlsBitmap)) X(offsetof(ssl_t, sessionId)) \
  X(offsetof(psX509Cert_t, authStatus)) X(offsetof(psX509Cert_t, publicKey)) X(offsetof(pstm_int, dp))
#ifdef PARITY_NATIVE
#include <stdio.h>
#define X(e) printf("%lu\n", (unsigned long)(e));
int main(void) { ROWS(X) return 0; }
#else
extern unsigned long expected[];
#define X(e) __CPROVER_assert((unsigned long)(e) == expected[i], #e); i++;
void harness(void) { int i = 0; ROWS(X) }
#endif
'''


def parity():
    wd = os.path.join(WORK, "_parity_%d" % os.getpid())
    shutil.rmtree(wd, ignore_errors=True)
    os.makedirs(wd)
    open(os.path.join(wd, "parity.c"), "w").write(PARITY_SRC)
    p = subprocess.run(["gcc", "-w", "-DPARITY_NATIVE"] + INC + ["parity.c", "-o", "parity.bin"], cwd=wd, capture_output=True, text=True)
    if p.returncode != 0:
        raise Infra("parity: gcc failed: " + p.stderr[-800:])
    vals = subprocess.run(["./parity.bin"], cwd=wd, capture_output=True, text=True).stdout.split()
    open(os.path.join(wd, "expected.c"), "w").write("unsigned long expected[] = {%s};\n" % ",".join(v + "ul" for v in vals))
    rc, txt, _ = run(["goto-cc", "-D" + GUARD] + INC + ["--function", "harness", "parity.c", "expected.c", "-o", "p.gb"], wd, 120, 8)
    if rc != 0:
        raise Infra("parity: goto-cc failed: " + (txt or "")[-800:])
    rc, txt, _ = run(["cbmc", "p.gb"], wd, 120, 8)
    if rc != 0:
        bad = [l for l in (txt or "").splitlines() if "FAILURE" in l]
        raise Infra("layout parity broken between gcc and goto-cc: " + "; ".join(bad)[:800])
    shutil.rmtree(wd, ignore_errors=True)
    return len(vals)


# --------------------------------------------------------------------------

def static_scan(u):
    """assumption scan of a wrapper: __CPROVER_assume outside of contracts"""
    return len(re.findall(r"__CPROVER_assume\s*\(", u["src"]))


def check_property(pid, tier, only_unit=None, keep=False, no_canary=False, only_case=None):
    t0 = time.time()
    units = discover(pid)
    if only_unit:
        units = [u for u in units if u["unit"] == only_unit]
    for u in units:
        if u["tier"] == "parked":
            print("PARKED: unit %s (%s)" % (u["unit"], u.get("parked_reason", "resource limit")))
    units = [u for u in units if u["tier"] != "parked" and (tier == "thorough" or u["tier"] == "quick")]
    if not units:
        raise Infra("no units for %s" % pid)
    known = load_known()
    n_par = parity()
    jobs = []
    for u in units:
        for c in u["cases"]:
            if c.get("tier", "quick") == "thorough" and tier != "thorough":
                continue
            if c.get("tier") == "parked":
                # a case that exceeds the time or memory of this machine in every tier: kept in the unit for the
                # record, never run, listed under not_covered of the property's meta.json
                print("PARKED: %s.%s (%s)" % (u["unit"], c["name"], c.get("parked_reason", "resource limit")))
                continue
            if only_case and c["name"] != only_case:
                continue
            want_canary = not no_canary and not u.get("no_canary") and c.get("canary", True)
            if want_canary and not u.get("canary_separate"):
                jobs.append((u, c, "merged"))     # one run: real obligations + the clause that must fail
            else:
                jobs.append((u, c, False))
                if want_canary:
                    jobs.append((u, c, True))
    results = []
    with cf.ThreadPoolExecutor(max_workers=NCPU) as ex:
        futs = {ex.submit(job, u, c, tier, can): (u, c, can) for (u, c, can) in jobs}
        for f in cf.as_completed(futs):
            results.append((futs[f], f.result()))
    infra = []
    foreign = []
    violations = []
    known_hits = []
    unit_ev = {}
    for (u, c, can), r in sorted(results, key=lambda x: (x[0][0]["unit"], x[0][1]["name"], str(x[0][2]))):
        ev = unit_ev.setdefault(u["unit"], {
            "function": u["function"], "source": u["source"], "mode": u["mode"],
            "bounds": u.get("bounds", u.get("why_proof", "")), "cases": 0, "obligations": 0, "discharged": 0,
            "backend": "cbmc 6.11.0 " + (u.get("solver") or "minisat (default SAT)"), "solver_s": 0.0,
            "canary": "n/a", "replaced_by_contract": u["replace"], "assumed_contracts": u["assumed"],
            "bodies_kept": u["keep_bodies"], "loop_contracts": bool(u.get("loop_contracts")),
            "assume_statements_in_wrapper": static_scan(u), "wrapper": os.path.relpath(u["path"], VERIF)})
        if r["status"] == "infra":
            infra.append("%s.%s%s: %s" % (u["unit"], c["name"], " (canary)" if can else "", r["why"]))
            continue
        if can == "merged":
            if r["status"] == "vacuous":
                infra.append("%s.%s: canary postcondition verified - precondition or assumed contracts are contradictory" % (u["unit"], c["name"]))
                ev["canary"] = "GREEN (vacuous!)"
                continue
            ev["canary"] = "fails as it must (same run)"
        elif can:
            if r["status"] == "vacuous":
                infra.append("%s.%s: canary postcondition verified - precondition or assumed contracts are contradictory" % (u["unit"], c["name"]))
                ev["canary"] = "GREEN (vacuous!)"
            else:
                ev["canary"] = "fails as it must"
            ev["solver_s"] += r["solver_s"]
            continue
        ev["cases"] += 1
        ev["solver_s"] = round(ev["solver_s"] + r["solver_s"], 2)
        ev["obligations"] += len(r["props"])
        ev["checker_cmd"] = r.get("checker_cmd", "")
        for p in r["props"]:
            owner = label_owner(u, p)
            if owner is not None and owner != pid:
                # an obligation of another property served by the same (shared) unit: counted and reported there
                ev["obligations"] -= 1
                if p["status"] == "FAILURE":
                    foreign.append((u["unit"], c["name"], obligation_key(p), owner))
                continue
            if p["status"] == "SUCCESS":
                ev["discharged"] += 1
                continue
            if p["status"] != "FAILURE":
                continue
            k = is_known(known, pid, u["unit"], p)
            if k:
                known_hits.append((u["unit"], c["name"], obligation_key(p), k["text"]))
                continue
            path, rep = write_replay(pid, u, c, tier, p, r["wd"])
            violations.append((u["unit"], c["name"], obligation_key(p), path, rep))
    # ---------------- report
    seen = set()
    for (un, cn, key, text) in known_hits:
        if (un, key) in seen:
            continue
        seen.add((un, key))
        print("KNOWN-FINDING: property=%s unit=%s obligation=%s :: %s" % (pid, un, shlex.quote(key), text))
    for (un, cn, key, path, rep) in violations:
        print("VIOLATION property=%s replay=%s%s" % (pid, path, "" if rep else " no-failing-input-found"))
        print("  unit=%s case=%s failed obligation: %s" % (un, cn, key))
    for m in infra:
        print("INFRA: " + m)
    proof_units = [e for e in unit_ev.values() if e["mode"] == "proof"]
    bounded_units = [e for e in unit_ev.values() if e["mode"] != "proof"]
    ob = sum(e["obligations"] for e in proof_units)
    di = sum(e["discharged"] for e in proof_units)
    bob = sum(e["obligations"] for e in bounded_units)
    bdi = sum(e["discharged"] for e in bounded_units)
    samples = []
    for (u, c, can), r in results:
        if can is True or r["status"] in ("infra", "vacuous"):
            continue
        for p in r["props"]:
            if "label" in p and len(samples) < 12:
                samples.append("%s/%s %s [%s] %s" % (u["unit"], c["name"], p["id"], p["label"], p["status"]))
    meta0 = load_meta(pid)
    level = "proof" if (meta0.get("level") == "proof" and proof_units and ob == di and ob > 0 and not infra) else "other"
    meta = load_meta(pid)
    assumptions = sorted(set(a for u in units for a in u["assumed"]))
    evidence = {
        "property_id": pid, "tier": tier, "seed": int(os.environ.get("VERIF_SEED", "0") or 0),
        "level": level,
        "coverage": {
            "obligations": ob, "discharged": di,
            "bounded_obligations": bob, "bounded_discharged": bdi,
            "checker_cmd": next((e.get("checker_cmd", "") for e in unit_ev.values() if e.get("checker_cmd")), "cbmc"),
            "trusted_base": ["cbmc/goto-cc/goto-instrument 6.11.0 (DFCC contract instrumentation, SAT back end)",
                             "gcc/goto-cc layout parity checked on %d sizeof/offsetof rows this run" % n_par] +
                            ["assumed contract: " + a for a in assumptions] + meta.get("trusted_base", []),
            "explanation": meta.get("explanation", "") + " Obligations of proof-mode units (all loops closed: loop-free, constant-bounded and fully unwound with unwinding assertions, or loop contracts) are counted in obligations/discharged; units marked bounded are discharged for every input up to the stated bound and counted separately in bounded_obligations.",
            "units": list(unit_ev.values()),
            "functions_under_contract": sorted(set(e["function"] for e in unit_ev.values())),
            "samples": samples,
            "known_findings": ["%s: %s :: %s" % (a, b, d) for (a, _, b, d) in known_hits],
            "not_covered": meta.get("not_covered", []),
            "infra_errors": infra,
            "failed_obligations_attributed_to_other_properties": sorted(set("%s/%s -> %s" % (a, k, o) for (a, _, k, o) in foreign)),
            "results_reused_from_content_hash_cache": sum(1 for (_, r) in results if r.get("cached")),
            "exhaustive": False,
        },
        "assumptions": meta.get("assumptions", []) + ["assumed (never enforced) contract of " + a for a in assumptions],
        "wall_s": round(time.time() - t0, 1),
        "violations": len(violations),
    }
    # evidence is the record of a complete run of the registered command against /repo itself: a partial run
    # (--unit / --case / --no-canary) or a run against another tree writes its record under .work instead
    partial = bool(only_unit or only_case or no_canary) or os.path.realpath(REPO) != "/repo"
    evdir = os.path.join(WORK, "partial-evidence") if partial else os.path.join(VERIF, "evidence")
    os.makedirs(evdir, exist_ok=True)
    json.dump(evidence, open(os.path.join(evdir, pid + ".json"), "w"), indent=1)
    print("%s tier=%s units=%d cases=%d proof-obligations=%d/%d bounded-obligations=%d/%d known=%d violations=%d infra=%d wall=%.0fs" % (
        pid, tier, len(unit_ev), sum(e["cases"] for e in unit_ev.values()), di, ob, bdi, bob, len(seen), len(violations), len(infra), time.time() - t0))
    if not keep:
        shutil.rmtree(os.path.join(WORK, pid), ignore_errors=True)
    if violations:
        return 1
    if infra:
        return 2
    return 0


def load_meta(pid):
    p = os.path.join(VERIF, "units", pid, "meta.json")
    if os.path.exists(p):
        return json.load(open(p))
    return {}


def replay_file(path):
    rec = json.load(open(path))
    u = load_unit(os.path.join(VERIF, rec["wrapper"]))
    case = next((c for c in u["cases"] if c["name"] == rec["case"]), {"name": rec["case"], "defs": []})
    print("failed obligation: %s (%s) at %s" % (rec["failed_obligation"], rec["cbmc_description"], rec["location"]))
    if not rec.get("input_hex"):
        print("no concrete input recorded (no-failing-input-found); verifier trace:")
        print("\n".join(rec["verifier_trace"][-60:]))
        return 0
    wd = os.path.join(WORK, "_replay_%d" % os.getpid())
    os.makedirs(wd, exist_ok=True)
    nat = native_replay(u, case, rec.get("tier", "quick"), rec["input_hex"], wd)
    print(nat.get("cmd", ""))
    print(nat.get("output", nat.get("log", "")))
    shutil.rmtree(wd, ignore_errors=True)
    return 0


def main():
    ap = argparse.ArgumentParser()
    ap.add_argument("property", nargs="?")
    ap.add_argument("--tier", default=os.environ.get("VERIF_TIER", "quick"))
    ap.add_argument("--unit")
    ap.add_argument("--case")
    ap.add_argument("--keep", action="store_true")
    ap.add_argument("--no-canary", action="store_true")
    ap.add_argument("--replay")
    a = ap.parse_args()
    if a.replay:
        sys.exit(replay_file(a.replay))
    if not a.property:
        ap.error("property id required")
    try:
        rc = check_property(a.property, a.tier if a.tier in ("quick", "thorough") else "quick", a.unit, a.keep, a.no_canary, a.case)
    except Infra as e:
        print("INFRA: %s" % e)
        rc = 2
    sys.exit(rc)


if __name__ == "__main__":
    main()
