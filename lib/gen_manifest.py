#!/usr/bin/env python3
"""Regenerates /verif/MANIFEST.json from units/<PID>/meta.json and the units present.
A property is claimed iff units/<PID>/ holds at least one unit and meta.json has "claim": true
(default true); everything else is listed under not_applicable with the reason from
lib/not_claimed.json."""
import glob, json, os, subprocess, sys
sys.path.insert(0, os.path.dirname(os.path.abspath(__file__)))
import driver

VERIF = os.path.dirname(os.path.dirname(os.path.abspath(__file__)))
props = [json.loads(l) for l in open(os.path.join(VERIF, "properties.jsonl"))]
not_claimed = json.load(open(os.path.join(VERIF, "lib", "not_claimed.json")))

checks, na = [], []
for p in props:
    pid = p["id"]
    units = driver.discover(pid)
    mp = os.path.join(VERIF, "units", pid, "meta.json")
    meta = json.load(open(mp)) if os.path.exists(mp) else {}
    if not units or not meta.get("claim", False):
        na.append({"property_id": pid, "reason": not_claimed.get(pid, "no contract within reach built yet; see DESIGN.md section 3")})
        continue
    level = meta.get("level", "other")
    checks.append({
        "property_id": pid,
        "quick_cmd": "bin/check %s --tier quick" % pid,
        "thorough_cmd": "bin/check %s --tier thorough" % pid,
        "evidence_file": "evidence/%s.json" % pid,
        "replay_cmd_template": "bin/check --replay {path}",
        "engine": "cbmc-dfcc",
        "level_claimed": {
            "category": level,
            "text": meta.get("claim_text", meta.get("explanation", "")),
            "design_ref": "DESIGN.md section 3, %s" % pid,
        },
        "level_note": meta.get("level_note", "Trusted: cbmc 6.11.0 + DFCC instrumentation; assumed contracts/models of callees listed per unit in the evidence file (assumed_contracts); bounds of units marked bounded. " + "; ".join(meta.get("assumptions", []))),
        "technique": meta.get("technique", "CBMC function contracts (goto-instrument --dfcc --enforce-contract) on the real C functions, ghost state in assumed callee models"),
    })

try:
    hooks = subprocess.run(["git", "-C", "/repo", "log", "--format=%H %s"], capture_output=True, text=True).stdout.splitlines()
    hook_commits = [l.split()[0] for l in hooks if "verif hook" in l]
except Exception:
    hook_commits = []

m = {
    "version": 1,
    "setup_cmd": "true",
    "hooks": {
        "guard": "MATRIXSSL_VERIF",
        "enable": "the checks compile the real sources with goto-cc -DMATRIXSSL_VERIF (no build of /repo is needed; native replay links the default, guard-off libraries)",
        "baseline_off_cmd": "bin/baseline_off.sh",
        "source_commits": hook_commits,
        "add_only": True,
    },
    "engines": [{
        "name": "cbmc-dfcc", "path": "lib/driver.py",
        "serves_properties": [c["property_id"] for c in checks],
        "kind_free_text": "contract-based deductive verification: goto-cc on wrapper TUs that #include the real .c files, goto-instrument --dfcc --enforce-contract/--replace-call-with-contract, cbmc SAT back end; vacuity canaries; native replay of counterexamples against the real code",
    }],
    "checks": checks,
    "not_applicable": na,
    "notes": "Exit codes of every check: 0 = all obligations discharged (KNOWN-FINDING lines allowed), 1 = VIOLATION, 2 = infrastructure (timeout, OOM, vacuity canary, layout parity). known_findings.txt lists recorded and fixed defects.",
}
json.dump(m, open(os.path.join(VERIF, "MANIFEST.json"), "w"), indent=1)
print("claimed:", [c["property_id"] for c in checks])
print("not_applicable:", [n["property_id"] for n in na])
