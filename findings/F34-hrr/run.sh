#!/bin/sh
# usage: sh run.sh <tree>
# Builds demo.c against an already built MatrixSSL tree and runs it.
# Exit: 0 both handshakes OK, 1 SHA-384 HRR handshake fails (control OK),
#       2 set-up problem.
T=${1:?usage: sh run.sh <tree>}
D=$(cd "$(dirname "$0")" && pwd)
for lib in matrixssl/libssl_s.a crypto/libcrypt_s.a core/libcore_s.a; do
    [ -f "$T/$lib" ] || { echo "missing $T/$lib (build the tree first)"; exit 2; }
done
BIN=$(mktemp /tmp/hrr_demo_bin.XXXXXX) || exit 2
cc -O1 -g -Wall -o "$BIN" "$D/demo.c" \
    -I"$T" -I"$T/core/include" -I"$T/core/config" -I"$T/core/osdep/include" \
    -I"$T/core/include/sfzcl" \
    "$T/matrixssl/libssl_s.a" "$T/crypto/libcrypt_s.a" "$T/core/libcore_s.a" \
    -lpthread || { rm -f "$BIN"; echo "compile failed"; exit 2; }
"$BIN"
rc=$?
rm -f "$BIN"
echo "exit status: $rc"
exit $rc
