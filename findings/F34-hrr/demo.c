/*
 * demo.c - TLS 1.3 HelloRetryRequest + SHA-384 cipher suite interop demo.
 *
 * Drives an in-memory MatrixSSL client against an in-memory MatrixSSL server.
 * The client offers key_share for secp256r1 only (supported_groups =
 * {secp256r1, secp384r1}); the server only supports secp384r1, so it must
 * answer ClientHello1 with a HelloRetryRequest asking for secp384r1.
 *
 * Run 1 (control): cipher suite TLS_AES_128_GCM_SHA256 only.
 * Run 2 (probe)  : cipher suite TLS_AES_256_GCM_SHA384 only.
 *
 * Exit status:
 *   0  both handshakes complete (with a verified HRR) and app data round-trips
 *   1  control passes, SHA-384 run fails
 *   2  set-up problem (no HRR seen, control failed, library init failed, ...)
 *
 * With HRR_DEMO_PSK=1 in the environment, additional informational runs
 * with external PSKs (ClientHello2 then carries PSK binders) are made after
 * the two runs above.  They are printed but do not change the exit status.
 */
#ifndef _POSIX_C_SOURCE
# define _POSIX_C_SOURCE 200112L
#endif

#include "matrixssl/matrixsslImpl.h"
#include <stdio.h>
#include <stdlib.h>
#include <string.h>

#include "testkeys/EC/256_EC_KEY.h"
#include "testkeys/EC/256_EC.h"
#include "testkeys/EC/256_EC_CA.h"
#include "testkeys/PSK/tls13_psk.h"

#if !defined(USE_TLS_1_3) || !defined(USE_CLIENT_SIDE_SSL) || \
    !defined(USE_SERVER_SIDE_SSL)
# error "demo needs USE_TLS_1_3 and both client and server side"
#endif

/* RFC 8446 4.1.3: the special ServerHello.random that marks a HRR. */
static const unsigned char hrrRandom[32] = {
    0xCF, 0x21, 0xAD, 0x74, 0xE5, 0x9A, 0x61, 0x11,
    0xBE, 0x1D, 0x8C, 0x02, 0x1E, 0x65, 0xB8, 0x91,
    0xC2, 0xA2, 0x11, 0x16, 0x7A, 0xBB, 0x8C, 0x5E,
    0x07, 0x9E, 0x09, 0xE2, 0xC8, 0xA8, 0x33, 0x9C
};

typedef struct
{
    const char *name;
    ssl_t *ssl;
    int hsComplete;
    int failed;
    int alertLevel, alertDesc;    /* alert received from the peer */
    unsigned char app[256];       /* last application data received */
    int appLen;
} side_t;

typedef struct
{
    int clientHellos;      /* plaintext ClientHello records client->server */
    int helloRetryRequests; /* HRRs server->client */
    int serverHellos;      /* real ServerHellos server->client */
    unsigned hrrSuite;     /* cipher_suite field of the HRR */
    unsigned shSuite;      /* cipher_suite field of the ServerHello */
} wire_t;

/* Negative tests (HRR_DEMO_NEG=1): tamper with the server's plaintext
   flight on its way to the client. */
enum { TAMPER_NONE = 0, TAMPER_SH_SUITE, TAMPER_SECOND_HRR };
static int g_tamper = TAMPER_NONE;
static unsigned char g_savedHrr[512];
static int g_savedHrrLen;

static int32_t certCb(ssl_t *ssl, psX509Cert_t *cert, int32_t alert)
{
    (void) ssl; (void) cert; (void) alert;
    /* Authentication is not what is being tested: accept the test cert. */
    return 0;
}

/* Look at the plaintext handshake records that cross the "wire". */
static void sniff(wire_t *w, int fromClient, const unsigned char *p, int len)
{
    while (len >= 5)
    {
        int recLen = (p[3] << 8) | p[4];

        if (len < 5 + recLen)
        {
            break;
        }
        if (p[0] == 22 && recLen >= 4 + 2 + 32 + 1)
        {
            const unsigned char *hs = p + 5;

            if (fromClient && hs[0] == 1)
            {
                w->clientHellos++;
            }
            else if (!fromClient && hs[0] == 2)
            {
                const unsigned char *rnd = hs + 4 + 2;
                unsigned sidLen = rnd[32];
                unsigned suite = 0;

                if ((unsigned) recLen >= 4 + 2 + 32 + 1 + sidLen + 2)
                {
                    suite = (rnd[33 + sidLen] << 8) | rnd[34 + sidLen];
                }
                if (memcmp(rnd, hrrRandom, 32) == 0)
                {
                    w->helloRetryRequests++;
                    w->hrrSuite = suite;
                }
                else
                {
                    w->serverHellos++;
                    w->shSuite = suite;
                }
            }
        }
        p += 5 + recLen;
        len -= 5 + recLen;
    }
}

/* Handle the return code of matrixSslReceivedData/ProcessedData. */
static void handleRc(side_t *s, int32 rc, unsigned char *pt, uint32 ptLen)
{
    for (;; )
    {
        switch (rc)
        {
        case MATRIXSSL_REQUEST_SEND:
        case MATRIXSSL_REQUEST_RECV:
        case PS_SUCCESS:
            return;
        case MATRIXSSL_HANDSHAKE_COMPLETE:
            s->hsComplete = 1;
            return;
        case MATRIXSSL_APP_DATA:
            if (ptLen <= sizeof(s->app))
            {
                memcpy(s->app, pt, ptLen);
                s->appLen = (int) ptLen;
            }
            rc = matrixSslProcessedData(s->ssl, &pt, &ptLen);
            continue;
        case MATRIXSSL_RECEIVED_ALERT:
            s->alertLevel = pt[0];
            s->alertDesc = pt[1];
            printf("    %s received alert level=%d description=%d\n",
                s->name, pt[0], pt[1]);
            if (pt[0] == SSL_ALERT_LEVEL_WARNING)
            {
                rc = matrixSslProcessedData(s->ssl, &pt, &ptLen);
                continue;
            }
            s->failed = 1;
            return;
        default:
            printf("    %s: matrixSslReceivedData failed rc=%d "
                "(alert to send: %d)\n", s->name, (int) rc, (int) s->ssl->err);
            s->failed = 1;
            return;
        }
    }
}

/* Move everything `from` wants to send into `to`.  Returns bytes moved. */
static int pump(side_t *from, side_t *to, wire_t *w, int fromClient)
{
    int moved = 0;

    for (;; )
    {
        unsigned char *out, *in, *pt = NULL;
        uint32 ptLen = 0;
        int32 outLen, inLen, n, rc;

        outLen = matrixSslGetOutdata(from->ssl, &out);
        if (outLen <= 0)
        {
            break;
        }
        sniff(w, fromClient, out, outLen);
        if (to->failed)
        {
            /* Peer is dead; just drain. */
            matrixSslSentData(from->ssl, outLen);
            continue;
        }
        inLen = matrixSslGetReadbufOfSize(to->ssl, outLen, &in);
        if (inLen <= 0)
        {
            to->failed = 1;
            break;
        }
        n = outLen < inLen ? outLen : inLen;
        memcpy(in, out, n);
        rc = matrixSslSentData(from->ssl, n);
        if (rc == MATRIXSSL_HANDSHAKE_COMPLETE)
        {
            from->hsComplete = 1;
        }
        moved += n;
        if (!fromClient && g_tamper != TAMPER_NONE && n > 5 + 4 + 2 + 32 + 1 &&
            in[0] == 22 && in[5] == 2)
        {
            int recLen = 5 + ((in[3] << 8) | in[4]);
            int isHrr = memcmp(in + 11, hrrRandom, 32) == 0;

            if (isHrr && recLen <= (int) sizeof(g_savedHrr) && recLen <= n)
            {
                memcpy(g_savedHrr, in, recLen);
                g_savedHrrLen = recLen;
            }
            else if (!isHrr && g_tamper == TAMPER_SH_SUITE)
            {
                /* ServerHello.cipher_suite: flip 0x1302 <-> 0x1301. */
                unsigned char *cs = in + 11 + 32 + 1 + in[11 + 32];
                cs[1] ^= 0x03;
                printf("    [tamper] ServerHello cipher_suite -> 0x%02x%02x\n",
                    cs[0], cs[1]);
            }
            else if (!isHrr && g_tamper == TAMPER_SECOND_HRR &&
                     g_savedHrrLen > 0 && g_savedHrrLen <= inLen)
            {
                static const unsigned char ks[] =
                    { 0x00, 0x33, 0x00, 0x02, 0x00, 0x18 };
                int k;

                memcpy(in, g_savedHrr, g_savedHrrLen);
                n = g_savedHrrLen;
                /* Ask for yet another group (secp521r1) so that the
                   key_share sanity checks of 4.2.8 do not fire first. */
                for (k = 5; k + (int) sizeof(ks) <= n; k++)
                {
                    if (memcmp(in + k, ks, sizeof(ks)) == 0)
                    {
                        in[k + 5] = 0x19;
                        break;
                    }
                }
                printf("    [tamper] replaying the HelloRetryRequest (now "
                    "asking for secp521r1) instead of the ServerHello "
                    "flight\n");
            }
        }
        rc = matrixSslReceivedData(to->ssl, n, &pt, &ptLen);
        handleRc(to, rc, pt, ptLen);
    }
    return moved;
}

static int sendApp(side_t *from, const char *msg)
{
    unsigned char *buf;
    int32 avail, len = (int32) strlen(msg);

    avail = matrixSslGetWritebuf(from->ssl, &buf, len);
    if (avail < len)
    {
        return -1;
    }
    memcpy(buf, msg, len);
    if (matrixSslEncodeWritebuf(from->ssl, len) < 0)
    {
        return -1;
    }
    return 0;
}

/*
 * Returns 0: handshake completed after exactly one verified HRR and
 *            application data round-tripped.
 *         1: a HRR happened but the connection failed afterwards.
 *         2: set-up problem.
 */
static int loadPsks(sslKeys_t *keys, int pskMask)
{
    psTls13SessionParams_t params;

    if (pskMask & 1)
    {
        memset(&params, 0, sizeof(params));
        params.cipherId = TLS_AES_128_GCM_SHA256;
        if (matrixSslLoadTls13Psk(keys, g_tls13_test_psk_256, 32,
                g_tls13_test_psk_id_sha256,
                sizeof(g_tls13_test_psk_id_sha256), &params) < 0)
        {
            return -1;
        }
    }
    if (pskMask & 2)
    {
        memset(&params, 0, sizeof(params));
        params.cipherId = TLS_AES_256_GCM_SHA384;
        if (matrixSslLoadTls13Psk(keys, g_tls13_test_psk_384, 48,
                g_tls13_test_psk_id_sha384,
                sizeof(g_tls13_test_psk_id_sha384), &params) < 0)
        {
            return -1;
        }
    }
    return 0;
}

/* suite2 == 0: offer `suite` only.  pskMask: bit0 SHA-256 PSK, bit1 SHA-384
   PSK loaded on both sides (0 = certificate handshake only). */
static int runOne(psCipher16_t suite, const char *suiteName,
    psCipher16_t suite2, int pskMask)
{
    sslKeys_t *svrKeys = NULL, *clnKeys = NULL;
    sslSessOpts_t svrOpts, clnOpts;
    side_t cln, svr;
    wire_t w;
    uint16_t svrGroups[] = { namedgroup_secp384r1 };
    uint16_t clnGroups[] = { namedgroup_secp256r1, namedgroup_secp384r1,
                             namedgroup_secp521r1 };
    psCipher16_t suites[2];
    int i, result = 2;
    int clientSawHrr;

    memset(&cln, 0, sizeof(cln));
    memset(&svr, 0, sizeof(svr));
    memset(&w, 0, sizeof(w));
    cln.name = "client";
    svr.name = "server";
    suites[0] = suite;
    suites[1] = suite2;

    printf("== %s (0x%04x)", suiteName, (unsigned) suite);
    if (suite2 != 0)
    {
        printf(" then 0x%04x", (unsigned) suite2);
    }
    if (pskMask != 0)
    {
        printf(", external PSKs:%s%s", (pskMask & 1) ? " SHA-256" : "",
            (pskMask & 2) ? " SHA-384" : "");
    }
    printf("\n");

    if (matrixSslNewKeys(&svrKeys, NULL) < 0 ||
        matrixSslNewKeys(&clnKeys, NULL) < 0)
    {
        printf("    matrixSslNewKeys failed\n");
        return 2;
    }
    if (matrixSslLoadEcKeysMem(svrKeys, EC256, EC256_SIZE,
            EC256KEY, EC256KEY_SIZE, NULL, 0) < 0)
    {
        printf("    loading server keys failed\n");
        goto out;
    }
    if (matrixSslLoadEcKeysMem(clnKeys, NULL, 0, NULL, 0,
            EC256CA, EC256CA_SIZE) < 0)
    {
        printf("    loading client CA failed\n");
        goto out;
    }

    if (loadPsks(svrKeys, pskMask) < 0 || loadPsks(clnKeys, pskMask) < 0)
    {
        printf("    loading PSKs failed\n");
        goto out;
    }

    memset(&svrOpts, 0, sizeof(svrOpts));
    memset(&clnOpts, 0, sizeof(clnOpts));
    svrOpts.versionFlag = SSL_FLAGS_TLS_1_3;
    clnOpts.versionFlag = SSL_FLAGS_TLS_1_3;

    /* Server: secp384r1 only.  Client: supports both, but sends a
       key_share for the first group (secp256r1) only => HRR. */
    if (matrixSslSessOptsSetKeyExGroups(&svrOpts, svrGroups, 1, 1) < 0 ||
        matrixSslSessOptsSetKeyExGroups(&clnOpts, clnGroups,
            /* third group only for the "second HRR" negative run */
            g_tamper == TAMPER_SECOND_HRR ? 3 : 2, 1) < 0)
    {
        printf("    matrixSslSessOptsSetKeyExGroups failed\n");
        goto out;
    }

    if (matrixSslNewServerSession(&svr.ssl, svrKeys, NULL, &svrOpts) < 0)
    {
        printf("    matrixSslNewServerSession failed\n");
        goto out;
    }
    if (matrixSslNewClientSession(&cln.ssl, clnKeys, NULL, suites,
            suite2 != 0 ? 2 : 1,
            certCb, "localhost", NULL, NULL, &clnOpts) < 0)
    {
        printf("    matrixSslNewClientSession failed\n");
        goto out;
    }

    /* Handshake. */
    for (i = 0; i < 32; i++)
    {
        int a = pump(&cln, &svr, &w, 1);
        int b = pump(&svr, &cln, &w, 0);

        if (cln.failed || svr.failed)
        {
            /* Let a possible alert travel to the peer, then stop. */
            pump(&cln, &svr, &w, 1);
            pump(&svr, &cln, &w, 0);
            break;
        }
        if (cln.hsComplete && svr.hsComplete && a == 0 && b == 0)
        {
            break;
        }
        if (a == 0 && b == 0)
        {
            break; /* stuck */
        }
    }

    clientSawHrr = cln.ssl->tls13IncorrectDheKeyShare ? 1 : 0;
    printf("    wire: ClientHello x%d, HelloRetryRequest x%d (suite 0x%04x), "
        "ServerHello x%d (suite 0x%04x)\n",
        w.clientHellos, w.helloRetryRequests, w.hrrSuite,
        w.serverHellos, w.shSuite);
    printf("    client hsComplete=%d failed=%d | server hsComplete=%d "
        "failed=%d\n", cln.hsComplete, cln.failed, svr.hsComplete, svr.failed);
    if (pskMask != 0)
    {
        printf("    PSK in use: client=%d server=%d\n",
            (int) cln.ssl->sec.tls13UsingPsk, (int) svr.ssl->sec.tls13UsingPsk);
    }

    if (w.helloRetryRequests != 1 || w.clientHellos != 2)
    {
        printf("    SET-UP PROBLEM: expected exactly one HelloRetryRequest "
            "and two ClientHellos\n");
        result = 2;
        goto out;
    }
    if (w.hrrSuite != suite)
    {
        printf("    SET-UP PROBLEM: HRR carries unexpected suite\n");
        result = 2;
        goto out;
    }
    (void) clientSawHrr;

    if (!cln.hsComplete || !svr.hsComplete || cln.failed || svr.failed)
    {
        printf("    RESULT: handshake FAILED after HelloRetryRequest\n");
        result = 1;
        goto out;
    }
    if (w.serverHellos != 1 || w.shSuite != suite)
    {
        printf("    SET-UP PROBLEM: unexpected ServerHello count/suite\n");
        result = 2;
        goto out;
    }

    /* Application data both ways. */
    if (sendApp(&cln, "ping from client") < 0)
    {
        printf("    client could not encode app data\n");
        result = 1;
        goto out;
    }
    pump(&cln, &svr, &w, 1);
    if (svr.failed || svr.appLen != 16 ||
        memcmp(svr.app, "ping from client", 16) != 0)
    {
        printf("    RESULT: client->server application data FAILED\n");
        result = 1;
        goto out;
    }
    if (sendApp(&svr, "pong from server") < 0)
    {
        printf("    server could not encode app data\n");
        result = 1;
        goto out;
    }
    pump(&svr, &cln, &w, 0);
    if (cln.failed || cln.appLen != 16 ||
        memcmp(cln.app, "pong from server", 16) != 0)
    {
        printf("    RESULT: server->client application data FAILED\n");
        result = 1;
        goto out;
    }
    printf("    RESULT: handshake completed after HRR, app data "
        "round-tripped\n");
    result = 0;

out:
    if (cln.ssl)
    {
        matrixSslDeleteSession(cln.ssl);
    }
    if (svr.ssl)
    {
        matrixSslDeleteSession(svr.ssl);
    }
    matrixSslDeleteKeys(clnKeys);
    matrixSslDeleteKeys(svrKeys);
    return result;
}

int main(void)
{
    int control, probe;

    if (matrixSslOpen() < 0)
    {
        fprintf(stderr, "matrixSslOpen failed\n");
        return 2;
    }
    control = runOne(TLS_AES_128_GCM_SHA256, "TLS_AES_128_GCM_SHA256", 0, 0);
    probe = runOne(TLS_AES_256_GCM_SHA384, "TLS_AES_256_GCM_SHA384", 0, 0);
    if (getenv("HRR_DEMO_PSK") != NULL)
    {
        int r[4];

        printf("-- informational PSK runs (do not affect exit status)\n");
        r[0] = runOne(TLS_AES_128_GCM_SHA256, "TLS_AES_128_GCM_SHA256", 0, 1);
        r[1] = runOne(TLS_AES_256_GCM_SHA384, "TLS_AES_256_GCM_SHA384", 0, 2);
        r[2] = runOne(TLS_AES_256_GCM_SHA384, "TLS_AES_256_GCM_SHA384",
            TLS_AES_128_GCM_SHA256, 3);
        r[3] = runOne(TLS_AES_128_GCM_SHA256, "TLS_AES_128_GCM_SHA256",
            TLS_AES_256_GCM_SHA384, 3);
        printf("-- PSK runs: %d %d %d %d (0 = ok)\n", r[0], r[1], r[2], r[3]);
    }
    if (getenv("HRR_DEMO_NEG") != NULL)
    {
        printf("-- informational negative runs: both must FAIL; with the "
            "fix the client's alert is 47 (illegal_parameter) resp. 10 "
            "(unexpected_message)\n");
        g_tamper = TAMPER_SH_SUITE;
        runOne(TLS_AES_256_GCM_SHA384, "TLS_AES_256_GCM_SHA384",
            TLS_AES_128_GCM_SHA256, 0);
        g_tamper = TAMPER_SECOND_HRR;
        g_savedHrrLen = 0;
        runOne(TLS_AES_256_GCM_SHA384, "TLS_AES_256_GCM_SHA384", 0, 0);
        g_tamper = TAMPER_NONE;
    }
    matrixSslClose();

    printf("control(SHA-256)=%d probe(SHA-384)=%d\n", control, probe);
    if (control != 0)
    {
        printf("VERDICT: set-up problem (control run did not pass)\n");
        return 2;
    }
    if (probe == 2)
    {
        printf("VERDICT: set-up problem in SHA-384 run\n");
        return 2;
    }
    if (probe == 1)
    {
        printf("VERDICT: DEFECT - HRR + SHA-384 suite fails while "
            "HRR + SHA-256 suite works\n");
        return 1;
    }
    printf("VERDICT: OK - both handshakes complete after HRR\n");
    return 0;
}
