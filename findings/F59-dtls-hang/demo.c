/*
 * Demonstration: remote hang in MatrixSSL DTLS handshake reassembly.
 *
 * A DTLS server session is created through the public API and is fed three
 * plaintext (epoch 0) handshake records that fragment one ClientHello of
 * total length HS_LEN:
 *
 *   record 1: fragment_offset = HS_LEN,   fragment_length = 0
 *   record 2: fragment_offset = 0,        fragment_length = HS_LEN/2
 *   record 3: fragment_offset = HS_LEN/2, fragment_length = HS_LEN/2
 *
 * exit 0: every library call returned
 * exit 1: a library call did not return within 5 seconds ("HANG")
 * exit 2: set-up problem
 */
#include <stdio.h>
#include <stdlib.h>
#include <string.h>
#include <signal.h>
#include <unistd.h>

#include "matrixssl/matrixsslApi.h"

#include "testkeys/RSA/2048_RSA.h"
#include "testkeys/RSA/2048_RSA_KEY.h"
#include "testkeys/RSA/2048_RSA_CA.h"

#define HS_LEN      40      /* claimed ClientHello length */
#define DTLS_REC_HDR 13
#define DTLS_HS_HDR  12

static volatile int g_stage = 0;

static void onAlarm(int sig)
{
    static const char msg[] = "HANG\n";
    char where[64];
    int n;

    (void) sig;
    if (write(1, msg, sizeof(msg) - 1) < 0)
    {
    }
    n = snprintf(where, sizeof(where),
        "(no return within 5 s during matrixSslReceivedData call %d)\n", g_stage);
    if (n > 0 && write(1, where, (size_t) n) < 0)
    {
    }
    _exit(1);
}

/* Build one DTLS 1.2 plaintext handshake record carrying one fragment of a
   ClientHello with total length hsLen. Returns the record length. */
static size_t buildRecord(unsigned char *out, unsigned recSeq,
    unsigned hsLen, unsigned msgSeq, unsigned fragOff, unsigned fragLen,
    const unsigned char *body)
{
    unsigned char *p = out;
    unsigned recLen = DTLS_HS_HDR + fragLen;

    /* record header */
    *p++ = 22;                  /* handshake */
    *p++ = 0xFE; *p++ = 0xFD;   /* DTLS 1.2 */
    *p++ = 0; *p++ = 0;         /* epoch 0 */
    *p++ = 0; *p++ = 0; *p++ = 0; *p++ = 0;
    *p++ = (unsigned char) (recSeq >> 8);
    *p++ = (unsigned char) recSeq;  /* 48-bit record sequence number */
    *p++ = (unsigned char) (recLen >> 8);
    *p++ = (unsigned char) recLen;
    /* handshake header */
    *p++ = 1;                   /* client_hello */
    *p++ = (unsigned char) (hsLen >> 16);
    *p++ = (unsigned char) (hsLen >> 8);
    *p++ = (unsigned char) hsLen;
    *p++ = (unsigned char) (msgSeq >> 8);
    *p++ = (unsigned char) msgSeq;
    *p++ = (unsigned char) (fragOff >> 16);
    *p++ = (unsigned char) (fragOff >> 8);
    *p++ = (unsigned char) fragOff;
    *p++ = (unsigned char) (fragLen >> 16);
    *p++ = (unsigned char) (fragLen >> 8);
    *p++ = (unsigned char) fragLen;
    if (fragLen > 0)
    {
        memcpy(p, body + fragOff, fragLen);
        p += fragLen;
    }
    return (size_t) (p - out);
}

static void dump(const char *name, const unsigned char *b, size_t n)
{
    size_t i;

    printf("%s (%u bytes):", name, (unsigned) n);
    for (i = 0; i < n; i++)
    {
        printf("%s%02x", (i % 16 == 0) ? "\n   " : " ", b[i]);
    }
    printf("\n");
}

/* Optional argument "one": deliver the three records back to back in a single
   matrixSslReceivedData call (one UDP datagram) instead of three calls. */
int main(int argc, char **argv)
{
    int oneDatagram = (argc > 1 && strcmp(argv[1], "one") == 0);
    sslKeys_t *keys = NULL;
    ssl_t *ssl = NULL;
    sslSessOpts_t options;
    unsigned char body[HS_LEN];
    unsigned char rec[3][DTLS_REC_HDR + DTLS_HS_HDR + HS_LEN];
    size_t recLen[3];
    unsigned char all[3 * (DTLS_REC_HDR + DTLS_HS_HDR + HS_LEN)];
    const unsigned char *msg[3];
    size_t msgLen[3];
    int nMsgs;
    unsigned char *buf, *pt;
    uint32 ptLen;
    int32 rc, avail;
    int i;

    setvbuf(stdout, NULL, _IONBF, 0);

    for (i = 0; i < HS_LEN; i++)
    {
        body[i] = (unsigned char) (0xA0 + i);
    }
    /* Make the first bytes look like a DTLS 1.2 client_version; the rest is
       arbitrary - the hang (if any) happens before the body is parsed. */
    body[0] = 0xFE;
    body[1] = 0xFD;

    recLen[0] = buildRecord(rec[0], 0, HS_LEN, 0, HS_LEN, 0, body);
    recLen[1] = buildRecord(rec[1], 1, HS_LEN, 0, 0, HS_LEN / 2, body);
    recLen[2] = buildRecord(rec[2], 2, HS_LEN, 0, HS_LEN / 2,
        HS_LEN - HS_LEN / 2, body);

    dump("record 1: offset=hsLen, fragLen=0", rec[0], recLen[0]);
    dump("record 2: offset=0, fragLen=hsLen/2", rec[1], recLen[1]);
    dump("record 3: offset=hsLen/2, fragLen=hsLen/2", rec[2], recLen[2]);

    if (oneDatagram)
    {
        memcpy(all, rec[0], recLen[0]);
        memcpy(all + recLen[0], rec[1], recLen[1]);
        memcpy(all + recLen[0] + recLen[1], rec[2], recLen[2]);
        msg[0] = all;
        msgLen[0] = recLen[0] + recLen[1] + recLen[2];
        nMsgs = 1;
        printf("mode: all three records in ONE matrixSslReceivedData call\n");
    }
    else
    {
        for (i = 0; i < 3; i++)
        {
            msg[i] = rec[i];
            msgLen[i] = recLen[i];
        }
        nMsgs = 3;
        printf("mode: one matrixSslReceivedData call per record\n");
    }

    if (matrixSslOpen() < 0)
    {
        printf("SETUP: matrixSslOpen failed\n");
        return 2;
    }
    if (matrixSslNewKeys(&keys, NULL) < 0)
    {
        printf("SETUP: matrixSslNewKeys failed\n");
        return 2;
    }
    rc = matrixSslLoadRsaKeysMem(keys, RSA2048, sizeof(RSA2048),
            RSA2048KEY, sizeof(RSA2048KEY), RSA2048CA, sizeof(RSA2048CA));
    if (rc < 0)
    {
        printf("SETUP: matrixSslLoadRsaKeysMem failed: %d\n", (int) rc);
        return 2;
    }
    memset(&options, 0, sizeof(options));
    options.versionFlag = SSL_FLAGS_DTLS | SSL_FLAGS_TLS_1_2;
    rc = matrixSslNewServerSession(&ssl, keys, NULL, &options);
    if (rc < 0 || ssl == NULL)
    {
        printf("SETUP: matrixSslNewServerSession failed: %d\n", (int) rc);
        return 2;
    }
    printf("DTLS 1.2 server session created\n");

    signal(SIGALRM, onAlarm);

    for (i = 0; i < nMsgs; i++)
    {
        g_stage = i + 1;
        avail = matrixSslGetReadbuf(ssl, &buf);
        if (avail < (int32) msgLen[i] || buf == NULL)
        {
            printf("SETUP: matrixSslGetReadbuf returned %d (need %u)\n",
                (int) avail, (unsigned) msgLen[i]);
            return 2;
        }
        memcpy(buf, msg[i], msgLen[i]);
        pt = NULL;
        ptLen = 0;
        printf("call %d: calling matrixSslReceivedData(%u bytes) ...\n",
            i + 1, (unsigned) msgLen[i]);
        alarm(5);
        rc = matrixSslReceivedData(ssl, (uint32) msgLen[i], &pt, &ptLen);
        alarm(0);
        printf("call %d: matrixSslReceivedData returned %d", i + 1,
            (int) rc);
        switch (rc)
        {
        case MATRIXSSL_REQUEST_SEND:    printf(" (MATRIXSSL_REQUEST_SEND)"); break;
        case MATRIXSSL_REQUEST_RECV:    printf(" (MATRIXSSL_REQUEST_RECV)"); break;
        case MATRIXSSL_RECEIVED_ALERT:  printf(" (MATRIXSSL_RECEIVED_ALERT)"); break;
        case PS_SUCCESS:                printf(" (PS_SUCCESS)"); break;
        default:
            if (rc < 0)
            {
                printf(" (error)");
            }
            break;
        }
        printf("\n");
        if (rc == MATRIXSSL_REQUEST_SEND)
        {
            /* Drain what the server wants to send (alert or flight) */
            unsigned char *out;
            int32 outLen;

            alarm(5);
            outLen = matrixSslGetOutdata(ssl, &out);
            if (outLen > 0)
            {
                printf("   server has %d bytes to send, first bytes:",
                    (int) outLen);
                {
                    int k;
                    for (k = 0; k < outLen && k < 16; k++)
                    {
                        printf(" %02x", out[k]);
                    }
                }
                printf("\n");
                rc = matrixSslSentData(ssl, (uint32) outLen);
                printf("   matrixSslSentData returned %d\n", (int) rc);
            }
            alarm(0);
        }
        if (rc < 0)
        {
            printf("session is in error state; not feeding further records\n");
            break;
        }
    }

    g_stage = 99;
    alarm(5);
    matrixSslDeleteSession(ssl);
    matrixSslDeleteKeys(keys);
    matrixSslClose();
    alarm(0);
    printf("NO HANG: every library call returned\n");
    return 0;
}
