#!/bin/sh
# usage: sh run.sh <tree>
# Builds demo.c against the static libraries of a built MatrixSSL tree and
# runs it.  Exit code: 0 no hang, 1 HANG, 2 set-up problem.
if [ $# -lt 1 ]; then
    echo "usage: sh run.sh <tree> [one]" >&2
    exit 2
fi
T=$1
MODE=$2
D=$(cd "$(dirname "$0")" && pwd)
for lib in "$T/matrixssl/libssl_s.a" "$T/crypto/libcrypt_s.a" "$T/core/libcore_s.a"; do
    if [ ! -f "$lib" ]; then
        echo "missing $lib (build the tree first)" >&2
        exit 2
    fi
done
cc -O1 -g -Wall \
    -I"$T" -I"$T/core/include" -I"$T/core/config" \
    -I"$T/core/osdep/include" -I"$T/core/include/sfzcl" \
    -o "$D/demo" "$D/demo.c" \
    "$T/matrixssl/libssl_s.a" "$T/crypto/libcrypt_s.a" "$T/core/libcore_s.a" \
    -lpthread || { echo "compile failed" >&2; exit 2; }
"$D/demo" $MODE
rc=$?
echo "demo exit code: $rc"
exit $rc
