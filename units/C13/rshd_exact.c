/*@UNIT
{
  "property": "C13",
  "unit": "rshd_exact",
  "function": "pstm_rshd",
  "source": "crypto/math/pstm.c",
  "keep_bodies": ["pstm_zero", "pstm_clamp"],
  "mode": "bounded",
  "bounds": "operand of at most NDIG digits (quick 4, thorough 8), every digit value and sign, every 16-bit digit-shift count",
  "defs_quick": ["NDIG=4"],
  "defs_thorough": ["NDIG=8"],
  "unwind_quick": 10,
  "unwind_thorough": 13,
  "object_bits": 8,
  "native_replay": true,
  "timeout": 300
}
@*/
/* C13.rshd_exact  |a| := floor(|a| / 2^(64 b)), sign kept (zero becomes non-negative), exact. */
#include "c13x.h"
static uint16_t g_n;
static wide gh_ma; static uint8_t gh_sa;
#define SHIFT_BITS ((unsigned) 64 * (g_n > NCAP ? NCAP : g_n))

#define POSTS(P) \
    P(exact_magnitude, W_EQ(c13_mag(&g_a), W_SHR(gh_ma, SHIFT_BITS))) \
    P(sign_kept_unless_zero, g_a.sign == (g_a.used == 0 ? PSTM_ZPOS : gh_sa)) \
    P(library_invariant, OUT_INV(g_a))

void pstm_rshd(pstm_int *a, uint16_t b)
__CPROVER_requires(a == &g_a && b == g_n)
__CPROVER_requires(IN_DOMAIN(g_a))
POSTS(ENSURES_CLAUSE)
CANARY_CLAUSE(g_a.used != 2 || g_n != 1)
__CPROVER_assigns(X_ASSIGNS(g_a))
;

#include "crypto/math/pstm.c"

struct __attribute__((packed)) inputs { struct opndx a; uint16_t n; };
#ifndef NATIVE_REPLAY
struct inputs nondet_in(void);
#endif

HARNESS_BEGIN
    HARNESS_INPUTS(struct inputs, in);
    MK_OPNDX(g_a, in.a, 0);
    g_n = in.n;
    gx_heap.n = 0;
#ifdef NATIVE_REPLAY
    __CPROVER_assume(IN_DOMAIN(g_a));
#endif
    gh_ma = c13_mag(&g_a); gh_sa = g_a.sign;
    pstm_rshd(&g_a, g_n);
    POSTS(NATIVE_CHECK)
HARNESS_END
