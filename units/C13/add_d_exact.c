/*@UNIT
{
 "property": "C13",
 "unit": "add_d_exact",
 "function": "pstm_add_d",
 "source": "crypto/math/pstm.c",
 "keep_bodies": [
  "pstm_init_size",
  "pstm_set",
  "pstm_zero",
  "pstm_add",
  "pstm_sub",
  "s_pstm_add",
  "pstm_sub_s",
  "pstm_cmp_mag",
  "pstm_clamp",
  "pstm_clear",
  "pstm_grow"
 ],
 "assumed": [
  "malloc / realloc / free (models c13_malloc, c13_realloc, c13_free in c13x.h: NULL or a distinct constant-size block; free has no effect)"
 ],
 "mode": "bounded",
 "bounds": "operand of at most NDIG digits (quick 3 = 192 bit, thorough 4), every digit value b, every sign, c distinct from a or c == a",
 "defs_quick": [
  "NDIG=3"
 ],
 "defs_thorough": [
  "NDIG=4"
 ],
 "unwind_quick": 10,
 "unwind_thorough": 11,
 "object_bits": 8,
 "solver": "cadical",
 "cases": [
  {
   "name": "distinct",
   "defs": []
  },
  {
   "name": "alias_ca",
   "defs": [
    "ALIAS_CA=1"
   ],
   "tier": "parked",
   "parked_reason": "cbmc reports status ERROR for s_pstm_add.assigns.4 (write-set check with c aliasing a) at the thorough size"
  }
 ],
 "native_replay": true,
 "timeout": 900,
 "tier": "thorough"
}
@*/
/* C13.add_d_exact  val(c) == val(a) ADD b for a single digit b (temporary 8-digit integer, pstm_set,
 * signed add/sub, pstm_clear inline), full library invariant of the result, or an error. */
#define XCAP_MIN 8                   /* pstm_init_size(pool, &tmp, sizeof(pstm_digit)): an 8-digit temporary */
#include "c13x.h"
#ifdef ALIAS_CA
# define g_c g_a
#endif
static pstm_digit g_bd;
static wide gh_va;

#define POSTS(P) \
    P(ret_is_ok_or_mem, RET == PSTM_OKAY || RET == PS_MEM_FAIL) \
    P(ok_exact_value, IMPLIES(RET == PSTM_OKAY, W_EQ(c13_val(&g_c), W_ADD(gh_va, W_OF_U64(g_bd))))) \
    P(ok_library_invariant, IMPLIES(RET == PSTM_OKAY, g_c.alloc <= XCAP && c13_inv(&g_c)))

int32_t pstm_add_d(psPool_t *pool, const pstm_int *a, pstm_digit b, pstm_int *c)
__CPROVER_requires(a == &g_a && c == &g_c && b == g_bd && pool == NULL)
__CPROVER_requires(IN_DOMAIN(g_a) && IN_DOMAIN(g_c))
POSTS(ENSURES_CLAUSE)
CANARY_CLAUSE(__CPROVER_return_value != PSTM_OKAY || g_c.used != 2)
__CPROVER_assigns(X_ASSIGNS(g_c))
;

#include "crypto/math/pstm.c"

struct __attribute__((packed)) inputs { struct opndx a, c; uint64_t b; };
#ifndef NATIVE_REPLAY
struct inputs nondet_in(void);
#endif

HARNESS_BEGIN
    HARNESS_INPUTS(struct inputs, in);
    int32_t vr_ret;
    MK_OPNDX(g_a, in.a, 0);
#ifndef ALIAS_CA
    MK_OPNDX(g_c, in.c, 2);
#endif
    g_bd = in.b;
    gx_heap.n = 0;
#ifdef NATIVE_REPLAY
    __CPROVER_assume(IN_DOMAIN(g_a) && IN_DOMAIN(g_c));
#endif
    gh_va = c13_val(&g_a);
    vr_ret = pstm_add_d(NULL, &g_a, g_bd, &g_c);
    POSTS(NATIVE_CHECK)
HARNESS_END
