/*@UNIT
{
  "property": "C13",
  "unit": "cmp_exact",
  "function": "pstm_cmp",
  "source": "crypto/math/pstm.c",
  "keep_bodies": ["pstm_cmp_mag"],
  "replace": [],
  "mode": "bounded",
  "bounds": "operands of at most NDIG digits (quick 4 = 256 bit, thorough 8 = 512 bit), every digit value, every sign",
  "defs_quick": ["NDIG=4"],
  "defs_thorough": ["NDIG=8"],
  "unwind_quick": 10,
  "unwind_thorough": 13,
  "object_bits": 8,
  "cases": [{"name": "distinct", "defs": []}, {"name": "alias_ab", "defs": ["ALIAS_AB=1"]}],
  "native_replay": true,
  "timeout": 300
}
@*/
/* C13.cmp_exact  pstm_cmp(a, b) is the mathematical comparison of the signed values (and, through it,
 * pstm_cmp_mag of the magnitudes), for every operand pair of at most NDIG digits. */
#include "c13x.h"
#ifdef ALIAS_AB
# define g_b g_a
#endif
static wide gh_va, gh_vb;

#define POSTS(P) \
    P(lt_iff_less, IFF(RET == PSTM_LT, W_LT(gh_va, gh_vb))) \
    P(eq_iff_equal, IFF(RET == PSTM_EQ, W_EQ(gh_va, gh_vb))) \
    P(gt_iff_greater, IFF(RET == PSTM_GT, W_LT(gh_vb, gh_va)))

int32_t pstm_cmp(const pstm_int *a, const pstm_int *b)
__CPROVER_requires(a == &g_a && b == &g_b)
__CPROVER_requires(IN_DOMAIN(g_a) && IN_DOMAIN(g_b))
POSTS(ENSURES_CLAUSE)
CANARY_CLAUSE(__CPROVER_return_value != PSTM_EQ || g_a.used != 2)
__CPROVER_assigns()
;

#include "crypto/math/pstm.c"

struct __attribute__((packed)) inputs { struct opndx a, b; };
#ifndef NATIVE_REPLAY
struct inputs nondet_in(void);
#endif

HARNESS_BEGIN
    HARNESS_INPUTS(struct inputs, in);
    int32_t vr_ret;
    MK_OPNDX(g_a, in.a, 0);
#ifndef ALIAS_AB
    MK_OPNDX(g_b, in.b, 1);
#endif
#ifdef NATIVE_REPLAY
    __CPROVER_assume(IN_DOMAIN(g_a) && IN_DOMAIN(g_b));
#endif
    gh_va = c13_val(&g_a);
    gh_vb = c13_val(&g_b);
    vr_ret = pstm_cmp(&g_a, &g_b);
    POSTS(NATIVE_CHECK)
HARNESS_END
