/*@UNIT
{
  "property": "C13",
  "unit": "set",
  "function": "pstm_set",
  "source": "crypto/math/pstm.c",
  "keep_bodies": ["pstm_zero"],
  "mode": "proof",
  "why_proof": "the digit loop of the inlined pstm_zero is closed by its in-place loop contract (hook H1)",
  "loop_contracts": true,
  "object_bits": 7,
  "native_replay": false,
  "timeout": 300
}
@*/
/* C13.set  a = b (single digit), EXACT for every capacity: well-formed, all other digits zero. */
#include "c13.h"
static pstm_digit g_b_digit;

#define POSTS(P) \
    P(wf_result, WF(g_a)) \
    P(exact_value, g_a.sign == PSTM_ZPOS && g_a.used == (g_b_digit != 0 ? 1 : 0) && g_a.dp[0] == g_b_digit) \
    P(other_digits_zero, IMPLIES(g_k >= 1 && g_k < g_a.alloc, g_a.dp[g_k] == 0)) \
    P(storage_kept, g_a.alloc == OLD(g_a, alloc) && g_a.dp == OLD(g_a, dp))

void pstm_set(pstm_int *a, pstm_digit b)
__CPROVER_requires(a == &g_a && b == g_b_digit && SAFE(g_a))
POSTS(ENSURES_CLAUSE)
CANARY_CLAUSE(g_a.used == 0)
__CPROVER_assigns(g_a.used, g_a.sign, __CPROVER_object_whole(g_a.dp))
;

#include "crypto/math/pstm.c"

struct __attribute__((packed)) inputs { struct opnd a; uint64_t b; uint16_t k; };
#ifndef NATIVE_REPLAY
struct inputs nondet_in(void);
#endif
DECL_SNAPSHOT(pstm_int, g_a);

HARNESS_BEGIN
    HARNESS_INPUTS(struct inputs, in);
    MK_OPND(g_a, in.a);
    g_b_digit = in.b;
    g_k = in.k;
    SNAPSHOT(g_a);
    pstm_set(&g_a, g_b_digit);
    POSTS(NATIVE_CHECK)
HARNESS_END
