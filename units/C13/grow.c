/*@UNIT
{
  "property": "C13",
  "unit": "grow",
  "function": "pstm_grow",
  "source": "crypto/math/pstm.c",
  "keep_bodies": ["realloc (CBMC library model: malloc + array copy + free, may fail)"],
  "mode": "proof",
  "why_proof": "the zeroing loop is closed by an in-place loop contract (hook H1); every alloc <= PSTM_MAX_SIZE, size is any 16-bit value",
  "loop_contracts": true,
  "object_bits": 7,
  "native_replay": false,
  "timeout": 300
}
@*/
/* C13.grow  pstm_grow.  THIS FILE IS ALSO THE SINGLE SOURCE OF THE CONTRACT BY WHICH THE OTHER
 * C13 UNITS REPLACE pstm_grow (they include it with C13_GROW_CONTRACT_ONLY defined, so the text
 * enforced here and the text assumed there are the same tokens).
 *
 * The contract is written on the parameter (a->...), not on a harness object, so that it can be
 * applied at every call site.  "For every digit" is the ghost index g_k; the digit that carries
 * the clamp invariant (dp[used-1]) is stated separately.  Old digit values are snapshots of a
 * always-valid index, because the old block is freed when the integer really grows.  The frees
 * clause lets a call site free the old block nondeterministically; no_growth_block_stays_valid
 * excludes that when nothing grew (also when realloc failed).  (__CPROVER_was_freed cannot be
 * assumed at a replaced call in cbmc 6.11: its precondition check looks the pointer up in the
 * wrong write set and fails.)
 */
#ifndef C13_GROW_CONTRACT_ONLY
# include "c13.h"
#endif

#define GROWS (RET == PSTM_OKAY && OLDV(a->alloc) < size)
#define POSTS(P) \
    P(ret_is_ok_or_mem, RET == PSTM_OKAY || RET == PSTM_MEM) \
    P(beyond_max_size_is_refused, IMPLIES(size > PSTM_MAX_SIZE, RET == PSTM_MEM)) \
    P(no_growth_no_change, IMPLIES(!GROWS, a->dp == OLDV(a->dp) && a->alloc == OLDV(a->alloc))) \
    P(big_enough_already_is_ok, IMPLIES(OLDV(a->alloc) >= size && size <= PSTM_MAX_SIZE, RET == PSTM_OKAY)) \
    P(grown_to_size_fresh_block, IMPLIES(GROWS, a->alloc == size && __CPROVER_is_fresh(a->dp, size * sizeof(pstm_digit)))) \
    P(grown_keeps_digits, IMPLIES(GROWS && g_k < OLDV(a->alloc), a->dp[g_k] == OLDV(a->dp[IDX_OR_0(a, g_k)]))) \
    P(grown_keeps_top_digit, IMPLIES(GROWS && a->used > 0 && a->used <= OLDV(a->alloc), a->dp[a->used - 1] == OLDV(a->dp[TOP_IDX(a)]))) \
    P(grown_new_digits_zero, IMPLIES(GROWS && g_k >= OLDV(a->alloc) && g_k < size, a->dp[g_k] == 0)) \
    P(used_sign_untouched, a->used == OLDV(a->used) && a->sign == OLDV(a->sign))

int32_t pstm_grow(pstm_int *a, psSize_t size)
/* nothing is required of used: s_pstm_add calls with used > alloc */
__CPROVER_requires(a->alloc >= 1 && a->alloc <= PSTM_MAX_SIZE)
POSTS(ENSURES_CLAUSE)
#ifndef C13_GROW_CONTRACT_ONLY       /* the must-fail clause belongs to the enforcing unit only */
CANARY_CLAUSE(!(__CPROVER_return_value == PSTM_OKAY && __CPROVER_old(a->alloc) < size))
#endif
__CPROVER_assigns(a->dp, a->alloc)
__CPROVER_frees(a->alloc < size && size <= PSTM_MAX_SIZE: a->dp)
;

#ifdef C13_GROW_CONTRACT_ONLY
# undef POSTS
#else

#include "crypto/math/pstm.c"

struct __attribute__((packed)) inputs { struct opnd a; uint16_t size; uint16_t k; };
struct inputs nondet_in(void);

HARNESS_BEGIN
    HARNESS_INPUTS(struct inputs, in);
    int32_t vr_ret;
    MK_OPND(g_a, in.a);
    g_k = in.k;
    vr_ret = pstm_grow(&g_a, in.size);
    (void) vr_ret;
HARNESS_END
#endif
