/*@UNIT
{
 "property": "C13",
 "unit": "mul_2d_exact",
 "function": "pstm_mul_2d",
 "source": "crypto/math/pstm.c",
 "keep_bodies": [
  "pstm_copy",
  "pstm_lshd",
  "pstm_clamp",
  "pstm_grow"
 ],
 "assumed": [
  "realloc (model c13_realloc in c13x.h: NULL, or a distinct constant-size block holding the old contents)"
 ],
 "mode": "bounded",
 "bounds": "operand of at most NDIG digits (quick 3, thorough 4), bit count 64*NDSHIFT + 0..63 with NDSHIFT enumerated (quick 0, thorough 0..2), every digit value and sign, c distinct from a or c == a",
 "defs_quick": [
  "NDIG=3"
 ],
 "defs_thorough": [
  "NDIG=4"
 ],
 "unwind_quick": 10,
 "unwind_thorough": 11,
 "object_bits": 8,
 "cases": [
  {
   "name": "bits_in_place",
   "defs": [
    "ALIAS_CA=1",
    "NDSHIFT=0"
   ]
  },
  {
   "name": "bits_distinct",
   "defs": [
    "NDSHIFT=0"
   ]
  },
  {
   "name": "digit1_in_place",
   "defs": [
    "ALIAS_CA=1",
    "NDSHIFT=1"
   ],
   "tier": "parked",
   "parked_reason": "timeout 400 s"
  },
  {
   "name": "digit1_distinct",
   "defs": [
    "NDSHIFT=1"
   ],
   "tier": "parked",
   "parked_reason": "timeout 400 s"
  },
  {
   "name": "digit2_distinct",
   "defs": [
    "NDSHIFT=2"
   ],
   "tier": "parked",
   "parked_reason": "timeout 400 s"
  }
 ],
 "native_replay": true,
 "timeout": 400,
 "tier": "thorough"
}
@*/
/* C13.mul_2d_exact  c = a * 2^b exactly (static helper of pstm_read_unsigned_bin and pstm_div), full
 * library invariant of the result, or an error. */
#include "c13x.h"
#ifdef ALIAS_CA
# define g_c g_a
#endif
static int16_t g_n;
static wide gh_ma; static uint8_t gh_sa;
#define N_DOMAIN (g_n >= 0 && (int) g_a.used * 64 + g_n <= 64 * (NCAP + 1))

#define POSTS(P) \
    P(ret_is_ok_or_mem, RET == PSTM_OKAY || RET == PS_MEM_FAIL) \
    P(ok_exact_magnitude, IMPLIES(RET == PSTM_OKAY, W_EQ(c13_mag(&g_c), W_SHL(gh_ma, (unsigned) g_n)))) \
    P(ok_sign_of_a_unless_zero, IMPLIES(RET == PSTM_OKAY, g_c.sign == (g_c.used == 0 ? PSTM_ZPOS : gh_sa))) \
    P(ok_library_invariant, IMPLIES(RET == PSTM_OKAY, g_c.alloc <= XCAP && c13_inv(&g_c)))

static int32_t pstm_mul_2d(const pstm_int *a, int16_t b, pstm_int *c)
__CPROVER_requires(a == &g_a && c == &g_c && b == g_n)
__CPROVER_requires(IN_DOMAIN(g_a) && IN_DOMAIN(g_c) && N_DOMAIN)
POSTS(ENSURES_CLAUSE)
CANARY_CLAUSE(__CPROVER_return_value != PSTM_OKAY || g_c.used != 3 || (g_n & 63) != 6)
__CPROVER_assigns(X_ASSIGNS(g_c))
;

#include "crypto/math/pstm.c"

struct __attribute__((packed)) inputs { struct opndx a, c; int16_t n; };
#ifndef NATIVE_REPLAY
struct inputs nondet_in(void);
#endif

HARNESS_BEGIN
    HARNESS_INPUTS(struct inputs, in);
    int32_t vr_ret;
    MK_OPNDX(g_a, in.a, 0);
#ifndef ALIAS_CA
    MK_OPNDX(g_c, in.c, 2);
#endif
    g_n = (int16_t) (64 * NDSHIFT + (in.n & 63));     /* digit part of the count enumerated (mode enumeration), bit part arbitrary */
    gx_heap.n = 0;
#ifdef NATIVE_REPLAY
    __CPROVER_assume(IN_DOMAIN(g_a) && IN_DOMAIN(g_c) && N_DOMAIN);
#endif
    gh_ma = c13_mag(&g_a); gh_sa = g_a.sign;
    vr_ret = pstm_mul_2d(&g_a, g_n, &g_c);
    POSTS(NATIVE_CHECK)
HARNESS_END
