/*@UNIT
{
  "property": "C13",
  "unit": "abs",
  "function": "pstm_abs",
  "source": "crypto/math/pstm.c",
  "keep_bodies": ["pstm_copy"],
  "replace": ["pstm_grow"],
  "cases": [{"name": "distinct", "defs": []}, {"name": "alias_ab", "defs": ["ALIAS_AB=1"]}],
  "mode": "proof",
  "why_proof": "the loops of the inlined pstm_copy are closed by in-place loop contracts (hook H1); pstm_grow is replaced by its contract (enforced in unit grow)",
  "loop_contracts": true,
  "object_bits": 7,
  "native_replay": false,
  "timeout": 300
}
@*/
/* C13.abs  b = |a| for all digit counts: exact digit-wise copy (ghost index), sign cleared. */
#include "c13.h"
#define C13_GROW_CONTRACT_ONLY
#include "grow.c"
#ifdef ALIAS_AB
# define g_b g_a
#endif

#define POSTS(P) \
    P(ret_is_ok_or_mem, RET == PSTM_OKAY || RET == PSTM_MEM) \
    P(ok_result_wf, IMPLIES(RET == PSTM_OKAY, WF(g_b))) \
    P(ok_no_stale_high_digits, IMPLIES(RET == PSTM_OKAY, ZH(g_b))) \
    P(ok_exact_magnitude, IMPLIES(RET == PSTM_OKAY, g_b.used == OLD(g_a, used) && g_b.sign == PSTM_ZPOS && IMPLIES(g_k < g_b.used, g_b.dp[g_k] == g_a.dp[g_k]))) \
    P(error_only_when_growth_needed, IMPLIES(RET != PSTM_OKAY, OLD(g_b, alloc) < OLD(g_a, used))) \
    P(error_leaves_destination, IMPLIES(RET != PSTM_OKAY, SAME_DESC(g_b)))

int32_t pstm_abs(const pstm_int *a, pstm_int *b)
__CPROVER_requires(a == &g_a && b == &g_b)
__CPROVER_requires(WF(g_a) && WF(g_b) && ZH(g_b))
POSTS(ENSURES_CLAUSE)
CANARY_CLAUSE(__CPROVER_return_value != PSTM_OKAY || g_b.used < 2)
__CPROVER_assigns(g_b.dp, g_b.alloc, g_b.used, g_b.sign, __CPROVER_object_whole(g_b.dp))
__CPROVER_frees(g_b.dp)
;

#include "crypto/math/pstm.c"

struct __attribute__((packed)) inputs { struct opnd a, b; uint16_t k; };
#ifndef NATIVE_REPLAY
struct inputs nondet_in(void);
#endif
DECL_SNAPSHOT(pstm_int, g_a);
#ifndef ALIAS_AB
DECL_SNAPSHOT(pstm_int, g_b);
#endif

HARNESS_BEGIN
    HARNESS_INPUTS(struct inputs, in);
    int32_t vr_ret;
    MK_OPND(g_a, in.a);
#ifndef ALIAS_AB
    MK_OPND(g_b, in.b);
#endif
    g_k = in.k;
    vr_ret = pstm_abs(&g_a, &g_b);
    (void) vr_ret;
    POSTS(NATIVE_CHECK)
HARNESS_END
