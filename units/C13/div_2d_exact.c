/*@UNIT
{
 "property": "C13",
 "unit": "div_2d_exact",
 "function": "pstm_div_2d",
 "source": "crypto/math/pstm.c",
 "keep_bodies": [
  "pstm_copy",
  "pstm_rshd",
  "pstm_zero",
  "pstm_clamp",
  "pstm_mod_2d",
  "pstm_grow"
 ],
 "assumed": [
  "realloc (model c13_realloc in c13x.h: NULL, or a distinct constant-size block holding the old contents)"
 ],
 "mode": "bounded",
 "bounds": "operand of at most NDIG digits (quick 3, thorough 4), every 16-bit signed bit count, every digit value and sign; quotient only (d == NULL), quotient and remainder (bit counts 1..64, see unit mod_2d for larger ones), in-place quotient (c == a)",
 "defs_quick": [
  "NDIG=3"
 ],
 "defs_thorough": [
  "NDIG=4"
 ],
 "unwind_quick": 10,
 "unwind_thorough": 11,
 "object_bits": 8,
 "cases": [
  {
   "name": "quotient",
   "defs": []
  },
  {
   "name": "quotient_in_place",
   "defs": [
    "ALIAS_CA=1"
   ]
  },
  {
   "name": "with_remainder",
   "defs": [
    "WITH_REM=1"
   ],
   "tier": "parked",
   "parked_reason": "timeout 600 s"
  }
 ],
 "native_replay": true,
 "timeout": 600,
 "tier": "thorough"
}
@*/
/* C13.div_2d_exact  c = trunc(a / 2^b) exactly (magnitude shifted, sign kept, zero non-negative) and,
 * when asked for, d = a - c * 2^b (remainder with the sign of a); b <= 0 copies.  The remainder
 * case is restricted to b <= 64 because for larger b pstm_mod_2d executes an undefined shift
 * (reported by unit mod_2d); the quotient cases take every b. */
#include "c13x.h"
#ifdef ALIAS_CA
# define g_c g_a
#endif
static int16_t g_n;
static wide gh_ma; static uint8_t gh_sa;
#define SHIFT_BITS ((unsigned) (g_n <= 0 ? 0 : (g_n > 64 * (NCAP + 1) ? 64 * (NCAP + 1) : g_n)))
#ifdef WITH_REM
# define PD (&g_d)
# define N_DOMAIN (g_n <= DIGIT_BIT && IN_DOMAIN(g_d))
# define REM_EXACT (W_EQ(c13_mag(&g_d), W_SUB(gh_ma, W_SHL(c13_mag(&g_c), SHIFT_BITS))) && g_d.sign == (g_d.used == 0 ? PSTM_ZPOS : gh_sa) && OUT_INV(g_d))
# define REM_ASSIGNS , g_d.dp, g_d.alloc, g_d.used, g_d.sign, __CPROVER_object_whole(g_d.dp)
#else
# define PD ((pstm_int *) NULL)
# define N_DOMAIN 1
# define REM_EXACT 1
# define REM_ASSIGNS
#endif

#define POSTS(P) \
    P(ret_is_ok_or_mem, RET == PSTM_OKAY || RET == PS_MEM_FAIL) \
    P(ok_exact_quotient, IMPLIES(RET == PSTM_OKAY, W_EQ(c13_mag(&g_c), W_SHR(gh_ma, SHIFT_BITS)))) \
    P(ok_sign_of_a_unless_zero, IMPLIES(RET == PSTM_OKAY, g_c.sign == (g_c.used == 0 ? PSTM_ZPOS : gh_sa))) \
    P(ok_library_invariant, IMPLIES(RET == PSTM_OKAY, OUT_INV(g_c))) \
    P(ok_exact_remainder, IMPLIES(RET == PSTM_OKAY, REM_EXACT))

int32_t pstm_div_2d(psPool_t *pool, const pstm_int *a, int16_t b, pstm_int *c, pstm_int *d)
__CPROVER_requires(a == &g_a && c == &g_c && b == g_n && d == PD && pool == NULL)
__CPROVER_requires(IN_DOMAIN(g_a) && IN_DOMAIN(g_c) && N_DOMAIN)
POSTS(ENSURES_CLAUSE)
CANARY_CLAUSE(__CPROVER_return_value != PSTM_OKAY || g_c.used != 2 || g_n != 40)
__CPROVER_assigns(X_ASSIGNS(g_c) REM_ASSIGNS)
;

#include "crypto/math/pstm.c"

struct __attribute__((packed)) inputs { struct opndx a, c, d; int16_t n; };
#ifndef NATIVE_REPLAY
struct inputs nondet_in(void);
#endif

HARNESS_BEGIN
    HARNESS_INPUTS(struct inputs, in);
    int32_t vr_ret;
    MK_OPNDX(g_a, in.a, 0);
#ifndef ALIAS_CA
    MK_OPNDX(g_c, in.c, 2);
#endif
#ifdef WITH_REM
    MK_OPNDX(g_d, in.d, 3);
#endif
    g_n = in.n;
    gx_heap.n = 0;
#ifdef NATIVE_REPLAY
    __CPROVER_assume(IN_DOMAIN(g_a) && IN_DOMAIN(g_c) && N_DOMAIN);
#endif
    gh_ma = c13_mag(&g_a); gh_sa = g_a.sign;
    vr_ret = pstm_div_2d(NULL, &g_a, g_n, &g_c, PD);
    POSTS(NATIVE_CHECK)
HARNESS_END
