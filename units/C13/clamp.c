/*@UNIT
{
  "property": "C13",
  "unit": "clamp",
  "function": "pstm_clamp",
  "source": "crypto/math/pstm.c",
  "keep_bodies": [],
  "replace": [],
  "assumed": [],
  "mode": "proof",
  "why_proof": "the only loop is closed by an in-place loop contract (hook H1), every used <= alloc <= PSTM_MAX_SIZE",
  "loop_contracts": true,
  "object_bits": 7,
  "native_replay": false,
  "timeout": 300
}
@*/
/* C13.clamp  pstm_clamp establishes the representation invariant from any
 * (used <= alloc) state without changing the value: only zero digits are dropped. */
#include "c13.h"

#define POSTS(P) \
    P(wf_established, WF(g_a)) \
    P(zero_high_kept, ZH(g_a)) \
    P(only_zero_digits_dropped, g_a.used <= OLD(g_a, used) && IMPLIES(g_k >= g_a.used && g_k < OLD(g_a, used), g_a.dp[g_k] == 0)) \
    P(sign_kept_unless_zero, IMPLIES(g_a.used != 0, g_a.sign == OLD(g_a, sign)))

void pstm_clamp(pstm_int *a)
__CPROVER_requires(a == &g_a)
__CPROVER_requires(g_a.alloc >= 1 && g_a.alloc <= PSTM_MAX_SIZE && g_a.used <= g_a.alloc && g_a.sign <= 1)
__CPROVER_requires(ZH(g_a))
POSTS(ENSURES_CLAUSE)
CANARY_CLAUSE(g_a.used == __CPROVER_old(g_a.used))
__CPROVER_assigns(g_a.used, g_a.sign)
;

#include "crypto/math/pstm.c"

struct __attribute__((packed)) inputs { struct opnd a; uint16_t k; };
#ifndef NATIVE_REPLAY
struct inputs nondet_in(void);
#endif
DECL_SNAPSHOT(pstm_int, g_a);

HARNESS_BEGIN
    HARNESS_INPUTS(struct inputs, in);
    MK_OPND(g_a, in.a);
    g_k = in.k;
    SNAPSHOT(g_a);
    pstm_clamp(&g_a);
    POSTS(NATIVE_CHECK)
HARNESS_END
