#!/usr/bin/env python3
"""Mutation sanity test of the C13 units (README rule 9).

usage: mut.py <base-tree> <worker-id> <mutation-id> [...]     (ids from MUTS below; 'all' = every id)

For each mutation: copy <base-tree>/crypto/math/pstm.c into a private scratch tree /tmp/wt_c13m<worker>,
apply ONE textual change to the real function, run the named unit (one case, no canary) through the
driver and print the obligations that turn red.  Nothing in /repo or in the base tree is touched.
"""
import json, os, re, shutil, subprocess, sys, time
VERIF = '/verif'
UD = os.path.join(VERIF, 'units', 'C13')
F16_FIX = ("        t = ((pstm_word) a->dp[x]) - t;\n        c->dp[x] = (pstm_digit) t;\n        t = (t >> DIGIT_BIT);",
           "        t = ((pstm_word) a->dp[x]) - t;\n        c->dp[x] = (pstm_digit) t;\n        t = (t >> DIGIT_BIT) & 1;", 1)

F13_FIX = ("    if (t != 0 && x < PSTM_MAX_SIZE)\n    {\n        if (c->used == c->alloc)",
           "    if (t != 0 && x >= PSTM_MAX_SIZE)\n    {\n        c->used = 0;\n        c->sign = PSTM_ZPOS;\n        return PS_LIMIT_FAIL;\n    }\n    if (t != 0 && x < PSTM_MAX_SIZE)\n    {\n        if (c->used == c->alloc)", 1)
F13_FIX2 = ("        if (pstm_grow(c, c->used) != PSTM_OKAY)\n        {\n            return PS_MEM_FAIL;\n        }\n    }\n\n    t = 0;",
            "        c->used = oldused;\n        if (pstm_grow(c, y) != PSTM_OKAY)\n        {\n            return PS_MEM_FAIL;\n        }\n        c->used = y;\n    }\n\n    t = 0;", 1)
# id: (unit, case, what, old, new, nth occurrence, base: 0 = annotated tree, 1 = + proposed F16 fix, 2 = + proposed F13 fix)
MUTS = {
 'clamp1': ('clamp', 'default', 'clamp stops one digit early (used > 1)', 'while (a->used > 0 && a->dp[a->used - 1] == 0)', 'while (a->used > 1 && a->dp[a->used - 1] == 0)', 1, 0),
 'clamp2': ('clamp', 'default', 'sign of zero not reset', '    if (a->used == 0)\n    {\n        a->sign = PSTM_ZPOS;', '    if (a->used == 0)\n    {\n        a->sign = a->sign;', 1, 0),
 'zero1': ('zero', 'default', 'digits cleared only up to used (already 0)', 'for (n = 0; n < a->alloc; n++)', 'for (n = 0; n < a->used; n++)', 1, 0),
 'zero2': ('zero', 'default', 'used not reset', '    a->sign = PSTM_ZPOS;\n    a->used = 0;\n', '    a->sign = PSTM_ZPOS;\n', 1, 0),
 'cmpmag1': ('cmp_mag', 'distinct', 'longer operand reported smaller', '    if (a->used > b->used)\n    {\n        return PSTM_GT;', '    if (a->used > b->used)\n    {\n        return PSTM_LT;', 1, 0),
 'cmpmag2': ('cmp_mag', 'alias_ab', '> turned into >= in the digit loop', '        if (*tmpa > *tmpb)', '        if (*tmpa >= *tmpb)', 1, 0),
 'cmp1': ('cmp', 'distinct', 'negative reported greater than non-negative', '        if (a->sign == PSTM_NEG)\n        {\n            return PSTM_LT;', '        if (a->sign == PSTM_NEG)\n        {\n            return PSTM_GT;', 1, 0),
 'cmp2': ('cmp', 'distinct', 'two negatives compared in the positive direction', '        return pstm_cmp_mag(b, a);', '        return pstm_cmp_mag(a, b);', 1, 0),
 'cmpd1': ('cmp_d', 'default', 'one-digit value treated as multi-digit', '    if (a->used > 1)\n    {\n        return PSTM_GT;', '    if (a->used > 0)\n    {\n        return PSTM_GT;', 1, 0),
 'cmpd2': ('cmp_d', 'default', 'zero compared with digit 0 gives LT', '    if ((b && a->used == 0) || a->sign == PSTM_NEG)', '    if ((a->used == 0) || a->sign == PSTM_NEG)', 1, 0),
 'set1': ('set', 'default', 'used forced to 1 also for digit 0', "    a->used  = a->dp[0] ? 1 : 0;", "    a->used  = 1;", 1, 0),
 'set2': ('set', 'default', 'old digits not cleared', '    pstm_zero(a);\n    a->dp[0] = b;', '    a->used = 0; a->sign = PSTM_ZPOS;\n    a->dp[0] = b;', 1, 0),
 'copy1': ('copy', 'distinct', 'stale high digits of the destination not cleared', '        for (; n < b->used; n++)', '        for (; n < a->used; n++)', 1, 0),
 'copy2': ('copy', 'distinct', 'sign not copied', '    b->sign = a->sign;\n    return PSTM_OKAY;', '    b->sign = b->sign;\n    return PSTM_OKAY;', 1, 0),
 'copy3': ('copy', 'distinct', 'destination grown one digit too late', '    if (b->alloc < a->used)\n    {\n        if ((res = pstm_grow(b, a->used)) != PSTM_OKAY)', '    if (b->alloc + 1 < a->used)\n    {\n        if ((res = pstm_grow(b, a->used)) != PSTM_OKAY)', 1, 0),
 'abs1': ('abs', 'distinct', 'sign not cleared', '    b->sign = 0;\n    return PSTM_OKAY;', '    b->sign = a->sign;\n    return PSTM_OKAY;', 1, 0),
 'abs2': ('abs', 'distinct', 'stale high digits (mutation in the inlined pstm_copy)', '        for (; n < b->used; n++)', '        for (; n < a->used; n++)', 1, 0),
 'grow1': ('grow', 'default', 'last new digit not zeroed', '        for (; i < a->alloc; i++)', '        for (; i + 1 < a->alloc; i++)', 1, 0),
 'grow2': ('grow', 'default', 'size == PSTM_MAX_SIZE refused', 'int32_t pstm_grow(pstm_int *a, psSize_t size)\n{\n    uint16_t i;\n    pstm_digit *tmp;\n\n    if (size > PSTM_MAX_SIZE)', 'int32_t pstm_grow(pstm_int *a, psSize_t size)\n{\n    uint16_t i;\n    pstm_digit *tmp;\n\n    if (size >= PSTM_MAX_SIZE)', 1, 0),
 'sadd1': ('s_add', 'distinct', 'final carry digit stored as 0', '        c->dp[c->used++] = (pstm_digit) t;\n        ++x;', '        c->dp[c->used++] = 0;\n        ++x;', 1, 2),
 'sadd2': ('s_add', 'distinct', 'stale high digits of c not cleared', '    c->used = x;\n    for (; x < oldused; x++)', '    c->used = x;\n    for (; x + 1 < oldused; x++)', 1, 0),
 'sadd3': ('s_add', 'distinct', 'carry shifted by DIGIT_BIT-1 (wrong carry mask)', '        t        >>= DIGIT_BIT;', '        t        >>= (DIGIT_BIT - 1);', 1, 0),
 'subs1': ('sub_s', 'distinct', 'equal-length subtrahend refused (>=)', '    if (b->used > a->used)\n    {\n        return PS_LIMIT_FAIL;', '    if (b->used >= a->used)\n    {\n        return PS_LIMIT_FAIL;', 1, 0),
 'subs2': ('sub_s', 'distinct', 'clamp dropped', '        c->dp[x] = 0;\n    }\n    pstm_clamp(c);\n    return PSTM_OKAY;\n}\n\n/******************************************************************************/\n\n/**\n    Unsigned addition', '        c->dp[x] = 0;\n    }\n    return PSTM_OKAY;\n}\n\n/******************************************************************************/\n\n/**\n    Unsigned addition', 1, 0),
 'add1': ('add', 'distinct', 'magnitude comparison inverted (subtracts the larger from the smaller)', '        if (pstm_cmp_mag(a, b) == PSTM_LT)\n        {\n            c->sign = sb;', '        if (pstm_cmp_mag(a, b) == PSTM_GT)\n        {\n            c->sign = sb;', 1, 0),
 'add2': ('add', 'distinct', 'same-sign operands are subtracted', '    if (sa == sb)\n    {\n        /* both positive or both negative, add their mags, copy the sign */', '    if (sa != sb)\n    {\n        /* both positive or both negative, add their mags, copy the sign */', 1, 0),
 'sub1': ('sub', 'distinct', 'magnitude comparison inverted', '        if (pstm_cmp_mag(a, b) != PSTM_LT)\n        {\n            /* Copy the sign from the first */', '        if (pstm_cmp_mag(a, b) == PSTM_LT)\n        {\n            /* Copy the sign from the first */', 1, 0),
 'sub2': ('sub', 'distinct', 'different-sign operands are subtracted', '    if (sa != sb)\n    {\n/*\n        subtract a negative from a positive', '    if (sa == sb)\n    {\n/*\n        subtract a negative from a positive', 1, 0),
 'rshd1': ('rshd', 'default', 'used not decremented', '    /* decrement count */\n    a->used -= b;\n', '    /* decrement count */\n', 1, 0),
 'rshd2': ('rshd', 'default', 'vacated top digits not all zeroed', '    for (; y < a->used; y++)', '    for (; y + 1 < a->used; y++)', 1, 0),
 'lshd1': ('lshd', 'count_le_max', 'used incremented by b-1', '        a->used += b;\n', '        a->used += b - 1;\n', 1, 0),
 'lshd2': ('lshd', 'count_le_max', 'not grown although used + b > alloc', '    if (a->alloc < a->used + b)\n    {\n        if ((res = pstm_grow(a, a->used + b)) != PSTM_OKAY)', '    if (a->alloc < a->used)\n    {\n        if ((res = pstm_grow(a, a->used + b)) != PSTM_OKAY)', 1, 0),
 'mul2d1': ('mul_2d', 'distinct', 'spilled top bits stored but used not incremented', '            c->dp[c->used++] = carry;', '            c->dp[c->used] = carry;', 1, 0),
 'mul2d2': ('mul_2d', 'distinct', 'final clamp dropped', '            c->dp[c->used++] = carry;\n        }\n    }\n    pstm_clamp(c);', '            c->dp[c->used++] = carry;\n        }\n    }\n', 1, 0),
 'mod2d1': ('mod_2d', 'distinct_count_le_64', 'digits above the modulus not zeroed from the right index', '    for (x = (b / DIGIT_BIT) + ((b % DIGIT_BIT) == 0 ? 0 : 1); x < c->used; x++)', '    for (x = (b / DIGIT_BIT) + 2; x < c->used; x++)', 1, 0),
 'mod2d2': ('mod_2d', 'distinct_count_le_64', 'final clamp dropped', '    c->dp[b / DIGIT_BIT] &= ~((pstm_digit) 0) >> (DIGIT_BIT - b);\n    pstm_clamp(c);', '    c->dp[b / DIGIT_BIT] &= ~((pstm_digit) 0) >> (DIGIT_BIT - b);\n', 1, 0),
 'div2d1': ('div_2d', 'distinct', 'whole-digit part of the shift skipped', '        pstm_rshd(c, b / DIGIT_BIT);', '        ;', 1, 0),
 'div2d2': ('div_2d', 'distinct', 'final clamp dropped', '    pstm_clamp(c);\n\n    res = PSTM_OKAY;', '\n    res = PSTM_OKAY;', 1, 0),
 'expt1': ('expt2', 'default', 'used one too small', '    a->used = z + 1;\n', '    a->used = z;\n', 1, 0),
 'expt2': ('expt2', 'default', 'limit test off by one (z > MAX)', '    if (z >= PSTM_MAX_SIZE)\n    {\n        return PS_LIMIT_FAIL;', '    if (z > PSTM_MAX_SIZE)\n    {\n        return PS_LIMIT_FAIL;', 1, 0),
 'cbits1': ('count_bits', 'default', 'whole-digit part counted with used instead of used-1', '    r = (a->used - 1) * DIGIT_BIT;', '    r = a->used * DIGIT_BIT;', 1, 0),
 'cbits2': ('count_bits', 'default', 'top bit not counted (q > 1)', '    while (q > ((pstm_digit) 0))', '    while (q > ((pstm_digit) 1))', 1, 0),
 # exact-value units: on a tree that already carries the proposed F16 fix (else ok_exact_value is red anyway)
 # null mutations: the proposed fix alone must make the unit green (else the rows below prove nothing)
 'addx0': ('add_exact', 'distinct', 'NO CHANGE (proposed F16 fix only)', '    return PS_SUCCESS;', '    return PS_SUCCESS;', 1, 1),
 'addd0': ('add_d_exact', 'distinct', 'NO CHANGE (proposed F16 fix only)', '    return PS_SUCCESS;', '    return PS_SUCCESS;', 1, 1),
 'subd0': ('sub_d_exact', 'distinct', 'NO CHANGE (proposed F16 fix only)', '    return PS_SUCCESS;', '    return PS_SUCCESS;', 1, 1),
 'addx1': ('add_exact', 'distinct', 'result takes the sign of a although |a| < |b|', '            c->sign = sb;\n            if ((res = pstm_sub_s(b, a, c)) != PSTM_OKAY)', '            c->sign = sa;\n            if ((res = pstm_sub_s(b, a, c)) != PSTM_OKAY)', 1, 1),
 'addx2': ('add_exact', 'distinct', 'carry into the new top digit dropped', '    if (t != 0 && x < PSTM_MAX_SIZE)\n    {\n        if (c->used == c->alloc)', '    if (0 && x < PSTM_MAX_SIZE)\n    {\n        if (c->used == c->alloc)', 1, 1),
 'subx1': ('sub_exact', 'distinct', 'sign not flipped when |a| < |b|', "            c->sign = (sa == PSTM_ZPOS) ? PSTM_NEG : PSTM_ZPOS;", "            c->sign = sa;", 1, 1),
 'subx2': ('sub_exact', 'distinct', 'borrow mask dropped in the FIRST loop of pstm_sub_s', '        t = (t >> DIGIT_BIT) & 1;\n    }\n    for (; x < a->used; x++)', '        t = (t >> DIGIT_BIT);\n    }\n    for (; x < a->used; x++)', 1, 1),
 'cmpx1': ('cmp_exact', 'distinct', '> turned into >= in the digit loop of pstm_cmp_mag', '        if (*tmpa > *tmpb)', '        if (*tmpa >= *tmpb)', 1, 0),
 'cmpx2': ('cmp_exact', 'distinct', 'two negatives compared in the positive direction', '        return pstm_cmp_mag(b, a);', '        return pstm_cmp_mag(a, b);', 1, 0),
 'rshdx1': ('rshd_exact', 'default', 'top digit not moved down', '    for (y = 0; y < a->used - b; y++)', '    for (y = 0; y + 1 < a->used - b; y++)', 1, 0),
 'rshdx2': ('rshd_exact', 'default', 'source index off by one', '        a->dp[y] = a->dp[y + b];', '        a->dp[y] = a->dp[y + b - (b > 0)];', 1, 0),
 'lshdx1': ('lshd_exact', 'default', 'lowest vacated digit not zeroed', '        for (x = 0; x < b; x++)', '        for (x = 1; x < b; x++)', 1, 0),
 'lshdx2': ('lshd_exact', 'default', 'digit at index b not moved up (x > b)', '        for (x = a->used - 1; x >= b; x--)', '        for (x = a->used - 1; x > b; x--)', 1, 0),
 'mul2dx1': ('mul_2d_exact', 'bits_distinct', 'carry subtracted instead of added', '            c->dp[x] = (c->dp[x] << b) + carry;', '            c->dp[x] = (c->dp[x] << b) - carry;', 1, 0),
 'mul2dx2': ('mul_2d_exact', 'bits_distinct', 'last carry never stored', '        if (carry && x < PSTM_MAX_SIZE)\n        {\n            if (c->used == c->alloc)', '        if (0 && x < PSTM_MAX_SIZE)\n        {\n            if (c->used == c->alloc)', 1, 0),
 'div2dx1': ('div_2d_exact', 'quotient', 'mask one bit too wide', '        mask = (((pstm_digit) 1) << D) - 1;', '        mask = (((pstm_digit) 1) << D);', 1, 0),
 'div2dx2': ('div_2d_exact', 'quotient', 'carry bits shifted to the wrong position', '        shift = DIGIT_BIT - D;\n\n        /* alias */', '        shift = DIGIT_BIT - D - 1;\n\n        /* alias */', 1, 0),
 'rbin1': ('read_bin_exact', 'default', 'byte overwrites the low digit instead of being or-ed in', '        a->dp[0] |= *buf++;', '        a->dp[0] = *buf++;', 1, 0),
 'rbin2': ('read_bin_exact', 'default', 'shift by 7 instead of 8 bits per byte', '        if (pstm_mul_2d(a, 8, a) != PSTM_OKAY)', '        if (pstm_mul_2d(a, 7, a) != PSTM_OKAY)', 1, 0),
 'tbin1': ('to_bin_exact', 'default', 'byte order not reversed', '    pstm_reverse(b, x);\n', '    ;\n', 1, 0),
 'tbin2': ('to_bin_exact', 'default', 'only 7 bits of every byte exported', '        b[x++] = (unsigned char) (t.dp[0] & 255);', '        b[x++] = (unsigned char) (t.dp[0] & 127);', 2, 0),
 'addd1': ('add_d_exact', 'distinct', 'digit subtracted instead of added', '    res = pstm_add(a, &tmp, c);', '    res = pstm_sub(a, &tmp, c);', 1, 1),
 'addd2': ('add_d_exact', 'distinct', 'digit + 1 added', '    pstm_set(&tmp, b);\n    res = pstm_add(a, &tmp, c);', '    pstm_set(&tmp, b + 1);\n    res = pstm_add(a, &tmp, c);', 1, 1),
 'subd1': ('sub_d_exact', 'distinct', 'digit added instead of subtracted', '    res = pstm_sub(a, &tmp, c);', '    res = pstm_add(a, &tmp, c);', 1, 1),
 'subd2': ('sub_d_exact', 'distinct', 'temporary not set to the digit', '    pstm_set(&tmp, b);\n    res = pstm_sub(a, &tmp, c);', '    pstm_set(&tmp, 0);\n    res = pstm_sub(a, &tmp, c);', 1, 1),
}

def replace_nth(s, old, new, nth):
    idx = -1
    for _ in range(nth):
        idx = s.index(old, idx + 1)
    return s[:idx] + new + s[idx + len(old):]

def run(base, worker, mid):
    unit, case, what, old, new, nth, needfix = MUTS[mid]
    tree = '/tmp/wt_c13m%s' % worker
    if not os.path.isdir(tree):
        shutil.copytree(base, tree, symlinks=True, ignore=shutil.ignore_patterns('.git'))
    src = open(os.path.join(base, 'crypto/math/pstm.c')).read()
    if needfix == 1:
        src = replace_nth(src, *F16_FIX)
    if needfix == 2:
        src = replace_nth(src, *F13_FIX)
        src = replace_nth(src, *F13_FIX2)
    assert src.count(old) >= nth, 'pattern of %s not found' % mid
    src = replace_nth(src, old, new, nth)
    open(os.path.join(tree, 'crypto/math/pstm.c'), 'w').write(src)
    # one-case copy of the unit
    u = open(os.path.join(UD, unit + '.c')).read()
    tmpname = 'zzmut%s_%s' % (worker, unit)
    m = re.search(r'/\*@UNIT\s*(\{.*?\})\s*@\*/', u, re.S)
    meta = json.loads(m.group(1))
    meta['unit'] = tmpname
    cases = meta.get('cases', [{'name': 'default', 'defs': []}])
    sel = [c for c in cases if c['name'] == case]
    assert sel, 'case %s not in %s' % (case, unit)
    sel[0].pop('tier', None)
    meta['cases'] = sel
    meta['native_replay'] = False
    meta['timeout'] = min(int(meta.get('timeout', 600)), 600)
    u2 = u[:m.start()] + '/*@UNIT\n' + json.dumps(meta, indent=1) + '\n@*/' + u[m.end():]
    path = os.path.join(UD, tmpname + '.c')
    open(path, 'w').write(u2)
    t0 = time.time()
    try:
        p = subprocess.run([os.path.join(VERIF, 'bin/check'), 'C13', '--unit', tmpname, '--no-canary'],
                           env=dict(os.environ, VERIF_REPO=tree, VERIF_JOBS='1'), capture_output=True, text=True)
    finally:
        os.remove(path)
    red = sorted(set(re.findall(r'failed obligation: (.*)', p.stdout)))
    infra = re.findall(r'INFRA: (.*)', p.stdout)
    print('%s | unit %s/%s | %s | %ds | RED: %s%s' % (mid, unit, case, what, time.time() - t0,
          '; '.join(r[:110] for r in red) if red else 'NOTHING (mutant survived)', (' | INFRA: ' + infra[0][:160]) if infra else ''), flush=True)

if __name__ == '__main__':
    base, worker, ids = sys.argv[1], sys.argv[2], sys.argv[3:]
    if ids == ['all']:
        ids = list(MUTS)
    for mid in ids:
        try:
            run(base, worker, mid)
        except Exception as e:
            print('%s | ERROR %s' % (mid, e), flush=True)
