/*@UNIT
{
  "property": "C13",
  "unit": "lshd",
  "function": "pstm_lshd",
  "source": "crypto/math/pstm.c",
  "replace": ["pstm_grow"],
  "mode": "proof",
  "why_proof": "both loops are closed by in-place loop contracts (hook H1): every digit count up to PSTM_MAX_SIZE; pstm_grow is replaced by its contract (enforced in unit grow)",
  "loop_contracts": true,
  "object_bits": 7,
  "cases": [{"name": "any_count", "defs": []}, {"name": "count_le_max", "defs": ["COUNT_LE_MAX=1"]}],
  "native_replay": false,
  "timeout": 300
}
@*/
/* C13.lshd  a = a * B^b (digit shift left) for all digit counts: representation invariant, no stale
 * high digits, exact length and top digit, low digits zero, or an error that leaves a untouched.
 * Case any_count: b is any 16-bit value (the function is a public API).  Case count_le_max:
 * b <= PSTM_MAX_SIZE (every caller inside the library: b / DIGIT_BIT of a 15-bit bit count, or a
 * difference of digit counts), kept separate so that what fails only for absurd counts is visible
 * as such. */
#include "c13.h"
#define C13_GROW_CONTRACT_ONLY
#include "grow.c"
static uint16_t g_n;
#define OLD_TOP(x) OLD(x, dp[((x).used - 1) * ((x).used > 0)])
#ifdef COUNT_LE_MAX
# define COUNT_DOMAIN (g_n <= PSTM_MAX_SIZE)
#else
# define COUNT_DOMAIN 1
#endif

#define POSTS(P) \
    P(ret_is_ok_or_mem, RET == PSTM_OKAY || RET == PSTM_MEM) \
    P(ok_result_wf, IMPLIES(RET == PSTM_OKAY, WF(g_a))) \
    P(ok_no_stale_high_digits, IMPLIES(RET == PSTM_OKAY, ZH(g_a))) \
    P(ok_exact_length_nonzero, IMPLIES(RET == PSTM_OKAY && OLD(g_a, used) != 0, g_a.used == OLD(g_a, used) + g_n && g_a.dp[g_a.used - 1] == OLD_TOP(g_a))) \
    P(ok_zero_gains_no_digit_above_the_shift, IMPLIES(RET == PSTM_OKAY && OLD(g_a, used) == 0, g_a.used <= g_n)) /* with ok_low_digits_zero (every digit below g_n is 0, for every g_k) and ok_result_wf (top digit non-zero) this is used == 0; stated this way because the single ghost index cannot carry "all digits zero" through the loop of pstm_clamp */ \
    P(ok_low_digits_zero, IMPLIES(RET == PSTM_OKAY && g_k < g_n && g_k < g_a.used, g_a.dp[g_k] == 0)) \
    P(ok_sign_kept, IMPLIES(RET == PSTM_OKAY && g_a.used != 0, g_a.sign == OLD(g_a, sign))) \
    P(error_only_beyond_max_size_or_no_memory, IMPLIES(RET != PSTM_OKAY, OLD(g_a, used) + g_n > OLD(g_a, alloc))) \
    P(beyond_max_size_is_refused, IMPLIES(OLD(g_a, used) + g_n > PSTM_MAX_SIZE && g_n > 0, RET != PSTM_OKAY)) \
    P(error_leaves_operand, IMPLIES(RET != PSTM_OKAY, SAME_DESC(g_a)))

int32_t pstm_lshd(pstm_int *a, uint16_t b)
__CPROVER_requires(a == &g_a && b == g_n && COUNT_DOMAIN)
__CPROVER_requires(WF(g_a) && ZH(g_a))
POSTS(ENSURES_CLAUSE)
CANARY_CLAUSE(__CPROVER_return_value != PSTM_OKAY || g_a.used != 5 || g_n != 2)
__CPROVER_assigns(g_a.dp, g_a.alloc, g_a.used, g_a.sign, __CPROVER_object_whole(g_a.dp))
__CPROVER_frees(g_a.dp)
;

#include "crypto/math/pstm.c"

struct __attribute__((packed)) inputs { struct opnd a; uint16_t n; uint16_t k; };
#ifndef NATIVE_REPLAY
struct inputs nondet_in(void);
#endif

HARNESS_BEGIN
    HARNESS_INPUTS(struct inputs, in);
    int32_t vr_ret;
    MK_OPND(g_a, in.a);
    g_n = in.n;
    g_k = in.k;
    vr_ret = pstm_lshd(&g_a, g_n);
    (void) vr_ret;
HARNESS_END
