/*@UNIT
{
  "property": "C13",
  "unit": "rshd",
  "function": "pstm_rshd",
  "source": "crypto/math/pstm.c",
  "keep_bodies": ["pstm_zero", "pstm_clamp"],
  "mode": "proof",
  "why_proof": "both loops of pstm_rshd and the loops of the inlined pstm_zero and pstm_clamp are closed by in-place loop contracts (hook H1): every digit count up to PSTM_MAX_SIZE, every 16-bit shift count",
  "loop_contracts": true,
  "object_bits": 7,
  "native_replay": false,
  "timeout": 300
}
@*/
/* C13.rshd  a = a / B^b (digit shift right) for all digit counts and every shift count: representation
 * invariant, no stale high digits, exact result length and exact top digit (the digit-wise exact
 * result is the bounded unit shift_exact). */
#include "c13.h"
static uint16_t g_n;
#define OLD_TOP(x) OLD(x, dp[((x).used - 1) * ((x).used > 0)])

#define POSTS(P) \
    P(wf_result, WF(g_a)) \
    P(no_stale_high_digits, ZH(g_a)) \
    P(exact_length, g_a.used == (g_n >= OLD(g_a, used) ? 0 : OLD(g_a, used) - g_n)) \
    P(exact_top_digit, IMPLIES(g_a.used > 0, g_a.dp[g_a.used - 1] == OLD_TOP(g_a))) \
    P(sign_kept_unless_zero, IMPLIES(g_a.used != 0, g_a.sign == OLD(g_a, sign))) \
    P(storage_kept, g_a.alloc == OLD(g_a, alloc) && g_a.dp == OLD(g_a, dp))

void pstm_rshd(pstm_int *a, uint16_t b)
__CPROVER_requires(a == &g_a && b == g_n)
__CPROVER_requires(WF(g_a) && ZH(g_a))
POSTS(ENSURES_CLAUSE)
CANARY_CLAUSE(g_a.used != 3 || g_n != 2)
__CPROVER_assigns(g_a.used, g_a.sign, __CPROVER_object_whole(g_a.dp))
;

#include "crypto/math/pstm.c"

struct __attribute__((packed)) inputs { struct opnd a; uint16_t n; uint16_t k; };
#ifndef NATIVE_REPLAY
struct inputs nondet_in(void);
#endif

HARNESS_BEGIN
    HARNESS_INPUTS(struct inputs, in);
    MK_OPND(g_a, in.a);
    g_n = in.n;
    g_k = in.k;
    pstm_rshd(&g_a, g_n);
HARNESS_END
