/*@UNIT
{
 "property": "C13",
 "unit": "div_2d",
 "function": "pstm_div_2d",
 "source": "crypto/math/pstm.c",
 "keep_bodies": [
  "pstm_copy",
  "pstm_rshd",
  "pstm_zero",
  "pstm_clamp"
 ],
 "replace": [
  "pstm_grow"
 ],
 "mode": "proof",
 "why_proof": "the loop of pstm_div_2d and the loops of the inlined pstm_copy, pstm_rshd, pstm_zero, pstm_clamp are closed by in-place loop contracts (hook H1): every digit count up to PSTM_MAX_SIZE, every 16-bit signed bit count; pstm_grow is replaced by its contract (enforced in unit grow)",
 "loop_contracts": true,
 "object_bits": 8,
 "cases": [
  {
   "name": "distinct",
   "defs": []
  },
  {
   "name": "alias_ca",
   "defs": [
    "ALIAS_CA=1"
   ]
  }
 ],
 "native_replay": false,
 "timeout": 600,
 "tier": "quick"
}
@*/
/* C13.div_2d  c = a / 2^b with d == NULL (every call site in the library passes NULL; the remainder
 * half is pstm_mod_2d, unit mod_2d) for all digit counts: representation invariant, no stale
 * high digits, result length.  alias_ca is the in-place form used by pstm_to_unsigned_bin. */
#include "c13.h"
#define C13_GROW_CONTRACT_ONLY
#include "grow.c"
#ifdef ALIAS_CA
# define g_c g_a
#endif
static int16_t g_n;
#define NDIGS (g_n / DIGIT_BIT)

#define POSTS(P) \
    P(ret_is_ok_or_mem, RET == PSTM_OKAY || RET == PS_MEM_FAIL) \
    P(ok_result_wf, IMPLIES(RET == PSTM_OKAY, WF(g_c))) \
    P(ok_no_stale_high_digits, IMPLIES(RET == PSTM_OKAY, ZH(g_c))) \
    P(ok_nonpositive_count_copies, IMPLIES(RET == PSTM_OKAY && g_n <= 0, g_c.used == OLD(g_a, used) && IMPLIES(g_k < g_c.used, g_c.dp[g_k] == g_a.dp[g_k]))) \
    P(ok_quotient_length, IMPLIES(RET == PSTM_OKAY && g_n > 0, g_c.used <= (OLD(g_a, used) > NDIGS ? OLD(g_a, used) - NDIGS : 0))) \
    P(ok_sign_of_a_unless_zero, IMPLIES(RET == PSTM_OKAY && g_c.used != 0, g_c.sign == OLD(g_a, sign))) \
    P(error_leaves_result_safe, IMPLIES(RET != PSTM_OKAY, SAFE(g_c)))

int32_t pstm_div_2d(psPool_t *pool, const pstm_int *a, int16_t b, pstm_int *c, pstm_int *d)
__CPROVER_requires(a == &g_a && c == &g_c && b == g_n && d == NULL && pool == NULL)
__CPROVER_requires(WF(g_a) && WF(g_c) && ZH(g_c))
POSTS(ENSURES_CLAUSE)
CANARY_CLAUSE(__CPROVER_return_value != PSTM_OKAY || g_c.used != 2 || g_n != 70)
__CPROVER_assigns(g_c.dp, g_c.alloc, g_c.used, g_c.sign, __CPROVER_object_whole(g_c.dp))
__CPROVER_frees(g_c.dp)
;

#include "crypto/math/pstm.c"

struct __attribute__((packed)) inputs { struct opnd a, c; int16_t n; uint16_t k; };
#ifndef NATIVE_REPLAY
struct inputs nondet_in(void);
#endif

HARNESS_BEGIN
    HARNESS_INPUTS(struct inputs, in);
    int32_t vr_ret;
    MK_OPND(g_a, in.a);
#ifndef ALIAS_CA
    MK_OPND(g_c, in.c);
#endif
    g_n = in.n;
    g_k = in.k;
    vr_ret = pstm_div_2d(NULL, &g_a, g_n, &g_c, NULL);
    (void) vr_ret;
HARNESS_END
