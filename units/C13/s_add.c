/*@UNIT
{
  "property": "C13",
  "unit": "s_add",
  "function": "s_pstm_add",
  "source": "crypto/math/pstm.c",
  "keep_bodies": ["pstm_clamp"],
  "replace": ["pstm_grow"],
  "mode": "proof",
  "why_proof": "both loops of s_pstm_add and the loop of pstm_clamp are closed by in-place loop contracts (hook H1): every digit count up to PSTM_MAX_SIZE; pstm_grow is replaced by its contract (enforced in unit grow)",
  "loop_contracts": true,
  "object_bits": 7,
  "cases": [{"name": "distinct", "defs": []}, {"name": "alias_ca", "defs": ["ALIAS_CA=1"]}, {"name": "alias_cb", "defs": ["ALIAS_CB=1"]},
            {"name": "alias_ab", "defs": ["ALIAS_AB=1"]}, {"name": "alias_all", "defs": ["ALIAS_ALL=1"]}],
  "native_replay": false,
  "timeout": 300
}
@*/
/* C13.s_add  magnitude addition c = |a| + |b| for ALL digit counts (F13 lives here).
 *
 * Besides the representation invariant this unit states two consequences of "the exact sum or
 * an error" that need no wide arithmetic and therefore hold for 192 digits as well:
 *   ok_sum_not_shorter_than_operands   |a|+|b| >= max(|a|,|b|), so the result has at least as many digits;
 *   ok_top_carry_not_lost              if both operands have the same length and their top digits alone
 *                                      overflow a digit, the result is one digit longer with top digit 1.
 * A carry out of digit PSTM_MAX_SIZE-1 cannot be stored; the property then demands an error return.
 * error_leaves_result_safe: after an error the result descriptor must still be memory-safe
 * (used <= alloc), because callers pstm_clear() it.
 */
#include "c13.h"
#define C13_GROW_CONTRACT_ONLY
#include "grow.c"
#include "alias3.h"

#define POSTS(P) \
    P(ret_is_ok_or_error_code, RET == PSTM_OKAY || RET == PS_MEM_FAIL || RET == PS_LIMIT_FAIL) \
    P(ok_result_wf, IMPLIES(RET == PSTM_OKAY, WF(g_c))) \
    P(ok_no_stale_high_digits, IMPLIES(RET == PSTM_OKAY, ZH(g_c))) \
    P(ok_sum_at_most_one_digit_longer, IMPLIES(RET == PSTM_OKAY, g_c.used <= OLD_MAXU + 1)) \
    P(ok_sum_not_shorter_than_operands, IMPLIES(RET == PSTM_OKAY, g_c.used >= OLD_MAXU)) \
    P(ok_top_carry_not_lost, IMPLIES(RET == PSTM_OKAY && OLD(g_a, used) == OLD(g_b, used) && OLD(g_a, used) > 0 && ((pstm_word) OLD_TOP(g_a)) + ((pstm_word) OLD_TOP(g_b)) > (pstm_word) PSTM_MASK, g_c.used == OLD(g_a, used) + 1 && g_c.dp[g_c.used - 1] == 1)) \
    P(sign_kept_unless_zero, IMPLIES(RET == PSTM_OKAY && g_c.used != 0, g_c.sign == OLD(g_c, sign))) \
    P(error_leaves_result_safe, IMPLIES(RET != PSTM_OKAY, SAFE(g_c))) \
    P(other_operands_kept, A_KEPT && B_KEPT)

static int32_t s_pstm_add(const pstm_int *a, const pstm_int *b, pstm_int *c)
__CPROVER_requires(a == &g_a && b == &g_b && c == &g_c)
__CPROVER_requires(WF(g_a) && WF(g_b) && WF(g_c) && ZH(g_c))
POSTS(ENSURES_CLAUSE)
CANARY_CLAUSE(__CPROVER_return_value != PSTM_OKAY || g_c.used != 5)
__CPROVER_assigns(g_c.dp, g_c.alloc, g_c.used, g_c.sign, __CPROVER_object_whole(g_c.dp))
__CPROVER_frees(g_c.dp)
;

#include "crypto/math/pstm.c"

struct __attribute__((packed)) inputs { struct opnd a, b, c; uint16_t k; };
#ifndef NATIVE_REPLAY
struct inputs nondet_in(void);
#endif

HARNESS_BEGIN
    HARNESS_INPUTS(struct inputs, in);
    int32_t vr_ret;
    MK_OPND(g_a, in.a);
#if HAVE_B
    MK_OPND(g_b, in.b);
#endif
#if HAVE_C
    MK_OPND(g_c, in.c);
#endif
    g_k = in.k;
    vr_ret = s_pstm_add(&g_a, &g_b, &g_c);
    (void) vr_ret;
HARNESS_END
