#!/usr/bin/env python3
"""summary of a kept work dir: python3 show.py <unit>.<case>"""
import json, sys, collections
d = json.load(open('/verif/.work/C13/%s/cbmc.json' % sys.argv[1]))
for e in d:
    if 'result' in e:
        c = collections.Counter(r['status'] for r in e['result'])
        print(dict(c))
        kinds = collections.Counter(r['property'].rsplit('.', 1)[0].split('.', 1)[-1] for r in e['result'])
        print({k: v for k, v in kinds.items() if k.startswith('loop') or k.startswith('post')})
        for r in e['result']:
            if r['status'] != 'SUCCESS':
                print(' ', r['property'], r['status'], r.get('description'), r.get('sourceLocation', {}).get('line'))
    if e.get('messageType') in ('ERROR',):
        print(e.get('messageText'))
