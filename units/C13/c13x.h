/* Exact-value layer of the bounded C13 units: the mathematical integer denoted by a pstm_int,
 * as a wide two's complement integer.
 *
 *   NDIG   digit-count bound of the operands (quick 4, thorough larger), -DNDIG=..
 *   NCAP   capacity bound of the operands (NDIG + 2): alloc is any value in 1..NCAP, so growth
 *          paths (pstm_grow/realloc) are exercised
 *   wide   signed integer of WBITS = 64 * (NCAP + 3) bits: no operation of a unit can overflow it
 *
 * Under CBMC `wide` is a __CPROVER_bitvector and the operators are the built-in ones; for the
 * native replay it is a small array-of-words implementation (only used to re-evaluate the
 * postconditions on a counterexample, never part of a proof).
 */
#ifndef C13X_H
#define C13X_H
#include <stddef.h>
#ifndef NATIVE_REPLAY
/* Bounded units bind Realloc (osdep_stdlib.h: "#ifndef Realloc ... may be overridden") to a model
   with constant-size blocks: heap objects of symbolic size make the unwound digit loops
   intractable (array theory), constant-size arrays are flattened.  Memory safety past `alloc`
   is the business of the proof-mode units, not of these. */
void *c13_realloc(void *p, size_t n);
void *c13_malloc(size_t n);
void c13_free(void *p);
# define Realloc c13_realloc
# define Malloc c13_malloc
# define Free c13_free
#endif
#include "c13.h"
#ifndef NDIG
# define NDIG 4
#endif
#define NCAP (NDIG + 2)
#ifndef XCAP_MIN
# define XCAP_MIN 0                  /* units whose function allocates a temporary of fixed size raise this (pstm_add_d/sub_d: 8 digits) */
#endif
#define XCAP (NCAP + 2 > XCAP_MIN ? NCAP + 2 : XCAP_MIN)   /* digits per block: every capacity a unit can reach */
#define NSPARE 6
static pstm_digit gx_blk[4][XCAP];   /* digit blocks of the operands a, b, c, d */
static struct { pstm_digit blk[NSPARE][XCAP]; unsigned n; } gx_heap;   /* blocks handed out by the realloc model */
#ifndef NATIVE_REPLAY
_Bool nondet_bool(void);
/* ASSUMED model of realloc: fails, or returns a block distinct from every other one that holds the
   old contents (the old block is not invalidated; use-after-realloc is covered by the proof-mode
   units through the pstm_grow contract) */
void *c13_realloc(void *p, size_t n)
{
    unsigned i;
    pstm_digit *q;
    __CPROVER_assert(n <= XCAP * sizeof(pstm_digit) && gx_heap.n < NSPARE, "realloc model: request within the modelled bounds");
    if (nondet_bool()) { return NULL; }
    q = gx_heap.blk[gx_heap.n];
    gx_heap.n++;
    for (i = 0; i < XCAP; i++) { q[i] = ((pstm_digit *) p)[i]; }
    return q;
}
/* ASSUMED model of malloc: fails, or returns a fresh constant-size block with arbitrary contents; free: no effect */
void *c13_malloc(size_t n)
{
    pstm_digit *q;
    __CPROVER_assert(n <= XCAP * sizeof(pstm_digit) && gx_heap.n < NSPARE, "malloc model: request within the modelled bounds");
    if (nondet_bool()) { return NULL; }
    q = gx_heap.blk[gx_heap.n];
    gx_heap.n++;
    return q;
}
void c13_free(void *p) { (void) p; }
#endif
#define WWORDS (NCAP + 3)
#define WBITS (64 * WWORDS)

#ifndef NATIVE_REPLAY
typedef signed __CPROVER_bitvector[WBITS] wide;
# define W_OF_U64(d) ((wide) (uint64_t) (d))
# define W_ADD(a, b) ((wide) ((a) + (b)))
# define W_SUB(a, b) ((wide) ((a) - (b)))
# define W_NEG(a) ((wide) (-(a)))
# define W_EQ(a, b) ((a) == (b))
# define W_LT(a, b) ((a) < (b))
# define W_SHL(a, n) ((wide) ((a) << (n)))
# define W_SHR(a, n) ((wide) ((a) >> (n)))          /* arithmetic; only applied to non-negative values */
# define W_OR(a, b) ((wide) ((a) | (b)))
# define W_ZERO ((wide) 0)
#else
typedef struct { uint64_t w[WWORDS]; } wide;
static wide W_OF_U64(uint64_t d) { wide r; memset(&r, 0, sizeof r); r.w[0] = d; return r; }
static wide W_ADD(wide a, wide b) { wide r; unsigned __int128 c = 0; int i; for (i = 0; i < WWORDS; i++) { c += (unsigned __int128) a.w[i] + b.w[i]; r.w[i] = (uint64_t) c; c >>= 64; } return r; }
static wide W_NEG(wide a) { wide r; int i; for (i = 0; i < WWORDS; i++) { r.w[i] = ~a.w[i]; } return W_ADD(r, W_OF_U64(1)); }
static wide W_SUB(wide a, wide b) { return W_ADD(a, W_NEG(b)); }
static int W_EQ(wide a, wide b) { return memcmp(&a, &b, sizeof a) == 0; }
static int W_ISNEG(wide a) { return (int) (a.w[WWORDS - 1] >> 63); }
static int W_LT(wide a, wide b) { return W_ISNEG(W_SUB(a, b)); }   /* no overflow: values use < WBITS-64 bits */
static wide W_SHL(wide a, unsigned n) { wide r; int i; memset(&r, 0, sizeof r); for (i = 0; i < WWORDS; i++) { unsigned j = i + n / 64; if (j < WWORDS) { r.w[j] |= a.w[i] << (n % 64); } if ((n % 64) && j + 1 < WWORDS) { r.w[j + 1] |= a.w[i] >> (64 - n % 64); } } return r; }
static wide W_SHR(wide a, unsigned n) { wide r; int i; memset(&r, 0, sizeof r); for (i = 0; i < WWORDS; i++) { int j = i - (int) (n / 64); if (j >= 0) { r.w[j] |= a.w[i] >> (n % 64); } if ((n % 64) && j - 1 >= 0) { r.w[j - 1] |= a.w[i] << (64 - n % 64); } } return r; }
static wide W_OR(wide a, wide b) { wide r; int i; for (i = 0; i < WWORDS; i++) { r.w[i] = a.w[i] | b.w[i]; } return r; }
# define W_ZERO W_OF_U64(0)
#endif

/* |x| : sum of dp[i] * 2^(64 i) over the used digits */
static wide c13_mag(const pstm_int *x)
{
    wide r = W_ZERO;
    int i;
    for (i = 0; i < NCAP + 1; i++)
    {
        if (i < x->used) { r = W_OR(r, W_SHL(W_OF_U64(x->dp[i]), 64 * i)); }
    }
    return r;
}
/* the signed value */
static wide c13_val(const pstm_int *x)
{
    wide m = c13_mag(x);
    return (x->sign == PSTM_NEG) ? W_NEG(m) : m;
}
/* the full invariant of the library, every index: WF and no stale high digit */
static int c13_inv(const pstm_int *x)
{
    int i;
    if (x->alloc > NCAP + 1) { return 0; }       /* (also keeps the evaluation inside the block) */
    if (!WF(*x)) { return 0; }
    for (i = 0; i < NCAP + 1; i++)
    {
        if (i >= x->used && i < x->alloc && x->dp[i] != 0) { return 0; }
    }
    return 1;
}

/* operand of a bounded unit in the input record: scalars and digit contents */
struct __attribute__((packed)) opndx { uint16_t alloc, used; uint8_t sign; uint64_t d[NCAP]; };
/* operand number n (0..3): digits from the input record.  CBMC: constant-size block gx_blk[n], digits at
   indices >= alloc stay arbitrary.  Native replay: heap block of exactly alloc digits (ASAN sees overruns). */
#ifdef NATIVE_REPLAY
# define MK_OPNDX(x, o, n) do { int i_; (x).alloc = (o).alloc; (x).used = (o).used; (x).sign = (o).sign; (x).pool = NULL; \
        __CPROVER_assume((x).alloc >= 1 && (x).alloc <= NCAP); \
        DP_ALLOC(x); for (i_ = 0; i_ < NCAP; i_++) { if (i_ < (x).alloc) { (x).dp[i_] = (o).d[i_]; } } } while (0)
#else
# define MK_OPNDX(x, o, n) do { int i_; (x).alloc = (o).alloc; (x).used = (o).used; (x).sign = (o).sign; (x).pool = NULL; \
        (x).dp = gx_blk[n]; for (i_ = 0; i_ < NCAP; i_++) { if (i_ < (x).alloc) { (x).dp[i_] = (o).d[i_]; } } } while (0)
#endif
/* what a bounded unit may write besides the descriptor of its result */
#define X_ASSIGNS(x) (x).dp, (x).alloc, (x).used, (x).sign, __CPROVER_object_whole((x).dp), gx_heap
/* input domain of a bounded unit: the library invariant, capacity <= NCAP, at most NDIG digits */
#define IN_DOMAIN(x) (c13_inv(&(x)) && (x).alloc <= NCAP && (x).used <= NDIG)
/* a result: the library invariant (its capacity may have grown beyond NCAP by one digit) */
#define OUT_INV(x) ((x).alloc <= NCAP + 1 && c13_inv(&(x)))

#endif
