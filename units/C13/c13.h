/* Shared harness objects and predicates of the C13 (pstm big-integer) units.
 *
 * Representation invariant of a pstm_int x  (crypto/math/pstm.h:149):
 *   WF(x)  :=  1 <= x.alloc <= PSTM_MAX_SIZE (alloc >= 1: pstm_set, pstm_cmp_d and pstm_montgomery_setup access
 *              dp[0] unconditionally, and no caller initialises with size 0), x.dp valid for x.alloc digits (established by the
 *              harness: dp is a heap object of exactly alloc digits, so every access past
 *              alloc is a bounds violation), x.used <= x.alloc, x.sign in {ZPOS, NEG},
 *              clamped (used == 0 or dp[used-1] != 0), used == 0 => sign == ZPOS.
 *   ZH(x)  :=  every digit at an index in [used, alloc) is zero ("no stale high digits";
 *              pstm_cmp_d, pstm_read_unsigned_bin, the comba/montgomery code rely on it).
 *              Universally quantified facts are stated through the ghost index g_k
 *              (an unconstrained input): ZH(x) is  g_k in [used, alloc) => dp[g_k] == 0.
 *              As a *precondition* ZH at the single index g_k is weaker than the
 *              quantified fact, so a proof under it is stronger, not weaker.
 */
#ifndef C13_H
#define C13_H
#include "verif.h"
#include "crypto/cryptoImpl.h"

static pstm_int g_a, g_b, g_c, g_d;
unsigned short ps_verif_k;           /* ghost index into a digit array (declared by hook H0, psverif.h) */
#define g_k ps_verif_k

#define WF(x) ((x).alloc >= 1 && (x).alloc <= PSTM_MAX_SIZE && (x).used <= (x).alloc && (x).sign <= 1 && \
               ((x).used == 0 || (x).dp[(x).used - 1] != 0) && ((x).used != 0 || (x).sign == PSTM_ZPOS))
/* always-valid digit indices for snapshots (no ?: inside __CPROVER_old): i if allocated else 0; used-1 if that is an allocated index, else 0.
   Valid because WF includes alloc >= 1. */
#define IDX_OR_0(x, i) ((i) * ((i) < (x)->alloc))
#define TOP_IDX(x) (((x)->used - 1) * ((x)->used > 0 && (x)->used <= (x)->alloc))
#define OLDV(e) __CPROVER_old(e)        /* old value of an arbitrary expression (contracts on parameters) */
/* memory-safe descriptor without the clamp/sign part of WF (state of an error return, input of pstm_clamp/pstm_zero) */
#define SAFE(x) ((x).alloc >= 1 && (x).alloc <= PSTM_MAX_SIZE && (x).used <= (x).alloc && (x).sign <= 1)
#define SAME_DESC(x) ((x).used == OLD(x, used) && (x).sign == OLD(x, sign) && (x).alloc == OLD(x, alloc) && (x).dp == OLD(x, dp))
#define ZH(x) IMPLIES(g_k >= (x).used && g_k < (x).alloc, (x).dp[g_k] == 0)

/* scalar part of an operand in the input record */
struct __attribute__((packed)) opnd { uint16_t alloc, used; uint8_t sign; };

#ifdef NATIVE_REPLAY
# define DP_ALLOC(x) do { (x).dp = (pstm_digit *) calloc((x).alloc ? (x).alloc : 1, sizeof(pstm_digit)); } while (0)
#else
/* heap object of exactly alloc digits; CBMC's malloc leaves the contents nondeterministic */
/* (allocation failure of the harness' own operand is not a case of the property) */
# define DP_ALLOC(x) do { (x).dp = (pstm_digit *) malloc((x).alloc * sizeof(pstm_digit)); __CPROVER_assume((x).dp != NULL); } while (0)
#endif
/* proof-mode operands: scalars from `in`, digit contents nondeterministic (heap) */
#define MK_OPND(x, o) do { (x).alloc = (o).alloc; (x).used = (o).used; (x).sign = (o).sign; (x).pool = NULL; DP_ALLOC(x); } while (0)

#endif
