/*@UNIT
{
  "property": "C13",
  "properties": ["C19"],
  "unit": "read_radix_errors",
  "function": "pstm_read_radix",
  "source": "crypto/math/pstm.c",
  "plain": true,
  "frame_check": "none: harness-checked contract (VERIF_PLAIN_CONTRACT, DESIGN 9.2)",
  "keep_bodies": ["pstm_zero", "pstm_iszero"],
  "replace_calls": ["pstm_mul_d:model_pstm_mul_d", "pstm_add_d:model_pstm_add_d"],
  "assumed": ["pstm_mul_d, pstm_add_d (model bodies, calls redirected with goto-instrument --replace-calls: count the calls, record the digit, verdict of each call chosen by the input - both can fail when the result needs a digit more than is allocated; the exact-value contract of pstm_add_d is unit add_d_exact, pstm_mul_d is not under an exact contract)"],
  "mode": "bounded",
  "bounds": "strings of at most 4 characters (every content, every radix); what is decided is error propagation and the digit sequence handed to the arithmetic, not the value",
  "unwind": 66,
  "unwindset": ["pstm_read_radix.1:8"],
  "native_replay": false,
  "object_bits": 10,
  "timeout": 300
}
@*/
/* C13 / C19  pstm_read_radix turns the curve constants (prime, order, A, B, base point; ecc_curve_data.c) into
 * big integers before every ECC operation.  "val(a) is the number the string denotes, or an error": the only
 * way it can go wrong is that one of its multiply-by-radix / add-digit steps fails (allocation of another
 * digit) - then the function must not answer PS_SUCCESS with a number that lost a digit. */
#define VERIF_PLAIN_CONTRACT
#include "verif.h"
#include "crypto/cryptoImpl.h"

#define LEN 4
struct __attribute__((packed)) inputs { uint8_t len, radix; char s[LEN]; uint8_t mul_fail[LEN], add_fail[LEN]; };
static struct inputs g_in;
static pstm_int g_a;
static pstm_digit g_dp[4];
static char g_buf[LEN + 1];
static struct { unsigned mul, add, failed; pstm_digit d[LEN]; } gh;

int32_t model_pstm_mul_d(const pstm_int *a, const pstm_digit b, pstm_int *c)
{
    unsigned k = gh.mul++;
    if (k < LEN && g_in.mul_fail[k]) { gh.failed = 1; return PS_MEM_FAIL; }
    return PSTM_OKAY;
}
int32_t model_pstm_add_d(psPool_t *pool, const pstm_int *a, pstm_digit b, pstm_int *c)
{
    unsigned k = gh.add++;
    if (k < LEN) { gh.d[k] = b; }
    if (k < LEN && g_in.add_fail[k]) { gh.failed = 1; return PS_MEM_FAIL; }
    return PSTM_OKAY;
}

#define OK (RET == PS_SUCCESS)
#define POSTS(P) \
    P(C19_failed_arithmetic_step_is_reported,    IMPLIES(gh.failed, RET < 0)) \
    P(every_digit_is_multiplied_in_and_added_once, IMPLIES(OK, gh.mul == gh.add && gh.add <= g_in.len)) \
    P(digits_go_in_from_the_most_significant_end, IMPLIES(OK && g_in.radix == 16 && g_in.len >= 2 && g_in.s[0] == '1' && g_in.s[1] == 'F', gh.add >= 2 && gh.d[0] == 1 && gh.d[1] == 15))

int32_t pstm_read_radix(psPool_t *pool, pstm_int *a, const char *buf, psSize_t len, uint8_t radix)
__CPROVER_requires(pool == NULL && a == &g_a && buf == g_buf && len == g_in.len && len >= 1 && len <= LEN && radix == g_in.radix)
POSTS(ENSURES_CLAUSE)
__CPROVER_assigns(gh, g_a, __CPROVER_object_whole(g_dp))
;

#include "crypto/math/pstm.c"

struct inputs nondet_in(void);

HARNESS_BEGIN
    HARNESS_INPUTS(struct inputs, in);
    int32_t vr_ret;
    unsigned i;
    __CPROVER_assume(in.len >= 1 && in.len <= LEN);    /* callers pass the length of a non-empty constant */
    g_in = in;
    for (i = 0; i < LEN; i++) { g_buf[i] = in.s[i]; }
    g_buf[LEN] = 0;
    g_a.dp = g_dp; g_a.alloc = 4; g_a.used = 0; g_a.sign = PSTM_ZPOS; g_a.pool = NULL;
    Memset(&gh, 0, sizeof(gh));
    vr_ret = pstm_read_radix(NULL, &g_a, g_buf, in.len, in.radix);
    POSTS(NATIVE_CHECK)
#ifdef CANARY
    PLAIN_ASSERT(CANARY, vr_ret != PS_SUCCESS || gh.add < 2)
#endif
HARNESS_END
