/*@UNIT
{
  "property": "C13",
  "unit": "cmp_d",
  "function": "pstm_cmp_d",
  "source": "crypto/math/pstm.c",
  "mode": "proof",
  "why_proof": "loop-free",
  "loop_contracts": true,
  "object_bits": 7,
  "native_replay": false,
  "timeout": 300
}
@*/
/* C13.cmp_d  comparison with a single digit, EXACT for all digit counts (the value of a
 * multi-digit a exceeds every digit): no side effect; requires the full invariant incl.
 * "digits above used are zero" at index 0, because the code reads dp[0] of the integer 0. */
#include "c13.h"

#define POSTS(P) \
    P(ret_is_lt_eq_gt, RET == PSTM_LT || RET == PSTM_EQ || RET == PSTM_GT) \
    P(negative_is_less, IMPLIES(g_a.sign == PSTM_NEG, RET == PSTM_LT)) \
    P(zero_against_digit, IMPLIES(g_a.used == 0, RET == (g_b_digit == 0 ? PSTM_EQ : PSTM_LT))) \
    P(multi_digit_nonnegative_is_greater, IMPLIES(g_a.sign == PSTM_ZPOS && g_a.used > 1, RET == PSTM_GT)) \
    P(one_digit_exact, IMPLIES(g_a.sign == PSTM_ZPOS && g_a.used == 1, RET == (g_a.dp[0] > g_b_digit ? PSTM_GT : (g_a.dp[0] < g_b_digit ? PSTM_LT : PSTM_EQ))))

static pstm_digit g_b_digit;

int32_t pstm_cmp_d(const pstm_int *a, pstm_digit b)
__CPROVER_requires(a == &g_a && b == g_b_digit)
__CPROVER_requires(WF(g_a))
/* no stale high digits, needed at index 0 only (instance of ZH) */
__CPROVER_requires(IMPLIES(g_a.used == 0, g_a.dp[0] == 0))
POSTS(ENSURES_CLAUSE)
CANARY_CLAUSE(__CPROVER_return_value != PSTM_EQ)
__CPROVER_assigns()
;

#include "crypto/math/pstm.c"

struct __attribute__((packed)) inputs { struct opnd a; uint64_t b; };
#ifndef NATIVE_REPLAY
struct inputs nondet_in(void);
#endif

HARNESS_BEGIN
    HARNESS_INPUTS(struct inputs, in);
    int32_t vr_ret;
    MK_OPND(g_a, in.a);
    g_b_digit = in.b;
    vr_ret = pstm_cmp_d(&g_a, g_b_digit);
    (void) vr_ret;
    POSTS(NATIVE_CHECK)
HARNESS_END
