/*@UNIT
{
 "property": "C13",
 "unit": "sub_exact",
 "function": "pstm_sub",
 "source": "crypto/math/pstm.c",
 "keep_bodies": [
  "s_pstm_add",
  "pstm_sub_s",
  "pstm_cmp_mag",
  "pstm_clamp",
  "pstm_grow"
 ],
 "assumed": [
  "realloc (model c13_realloc in c13x.h: NULL, or a distinct constant-size block holding the old contents)"
 ],
 "replace": [],
 "mode": "bounded",
 "bounds": "operands of at most NDIG digits (quick 3 = 192 bit, thorough 4 = 256 bit), capacities 1..NDIG+2, every digit value, every sign, every aliasing",
 "defs_quick": [
  "NDIG=3"
 ],
 "defs_thorough": [
  "NDIG=4"
 ],
 "unwind_quick": 10,
 "unwind_thorough": 11,
 "object_bits": 8,
 "solver": "cadical",
 "cases": [
  {
   "name": "distinct",
   "defs": []
  },
  {
   "name": "alias_ca",
   "defs": [
    "ALIAS_CA=1"
   ]
  },
  {
   "name": "alias_cb",
   "defs": [
    "ALIAS_CB=1"
   ],
   "tier": "thorough"
  },
  {
   "name": "alias_ab",
   "defs": [
    "ALIAS_AB=1"
   ],
   "tier": "parked",
   "parked_reason": "with a and b the same object the result is always 0 and the must-fail clause of the unit cannot fail: the vacuity check reports the case, it is not run"
  },
  {
   "name": "alias_all",
   "defs": [
    "ALIAS_ALL=1"
   ],
   "tier": "parked",
   "parked_reason": "with a and b the same object the result is always 0 and the must-fail clause of the unit cannot fail: the vacuity check reports the case, it is not run"
  }
 ],
 "native_replay": true,
 "timeout": 900
}
@*/
/* C13.sub_exact  val(c) == val(a - b) as mathematical integers (wide two's complement spec),
 * for every operand pair of at most NDIG digits, every sign combination and every aliasing of
 * c, a, b; the result satisfies the full library invariant (clamped, sign of zero, no stale
 * digit above used at ANY index).  Loops are unwound (no loop contracts in this unit).
 * pstm_grow keeps its real body here (an aliased result that grows must keep every digit and the
 * grow contract speaks about one); realloc is the assumed model of c13x.h. */
#include "c13x.h"
#include "alias3.h"

static wide gh_va, gh_vb;       /* ghost: the operand values before the call */

#define POSTS(P) \
    P(ret_is_ok_or_mem, RET == PSTM_OKAY || RET == PS_MEM_FAIL) \
    P(ok_exact_value, IMPLIES(RET == PSTM_OKAY, W_EQ(c13_val(&g_c), W_SUB(gh_va, gh_vb)))) \
    P(ok_library_invariant, IMPLIES(RET == PSTM_OKAY, OUT_INV(g_c))) \
    P(error_only_when_growth_needed, IMPLIES(RET != PSTM_OKAY, g_c.alloc <= NDIG))

int32_t pstm_sub(const pstm_int *a, const pstm_int *b, pstm_int *c)
__CPROVER_requires(a == &g_a && b == &g_b && c == &g_c)
__CPROVER_requires(IN_DOMAIN(g_a) && IN_DOMAIN(g_b) && IN_DOMAIN(g_c))
POSTS(ENSURES_CLAUSE)
CANARY_CLAUSE(__CPROVER_return_value != PSTM_OKAY || g_c.used != 2)
__CPROVER_assigns(X_ASSIGNS(g_c))
;

#include "crypto/math/pstm.c"

struct __attribute__((packed)) inputs { struct opndx a, b, c; uint16_t k; };
#ifndef NATIVE_REPLAY
struct inputs nondet_in(void);
#endif

HARNESS_BEGIN
    HARNESS_INPUTS(struct inputs, in);
    int32_t vr_ret;
    MK_OPNDX(g_a, in.a, 0);
#if HAVE_B
    MK_OPNDX(g_b, in.b, 1);
#endif
#if HAVE_C
    MK_OPNDX(g_c, in.c, 2);
#endif
    g_k = in.k;
    gx_heap.n = 0;
#ifdef NATIVE_REPLAY
    __CPROVER_assume(IN_DOMAIN(g_a) && IN_DOMAIN(g_b) && IN_DOMAIN(g_c));
#endif
    gh_va = c13_val(&g_a);
    gh_vb = c13_val(&g_b);
    vr_ret = pstm_sub(&g_a, &g_b, &g_c);
    POSTS(NATIVE_CHECK)
HARNESS_END
