/*@UNIT
{
 "property": "C13",
 "unit": "mul_2d",
 "function": "pstm_mul_2d",
 "source": "crypto/math/pstm.c",
 "keep_bodies": [
  "pstm_copy",
  "pstm_lshd",
  "pstm_clamp"
 ],
 "replace": [
  "pstm_grow"
 ],
 "mode": "proof",
 "why_proof": "the loop of pstm_mul_2d and the loops of the inlined pstm_copy, pstm_lshd, pstm_clamp are closed by in-place loop contracts (hook H1): every digit count up to PSTM_MAX_SIZE, every non-negative 15-bit shift count; pstm_grow is replaced by its contract (enforced in unit grow)",
 "loop_contracts": true,
 "object_bits": 8,
 "cases": [
  {
   "name": "distinct",
   "defs": []
  },
  {
   "name": "alias_ca",
   "defs": [
    "ALIAS_CA=1"
   ]
  }
 ],
 "native_replay": false,
 "timeout": 600,
 "tier": "thorough"
}
@*/
/* C13.mul_2d  c = a * 2^b (bit shift left; static, used by pstm_read_unsigned_bin and pstm_div) for all
 * digit counts: representation invariant, no stale high digits, result length, and - the analogue
 * of F13 - the bits shifted out of the top digit must arrive in a new top digit or an error must
 * be reported.  b >= 0 is required (every caller passes a positive constant or a normalisation
 * count in 0..63; a negative count would be an undefined shift).  "0 * 2^b == 0" needs every digit
 * and is left to the bounded unit shift_exact. */
#include "c13.h"
#define C13_GROW_CONTRACT_ONLY
#include "grow.c"
#ifdef ALIAS_CA
# define g_c g_a
#endif
static int16_t g_n;
#define OLD_TOP(x) OLD(x, dp[((x).used - 1) * ((x).used > 0)])
#define NBIT (g_n % DIGIT_BIT)
#define NDIGS (g_n / DIGIT_BIT)
#define SPILL (OLD_TOP(g_a) >> ((DIGIT_BIT - NBIT) % DIGIT_BIT))

#define POSTS(P) \
    P(ret_is_ok_or_error_code, RET == PSTM_OKAY || RET == PS_MEM_FAIL || RET == PS_LIMIT_FAIL) \
    P(limit_error_only_when_the_result_cannot_fit, IMPLIES(RET == PS_LIMIT_FAIL, OLD(g_a, used) + NDIGS + 1 > PSTM_MAX_SIZE)) /* the result would need more than PSTM_MAX_SIZE digits (fixes 414fac1, 4a77cad report this instead of dropping the carry) */ \
    P(ok_result_wf, IMPLIES(RET == PSTM_OKAY, WF(g_c))) \
    P(ok_no_stale_high_digits, IMPLIES(RET == PSTM_OKAY, ZH(g_c))) \
    P(ok_length_without_spill, IMPLIES(RET == PSTM_OKAY && OLD(g_a, used) != 0 && (NBIT == 0 || SPILL == 0), g_c.used == OLD(g_a, used) + NDIGS)) \
    P(ok_spilled_bits_not_lost, IMPLIES(RET == PSTM_OKAY && OLD(g_a, used) != 0 && NBIT != 0 && SPILL != 0, g_c.used == OLD(g_a, used) + NDIGS + 1 && g_c.dp[g_c.used - 1] == SPILL)) \
    P(ok_sign_of_a_unless_zero, IMPLIES(RET == PSTM_OKAY && g_c.used != 0, g_c.sign == OLD(g_a, sign))) \
    P(error_leaves_result_safe, IMPLIES(RET != PSTM_OKAY, SAFE(g_c)))

static int32_t pstm_mul_2d(const pstm_int *a, int16_t b, pstm_int *c)
__CPROVER_requires(a == &g_a && c == &g_c && b == g_n && g_n >= 0)
__CPROVER_requires(WF(g_a) && WF(g_c) && ZH(g_c))
POSTS(ENSURES_CLAUSE)
CANARY_CLAUSE(__CPROVER_return_value != PSTM_OKAY || g_c.used != 5 || g_n != 70)
__CPROVER_assigns(g_c.dp, g_c.alloc, g_c.used, g_c.sign, __CPROVER_object_whole(g_c.dp))
__CPROVER_frees(g_c.dp)
;

#include "crypto/math/pstm.c"

struct __attribute__((packed)) inputs { struct opnd a, c; int16_t n; uint16_t k; };
#ifndef NATIVE_REPLAY
struct inputs nondet_in(void);
#endif

HARNESS_BEGIN
    HARNESS_INPUTS(struct inputs, in);
    int32_t vr_ret;
    MK_OPND(g_a, in.a);
#ifndef ALIAS_CA
    MK_OPND(g_c, in.c);
#endif
    g_n = in.n;
    g_k = in.k;
    vr_ret = pstm_mul_2d(&g_a, g_n, &g_c);
    (void) vr_ret;
HARNESS_END
