/*@UNIT
{
  "property": "C13",
  "unit": "mod_2d",
  "function": "pstm_mod_2d",
  "source": "crypto/math/pstm.c",
  "keep_bodies": ["pstm_copy", "pstm_zero", "pstm_clamp"],
  "replace": ["pstm_grow"],
  "mode": "proof",
  "why_proof": "the loop of pstm_mod_2d and the loops of the inlined pstm_copy, pstm_zero, pstm_clamp are closed by in-place loop contracts (hook H1): every digit count up to PSTM_MAX_SIZE, every 16-bit signed bit count; pstm_grow is replaced by its contract (enforced in unit grow)",
  "loop_contracts": true,
  "object_bits": 8,
  "cases": [{"name": "distinct", "defs": []}, {"name": "alias_ca", "defs": ["ALIAS_CA=1"]}, {"name": "distinct_count_le_64", "defs": ["COUNT_LE_DIGIT=1"]}],
  "native_replay": false,
  "timeout": 600
}
@*/
/* C13.mod_2d  c = a mod 2^b (static, the remainder half of pstm_div_2d) for all digit counts and every
 * bit count: representation invariant, no stale high digits, result length bounded by the modulus,
 * no undefined behaviour.
 * ok_remainder_fits_modulus is stated for the ghost index g_k == used-1 of the RESULT: the code never
 * reads the ghost, so the result does not depend on it, and the clause for every g_k is the
 * unconditional clause (the zeroing loop is only known to have cleared digit g_k). */
#include "c13.h"
#define C13_GROW_CONTRACT_ONLY
#include "grow.c"
#ifdef ALIAS_CA
# define g_c g_a
#endif
static int16_t g_n;
#ifdef COUNT_LE_DIGIT          /* the bit counts for which the mask expression is a defined shift */
# define COUNT_DOMAIN (g_n <= DIGIT_BIT)
#else
# define COUNT_DOMAIN 1
#endif
#define MOD_DIGITS ((g_n + DIGIT_BIT - 1) / DIGIT_BIT)

#define POSTS(P) \
    P(ret_is_ok_or_mem, RET == PSTM_OKAY || RET == PS_MEM_FAIL) \
    P(ok_result_wf, IMPLIES(RET == PSTM_OKAY, WF(g_c))) \
    P(ok_no_stale_high_digits, IMPLIES(RET == PSTM_OKAY, ZH(g_c))) \
    P(ok_nonpositive_count_gives_zero, IMPLIES(RET == PSTM_OKAY && g_n <= 0, g_c.used == 0)) \
    P(ok_remainder_fits_modulus, IMPLIES(RET == PSTM_OKAY && g_n > 0 && g_c.used > 0 && g_k == g_c.used - 1, g_c.used <= OLD(g_a, used) && g_c.used <= MOD_DIGITS && IMPLIES(g_c.used == MOD_DIGITS && g_n % DIGIT_BIT != 0, (g_c.dp[g_c.used - 1] >> (g_n % DIGIT_BIT)) == 0))) \
    P(ok_sign_of_a_unless_zero, IMPLIES(RET == PSTM_OKAY && g_c.used != 0, g_c.sign == OLD(g_a, sign))) \
    P(error_leaves_result_safe, IMPLIES(RET != PSTM_OKAY, SAFE(g_c)))

static int32_t pstm_mod_2d(const pstm_int *a, int16_t b, pstm_int *c)
__CPROVER_requires(a == &g_a && c == &g_c && b == g_n && COUNT_DOMAIN)
__CPROVER_requires(WF(g_a) && WF(g_c) && ZH(g_c))
POSTS(ENSURES_CLAUSE)
CANARY_CLAUSE(__CPROVER_return_value != PSTM_OKAY || g_c.used != 1 || g_n != 40)
__CPROVER_assigns(g_c.dp, g_c.alloc, g_c.used, g_c.sign, __CPROVER_object_whole(g_c.dp))
__CPROVER_frees(g_c.dp)
;

#include "crypto/math/pstm.c"

struct __attribute__((packed)) inputs { struct opnd a, c; int16_t n; uint16_t k; };
#ifndef NATIVE_REPLAY
struct inputs nondet_in(void);
#endif

HARNESS_BEGIN
    HARNESS_INPUTS(struct inputs, in);
    int32_t vr_ret;
    MK_OPND(g_a, in.a);
#ifndef ALIAS_CA
    MK_OPND(g_c, in.c);
#endif
    g_n = in.n;
    g_k = in.k;
    vr_ret = pstm_mod_2d(&g_a, g_n, &g_c);
    (void) vr_ret;
HARNESS_END
