/*@UNIT
{
 "property": "C13",
 "unit": "to_bin_exact",
 "function": "pstm_to_unsigned_bin",
 "source": "crypto/math/pstm.c",
 "keep_bodies": [
  "pstm_init_copy",
  "pstm_init_size",
  "pstm_copy",
  "pstm_div_2d",
  "pstm_rshd",
  "pstm_zero",
  "pstm_clamp",
  "pstm_reverse",
  "pstm_clear",
  "pstm_grow"
 ],
 "assumed": [
  "malloc / realloc / free (models c13_malloc, c13_realloc, c13_free in c13x.h: NULL or a distinct constant-size block; free has no effect)"
 ],
 "mode": "bounded",
 "bounds": "operand of at most NDIG digits (quick 2 = 16 bytes, thorough 3), every digit value and sign",
 "defs_quick": [
  "NDIG=2"
 ],
 "defs_thorough": [
  "NDIG=3"
 ],
 "unwind_quick": 8,
 "unwind_thorough": 9,
 "unwindset_quick": [
  "pstm_to_unsigned_bin_wrapped_for_contract_checking.0:18",
  "pstm_reverse.0:10",
  "harness.1:20",
  "harness.2:18",
  "out_value.0:20"
 ],
 "unwindset_thorough": [
  "pstm_to_unsigned_bin_wrapped_for_contract_checking.0:26",
  "pstm_reverse.0:14",
  "harness.1:28",
  "harness.2:26",
  "out_value.0:28"
 ],
 "object_bits": 8,
 "native_replay": true,
 "timeout": 600,
 "tier": "parked",
 "parked_reason": "SAT solver out of memory (thorough-only unit)"
}
@*/
/* C13.to_bin_exact  export: pstm_to_unsigned_bin(a, b) writes the big-endian bytes of |a| into
 * b[0..size) with size = ceil(bits(a)/8) (what pstm_unsigned_bin_size announces), writes nothing
 * beyond, and leaves a untouched - or reports an error. */
#include "c13x.h"
#define OUTN (8 * NDIG + 2)
static unsigned char g_out[OUTN];
static wide gh_ma;
static uint16_t gh_size;        /* ghost: ceil(bits(a)/8), computed by the harness from the digits */
static wide gh_vout;            /* value of the first gh_size output bytes, computed by out_value() */
static wide out_value(void)
{
    wide v = W_ZERO; int i;
    for (i = 0; i < OUTN; i++) { if (i < gh_size) { v = W_OR(W_SHL(v, 8), W_OF_U64(g_out[i])); } }
    return v;
}

#define POSTS(P) \
    P(ret_is_ok_or_mem, RET == PS_SUCCESS || RET == PS_MEM_FAIL) \
    P(ok_exact_bytes, IMPLIES(RET == PS_SUCCESS, W_EQ(out_value(), gh_ma))) \
    P(ok_no_leading_zero_byte, IMPLIES(RET == PS_SUCCESS && gh_size > 0, g_out[0] != 0)) \
    P(nothing_written_beyond_size, IMPLIES(g_k < OUTN && g_k >= gh_size, g_out[g_k] == 0xA5)) \
    P(operand_untouched, W_EQ(c13_mag(&g_a), gh_ma))

int32_t pstm_to_unsigned_bin(psPool_t *pool, const pstm_int *a, unsigned char *b)
__CPROVER_requires(a == &g_a && b == g_out && pool == NULL)
__CPROVER_requires(IN_DOMAIN(g_a))
POSTS(ENSURES_CLAUSE)
CANARY_CLAUSE(__CPROVER_return_value != PS_SUCCESS || gh_size != 9)
__CPROVER_assigns(__CPROVER_object_whole(g_out), gx_heap)
;

#include "crypto/math/pstm.c"

struct __attribute__((packed)) inputs { struct opndx a; uint16_t k; };
#ifndef NATIVE_REPLAY
struct inputs nondet_in(void);
#endif

HARNESS_BEGIN
    HARNESS_INPUTS(struct inputs, in);
    int32_t vr_ret;
    int i;
    MK_OPNDX(g_a, in.a, 0);
    g_k = in.k;
    gx_heap.n = 0;
#ifdef NATIVE_REPLAY
    __CPROVER_assume(IN_DOMAIN(g_a));
#endif
    for (i = 0; i < OUTN; i++) { g_out[i] = 0xA5; }
    gh_ma = c13_mag(&g_a);
    /* size in bytes of the magnitude: smallest s with |a| < 2^(8 s) */
    gh_size = 0;
    for (i = 0; i < 8 * NDIG; i++) { if (!W_EQ(W_SHR(gh_ma, 8 * i), W_ZERO)) { gh_size = (uint16_t) (i + 1); } }
    vr_ret = pstm_to_unsigned_bin(NULL, &g_a, g_out);
    POSTS(NATIVE_CHECK)
HARNESS_END
