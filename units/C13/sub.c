/*@UNIT
{
 "property": "C13",
 "unit": "sub",
 "function": "pstm_sub",
 "source": "crypto/math/pstm.c",
 "keep_bodies": [
  "s_pstm_add",
  "pstm_sub_s",
  "pstm_cmp_mag",
  "pstm_clamp"
 ],
 "replace": [
  "pstm_grow"
 ],
 "mode": "proof",
 "why_proof": "every loop of the inlined s_pstm_add, pstm_sub_s, pstm_cmp_mag and pstm_clamp is closed by an in-place loop contract (hook H1): every digit count up to PSTM_MAX_SIZE; pstm_grow is replaced by its contract (enforced in unit grow)",
 "loop_contracts": true,
 "object_bits": 8,
 "cases": [
  {
   "name": "distinct",
   "defs": []
  },
  {
   "name": "alias_ca",
   "defs": [
    "ALIAS_CA=1"
   ]
  },
  {
   "name": "alias_cb",
   "defs": [
    "ALIAS_CB=1"
   ],
   "tier": "thorough"
  },
  {
   "name": "alias_ab",
   "defs": [
    "ALIAS_AB=1"
   ],
   "tier": "thorough"
  },
  {
   "name": "alias_all",
   "defs": [
    "ALIAS_ALL=1"
   ],
   "tier": "thorough"
  }
 ],
 "native_replay": false,
 "timeout": 900,
 "tier": "thorough"
}
@*/
/* C13.sub  signed c = a - b for ALL digit counts and every aliasing of the operands: memory safety,
 * representation invariant, no stale high digits, never the "longer subtrahend" error of the
 * magnitude subtraction (the magnitude comparison is used correctly), and the consequences of
 * exactness that need no wide arithmetic (see unit s_add): when magnitudes are added the result is
 * not shorter than the longer operand.  The exact value is the bounded unit add_exact. */
#include "c13.h"
#define C13_GROW_CONTRACT_ONLY
#include "grow.c"
#include "alias3.h"

#define MAGS_ADDED (OLD(g_a, sign) != OLD(g_b, sign))
#define POSTS(P) \
    P(ret_is_ok_or_error_code, RET == PSTM_OKAY || RET == PS_MEM_FAIL || RET == PS_LIMIT_FAIL) \
    P(limit_error_only_when_the_result_cannot_fit, IMPLIES(RET == PS_LIMIT_FAIL, OLD_MAXU == PSTM_MAX_SIZE)) /* the result would need more than PSTM_MAX_SIZE digits (fixes 414fac1, 4a77cad report this instead of dropping the carry) */ \
    P(ok_result_wf, IMPLIES(RET == PSTM_OKAY, WF(g_c))) \
    P(ok_no_stale_high_digits, IMPLIES(RET == PSTM_OKAY, ZH(g_c))) \
    P(ok_at_most_one_digit_longer, IMPLIES(RET == PSTM_OKAY, g_c.used <= OLD_MAXU + 1 && IMPLIES(!MAGS_ADDED, g_c.used <= OLD_MAXU))) \
    P(ok_added_magnitudes_not_shorter, IMPLIES(RET == PSTM_OKAY && MAGS_ADDED, g_c.used >= OLD_MAXU)) \
    P(ok_added_magnitudes_take_sign_of_a, IMPLIES(RET == PSTM_OKAY && MAGS_ADDED && g_c.used != 0, g_c.sign == OLD(g_a, sign))) \
    P(error_leaves_result_safe, IMPLIES(RET != PSTM_OKAY, SAFE(g_c))) \
    P(other_operands_kept, A_KEPT && B_KEPT)

int32_t pstm_sub(const pstm_int *a, const pstm_int *b, pstm_int *c)
__CPROVER_requires(a == &g_a && b == &g_b && c == &g_c)
__CPROVER_requires(WF(g_a) && WF(g_b) && WF(g_c) && ZH(g_c))
POSTS(ENSURES_CLAUSE)
CANARY_CLAUSE(__CPROVER_return_value != PSTM_OKAY || g_c.used != 5)
__CPROVER_assigns(g_c.dp, g_c.alloc, g_c.used, g_c.sign, __CPROVER_object_whole(g_c.dp))
__CPROVER_frees(g_c.dp)
;

#include "crypto/math/pstm.c"

struct __attribute__((packed)) inputs { struct opnd a, b, c; uint16_t k; };
#ifndef NATIVE_REPLAY
struct inputs nondet_in(void);
#endif

HARNESS_BEGIN
    HARNESS_INPUTS(struct inputs, in);
    int32_t vr_ret;
    MK_OPND(g_a, in.a);
#if HAVE_B
    MK_OPND(g_b, in.b);
#endif
#if HAVE_C
    MK_OPND(g_c, in.c);
#endif
    g_k = in.k;
    vr_ret = pstm_sub(&g_a, &g_b, &g_c);
    (void) vr_ret;
HARNESS_END
