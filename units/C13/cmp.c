/*@UNIT
{
  "property": "C13",
  "unit": "cmp",
  "function": "pstm_cmp",
  "source": "crypto/math/pstm.c",
  "keep_bodies": ["pstm_cmp_mag"],
  "cases": [{"name": "distinct", "defs": []}, {"name": "alias_ab", "defs": ["ALIAS_AB=1"]}],
  "mode": "proof",
  "why_proof": "pstm_cmp is loop-free; the digit loop of the inlined pstm_cmp_mag is closed by its in-place loop contract (hook H1)",
  "loop_contracts": true,
  "object_bits": 7,
  "native_replay": false,
  "timeout": 300
}
@*/
/* C13.cmp  signed comparison for all digit counts: no side effect, the sign decides first,
 * then the digit count, EQ only for identical sign and digits (ghost index).  The full
 * ordering against the exact integers is the bounded unit cmp_exact. */
#include "c13.h"
#ifdef ALIAS_AB
# define g_b g_a
#endif

#define POSTS(P) \
    P(ret_is_lt_eq_gt, RET == PSTM_LT || RET == PSTM_EQ || RET == PSTM_GT) \
    P(negative_below_nonnegative, IMPLIES(g_a.sign == PSTM_NEG && g_b.sign == PSTM_ZPOS, RET == PSTM_LT) && IMPLIES(g_a.sign == PSTM_ZPOS && g_b.sign == PSTM_NEG, RET == PSTM_GT)) \
    P(nonnegative_longer_is_greater, IMPLIES(g_a.sign == PSTM_ZPOS && g_b.sign == PSTM_ZPOS && g_a.used > g_b.used, RET == PSTM_GT) && IMPLIES(g_a.sign == PSTM_ZPOS && g_b.sign == PSTM_ZPOS && g_a.used < g_b.used, RET == PSTM_LT)) \
    P(negative_longer_is_smaller, IMPLIES(g_a.sign == PSTM_NEG && g_b.sign == PSTM_NEG && g_a.used > g_b.used, RET == PSTM_LT) && IMPLIES(g_a.sign == PSTM_NEG && g_b.sign == PSTM_NEG && g_a.used < g_b.used, RET == PSTM_GT)) \
    P(eq_only_for_identical, IMPLIES(RET == PSTM_EQ, g_a.sign == g_b.sign && g_a.used == g_b.used && IMPLIES(g_k < g_a.used, g_a.dp[g_k] == g_b.dp[g_k]))) \
    P(same_operand_is_equal, IMPLIES(&g_a == &g_b, RET == PSTM_EQ))

int32_t pstm_cmp(const pstm_int *a, const pstm_int *b)
__CPROVER_requires(a == &g_a && b == &g_b)
__CPROVER_requires(WF(g_a) && WF(g_b))
POSTS(ENSURES_CLAUSE)
CANARY_CLAUSE(__CPROVER_return_value != PSTM_EQ || g_a.used < 3)
__CPROVER_assigns()
;

#include "crypto/math/pstm.c"

struct __attribute__((packed)) inputs { struct opnd a, b; uint16_t k; };
#ifndef NATIVE_REPLAY
struct inputs nondet_in(void);
#endif

HARNESS_BEGIN
    HARNESS_INPUTS(struct inputs, in);
    int32_t vr_ret;
    MK_OPND(g_a, in.a);
#ifndef ALIAS_AB
    MK_OPND(g_b, in.b);
#endif
    g_k = in.k;
    vr_ret = pstm_cmp(&g_a, &g_b);
    (void) vr_ret;
    POSTS(NATIVE_CHECK)
HARNESS_END
