/*@UNIT
{
  "property": "C13",
  "unit": "lshd_exact",
  "function": "pstm_lshd",
  "source": "crypto/math/pstm.c",
  "keep_bodies": ["pstm_grow"],
  "assumed": ["realloc (model c13_realloc in c13x.h: NULL, or a distinct constant-size block holding the old contents)"],
  "mode": "bounded",
  "bounds": "operand of at most NDIG digits, shift count with used + b <= NDIG + 2 (quick NDIG 4, thorough 8), every digit value and sign",
  "defs_quick": ["NDIG=4"],
  "defs_thorough": ["NDIG=8"],
  "unwind_quick": 11,
  "unwind_thorough": 15,
  "object_bits": 8,
  "native_replay": true,
  "timeout": 300
}
@*/
/* C13.lshd_exact  a := a * 2^(64 b), exact value and full library invariant (or an error). */
#include "c13x.h"
static uint16_t g_n;
static wide gh_ma; static uint8_t gh_sa;

#define POSTS(P) \
    P(ret_is_ok_or_mem, RET == PSTM_OKAY || RET == PSTM_MEM) \
    P(ok_exact_value, IMPLIES(RET == PSTM_OKAY, W_EQ(c13_mag(&g_a), W_SHL(gh_ma, (unsigned) 64 * g_n)) && g_a.sign == gh_sa)) \
    P(ok_library_invariant, IMPLIES(RET == PSTM_OKAY, g_a.alloc <= XCAP && c13_inv(&g_a)))

int32_t pstm_lshd(pstm_int *a, uint16_t b)
__CPROVER_requires(a == &g_a && b == g_n)
__CPROVER_requires(IN_DOMAIN(g_a) && g_a.used + g_n <= NCAP)
POSTS(ENSURES_CLAUSE)
CANARY_CLAUSE(__CPROVER_return_value != PSTM_OKAY || g_a.used != 3 || g_n != 1)
__CPROVER_assigns(X_ASSIGNS(g_a))
;

#include "crypto/math/pstm.c"

struct __attribute__((packed)) inputs { struct opndx a; uint16_t n; };
#ifndef NATIVE_REPLAY
struct inputs nondet_in(void);
#endif

HARNESS_BEGIN
    HARNESS_INPUTS(struct inputs, in);
    int32_t vr_ret;
    MK_OPNDX(g_a, in.a, 0);
    g_n = in.n;
    gx_heap.n = 0;
#ifdef NATIVE_REPLAY
    __CPROVER_assume(IN_DOMAIN(g_a) && g_a.used + g_n <= NCAP);
#endif
    gh_ma = c13_mag(&g_a); gh_sa = g_a.sign;
    vr_ret = pstm_lshd(&g_a, g_n);
    POSTS(NATIVE_CHECK)
HARNESS_END
