/*@UNIT
{
  "property": "C13",
  "unit": "copy",
  "function": "pstm_copy",
  "source": "crypto/math/pstm.c",
  "replace": ["pstm_grow"],
  "mode": "proof",
  "why_proof": "both loops are closed by in-place loop contracts (hook H1); every used <= alloc <= PSTM_MAX_SIZE",
  "loop_contracts": true,
  "object_bits": 7,
  "cases": [{"name": "distinct", "defs": []}, {"name": "alias_ab", "defs": ["ALIAS_AB=1"]}],
  "native_replay": false,
  "timeout": 300
}
@*/
/* C13.copy  b = a for all digit counts: exact digit-wise copy (ghost index), destination grown
 * when needed (pstm_grow replaced by its contract, enforced in unit grow; allocation may fail), result well-formed with no
 * stale high digits; on allocation failure the destination is untouched. */
#include "c13.h"
#define C13_GROW_CONTRACT_ONLY
#include "grow.c"

#ifdef ALIAS_AB
# define g_b g_a
# define CANARY_COND __CPROVER_return_value != PSTM_OKAY
#else
# define CANARY_COND __CPROVER_return_value != PSTM_OKAY || g_b.alloc == __CPROVER_old(g_b.alloc)
#endif

#define POSTS(P) \
    P(ret_is_ok_or_mem, RET == PSTM_OKAY || RET == PSTM_MEM) \
    P(ok_result_wf, IMPLIES(RET == PSTM_OKAY, WF(g_b))) \
    P(ok_no_stale_high_digits, IMPLIES(RET == PSTM_OKAY, ZH(g_b))) \
    P(ok_exact_copy, IMPLIES(RET == PSTM_OKAY, g_b.used == g_a.used && g_b.sign == g_a.sign && IMPLIES(g_k < g_a.used, g_b.dp[g_k] == g_a.dp[g_k]))) \
    P(ok_capacity_only_grows, IMPLIES(RET == PSTM_OKAY, g_b.alloc >= OLD(g_b, alloc) && g_b.alloc <= PSTM_MAX_SIZE)) \
    P(error_only_when_growth_needed, IMPLIES(RET != PSTM_OKAY, OLD(g_b, alloc) < g_a.used)) \
    P(error_leaves_destination, IMPLIES(RET != PSTM_OKAY, g_b.used == OLD(g_b, used) && g_b.sign == OLD(g_b, sign) && g_b.alloc == OLD(g_b, alloc) && g_b.dp == OLD(g_b, dp))) \
    P(source_descriptor_unchanged, g_a.used == OLD(g_a, used) && g_a.sign == OLD(g_a, sign) && g_a.alloc == OLD(g_a, alloc) && g_a.dp == OLD(g_a, dp))

int32_t pstm_copy(const pstm_int *a, pstm_int *b)
__CPROVER_requires(a == &g_a && b == &g_b)
__CPROVER_requires(WF(g_a) && WF(g_b) && ZH(g_b))
POSTS(ENSURES_CLAUSE)
CANARY_CLAUSE(CANARY_COND)
__CPROVER_assigns(g_b.dp, g_b.alloc, g_b.used, g_b.sign, __CPROVER_object_whole(g_b.dp))
__CPROVER_frees(g_b.dp)
;

#include "crypto/math/pstm.c"

struct __attribute__((packed)) inputs { struct opnd a, b; uint16_t k; };
#ifndef NATIVE_REPLAY
struct inputs nondet_in(void);
#endif
DECL_SNAPSHOT(pstm_int, g_a);
#ifndef ALIAS_AB
DECL_SNAPSHOT(pstm_int, g_b);
#endif

HARNESS_BEGIN
    HARNESS_INPUTS(struct inputs, in);
    int32_t vr_ret;
    MK_OPND(g_a, in.a);
#ifndef ALIAS_AB
    MK_OPND(g_b, in.b);
#endif
    g_k = in.k;
    vr_ret = pstm_copy(&g_a, &g_b);
    (void) vr_ret;
    POSTS(NATIVE_CHECK)
HARNESS_END
