/* aliasing cases of a three-operand function f(a, b, c): selected by -D in the unit's `cases` */
#if defined(ALIAS_CA)
# define g_c g_a
#elif defined(ALIAS_CB)
# define g_c g_b
#elif defined(ALIAS_AB)
# define g_b g_a
#elif defined(ALIAS_ALL)
# define g_b g_a
# define g_c g_a
#endif
#if defined(ALIAS_AB) || defined(ALIAS_ALL)
# define HAVE_B 0
#else
# define HAVE_B 1
#endif
#if defined(ALIAS_CA) || defined(ALIAS_CB) || defined(ALIAS_ALL)
# define HAVE_C 0
#else
# define HAVE_C 1
#endif
/* operands that are not the output keep their descriptor (their digits are protected by the assigns clause) */
#if defined(ALIAS_CA) || defined(ALIAS_ALL)
# define A_KEPT 1
#else
# define A_KEPT SAME_DESC(g_a)
#endif
#if defined(ALIAS_CB) || defined(ALIAS_ALL) || defined(ALIAS_AB)
# define B_KEPT 1
#else
# define B_KEPT SAME_DESC(g_b)
#endif
#define OLD_TOP(x) OLD(x, dp[((x).used - 1) * ((x).used > 0)])
#define OLD_MAXU (OLD(g_a, used) > OLD(g_b, used) ? OLD(g_a, used) : OLD(g_b, used))
#define ALIAS3_CASES
