/*@UNIT
{
  "property": "C13",
  "unit": "zero",
  "function": "pstm_zero",
  "source": "crypto/math/pstm.c",
  "mode": "proof",
  "why_proof": "the digit loop is closed by an in-place loop contract (hook H1), every alloc <= PSTM_MAX_SIZE",
  "loop_contracts": true,
  "object_bits": 7,
  "native_replay": false,
  "timeout": 300
}
@*/
/* C13.zero  pstm_zero: the result is the well-formed integer 0 and every allocated digit is cleared. */
#include "c13.h"

#define POSTS(P) \
    P(is_zero, g_a.used == 0 && g_a.sign == PSTM_ZPOS) \
    P(wf_result, WF(g_a)) \
    P(every_digit_cleared, IMPLIES(g_k < g_a.alloc, g_a.dp[g_k] == 0)) \
    P(storage_kept, g_a.alloc == OLD(g_a, alloc) && g_a.dp == OLD(g_a, dp))

void pstm_zero(pstm_int *a)
__CPROVER_requires(a == &g_a && g_a.alloc >= 1 && g_a.alloc <= PSTM_MAX_SIZE)
POSTS(ENSURES_CLAUSE)
CANARY_CLAUSE(g_a.alloc != 7)
__CPROVER_assigns(g_a.used, g_a.sign, __CPROVER_object_whole(g_a.dp))
;

#include "crypto/math/pstm.c"

struct __attribute__((packed)) inputs { struct opnd a; uint16_t k; };
#ifndef NATIVE_REPLAY
struct inputs nondet_in(void);
#endif
DECL_SNAPSHOT(pstm_int, g_a);

HARNESS_BEGIN
    HARNESS_INPUTS(struct inputs, in);
    MK_OPND(g_a, in.a);
    g_k = in.k;
    SNAPSHOT(g_a);
    pstm_zero(&g_a);
    POSTS(NATIVE_CHECK)
HARNESS_END
