/*@UNIT
{
  "property": "C13",
  "unit": "cmp_mag",
  "function": "pstm_cmp_mag",
  "source": "crypto/math/pstm.c",
  "mode": "proof",
  "why_proof": "the digit loop is closed by an in-place loop contract (hook H1), every used <= alloc <= PSTM_MAX_SIZE",
  "loop_contracts": true,
  "object_bits": 7,
  "cases": [{"name": "distinct", "defs": []}, {"name": "alias_ab", "defs": ["ALIAS_AB=1"]}],
  "native_replay": false,
  "timeout": 300
}
@*/
/* C13.cmp_mag  magnitude comparison for all digit counts: memory safety, no side effect, the
 * digit count decides first, EQ only for digit-wise equal operands (ghost index).  The full
 * ordering (GT/LT against the exact integers) is the bounded unit cmp_exact. */
#include "c13.h"
#ifdef ALIAS_AB
# define g_b g_a
#endif

#define POSTS(P) \
    P(ret_is_lt_eq_gt, RET == PSTM_LT || RET == PSTM_EQ || RET == PSTM_GT) \
    P(longer_operand_is_greater, IMPLIES(g_a.used > g_b.used, RET == PSTM_GT) && IMPLIES(g_a.used < g_b.used, RET == PSTM_LT)) \
    P(eq_only_for_equal_digits, IMPLIES(RET == PSTM_EQ, g_a.used == g_b.used && IMPLIES(g_k < g_a.used, g_a.dp[g_k] == g_b.dp[g_k]))) \
    P(same_operand_is_equal, IMPLIES(&g_a == &g_b, RET == PSTM_EQ))

int32_t pstm_cmp_mag(const pstm_int *a, const pstm_int *b)
__CPROVER_requires(a == &g_a && b == &g_b)
__CPROVER_requires(WF(g_a) && WF(g_b))
POSTS(ENSURES_CLAUSE)
CANARY_CLAUSE(__CPROVER_return_value != PSTM_EQ || g_a.used < 3)
__CPROVER_assigns()
;

#include "crypto/math/pstm.c"

struct __attribute__((packed)) inputs { struct opnd a, b; uint16_t k; };
#ifndef NATIVE_REPLAY
struct inputs nondet_in(void);
#endif

HARNESS_BEGIN
    HARNESS_INPUTS(struct inputs, in);
    int32_t vr_ret;
    MK_OPND(g_a, in.a);
#ifndef ALIAS_AB
    MK_OPND(g_b, in.b);
#endif
    g_k = in.k;
    vr_ret = pstm_cmp_mag(&g_a, &g_b);
    (void) vr_ret;
    POSTS(NATIVE_CHECK)
HARNESS_END
