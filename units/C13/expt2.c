/*@UNIT
{
  "property": "C13",
  "unit": "expt2",
  "function": "pstm_2expt",
  "source": "crypto/math/pstm.c",
  "keep_bodies": ["pstm_zero"],
  "replace": ["pstm_grow"],
  "mode": "proof",
  "why_proof": "pstm_2expt is loop-free; the loop of the inlined pstm_zero is closed by its in-place loop contract (hook H1): every capacity up to PSTM_MAX_SIZE and every 16-bit signed exponent; pstm_grow is replaced by its contract (enforced in unit grow)",
  "loop_contracts": true,
  "object_bits": 7,
  "native_replay": false,
  "timeout": 300
}
@*/
/* C13.expt2  a = 2^b, EXACT for every exponent and capacity (one digit is 1 << (b % 64), every other
 * digit is zero - ghost index), exponents beyond PSTM_MAX_SIZE digits are refused, a failed
 * allocation must leave a memory-safe descriptor. */
#include "c13.h"
#define C13_GROW_CONTRACT_ONLY
#include "grow.c"
static int16_t g_n;

#define POSTS(P) \
    P(ret_is_ok_or_error_code, RET == PSTM_OKAY || RET == PS_MEM_FAIL || RET == PS_LIMIT_FAIL) \
    P(negative_exponent_gives_zero, IMPLIES(g_n < 0, RET == PSTM_OKAY && g_a.used == 0 && g_a.sign == PSTM_ZPOS)) \
    P(beyond_max_size_is_refused, IMPLIES(g_n >= 0 && g_n / DIGIT_BIT >= PSTM_MAX_SIZE, RET == PS_LIMIT_FAIL)) \
    P(ok_result_wf, IMPLIES(RET == PSTM_OKAY, WF(g_a))) \
    P(ok_exact_power_of_two, IMPLIES(RET == PSTM_OKAY && g_n >= 0, g_a.sign == PSTM_ZPOS && g_a.used == g_n / DIGIT_BIT + 1 && g_a.dp[g_n / DIGIT_BIT] == (((pstm_digit) 1) << (g_n % DIGIT_BIT)))) \
    P(ok_every_other_digit_zero, IMPLIES(RET == PSTM_OKAY && g_k < g_a.alloc && (g_n < 0 || g_k != g_n / DIGIT_BIT), g_a.dp[g_k] == 0)) \
    P(error_leaves_result_safe, IMPLIES(RET != PSTM_OKAY, SAFE(g_a)))

int32_t pstm_2expt(pstm_int *a, int16_t b)
__CPROVER_requires(a == &g_a && b == g_n && SAFE(g_a))
POSTS(ENSURES_CLAUSE)
CANARY_CLAUSE(__CPROVER_return_value != PSTM_OKAY || g_a.used != 3)
__CPROVER_assigns(g_a.dp, g_a.alloc, g_a.used, g_a.sign, __CPROVER_object_whole(g_a.dp))
__CPROVER_frees(g_a.dp)
;

#include "crypto/math/pstm.c"

struct __attribute__((packed)) inputs { struct opnd a; int16_t n; uint16_t k; };
#ifndef NATIVE_REPLAY
struct inputs nondet_in(void);
#endif

HARNESS_BEGIN
    HARNESS_INPUTS(struct inputs, in);
    int32_t vr_ret;
    MK_OPND(g_a, in.a);
    g_n = in.n;
    g_k = in.k;
    vr_ret = pstm_2expt(&g_a, g_n);
    (void) vr_ret;
HARNESS_END
