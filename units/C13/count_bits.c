/*@UNIT
{
  "property": "C13",
  "unit": "count_bits",
  "function": "pstm_count_bits",
  "source": "crypto/math/pstm.c",
  "mode": "proof",
  "why_proof": "the only loop shifts one 64-bit digit to zero: constant bound 64, fully unwound (unwind 66, unwinding assertion on); every digit count up to PSTM_MAX_SIZE",
  "unwind": 66,
  "object_bits": 7,
  "native_replay": false,
  "timeout": 300
}
@*/
/* C13.count_bits  bit length, EXACT for all digit counts: 0 for zero, else 64*(used-1) + bitlen(top digit). */
#include "c13.h"
#define TOPBITS ((int) RET - DIGIT_BIT * ((int) g_a.used - 1))

#define POSTS(P) \
    P(zero_has_no_bits, IMPLIES(g_a.used == 0, RET == 0)) \
    P(exact_bit_length, IMPLIES(g_a.used > 0, TOPBITS >= 1 && TOPBITS <= DIGIT_BIT && (g_a.dp[g_a.used - 1] >> (TOPBITS - 1)) == 1))

uint16_t pstm_count_bits(const pstm_int *a)
__CPROVER_requires(a == &g_a && WF(g_a))
POSTS(ENSURES_CLAUSE)
CANARY_CLAUSE(__CPROVER_return_value != 130)
__CPROVER_assigns()
;

#include "crypto/math/pstm.c"

struct __attribute__((packed)) inputs { struct opnd a; };
#ifndef NATIVE_REPLAY
struct inputs nondet_in(void);
#endif

HARNESS_BEGIN
    HARNESS_INPUTS(struct inputs, in);
    uint16_t vr_ret;
    MK_OPND(g_a, in.a);
    vr_ret = pstm_count_bits(&g_a);
    (void) vr_ret;
HARNESS_END
