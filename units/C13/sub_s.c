/*@UNIT
{
  "property": "C13",
  "unit": "sub_s",
  "function": "pstm_sub_s",
  "source": "crypto/math/pstm.c",
  "keep_bodies": ["pstm_clamp"],
  "replace": ["pstm_grow"],
  "mode": "proof",
  "why_proof": "the three loops of pstm_sub_s and the loop of pstm_clamp are closed by in-place loop contracts (hook H1): every digit count up to PSTM_MAX_SIZE; pstm_grow is replaced by its contract (enforced in unit grow)",
  "loop_contracts": true,
  "object_bits": 7,
  "cases": [{"name": "distinct", "defs": []}, {"name": "alias_ca", "defs": ["ALIAS_CA=1"]}, {"name": "alias_cb", "defs": ["ALIAS_CB=1"]},
            {"name": "alias_ab", "defs": ["ALIAS_AB=1"]}, {"name": "alias_all", "defs": ["ALIAS_ALL=1"]}],
  "native_replay": false,
  "timeout": 300
}
@*/
/* C13.sub_s  magnitude subtraction c = |a| - |b| for ALL digit counts: memory safety, representation
 * invariant, no stale high digits, a longer subtrahend is refused.  (|a| >= |b| is the caller's
 * obligation - pstm_add/pstm_sub establish it with pstm_cmp_mag; the exact difference is the bounded
 * unit add_exact/sub_exact.) */
#include "c13.h"
#define C13_GROW_CONTRACT_ONLY
#include "grow.c"
#include "alias3.h"

#define POSTS(P) \
    P(ret_is_ok_or_error_code, RET == PSTM_OKAY || RET == PS_MEM_FAIL || RET == PS_LIMIT_FAIL) \
    P(longer_subtrahend_refused, IFF(OLD(g_b, used) > OLD(g_a, used), RET == PS_LIMIT_FAIL)) \
    P(ok_result_wf, IMPLIES(RET == PSTM_OKAY, WF(g_c))) \
    P(ok_no_stale_high_digits, IMPLIES(RET == PSTM_OKAY, ZH(g_c))) \
    P(ok_difference_not_longer_than_minuend, IMPLIES(RET == PSTM_OKAY, g_c.used <= OLD(g_a, used))) \
    P(sign_kept_unless_zero, IMPLIES(RET == PSTM_OKAY && g_c.used != 0, g_c.sign == OLD(g_c, sign))) \
    P(error_leaves_result, IMPLIES(RET != PSTM_OKAY, SAME_DESC(g_c))) \
    P(other_operands_kept, A_KEPT && B_KEPT)

int32_t pstm_sub_s(const pstm_int *a, const pstm_int *b, pstm_int *c)
__CPROVER_requires(a == &g_a && b == &g_b && c == &g_c)
__CPROVER_requires(WF(g_a) && WF(g_b) && WF(g_c) && ZH(g_c))
POSTS(ENSURES_CLAUSE)
CANARY_CLAUSE(__CPROVER_return_value != PSTM_OKAY || g_c.used != 5)
__CPROVER_assigns(g_c.dp, g_c.alloc, g_c.used, g_c.sign, __CPROVER_object_whole(g_c.dp))
__CPROVER_frees(g_c.dp)
;

#include "crypto/math/pstm.c"

struct __attribute__((packed)) inputs { struct opnd a, b, c; uint16_t k; };
#ifndef NATIVE_REPLAY
struct inputs nondet_in(void);
#endif

HARNESS_BEGIN
    HARNESS_INPUTS(struct inputs, in);
    int32_t vr_ret;
    MK_OPND(g_a, in.a);
#if HAVE_B
    MK_OPND(g_b, in.b);
#endif
#if HAVE_C
    MK_OPND(g_c, in.c);
#endif
    g_k = in.k;
    vr_ret = pstm_sub_s(&g_a, &g_b, &g_c);
    (void) vr_ret;
HARNESS_END
