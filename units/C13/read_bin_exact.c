/*@UNIT
{
 "property": "C13",
 "unit": "read_bin_exact",
 "function": "pstm_read_unsigned_bin",
 "source": "crypto/math/pstm.c",
 "keep_bodies": [
  "pstm_zero",
  "pstm_grow",
  "pstm_mul_2d",
  "pstm_copy",
  "pstm_lshd",
  "pstm_clamp"
 ],
 "assumed": [
  "realloc (model c13_realloc in c13x.h: NULL, or a distinct constant-size block holding the old contents)"
 ],
 "mode": "bounded",
 "bounds": "input of 0..BUFN bytes (quick 9 = one digit and a byte, thorough 17), every byte value; destination of any capacity 1..NDIG+2, any prior content",
 "defs_quick": [
  "NDIG=2",
  "BUFN=9"
 ],
 "defs_thorough": [
  "NDIG=3",
  "BUFN=17"
 ],
 "unwind_quick": 8,
 "unwind_thorough": 9,
 "unwindset_quick": [
  "pstm_read_unsigned_bin_wrapped_for_contract_checking.0:11",
  "harness.1:11"
 ],
 "unwindset_thorough": [
  "pstm_read_unsigned_bin_wrapped_for_contract_checking.0:19",
  "harness.1:19"
 ],
 "object_bits": 8,
 "native_replay": true,
 "timeout": 600,
 "tier": "parked",
 "parked_reason": "SAT solver out of memory (thorough-only unit)"
}
@*/
/* C13.read_bin_exact  import: the value of a after pstm_read_unsigned_bin(a, buf, len) is the big-endian
 * integer buf[0..len), non-negative, full library invariant - or an error that leaves a memory-safe a. */
#include "c13x.h"
#ifndef BUFN
# define BUFN 9
#endif
static unsigned char g_buf[BUFN];
static uint16_t g_len;
static wide gh_vbuf;

#define POSTS(P) \
    P(ret_is_ok_or_mem, RET == PS_SUCCESS || RET == PS_MEM_FAIL) \
    P(ok_exact_value, IMPLIES(RET == PS_SUCCESS, W_EQ(c13_mag(&g_a), gh_vbuf) && g_a.sign == PSTM_ZPOS)) \
    P(ok_library_invariant, IMPLIES(RET == PS_SUCCESS, g_a.alloc <= XCAP && c13_inv(&g_a))) \
    P(error_leaves_result_safe, IMPLIES(RET != PS_SUCCESS, SAFE(g_a)))

int32_t pstm_read_unsigned_bin(pstm_int *a, const unsigned char *buf, psSize_t len)
__CPROVER_requires(a == &g_a && buf == g_buf && len == g_len && g_len <= BUFN)
__CPROVER_requires(SAFE(g_a) && g_a.alloc <= NCAP)
POSTS(ENSURES_CLAUSE)
CANARY_CLAUSE(__CPROVER_return_value != PS_SUCCESS || g_a.used != 2)
__CPROVER_assigns(X_ASSIGNS(g_a))
;

#include "crypto/math/pstm.c"

struct __attribute__((packed)) inputs { struct opndx a; unsigned char buf[BUFN]; uint16_t len; };
#ifndef NATIVE_REPLAY
struct inputs nondet_in(void);
#endif

HARNESS_BEGIN
    HARNESS_INPUTS(struct inputs, in);
    int32_t vr_ret;
    int i;
    MK_OPNDX(g_a, in.a, 0);
    g_len = in.len;
    gx_heap.n = 0;
    __CPROVER_assume(g_len <= BUFN);                 /* mirrors the requires clause */
#ifdef NATIVE_REPLAY
    __CPROVER_assume(SAFE(g_a) && g_a.alloc <= NCAP);
#endif
    gh_vbuf = W_ZERO;
    for (i = 0; i < BUFN; i++)
    {
        g_buf[i] = in.buf[i];
        if (i < g_len) { gh_vbuf = W_OR(W_SHL(gh_vbuf, 8), W_OF_U64(g_buf[i])); }
    }
    vr_ret = pstm_read_unsigned_bin(&g_a, g_buf, g_len);
    POSTS(NATIVE_CHECK)
HARNESS_END
