/*@UNIT
{
  "property": "C03",
  "unit": "validate_chain",
  "function": "matrixValidateCertsExt",
  "source": "matrixssl/matrixssl.c",
  "keep_bodies": ["checkPathLenConstraint", "memcmpct (core/src/corelib_strings.c, real body)"],
  "replace": [],
  "assumed": [
    "psX509AuthenticateCert (model body = the contract enforced by units auth_pair / auth_chain: pair mode resets the issuer's authStatus, leaves any verdict and any extension flags on the subject, returns PS_SUCCESS with verdict != PS_FALSE and *foundIssuer = issuer, or a negative code with verdict != PASS; every call is logged in ghosts)",
    "validateDateRange (model: may set or clear the DATE flag of the given certificate, returns 0 or a negative code)"
  ],
  "mode": "bounded",
  "bounds": "presented chain of 1..3 certificates, 0..2 trust anchors (one case per shape); TBS digests <= 4 bytes; expectedName == NULL (name matching is C05)",
  "unwind": 24,
  "cases": [
    {"name": "c1_a0", "defs": ["NCERT=1", "NANCH=0"]},
    {"name": "c3_a0", "defs": ["NCERT=3", "NANCH=0"]},
    {"name": "c1_a1", "defs": ["NCERT=1", "NANCH=1"]},
    {"name": "c1_a2", "defs": ["NCERT=1", "NANCH=2"]},
    {"name": "c2_a1", "defs": ["NCERT=2", "NANCH=1"]},
    {"name": "c2_a2", "defs": ["NCERT=2", "NANCH=2"]},
    {"name": "c3_a1", "defs": ["NCERT=3", "NANCH=1"]},
    {"name": "c3_a2", "defs": ["NCERT=3", "NANCH=2"]}
  ],
  "native_replay": true,
  "timeout": 600
}
@*/
/* C03.U2  matrixValidateCertsExt: the walk over the presented chain and the trust anchors.
 *
 * "... success only if there is a path from the presented end-entity certificate to
 *  one of the caller's trust anchors in which each certificate's signature verifies
 *  under its issuer's public key ... path length respected ..."
 *
 * psX509AuthenticateCert is a model that behaves like its contract (units auth_pair,
 * auth_chain) and logs every call (subject, issuer, result, verdict left on the subject).
 * Soundness of the walk: PS_SUCCESS implies
 *   - call i of the log is (c[i], c[i+1]) with PS_SUCCESS for every adjacent pair,
 *   - the last call is (c[n-1], a) with a member of the anchor list, PS_SUCCESS, *foundIssuer == a,
 *   - every certificate still carries the verdict its own successful step left on it
 *     (so "all verdicts PASS" composes with the per-step contract),
 *   - the path length constraint of every issuer on the path is respected,
 *   - no anchors: the result is that of the single chain-mode call.
 * As the design notes: PS_SUCCESS does NOT imply that every verdict is PASS; date /
 * keyUsage / authorityKeyIdentifier failures are only recorded.  The caller has to
 * look (property C04).
 *
 * Left at zero and irrelevant: everything in psX509Cert_t except authStatus,
 * authFailFlags, revokedStatus, sigHash/sigHashLen, extensions.bc.pathLenConstraint,
 * extensions.critFlags / ekuFlags (leaf) and next.  expectedName is NULL.
 */
#include "verif.h"
#include "matrixssl/matrixsslImpl.h"

#ifndef NCERT
# define NCERT 2
#endif
#ifndef NANCH
# define NANCH 1
#endif
#define L 4
#define MAXLOG 8

static psX509Cert_t g_c0, g_c1, g_c2, g_a0, g_a1;
static psX509Cert_t *g_found;
static matrixValidateCertsOptions_t g_opts;
#define CERT(k)  ((k) == 0 ? &g_c0 : (k) == 1 ? &g_c1 : &g_c2)
#define ANCH(k)  ((k) == 0 ? &g_a0 : &g_a1)
#define LASTC    CERT(NCERT - 1)
#define ANCHORS  (NANCH > 0 ? &g_a0 : (psX509Cert_t *) NULL)

struct __attribute__((packed)) certin
{
    int32_t authStatus, revokedStatus, pathLenConstraint;
    uint32_t authFailFlags, critFlags, ekuFlags;
    uint16_t sigHashLen;
    unsigned char digest[L];
};
struct __attribute__((packed)) callin     /* what the k-th call of a model does */
{
    int32_t ret, verdict, revoked;
    uint32_t flags;
};
struct __attribute__((packed)) inputs
{
    struct certin c[3], a[2];
    struct callin auth[MAXLOG];
    struct callin date[MAXLOG];
    uint64_t opt_flags; uint32_t opt_mflags; int32_t opt_nameType;
};
static struct inputs g_in;

/* ---- ghost log -------------------------------------------------------------- */
static unsigned gh_auth_n, gh_date_n, gh_pre_violated;
static psX509Cert_t *gh_auth_sc[MAXLOG], *gh_auth_ic[MAXLOG];
static int32_t gh_auth_ret[MAXLOG], gh_auth_verdict[MAXLOG];

static int vr_is_chain_cert(const psX509Cert_t *c)
{
    return c == &g_c0 || (NCERT > 1 && c == &g_c1) || (NCERT > 2 && c == &g_c2);
}

/* model of psX509AuthenticateCert, shaped by the contract enforced in auth_pair / auth_chain */
int32 psX509AuthenticateCert(psPool_t *pool, psX509Cert_t *subjectCert, psX509Cert_t *issuerCert,
    psX509Cert_t **foundIssuer, void *hwCtx, void *poolUserPtr)
{
    unsigned k = gh_auth_n;
    int32_t ret, verdict;
    psX509Cert_t *sc;
    if (k >= MAXLOG || subjectCert == NULL) { gh_pre_violated = 1; return PS_ARG_FAIL; }
    ret = g_in.auth[k].ret > 0 ? -g_in.auth[k].ret : g_in.auth[k].ret;        /* PS_SUCCESS or negative */
    if (ret == (int32_t) 0x80000000) { ret = PS_FAILURE; }
    verdict = g_in.auth[k].verdict;
    if (ret == PS_SUCCESS && verdict != PS_CERT_AUTH_FAIL_EXTENSION && verdict != PS_CERT_AUTH_FAIL_AUTHKEY) { verdict = PS_CERT_AUTH_PASS; }      /* success_verdict_is_pass_or_a_recorded_failure */
    if (ret != PS_SUCCESS && verdict == PS_CERT_AUTH_PASS) { verdict = PS_FALSE; }      /* failure_never_leaves_pass */
    if (issuerCert != NULL)
    {
        /* precondition of the pair-mode contract: the subject carries no verdict yet */
        if (subjectCert->authStatus != PS_FALSE) { gh_pre_violated = 1; }
        issuerCert->authStatus = PS_FALSE;
        subjectCert->authStatus = verdict;
        subjectCert->authFailFlags |= (g_in.auth[k].flags & PS_CERT_AUTH_FAIL_KEY_USAGE_FLAG);
        subjectCert->revokedStatus = g_in.auth[k].revoked;
        if (ret == PS_SUCCESS) { *foundIssuer = issuerCert; }
    }
    else
    {
        /* chain mode: every verdict of the chain is reset first, then set step by step */
        unsigned i = 0;
        for (sc = subjectCert; sc != NULL; sc = sc->next)
        {
            int32_t v = g_in.auth[i < MAXLOG ? i : MAXLOG - 1].verdict;
            if (ret == PS_SUCCESS && v != PS_CERT_AUTH_FAIL_EXTENSION && v != PS_CERT_AUTH_FAIL_AUTHKEY) { v = PS_CERT_AUTH_PASS; }
            sc->authStatus = v;
            i++;
        }
        verdict = subjectCert->authStatus;
        /* the real one names the last certificate of the chain when its self-signed test passed, else NULL */
        if (ret == PS_SUCCESS) { *foundIssuer = (g_in.auth[k].flags & 2) ? LASTC : NULL; }
    }
    gh_auth_sc[k] = subjectCert; gh_auth_ic[k] = issuerCert; gh_auth_ret[k] = ret; gh_auth_verdict[k] = verdict;
    gh_auth_n = k + 1;
    return ret;
}
int32 validateDateRange(psX509Cert_t *cert)
{
    unsigned k = gh_date_n;
    if (k >= MAXLOG) { gh_pre_violated = 1; return PS_FAILURE; }
    gh_date_n = k + 1;
    if (g_in.date[k].flags & 1) { cert->authFailFlags |= PS_CERT_AUTH_FAIL_DATE_FLAG; }
    else { cert->authFailFlags &= ~PS_CERT_AUTH_FAIL_DATE_FLAG; }
    return g_in.date[k].ret ? PS_FAILURE : 0;
}

/* ---- specification helpers --------------------------------------------------- */
static int vr_same_digest(const psX509Cert_t *a, const psX509Cert_t *b)
{
    unsigned i;
    if (a->sigHashLen != b->sigHashLen) { return 0; }
    for (i = 0; i < L; i++) { if (i < a->sigHashLen && a->sigHash[i] != b->sigHash[i]) { return 0; } }
    return 1;
}
/* issuer ic with `below` CA certificates presented below it; a subject that is the same
   certificate as its issuer (peer included the anchor itself) does not count */
static int vr_plc_ok(const psX509Cert_t *ic, const psX509Cert_t *sc, int below)
{
    if (ic->extensions.bc.pathLenConstraint < 0) { return 1; }
    if (below > 0 && vr_same_digest(sc, ic)) { below--; }
    return ic->extensions.bc.pathLenConstraint >= below;
}
static int vr_is_anchor(const psX509Cert_t *a)
{
    return (NANCH > 0 && a == &g_a0) || (NANCH > 1 && a == &g_a1);
}
#define OK          (RET == PS_SUCCESS)
#define PAIR_OK(i)  (gh_auth_n > (i) && gh_auth_sc[i] == CERT(i) && gh_auth_ic[i] == CERT((i) + 1) && gh_auth_ret[i] == PS_SUCCESS)
#define LASTK       (gh_auth_n - 1)
#define DATES       (g_opts.flags & VCERTS_FLAG_REVALIDATE_DATES)

#define VERDICT_OK(c) ((c).authStatus == PS_CERT_AUTH_PASS || (c).authStatus == PS_CERT_AUTH_FAIL_EXTENSION || (c).authStatus == PS_CERT_AUTH_FAIL_AUTHKEY)

#define POSTS(P) \
    P(ok_every_adjacent_pair_authenticated, IMPLIES(OK && NANCH > 0, (NCERT < 2 || PAIR_OK(0)) && (NCERT < 3 || PAIR_OK(1)))) \
    P(ok_last_cert_authenticated_by_a_trust_anchor, IMPLIES(OK && NANCH > 0, gh_auth_n >= NCERT && gh_auth_sc[LASTK] == LASTC && vr_is_anchor(gh_auth_ic[LASTK]) && gh_auth_ret[LASTK] == PS_SUCCESS && g_found == gh_auth_ic[LASTK])) \
    P(ok_verdicts_are_those_of_the_successful_steps, IMPLIES(OK && NANCH > 0, gh_auth_n >= NCERT && (NCERT < 2 || g_c0.authStatus == gh_auth_verdict[0]) && (NCERT < 3 || g_c1.authStatus == gh_auth_verdict[1]) && LASTC->authStatus == gh_auth_verdict[LASTK] && LASTC->authStatus != PS_FALSE)) \
    P(ok_every_verdict_is_pass_or_a_recorded_failure, IMPLIES(OK, VERDICT_OK(g_c0) && (NCERT < 2 || VERDICT_OK(g_c1)) && (NCERT < 3 || VERDICT_OK(g_c2)))) \
    P(ok_path_length_of_intermediates_respected, IMPLIES(OK && NANCH > 0, (NCERT < 2 || vr_plc_ok(&g_c1, &g_c0, 0)) && (NCERT < 3 || vr_plc_ok(&g_c2, &g_c1, 1)))) \
    P(ok_path_length_of_anchor_respected,  IMPLIES(OK && NANCH > 0, gh_auth_n >= 1 && vr_is_anchor(gh_auth_ic[LASTK]) && vr_plc_ok(gh_auth_ic[LASTK], LASTC, NCERT - 1))) \
    P(ok_leaf_critical_eku_allows_tls,     IMPLIES(OK && NANCH > 0 && (g_c0.extensions.critFlags & EXT_CRIT_FLAG(OID_ENUM(id_ce_extKeyUsage))), (g_c0.extensions.ekuFlags & (EXT_KEY_USAGE_TLS_SERVER_AUTH | EXT_KEY_USAGE_TLS_CLIENT_AUTH)) != 0)) \
    P(ok_revalidated_dates_are_in_range,   IMPLIES(OK && DATES, !(g_c0.authFailFlags & PS_CERT_AUTH_FAIL_DATE_FLAG) && (NCERT < 2 || !(g_c1.authFailFlags & PS_CERT_AUTH_FAIL_DATE_FLAG)) && (NCERT < 3 || !(g_c2.authFailFlags & PS_CERT_AUTH_FAIL_DATE_FLAG)))) \
    P(no_anchors_means_self_signed_test_only, IMPLIES(NANCH == 0 && gh_auth_n > 0, gh_auth_n == 1 && gh_auth_sc[0] == &g_c0 && gh_auth_ic[0] == NULL && RET == gh_auth_ret[0])) \
    P(result_is_success_or_negative,       RET == PS_SUCCESS || RET < 0) \
    P(authenticate_called_within_its_contract, gh_pre_violated == 0)

int32 matrixValidateCertsExt(psPool_t *pool, psX509Cert_t *subjectCerts, psX509Cert_t *issuerCerts, char *expectedName,
    psX509Cert_t **foundIssuer, void *hwCtx, void *poolUserPtr, const matrixValidateCertsOptions_t *opts)
__CPROVER_requires(subjectCerts == &g_c0 && issuerCerts == ANCHORS && expectedName == NULL && foundIssuer == &g_found && opts == &g_opts)
/* certificates fresh from the parser carry no verdict (psX509ParseCert zeroes the structure) */
__CPROVER_requires(g_c0.authStatus == PS_FALSE && g_c1.authStatus == PS_FALSE && g_c2.authStatus == PS_FALSE)
__CPROVER_requires(gh_auth_n == 0 && gh_date_n == 0 && gh_pre_violated == 0)
POSTS(ENSURES_CLAUSE)
CANARY_CLAUSE(!(RET == PS_SUCCESS && gh_auth_n >= (NANCH > 0 ? NCERT : 1)))
__CPROVER_assigns(g_c0.authStatus, g_c0.authFailFlags, g_c0.revokedStatus, g_c1.authStatus, g_c1.authFailFlags, g_c1.revokedStatus,
                  g_c2.authStatus, g_c2.authFailFlags, g_c2.revokedStatus, g_a0.authStatus, g_a0.authFailFlags, g_a1.authStatus, g_a1.authFailFlags,
                  g_found, gh_auth_n, gh_date_n, gh_pre_violated,
                  __CPROVER_object_whole(gh_auth_sc), __CPROVER_object_whole(gh_auth_ic), __CPROVER_object_whole(gh_auth_ret), __CPROVER_object_whole(gh_auth_verdict))
;

#include "core/src/corelib_strings.c"
#include "matrixssl/matrixssl.c"

#ifndef NATIVE_REPLAY
struct inputs nondet_in(void);
#endif

static void vr_fill(psX509Cert_t *c, const struct certin *i, psX509Cert_t *next)
{
    c->authStatus = i->authStatus;
    c->authFailFlags = i->authFailFlags;
    c->revokedStatus = i->revokedStatus;
    c->extensions.bc.pathLenConstraint = i->pathLenConstraint;
    c->extensions.critFlags = i->critFlags;
    c->extensions.ekuFlags = i->ekuFlags;
    c->sigHashLen = i->sigHashLen;
    Memcpy(c->sigHash, i->digest, L);
    c->next = next;
}

HARNESS_BEGIN
    HARNESS_INPUTS(struct inputs, in);
    int32 vr_ret;
    int k;
    g_in = in;
    vr_fill(&g_c0, &in.c[0], NCERT > 1 ? &g_c1 : NULL);
    vr_fill(&g_c1, &in.c[1], NCERT > 2 ? &g_c2 : NULL);
    vr_fill(&g_c2, &in.c[2], NULL);
    vr_fill(&g_a0, &in.a[0], NANCH > 1 ? &g_a1 : NULL);
    vr_fill(&g_a1, &in.a[1], NULL);
    g_opts.flags = in.opt_flags; g_opts.mFlags = in.opt_mflags; g_opts.nameType = (expectedNameType_t) in.opt_nameType;
    for (k = 0; k < 3; k++)
    {
        /* mirrors the requires (fresh certificates) and the stated bound on the digests */
        __CPROVER_assume(in.c[k].authStatus == PS_FALSE && in.c[k].sigHashLen <= L);
    }
    __CPROVER_assume(in.a[0].sigHashLen <= L && in.a[1].sigHashLen <= L);
    vr_ret = matrixValidateCertsExt(NULL, &g_c0, ANCHORS, NULL, &g_found, NULL, NULL, &g_opts);
    (void) vr_ret;
    POSTS(NATIVE_CHECK)
HARNESS_END
