/*@UNIT
{
  "property": "C03",
  "unit": "date_range",
  "function": "validateDateRange",
  "source": "crypto/keyformat/x509.c",
  "keep_bodies": ["isIndefiniteDateRFC5280"],
  "replace": [],
  "assumed": [
    "psGetBrokenDownGMTime (model: the clock - hands out a tagged 'now' or fails)",
    "psBrokenDownTimeImport, Strlen (model: hands out a tagged time for the notBefore / notAfter string, possibly the RFC 5280 'indefinite' value for notAfter, or PS_FAILURE)",
    "psBrokenDownTimeAdd (model: marks the time as shifted by the linger, or fails)",
    "psBrokenDownTimeCmp (model: an arbitrary order between the tagged times; flags a comparison of any other pair)"
  ],
  "mode": "proof",
  "why_proof": "loop-free (calendar arithmetic and the clock are assumed models)",
  "unwind": 24,
  "native_replay": true,
  "timeout": 300
}
@*/
/* C03 (stretch)  "each certificate below the trust anchor is inside its validity period now":
 * the DATE flag that psX509AuthenticateCert / matrixValidateCertsExt look at is produced here.
 * The calendar is abstract: every time value carries a tag (who produced it, shifted by the
 * linger or not); the comparison model answers from three arbitrary order facts
 *     now          ? notAfter + linger
 *     notBefore    ? now + linger
 *     notBefore    ? notAfter
 * and the contract says that on return 0 the DATE flag is set exactly when it was set before or
 * one of the three says "out of range" (the first one not for the indefinite notAfter), that
 * nothing else is compared, and that no other flag changes.
 */
#define Strlen vr_strlen
#include "verif.h"
#include <stddef.h>
size_t vr_strlen(const char *s);
#include "crypto/cryptoImpl.h"

static psX509Cert_t g_c;
static char g_nb[4], g_na[4];
#define TAG_NOW 100
#define TAG_NB  200
#define TAG_NA  300
#define TAG_INDEF (9999 - 1900)     /* notAfter 99991231235959Z */
#define SHIFT   1000                /* added to the tag by the linger model */

struct __attribute__((packed)) inputs
{
    uint32_t authFailFlags; int32_t nbType, naType; unsigned char has_nb, has_na;
    int32_t now_err, nb_err, na_err, add_err[2];
    unsigned char indefinite;
    int32_t cmp_now_after, cmp_before_now, cmp_before_after, cmp_other;
    uint16_t len;
};
static struct inputs g_in;
static unsigned gh_add_n, gh_foreign_cmp, gh_now_n;
static uint32_t g_old_flags;

int32 psGetBrokenDownGMTime(psBrokenDownTime_t *t, int offset)
{
    memset(t, 0, sizeof(*t));
    gh_now_n++;
    if (offset != 0) { gh_foreign_cmp = 1; }
    t->tm_year = TAG_NOW;
    return g_in.now_err ? PS_FAILURE : PS_SUCCESS;
}
int32 psBrokenDownTimeImport(psBrokenDownTime_t *t, const char *string, size_t time_string_len, unsigned int opts)
{
    memset(t, 0, sizeof(*t));
    if (string == g_nb)
    {
        t->tm_year = TAG_NB;
        return g_in.nb_err ? PS_FAILURE : PS_SUCCESS;
    }
    if (string == g_na)
    {
        if (g_in.indefinite)
        {
            t->tm_year = TAG_INDEF; t->tm_mon = 11; t->tm_mday = 31; t->tm_hour = 23; t->tm_min = 59; t->tm_sec = 59;
        }
        else
        {
            t->tm_year = TAG_NA;
        }
        return g_in.na_err ? PS_FAILURE : PS_SUCCESS;
    }
    gh_foreign_cmp = 1;
    return PS_FAILURE;
}
int32 psBrokenDownTimeAdd(psBrokenDownTime_t *res, int32 offset)
{
    unsigned k = gh_add_n < 2 ? gh_add_n : 1;
    gh_add_n++;
    if (offset != PS_X509_TIME_LINGER) { gh_foreign_cmp = 1; }
    res->tm_year += SHIFT;
    return g_in.add_err[k] ? PS_FAILURE : PS_SUCCESS;
}
int psBrokenDownTimeCmp(const psBrokenDownTime_t *t1, const psBrokenDownTime_t *t2)
{
    int a = t1->tm_year, b = t2->tm_year;
    if (a == TAG_NOW && b == TAG_NA + SHIFT) { return g_in.cmp_now_after; }
    if (a == TAG_NB && b == TAG_NOW + SHIFT) { return g_in.cmp_before_now; }
    if (a == TAG_NB && (b == TAG_NA || b == TAG_INDEF)) { return g_in.cmp_before_after; }
    gh_foreign_cmp = 1;
    return g_in.cmp_other;
}
size_t vr_strlen(const char *s)
{
    return g_in.len;
}

#define DATE      PS_CERT_AUTH_FAIL_DATE_FLAG
#define EXPIRED   (!g_in.indefinite && g_in.cmp_now_after > 0)
#define NOT_YET   (g_in.cmp_before_now > 0)
#define INVERTED  (g_in.cmp_before_after > 0)

#define POSTS(P) \
    P(flag_set_iff_outside_validity_period, IMPLIES(RET == 0, ((g_c.authFailFlags & DATE) != 0) == ((g_old_flags & DATE) != 0 || EXPIRED || NOT_YET || INVERTED))) \
    P(other_flags_untouched,                (g_c.authFailFlags & ~DATE) == (g_old_flags & ~DATE)) \
    P(success_used_the_clock_once,          IMPLIES(RET == 0, gh_now_n == 1 && g_in.now_err == 0 && g_in.nb_err == 0 && g_in.na_err == 0)) \
    P(compares_only_the_three_pairs,        gh_foreign_cmp == 0) \
    P(missing_dates_are_an_error,           IMPLIES(g_c.notBefore == NULL || g_c.notAfter == NULL, RET < 0)) \
    P(result_is_zero_or_negative,           RET <= 0) \
    P(never_clears_the_flag,                IMPLIES((g_old_flags & DATE) != 0, (g_c.authFailFlags & DATE) != 0))

int32 validateDateRange(psX509Cert_t *cert)
__CPROVER_requires(cert == &g_c && g_old_flags == g_c.authFailFlags)
__CPROVER_requires(gh_add_n == 0 && gh_foreign_cmp == 0 && gh_now_n == 0)
POSTS(ENSURES_CLAUSE)
CANARY_CLAUSE(!(RET == 0 && (g_c.authFailFlags & DATE) == 0))
__CPROVER_assigns(g_c.authFailFlags, gh_add_n, gh_foreign_cmp, gh_now_n)
;

#include "crypto/keyformat/x509.c"

#ifndef NATIVE_REPLAY
struct inputs nondet_in(void);
#endif

HARNESS_BEGIN
    HARNESS_INPUTS(struct inputs, in);
    int32 vr_ret;
    g_in = in;
    g_c.authFailFlags = in.authFailFlags;
    g_old_flags = in.authFailFlags;
    g_c.notBeforeTimeType = in.nbType;
    g_c.notAfterTimeType = in.naType;
    g_c.notBefore = in.has_nb ? g_nb : NULL;
    g_c.notAfter = in.has_na ? g_na : NULL;
    vr_ret = validateDateRange(&g_c);
    (void) vr_ret;
    POSTS(NATIVE_CHECK)
HARNESS_END
