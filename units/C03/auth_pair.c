/*@UNIT
{
  "property": "C03",
  "unit": "auth_pair",
  "function": "psX509AuthenticateCert",
  "source": "crypto/keyformat/x509.c",
  "keep_bodies": ["issuedBefore"],
  "replace": [],
  "assumed": [
    "psVerifySig (model: records signature/key/algorithm/message arguments, returns any result and any verifyResult)",
    "psCRL_determineRevokedStatus (model: may set revokedStatus of the given certificate to any value)",
    "memcmpct, Memcmp (content abstraction: the relation 'equal / different' between each pair of byte strings of the two certificates is an arbitrary input; the model answers according to it, insists on being asked for the full length of both strings, and flags any comparison of other operands)",
    "psBrokenDownTimeImport, Strlen (model: any broken-down notBefore date with PS_SUCCESS, or PS_FAILURE)",
    "psPssHashAlgToHashLen (model: any value)"
  ],
  "mode": "proof",
  "why_proof": "issuerCert != NULL: the issuer loop runs exactly once (unwinding assertions on; the only other loops are the 20-byte DN digest comparisons); byte-string comparisons are abstracted by a relation, so no data-length dependent loop is left",
  "unwind": 24,
  "cases": [
    {"name": "distinct", "defs": ["ALIAS=0"]},
    {"name": "alias",    "defs": ["ALIAS=1"]}
  ],
  "native_replay": true,
  "timeout": 300
}
@*/
/* C03.U1 (pair mode)  psX509AuthenticateCert(subject, issuer != NULL).
 *
 * "Validation reports success only if ... each certificate's signature verifies
 *  under its issuer's public key ..., each issuer is a CA (basicConstraints CA,
 *  keyCertSign when keyUsage is present ...), each certificate below the trust
 *  anchor is inside its validity period now, ... no certificate is revoked by an
 *  authenticated CRL".
 *
 * One step sc -> ic of that path.  The only admissible way to PASS without the
 * signature check is a path of length 0: sc IS the trust anchor ic, i.e. the
 * same certificate (same signature algorithm, same TBS, same signature).
 *
 * case distinct: subject and issuer are two objects;  case alias: the caller
 * passes the same object for both (self-signed test in pair mode).
 *
 * Left at zero and irrelevant (never read by the function): pool, parseStatus,
 * certAlgorithm, maskGen, maskHash, serialNumber, DN strings (only the DN
 * digests are read), notAfter, pubKeyAlgorithm, unique ids, san, critFlags,
 * ekuFlags, pathLenConstraint, publicKey contents (only its address is used),
 * unparsedBin, next.
 */
#define Memcmp vr_memcmp
#define Strlen vr_strlen
#include "verif.h"
#include <stddef.h>
int vr_memcmp(const void *a, const void *b, size_t n);
size_t vr_strlen(const char *s);
#include "crypto/cryptoImpl.h"

#ifndef ALIAS
# define ALIAS 0
#endif

static psX509Cert_t g_sc, g_ic;
static psX509Cert_t *g_found;
static unsigned char g_sc_sig[4], g_ic_sig[4], g_sc_tbs[4], g_ic_tbs[4], g_sc_akid[4], g_ic_skid[4];
static char g_ic_nb[4], g_sc_nb[4];
#define SC (&g_sc)
#if ALIAS
# define IC (&g_sc)
#else
# define IC (&g_ic)
#endif

struct __attribute__((packed)) certin
{
    int32_t version, cA, sigAlgorithm, pssHash, authStatus, revokedStatus, notBeforeTimeType;
    uint32_t keyUsageFlags, authFailFlags;
    uint16_t signatureLen, sigHashLen, saltLen, akLen, skLen;
    uint64_t tbsCertLen;
    unsigned char has_tbs, has_nb;
    unsigned char subject_hash[20], issuer_hash[20];
};
struct __attribute__((packed)) inputs
{
    struct certin sc, ic;
    /* the abstract relation between the byte strings of sc and ic (0 = equal) */
    unsigned char sig_differs, digest_differs, tbs_differs, keyid_differs, other_cmp;
    /* results of the assumed primitives */
    int32_t vs_res; unsigned char vs_verify_result;
    int32_t crl_status;
    int32_t bdt_err, tm_year, tm_mon;
    int32_t pss_len;
    uint16_t nb_len;
};
static struct inputs g_in;

/* ---- ghost state ---------------------------------------------------------- */
static unsigned gh_vs_calls, gh_crl_calls, gh_bdt_calls;
static const unsigned char *gh_vs_sig, *gh_vs_msg;
static psPubKey_t *gh_vs_key;
static size_t gh_vs_msglen;
static unsigned gh_vs_siglen;
static int32_t gh_vs_alg;
static psX509Cert_t *gh_crl_cert;
static unsigned gh_cmp_partial, gh_cmp_foreign;

/* ---- assumed models ------------------------------------------------------- */
psRes_t psVerifySig(psPool_t *pool, const unsigned char *msgIn, psSizeL_t msgInLen,
    const unsigned char *sig, psSize_t sigLen, psPubKey_t *key, int32_t signatureAlgorithm,
    psBool_t *verifyResult, psVerifyOptions_t *opts)
{
    gh_vs_calls++;
    gh_vs_msg = msgIn; gh_vs_msglen = msgInLen;
    gh_vs_sig = sig; gh_vs_siglen = sigLen;
    gh_vs_key = key; gh_vs_alg = signatureAlgorithm;
    *verifyResult = (g_in.vs_verify_result == 1) ? PS_TRUE : PS_FALSE;
    return g_in.vs_res;
}
int32_t psCRL_determineRevokedStatus(psX509Cert_t *cert)
{
    gh_crl_calls++;
    gh_crl_cert = cert;
    cert->revokedStatus = g_in.crl_status;
    return g_in.crl_status;
}
int32 psBrokenDownTimeImport(psBrokenDownTime_t *t, const char *string, size_t time_string_len, unsigned int opts)
{
    gh_bdt_calls++;
    memset(t, 0, sizeof(*t));
    t->tm_year = g_in.tm_year;
    t->tm_mon = g_in.tm_mon;
    return g_in.bdt_err ? PS_FAILURE : PS_SUCCESS;    /* the real one returns only these two (corelib_date.c:482-501) */
}
size_t vr_strlen(const char *s)
{
    return g_in.nb_len;
}
psResSize_t psPssHashAlgToHashLen(int32_t pssHashAlg)
{
    return g_in.pss_len;
}
/* content abstraction of byte-string comparison between sc and ic */
static int vr_cmp(const unsigned char *p, const unsigned char *q, size_t n)
{
    if (p == q)
    {
        return 0;
    }
    if (p == SC->issuer.hash && q == IC->subject.hash)
    {
        int i;      /* the DN digests are fixed-size: compared for real */
        if (n != SHA1_HASH_SIZE) { gh_cmp_partial = 1; }
        for (i = 0; i < SHA1_HASH_SIZE; i++) { if (p[i] != q[i]) { return 1; } }
        return 0;
    }
    if ((p == SC->signature && q == IC->signature) || (q == SC->signature && p == IC->signature))
    {
        if (n != SC->signatureLen || n != IC->signatureLen) { gh_cmp_partial = 1; }
        return g_in.sig_differs;
    }
    if ((p == SC->sigHash && q == IC->sigHash) || (q == SC->sigHash && p == IC->sigHash))
    {
        if (n != SC->sigHashLen || n != IC->sigHashLen) { gh_cmp_partial = 1; }
        return g_in.digest_differs;
    }
    if (SC->tbsCertStart != NULL && ((p == SC->tbsCertStart && q == IC->tbsCertStart) || (q == SC->tbsCertStart && p == IC->tbsCertStart)))
    {
        if (n != SC->tbsCertLen || n != IC->tbsCertLen) { gh_cmp_partial = 1; }
        return g_in.tbs_differs;
    }
    if ((p == IC->extensions.sk.id && q == SC->extensions.ak.keyId) || (q == IC->extensions.sk.id && p == SC->extensions.ak.keyId))
    {
        if (n != IC->extensions.sk.len || n != SC->extensions.ak.keyLen) { gh_cmp_partial = 1; }
        return g_in.keyid_differs;
    }
    gh_cmp_foreign = 1;
    return g_in.other_cmp;
}
int vr_memcmp(const void *a, const void *b, size_t n)
{
    return vr_cmp((const unsigned char *) a, (const unsigned char *) b, n);
}
int32 memcmpct(const void *s1, const void *s2, size_t len)
{
    return vr_cmp((const unsigned char *) s1, (const unsigned char *) s2, len);
}

/* ---- the relation, as the postconditions read it --------------------------- */
static int vr_dn_chains(void)
{
    int i;
    for (i = 0; i < SHA1_HASH_SIZE; i++) { if (SC->issuer.hash[i] != IC->subject.hash[i]) { return 0; } }
    return 1;
}
#define SIG_SAME    (SC->signatureLen == IC->signatureLen && (ALIAS || !g_in.sig_differs))
#define HAS_TBS(c)  ((c)->tbsCertStart != NULL)
#define TBS_SAME    ((!HAS_TBS(SC) && !HAS_TBS(IC) && SC->sigHashLen != 0 && SC->sigHashLen == IC->sigHashLen && (ALIAS || !g_in.digest_differs)) || \
                     (HAS_TBS(SC) && HAS_TBS(IC) && SC->tbsCertLen == IC->tbsCertLen && (ALIAS || !g_in.tbs_differs)))
/* sc is the very same certificate as the trust anchor ic: path of length 0 */
#define SAME_CERT   (ALIAS || (SC->sigAlgorithm == IC->sigAlgorithm && SIG_SAME && TBS_SAME))
#define PASS        (RET == PS_SUCCESS && SC->authStatus == PS_CERT_AUTH_PASS)
#define RAW_MSG     (SC->sigAlgorithm == OID_ED25519_KEY_ALG)
#define VERIFIED    (gh_vs_calls == 1 && gh_vs_sig == SC->signature && gh_vs_siglen == SC->signatureLen && gh_vs_key == &IC->publicKey && \
                     gh_vs_alg == SC->sigAlgorithm && g_in.vs_res == PS_SUCCESS && g_in.vs_verify_result == 1 && \
                     (RAW_MSG ? (gh_vs_msg == SC->tbsCertStart && gh_vs_msglen == SC->tbsCertLen) : (gh_vs_msg == SC->sigHash && gh_vs_msglen == SC->sigHashLen)))
#define KU          (IC->extensions.keyUsageFlags)
#define PRE_RFC3280 (gh_bdt_calls == 1 && g_in.bdt_err == 0 && \
                     (1900u + (unsigned) g_in.tm_year < 2002u || (1900u + (unsigned) g_in.tm_year == 2002u && (unsigned short) (1 + (unsigned short) g_in.tm_mon) < 4)))
#define AKI_PRESENT (SC->extensions.ak.keyLen > 0 || IC->extensions.sk.len > 0)
#define AKI_OK      (!AKI_PRESENT || (SC->extensions.ak.keyLen == IC->extensions.sk.len && !g_in.keyid_differs) || \
                     (SC->extensions.ak.keyLen == 0 && SIG_SAME))

#define POSTS(P) \
    P(pass_signature_verified_under_issuer_key, IMPLIES(PASS, SAME_CERT || VERIFIED)) \
    P(pass_issuer_dn_is_subject_dn_of_issuer,   IMPLIES(PASS, SAME_CERT || vr_dn_chains())) \
    P(pass_issuer_is_ca,                        IMPLIES(PASS && IC->version > 1, SAME_CERT || SC == IC || IC->extensions.bc.cA == CA_TRUE)) \
    P(pass_keycertsign_when_keyusage_present,   IMPLIES(PASS, SAME_CERT || (KU & KEY_USAGE_KEY_CERT_SIGN) || KU == 0)) \
    P(pass_keyusage_absent_only_before_rfc3280, IMPLIES(PASS && KU == 0, SAME_CERT || PRE_RFC3280)) \
    P(pass_inside_validity_period,              IMPLIES(PASS, SAME_CERT || !(SC->authFailFlags & PS_CERT_AUTH_FAIL_DATE_FLAG))) \
    P(pass_not_revoked,                         IMPLIES(PASS, SAME_CERT || (gh_crl_calls == 1 && gh_crl_cert == SC && SC->revokedStatus != CRL_CHECK_REVOKED_AND_AUTHENTICATED))) \
    P(pass_authority_key_id_matches,            IMPLIES(PASS, SAME_CERT || AKI_OK)) \
    P(success_records_a_verdict_and_issuer,     IMPLIES(RET == PS_SUCCESS, SC->authStatus != PS_FALSE && g_found == IC)) \
    P(success_verdict_is_pass_or_a_recorded_failure, IMPLIES(RET == PS_SUCCESS, SC->authStatus == PS_CERT_AUTH_PASS || SC->authStatus == PS_CERT_AUTH_FAIL_EXTENSION || SC->authStatus == PS_CERT_AUTH_FAIL_AUTHKEY)) \
    P(failure_never_leaves_pass,                IMPLIES(RET != PS_SUCCESS, RET < 0 && SC->authStatus != PS_CERT_AUTH_PASS)) \
    P(compares_whole_strings_of_the_pair_only,  gh_cmp_partial == 0 && gh_cmp_foreign == 0)

int32 psX509AuthenticateCert(psPool_t *pool, psX509Cert_t *subjectCert, psX509Cert_t *issuerCert,
    psX509Cert_t **foundIssuer, void *hwCtx, void *poolUserPtr)
__CPROVER_requires(subjectCert == SC && issuerCert == IC && foundIssuer == &g_found)
/* caller protocol (matrixValidateCertsExt, psX509ParseCert): a subject enters with no verdict yet.
   The function itself resets only the issuer's authStatus in pair mode; see NOTES.md (observation O1) */
__CPROVER_requires(g_sc.authStatus == PS_FALSE)
__CPROVER_requires(gh_vs_calls == 0 && gh_crl_calls == 0 && gh_bdt_calls == 0 && gh_cmp_partial == 0 && gh_cmp_foreign == 0)
POSTS(ENSURES_CLAUSE)
CANARY_CLAUSE(!(PASS && gh_vs_calls == 1))
__CPROVER_assigns(g_sc.authStatus, g_sc.authFailFlags, g_sc.revokedStatus, g_ic.authStatus, g_found,
                  gh_vs_calls, gh_crl_calls, gh_bdt_calls, gh_vs_sig, gh_vs_msg, gh_vs_key, gh_vs_msglen,
                  gh_vs_siglen, gh_vs_alg, gh_crl_cert, gh_cmp_partial, gh_cmp_foreign)
;

#include "crypto/keyformat/x509.c"

#ifndef NATIVE_REPLAY
struct inputs nondet_in(void);
#endif
DECL_SNAPSHOT(psX509Cert_t, g_sc);

static void vr_fill(psX509Cert_t *c, const struct certin *i, unsigned char *sig, unsigned char *tbs, unsigned char *akid, unsigned char *skid, char *nb)
{
    c->version = i->version;
    c->extensions.bc.cA = (x509bcCAValue_t) i->cA;
    c->sigAlgorithm = i->sigAlgorithm;
    c->pssHash = i->pssHash;
    c->saltLen = i->saltLen;
    c->authStatus = i->authStatus;
    c->authFailFlags = i->authFailFlags;
    c->revokedStatus = i->revokedStatus;
    c->notBeforeTimeType = i->notBeforeTimeType;
    c->extensions.keyUsageFlags = i->keyUsageFlags;
    c->signature = sig;
    c->signatureLen = i->signatureLen;
    c->sigHashLen = i->sigHashLen;
    c->tbsCertStart = i->has_tbs ? tbs : NULL;
    c->tbsCertLen = i->tbsCertLen;
    c->extensions.ak.keyId = akid;
    c->extensions.ak.keyLen = i->akLen;
    c->extensions.sk.id = skid;
    c->extensions.sk.len = i->skLen;
    c->notBefore = i->has_nb ? nb : NULL;
    Memcpy(c->subject.hash, i->subject_hash, 20);
    Memcpy(c->issuer.hash, i->issuer_hash, 20);
}

HARNESS_BEGIN
    HARNESS_INPUTS(struct inputs, in);
    int32 vr_ret;
    g_in = in;
    vr_fill(&g_sc, &in.sc, g_sc_sig, g_sc_tbs, g_sc_akid, g_sc_akid + 2, g_sc_nb);
    vr_fill(&g_ic, &in.ic, g_ic_sig, g_ic_tbs, g_ic_skid + 2, g_ic_skid, g_ic_nb);
    /* mirrors the requires: no verdict recorded yet on the subject */
    __CPROVER_assume(g_sc.authStatus == PS_FALSE);
    SNAPSHOT(g_sc);
    vr_ret = psX509AuthenticateCert(NULL, SC, IC, &g_found, NULL, NULL);
    (void) vr_ret;
    POSTS(NATIVE_CHECK)
HARNESS_END
