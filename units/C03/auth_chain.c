/*@UNIT
{
  "property": "C03",
  "unit": "auth_chain",
  "function": "psX509AuthenticateCert",
  "source": "crypto/keyformat/x509.c",
  "keep_bodies": ["issuedBefore", "memcmpct (core/src/corelib_strings.c, real body)"],
  "replace": [],
  "assumed": [
    "psVerifySig (model: records, per subject certificate, the key it was asked to verify under; returns any result and any verifyResult)",
    "psCRL_determineRevokedStatus (model: may set revokedStatus of the given certificate to any value)",
    "psBrokenDownTimeImport, Strlen (model: any broken-down notBefore date with PS_SUCCESS, or PS_FAILURE)",
    "psPssHashAlgToHashLen (model: any value)",
    "memcmp (CBMC library model)"
  ],
  "mode": "bounded",
  "bounds": "issuerCert == NULL; presented chain of 1, 2 or 3 certificates (one case each); signature, TBS, TBS digest and key identifier strings <= 4 bytes, compared for real (memcmpct body from core, memcmp)",
  "unwind": 24,
  "cases": [
    {"name": "n1",    "defs": ["NCERT=1", "STEPJ=0"]},
    {"name": "n2_j0", "defs": ["NCERT=2", "STEPJ=0"]},
    {"name": "n3_j0", "defs": ["NCERT=3", "STEPJ=0"]},
    {"name": "n3_j1", "defs": ["NCERT=3", "STEPJ=1"]}
  ],
  "native_replay": true,
  "timeout": 600
}
@*/
/* C03.U1 (chain mode)  psX509AuthenticateCert(chain, issuerCert == NULL).
 *
 * The chain c[0] -> c[1] -> ... -> c[n-1] (leaf first, linked by `next`) is
 * walked pairwise; the last certificate is tested against itself.  For an
 * arbitrary step j < n-1 (ghost index) the same obligations as in pair mode
 * are stated for  sc = c[j], ic = c[j+1] (j = STEPJ, one case per step), here
 * with real byte strings.
 * The self-test of c[n-1] carries no obligation: whether c[n-1] is trusted is
 * decided by the caller (matrixValidateCertsExt walks the trust anchors).
 *
 * Left at zero and irrelevant: see auth_pair.c.
 */
#define Strlen vr_strlen
#include "verif.h"
#include <stddef.h>
size_t vr_strlen(const char *s);
#include "crypto/cryptoImpl.h"

#ifndef NCERT
# define NCERT 3
#endif
#define L 4
#ifndef STEPJ
# define STEPJ 0
#endif

static psX509Cert_t g_c0, g_c1, g_c2;      /* separate objects: an array of three 1.6 KB structs makes every byte read a 5 KB case split */
#define CERT(k) ((k) == 0 ? &g_c0 : (k) == 1 ? &g_c1 : &g_c2)
static psX509Cert_t *g_found;
/* one-dimensional buffers only (see NOTES.md: with [3][L] arrays cbmc 6.11 gave inconsistent reads) */
static unsigned char g_sig0[L], g_sig1[L], g_sig2[L], g_tbs0[L], g_tbs1[L], g_tbs2[L];
static unsigned char g_akid0[L], g_akid1[L], g_akid2[L], g_skid0[L], g_skid1[L], g_skid2[L];
static char g_nb0[4], g_nb1[4], g_nb2[4];
#define PICK(base, k) ((k) == 0 ? base##0 : (k) == 1 ? base##1 : base##2)

struct __attribute__((packed)) certin
{
    int32_t version, cA, sigAlgorithm, pssHash, authStatus, revokedStatus, notBeforeTimeType;
    uint32_t keyUsageFlags, authFailFlags;
    uint16_t signatureLen, sigHashLen, saltLen, akLen, skLen;
    uint64_t tbsCertLen;
    unsigned char has_tbs, has_nb;
    unsigned char subject_hash[20], issuer_hash[20];
    unsigned char sig[L], tbs[L], digest[L], akid[L], skid[L];
    /* results of the assumed primitives when asked about this certificate */
    int32_t vs_res; unsigned char vs_verify_result;
    int32_t crl_status;
    int32_t bdt_err, tm_year, tm_mon;
};
struct __attribute__((packed)) inputs
{
    struct certin c[3];
    int32_t pss_len;
    uint16_t nb_len;
};
static struct inputs g_in;

/* ---- ghost state (indexed by certificate) ---------------------------------- */
static unsigned gh_vs_calls[3], gh_crl_calls[3], gh_bdt_calls[3], gh_foreign;
static psPubKey_t *gh_vs_key[3];
static const unsigned char *gh_vs_msg[3];
static size_t gh_vs_msglen[3];
static unsigned gh_vs_siglen[3];
static int32_t gh_vs_alg[3];

psRes_t psVerifySig(psPool_t *pool, const unsigned char *msgIn, psSizeL_t msgInLen,
    const unsigned char *sig, psSize_t sigLen, psPubKey_t *key, int32_t signatureAlgorithm,
    psBool_t *verifyResult, psVerifyOptions_t *opts)
{
    int i;
    for (i = 0; i < 3; i++)
    {
        if (sig == CERT(i)->signature)
        {
            gh_vs_calls[i]++;
            gh_vs_key[i] = key; gh_vs_msg[i] = msgIn; gh_vs_msglen[i] = msgInLen;
            gh_vs_siglen[i] = sigLen; gh_vs_alg[i] = signatureAlgorithm;
            *verifyResult = (g_in.c[i].vs_verify_result == 1) ? PS_TRUE : PS_FALSE;
            return g_in.c[i].vs_res;
        }
    }
    gh_foreign = 1;
    *verifyResult = PS_FALSE;
    return PS_FAILURE;
}
int32_t psCRL_determineRevokedStatus(psX509Cert_t *cert)
{
    int i;
    for (i = 0; i < 3; i++)
    {
        if (cert == CERT(i))
        {
            gh_crl_calls[i]++;
            cert->revokedStatus = g_in.c[i].crl_status;
            return g_in.c[i].crl_status;
        }
    }
    gh_foreign = 1;
    return 0;
}
int32 psBrokenDownTimeImport(psBrokenDownTime_t *t, const char *string, size_t time_string_len, unsigned int opts)
{
    int i;
    memset(t, 0, sizeof(*t));
    for (i = 0; i < 3; i++)
    {
        if (string == PICK(g_nb, i))
        {
            gh_bdt_calls[i]++;
            t->tm_year = g_in.c[i].tm_year;
            t->tm_mon = g_in.c[i].tm_mon;
            return g_in.c[i].bdt_err ? PS_FAILURE : PS_SUCCESS;
        }
    }
    gh_foreign = 1;
    return PS_FAILURE;
}
size_t vr_strlen(const char *s)
{
    return g_in.nb_len;
}
psResSize_t psPssHashAlgToHashLen(int32_t pssHashAlg)
{
    return g_in.pss_len;
}

/* ---- the relation between c[j] and c[j+1], on the real bytes ---------------- */
static int vr_eq(const unsigned char *a, const unsigned char *b, size_t n, size_t cap)
{
    size_t i;
    for (i = 0; i < cap; i++) { if (i < n && a[i] != b[i]) { return 0; } }
    return 1;
}
#define JJ          STEPJ       /* the step under scrutiny is a constant per case: a symbolic index into g_c[] costs minutes */
#define SC          (CERT(JJ))
#define IC          (CERT(JJ + 1))
#define HAS_TBS(c)  ((c)->tbsCertStart != NULL)
#define SIG_SAME    (SC->signatureLen == IC->signatureLen && vr_eq(SC->signature, IC->signature, SC->signatureLen, L))
#define TBS_SAME    ((!HAS_TBS(SC) && !HAS_TBS(IC) && SC->sigHashLen != 0 && SC->sigHashLen == IC->sigHashLen && vr_eq(SC->sigHash, IC->sigHash, SC->sigHashLen, L)) || \
                     (HAS_TBS(SC) && HAS_TBS(IC) && SC->tbsCertLen == IC->tbsCertLen && vr_eq(SC->tbsCertStart, IC->tbsCertStart, SC->tbsCertLen, L)))
#define SAME_CERT   (SC->sigAlgorithm == IC->sigAlgorithm && SIG_SAME && TBS_SAME)
#define STEP        (JJ + 1 < NCERT)
#define PASS        (STEP && RET == PS_SUCCESS && SC->authStatus == PS_CERT_AUTH_PASS)
#define RAW_MSG     (SC->sigAlgorithm == OID_ED25519_KEY_ALG)
#define VERIFIED    (gh_vs_calls[JJ] == 1 && gh_vs_siglen[JJ] == SC->signatureLen && gh_vs_key[JJ] == &IC->publicKey && \
                     gh_vs_alg[JJ] == SC->sigAlgorithm && g_in.c[JJ].vs_res == PS_SUCCESS && g_in.c[JJ].vs_verify_result == 1 && \
                     (RAW_MSG ? (gh_vs_msg[JJ] == SC->tbsCertStart && gh_vs_msglen[JJ] == SC->tbsCertLen) : (gh_vs_msg[JJ] == SC->sigHash && gh_vs_msglen[JJ] == SC->sigHashLen)))
#define KU          (IC->extensions.keyUsageFlags)
#define PRE_RFC3280 (gh_bdt_calls[JJ + 1] >= 1 && g_in.c[JJ + 1].bdt_err == 0 && \
                     (1900u + (unsigned) g_in.c[JJ + 1].tm_year < 2002u || (1900u + (unsigned) g_in.c[JJ + 1].tm_year == 2002u && (unsigned short) (1 + (unsigned short) g_in.c[JJ + 1].tm_mon) < 4)))
#define AKI_PRESENT (SC->extensions.ak.keyLen > 0 || IC->extensions.sk.len > 0)
#define AKI_OK      (!AKI_PRESENT || (SC->extensions.ak.keyLen == IC->extensions.sk.len && vr_eq(IC->extensions.sk.id, SC->extensions.ak.keyId, IC->extensions.sk.len, L)) || \
                     (SC->extensions.ak.keyLen == 0 && SIG_SAME))

#define VERDICT_OK(c) ((c).authStatus == PS_CERT_AUTH_PASS || (c).authStatus == PS_CERT_AUTH_FAIL_EXTENSION || (c).authStatus == PS_CERT_AUTH_FAIL_AUTHKEY)

#define POSTS(P) \
    P(pass_signature_verified_under_issuer_key, IMPLIES(PASS, SAME_CERT || VERIFIED)) \
    P(pass_issuer_dn_is_subject_dn_of_issuer,   IMPLIES(PASS, SAME_CERT || vr_eq(SC->issuer.hash, IC->subject.hash, 20, 20))) \
    P(pass_issuer_is_ca,                        IMPLIES(PASS && IC->version > 1, SAME_CERT || IC->extensions.bc.cA == CA_TRUE)) \
    P(pass_keycertsign_when_keyusage_present,   IMPLIES(PASS, SAME_CERT || (KU & KEY_USAGE_KEY_CERT_SIGN) || KU == 0)) \
    P(pass_keyusage_absent_only_before_rfc3280, IMPLIES(PASS && KU == 0, SAME_CERT || PRE_RFC3280)) \
    P(pass_inside_validity_period,              IMPLIES(PASS, SAME_CERT || !(SC->authFailFlags & PS_CERT_AUTH_FAIL_DATE_FLAG))) \
    P(pass_not_revoked,                         IMPLIES(PASS, SAME_CERT || (gh_crl_calls[JJ] == 1 && SC->revokedStatus != CRL_CHECK_REVOKED_AND_AUTHENTICATED))) \
    P(pass_authority_key_id_matches,            IMPLIES(PASS, SAME_CERT || AKI_OK)) \
    P(success_gives_every_step_a_verdict,       IMPLIES(RET == PS_SUCCESS, g_c0.authStatus != PS_FALSE && (NCERT < 2 || g_c1.authStatus != PS_FALSE) && (NCERT < 3 || g_c2.authStatus != PS_FALSE))) \
    P(success_verdicts_are_pass_or_a_recorded_failure, IMPLIES(RET == PS_SUCCESS, VERDICT_OK(g_c0) && (NCERT < 2 || VERDICT_OK(g_c1)) && (NCERT < 3 || VERDICT_OK(g_c2)))) \
    P(failure_is_negative,                      RET == PS_SUCCESS || RET < 0) \
    P(primitives_asked_about_chain_members_only, gh_foreign == 0)

int32 psX509AuthenticateCert(psPool_t *pool, psX509Cert_t *subjectCert, psX509Cert_t *issuerCert,
    psX509Cert_t **foundIssuer, void *hwCtx, void *poolUserPtr)
__CPROVER_requires(subjectCert == &g_c0 && issuerCert == NULL && foundIssuer == &g_found)
__CPROVER_requires(gh_foreign == 0)
__CPROVER_requires(gh_vs_calls[0] == 0 && gh_vs_calls[1] == 0 && gh_vs_calls[2] == 0)
__CPROVER_requires(gh_crl_calls[0] == 0 && gh_crl_calls[1] == 0 && gh_crl_calls[2] == 0)
__CPROVER_requires(gh_bdt_calls[0] == 0 && gh_bdt_calls[1] == 0 && gh_bdt_calls[2] == 0)
POSTS(ENSURES_CLAUSE)
CANARY_CLAUSE(!(RET == PS_SUCCESS && g_c0.authStatus == PS_CERT_AUTH_PASS && gh_vs_calls[NCERT - 1] == 1))
__CPROVER_assigns(g_c0.authStatus, g_c0.authFailFlags, g_c0.revokedStatus,
                  g_c1.authStatus, g_c1.authFailFlags, g_c1.revokedStatus,
                  g_c2.authStatus, g_c2.authFailFlags, g_c2.revokedStatus, g_found, gh_foreign,
                  __CPROVER_object_whole(gh_vs_calls), __CPROVER_object_whole(gh_crl_calls), __CPROVER_object_whole(gh_bdt_calls),
                  __CPROVER_object_whole(gh_vs_key), __CPROVER_object_whole(gh_vs_msg), __CPROVER_object_whole(gh_vs_msglen),
                  __CPROVER_object_whole(gh_vs_siglen), __CPROVER_object_whole(gh_vs_alg))
;

#include "core/src/corelib_strings.c"
#include "crypto/keyformat/x509.c"

#ifndef NATIVE_REPLAY
struct inputs nondet_in(void);
#endif

static void vr_fill(int k, const struct certin *i)
{
    psX509Cert_t *c = CERT(k);
    c->version = i->version;
    c->extensions.bc.cA = (x509bcCAValue_t) i->cA;
    c->sigAlgorithm = i->sigAlgorithm;
    c->pssHash = i->pssHash;
    c->saltLen = i->saltLen;
    c->authStatus = i->authStatus;
    c->authFailFlags = i->authFailFlags;
    c->revokedStatus = i->revokedStatus;
    c->notBeforeTimeType = i->notBeforeTimeType;
    c->extensions.keyUsageFlags = i->keyUsageFlags;
    c->signature = PICK(g_sig, k);
    c->signatureLen = i->signatureLen;
    c->sigHashLen = i->sigHashLen;
    c->tbsCertStart = i->has_tbs ? PICK(g_tbs, k) : NULL;
    c->tbsCertLen = i->tbsCertLen;
    c->extensions.ak.keyId = PICK(g_akid, k);
    c->extensions.ak.keyLen = i->akLen;
    c->extensions.sk.id = PICK(g_skid, k);
    c->extensions.sk.len = i->skLen;
    c->notBefore = i->has_nb ? PICK(g_nb, k) : NULL;
    Memcpy(c->subject.hash, i->subject_hash, 20);
    Memcpy(c->issuer.hash, i->issuer_hash, 20);
    Memcpy(PICK(g_sig, k), i->sig, L);
    Memcpy(PICK(g_tbs, k), i->tbs, L);
    Memcpy(c->sigHash, i->digest, L);
    Memcpy(PICK(g_akid, k), i->akid, L);
    Memcpy(PICK(g_skid, k), i->skid, L);
    c->next = (k + 1 < NCERT) ? CERT(k + 1) : NULL;
}

HARNESS_BEGIN
    HARNESS_INPUTS(struct inputs, in);
    int32 vr_ret;
    int k;
    g_in = in;
    for (k = 0; k < 3; k++)
    {
        vr_fill(k, &in.c[k]);
        /* input domain = the stated bound on the byte strings */
        __CPROVER_assume(in.c[k].signatureLen <= L && in.c[k].sigHashLen <= L && in.c[k].tbsCertLen <= L && in.c[k].akLen <= L && in.c[k].skLen <= L);
    }
    vr_ret = psX509AuthenticateCert(NULL, &g_c0, NULL, &g_found, NULL, NULL);
    (void) vr_ret;
    POSTS(NATIVE_CHECK)
HARNESS_END
