/*@UNIT
{
  "property": "C10",
  "unit": "tls13_traffic_secret_labels",
  "function": "tls13DeriveAppTrafficSecrets",
  "source": "matrixssl/tls13KeySchedule.c",
  "replace": ["tls13DeriveSecret"],
  "assumed": ["tls13DeriveSecret (contract: records input secret, label bytes, transcript pointer and destination of each call; verdict free)",
              "psHkdfExtract, tls13GetCipherHmacAlg, psGetOutputBlockLength (models)"],
  "mode": "proof",
  "why_proof": "loop-free apart from constant-size clears (fully unwound)",
  "unwind": 50,
  "native_replay": false,
  "timeout": 150,
  "object_bits": 10
}
@*/
/* C10  RFC 8446 7.1 key schedule, last stage:
 *   Master Secret = HKDF-Extract(Derive-Secret(Handshake Secret, "derived", ""), 0)
 *   client_application_traffic_secret_0 = Derive-Secret(Master Secret, "c ap traffic", ClientHello...server Finished)
 *   server_application_traffic_secret_0 = Derive-Secret(Master Secret, "s ap traffic", ClientHello...server Finished)
 * each stored in the slot of that name: labels, order of stages, transcript and slots as in the RFC. */
#include "verif.h"
#include "matrixssl/matrixsslImpl.h"

/* tentative definitions of the file's label constants (defined with their initialisers in the included file) */
static const char *derivedLabel, *cApTrafficLabel, *sApTrafficLabel;
static psSize_t derivedLabelLen, trafficLabelLen;

struct __attribute__((packed)) inputs { uint8_t sha384; int32_t rc_extract; };
static struct inputs g_in;
static ssl_t g_ssl;
struct call { const unsigned char *secret, *tr; unsigned trLen, labelLen; const char *label; int seen; };
static struct { int n; struct call cli, srv, oth; unsigned char *oth_out; int extract; const unsigned char *ex_salt, *ex_ikm; unsigned char *ex_out; int n_at_extract; unsigned ex_saltLen, ex_ikmLen; int ex_ikm_zero; } gh;

int32_t psHkdfExtract(psCipherType_e hmacAlg, const unsigned char *salt, psSize_t saltLen, const unsigned char *ikm, psSize_t ikmLen,
    unsigned char *prk, psSize_t *prkLen)
{
    unsigned k;
    gh.extract++; gh.n_at_extract = gh.n; gh.ex_salt = salt; gh.ex_ikm = ikm; gh.ex_out = prk;
    gh.ex_saltLen = saltLen; gh.ex_ikmLen = ikmLen; gh.ex_ikm_zero = 1;
    for (k = 0; k < MAX_TLS_1_3_HASH_SIZE; k++) { if (k < ikmLen && ikm[k] != 0) { gh.ex_ikm_zero = 0; } }
    *prkLen = g_in.sha384 ? 48 : 32;
    return g_in.rc_extract < 0 ? PS_FAILURE : PS_SUCCESS;
}
int32_t tls13GetCipherHmacAlg(ssl_t *ssl) { return g_in.sha384 ? HMAC_SHA384 : HMAC_SHA256; }
int32_t psGetOutputBlockLength(psCipherType_e alg) { return alg == HMAC_SHA384 ? 48 : 32; }

#define REC(slot) (gh.slot.seen == 1 && gh.slot.secret == inSecret && gh.slot.tr == trHash && gh.slot.trLen == trHashLen && gh.slot.labelLen == labelLen && gh.slot.label == label)
#define SAME(slot) (gh.slot.seen == __CPROVER_old(gh.slot.seen) && gh.slot.secret == __CPROVER_old(gh.slot.secret) && gh.slot.tr == __CPROVER_old(gh.slot.tr) && \
                    gh.slot.trLen == __CPROVER_old(gh.slot.trLen) && gh.slot.labelLen == __CPROVER_old(gh.slot.labelLen) && gh.slot.label == __CPROVER_old(gh.slot.label))
int32_t tls13DeriveSecret(ssl_t *ssl, int32_t hmacAlg, const unsigned char *inSecret, psSize_t inSecretLen, const char *label, psSize_t labelLen,
    const unsigned char *trHash, psSize_t trHashLen, unsigned char outSecret[MAX_TLS_1_3_HASH_SIZE])
__CPROVER_requires(ssl == &g_ssl)
__CPROVER_assigns(gh.n, gh.cli, gh.srv, gh.oth, gh.oth_out)
__CPROVER_ensures(gh.n == __CPROVER_old(gh.n) + 1)
/* the call is recorded under the destination slot it writes */
__CPROVER_ensures(outSecret == g_ssl.sec.tls13AppTrafficSecretClient ? (REC(cli) && SAME(srv) && SAME(oth) && gh.oth_out == __CPROVER_old(gh.oth_out)) :
                  outSecret == g_ssl.sec.tls13AppTrafficSecretServer ? (REC(srv) && SAME(cli) && SAME(oth) && gh.oth_out == __CPROVER_old(gh.oth_out)) :
                  (REC(oth) && gh.oth_out == outSecret && SAME(cli) && SAME(srv)))
;

/* the label is identified by the file's label constant (whose text and length are the subject of the plain unit tls13_label_constants) */
#define LBL(slot, var, len) (gh.slot.label == (var) && gh.slot.labelLen == (len))
#define HL (g_in.sha384 ? 48u : 32u)
#define POSTS(P) \
    P(first_stage_is_derived_from_handshake_secret, IMPLIES(gh.oth.seen, LBL(oth, derivedLabel, derivedLabelLen) && gh.oth.secret == g_ssl.sec.tls13HandshakeSecret && gh.oth.trLen == 0)) \
    P(master_secret_is_extract_of_derived,  IMPLIES(gh.extract >= 1, gh.extract == 1 && gh.n_at_extract == 1 && gh.oth.seen && gh.ex_salt == gh.oth_out && gh.ex_out == g_ssl.sec.tls13MasterSecret)) \
    P(master_secret_input_is_hash_length_zero_bytes, IMPLIES(gh.extract >= 1, gh.ex_saltLen == HL && gh.ex_ikmLen == HL && gh.ex_ikm_zero)) /* RFC 8446 7.1: "0" indicates a string of Hash.length bytes set to zero */ \
    P(client_secret_uses_c_ap_traffic,      IMPLIES(gh.cli.seen, LBL(cli, cApTrafficLabel, trafficLabelLen) && gh.cli.secret == g_ssl.sec.tls13MasterSecret && gh.cli.tr == g_ssl.sec.tls13TrHashSnapshot && gh.cli.trLen == HL && gh.extract == 1)) \
    P(server_secret_uses_s_ap_traffic,      IMPLIES(gh.srv.seen, LBL(srv, sApTrafficLabel, trafficLabelLen) && gh.srv.secret == g_ssl.sec.tls13MasterSecret && gh.srv.tr == g_ssl.sec.tls13TrHashSnapshot && gh.srv.trLen == HL && gh.extract == 1)) \
    P(done_flag_only_after_all_stages,      IMPLIES(g_ssl.sec.tls13KsState.deriveAppTrafficSecretsDone && !OLD(g_ssl, sec.tls13KsState.deriveAppTrafficSecretsDone), gh.n == 3 && gh.cli.seen && gh.srv.seen && gh.oth.seen && gh.extract == 1 && RET == PS_SUCCESS))

int32_t tls13DeriveAppTrafficSecrets(ssl_t *ssl)
__CPROVER_requires(ssl == &g_ssl && gh.n == 0 && gh.extract == 0)
POSTS(ENSURES_CLAUSE)
CANARY_CLAUSE(g_ssl.sec.tls13KsState.deriveAppTrafficSecretsDone == 0 || gh.n == 0)
__CPROVER_assigns(gh, g_ssl.sec.tls13KsState, g_ssl.sec.tls13HandshakeSecret, g_ssl.sec.tls13MasterSecret)
;

#include "matrixssl/tls13KeySchedule.c"

#ifndef NATIVE_REPLAY
struct inputs nondet_in(void);
#endif

HARNESS_BEGIN
    HARNESS_INPUTS(struct inputs, in);
    g_in = in;
    Memset(&gh, 0, sizeof(gh));
    tls13DeriveAppTrafficSecrets(&g_ssl);
HARNESS_END
