/*@UNIT
{
  "property": "C10",
  "properties": ["C06"],
  "unit": "tls12_finished_hash",
  "function": "sslSnapshotHSHash",
  "source": "matrixssl/hsHash.c",
  "plain": true,
  "frame_check": "none: harness-checked contract (VERIF_PLAIN_CONTRACT)",
  "keep_bodies": ["tlsGenerateFinishedHash"],
  "assumed": ["prf, prf2 (models: record secret, seed bytes, lengths, output and hash flag; verdict from the input)",
              "psSha256Cpy/Final, psSha384Cpy/Final, psMd5Sha1Cpy/Final (models: the digest of the running transcript hash is the harness's arbitrary value of the algorithm's length)"],
  "mode": "proof",
  "why_proof": "loop-free apart from constant-size copies (fully unwound); role, sender flag, suite hash and version (TLS 1.0 / 1.1 / 1.2, not DTLS) fully symbolic",
  "unwind": 70,
  "object_bits": 10,
  "native_replay": false,
  "timeout": 400
}
@*/
/* C10  RFC 5246 7.4.9 / RFC 2246 7.4.9:  verify_data = PRF(master_secret, finished_label,
 * Hash(handshake_messages))[0..11] where finished_label is "client finished" for the client's and
 * "server finished" for the server's message and Hash is the PRF hash of the suite: SHA-256
 * (32 bytes), SHA-384 (48 bytes) for the *_SHA384 suites of TLS 1.2, MD5||SHA-1 (36 bytes) before
 * TLS 1.2 - the WHOLE digest.  Both ends of a MatrixSSL pair share a mistake here; an independent
 * peer does not.
 * C06  the value the Finished message is compared with is this one (parse_finished takes it as given). */
#define VERIF_PLAIN_CONTRACT
#include "verif.h"
#include "matrixssl/matrixsslImpl.h"

struct __attribute__((packed)) inputs { uint32_t flags, cflags; uint8_t ver, sender; int32_t prf_rc; unsigned char d256[32], d384[48], d36[36]; uint8_t k; };
static struct inputs g_in;
static ssl_t g_ssl;
static sslCipherSpec_t g_cipher;
static unsigned char g_out[SHA384_HASH_SIZE];
static struct { int n; const unsigned char *sec; unsigned secLen, seedLen, outLen; unsigned char *out; uint32_t hflags; int is_prf2; unsigned char seed[15 + 48]; } gh;

static int32_t prf_model(const unsigned char *sec, psSize_t secLen, const unsigned char *seed, psSize_t seedLen, unsigned char *out, psSize_t outLen, uint32_t flags, int is2)
{
    unsigned i;
    gh.n++; gh.sec = sec; gh.secLen = secLen; gh.seedLen = seedLen; gh.out = out; gh.outLen = outLen; gh.hflags = flags; gh.is_prf2 = is2;
    if (seedLen > 0) { __CPROVER_assert(seedLen <= 15 + 48 && __CPROVER_r_ok(seed, seedLen), "PRF seed is readable and fits label || digest"); }
    for (i = 0; i < 15 + 48; i++) { gh.seed[i] = (i < seedLen) ? seed[i] : 0; }
    return g_in.prf_rc < 0 ? PS_FAILURE : (int32_t) outLen;
}
int32_t prf(const unsigned char *sec, psSize_t secLen, const unsigned char *seed, psSize_t seedLen, unsigned char *out, psSize_t outLen) { return prf_model(sec, secLen, seed, seedLen, out, outLen, 0, 0); }
int32_t prf2(const unsigned char *sec, psSize_t secLen, const unsigned char *seed, psSize_t seedLen, unsigned char *out, psSize_t outLen, uint32_t flags) { return prf_model(sec, secLen, seed, seedLen, out, outLen, flags, 1); }
void psSha256Cpy(psSha256_t *d, const psSha256_t *s) { }
void psSha384Cpy(psSha384_t *d, const psSha384_t *s) { }
void psMd5Sha1Cpy(psMd5Sha1_t *d, const psMd5Sha1_t *s) { }
void psSha1Cpy(psSha1_t *d, const psSha1_t *s) { }
void psSha512Cpy(psSha512_t *d, const psSha512_t *s) { }
void psSha256Final(psSha256_t *c, unsigned char h[SHA256_HASHLEN]) { unsigned i; for (i = 0; i < 32; i++) { h[i] = g_in.d256[i]; } }
void psSha384Final(psSha384_t *c, unsigned char h[SHA384_HASHLEN]) { unsigned i; for (i = 0; i < 48; i++) { h[i] = g_in.d384[i]; } }
void psMd5Sha1Final(psMd5Sha1_t *c, unsigned char h[36]) { unsigned i; for (i = 0; i < 36; i++) { h[i] = g_in.d36[i]; } }
void psSha1Final(psSha1_t *c, unsigned char h[SHA1_HASHLEN]) { }
void psSha512Final(psSha512_t *c, unsigned char h[SHA512_HASHLEN]) { }

#define TLS12 (g_in.ver == 2)
#define S384 (TLS12 && (g_in.cflags & CRYPTO_FLAGS_SHA3))
#define DLEN (TLS12 ? (S384 ? 48u : 32u) : 36u)
#define DIG(k) (TLS12 ? (S384 ? g_in.d384[(k) < 48 ? (k) : 0] : g_in.d256[(k) < 32 ? (k) : 0]) : g_in.d36[(k) < 36 ? (k) : 0])
/* whose Finished: ours when `sender`, the peer's otherwise */
#define SERVER_LABEL (((g_in.flags & SSL_FLAGS_SERVER) != 0) == (g_in.sender != 0))
static int label_ok(void)
{
    const char *l = SERVER_LABEL ? "server finished" : "client finished";
    unsigned i;
    for (i = 0; i < 15; i++) { if (gh.seed[i] != (unsigned char) l[i]) { return 0; } }
    return 1;
}
#define POSTS(P) \
    P(one_prf_call_keyed_with_the_master_secret, gh.n == 1 && gh.sec == g_ssl.sec.masterSecret && gh.secLen == SSL_HS_MASTER_SIZE) \
    P(verify_data_is_12_bytes_into_the_callers_buffer, gh.outLen == TLS_HS_FINISHED_SIZE && gh.out == g_out) \
    P(seed_is_label_then_the_whole_transcript_digest, gh.seedLen == 15 + DLEN && label_ok() && IMPLIES(g_in.k < DLEN, gh.seed[15 + (g_in.k < 48 ? g_in.k : 0)] == DIG(g_in.k))) \
    P(prf_hash_is_the_suites,                  TLS12 ? (gh.is_prf2 && (S384 ? (gh.hflags & CRYPTO_FLAGS_SHA3) != 0 : (gh.hflags & CRYPTO_FLAGS_SHA3) == 0)) : !gh.is_prf2) \
    P(prf_verdict_is_returned,                 IMPLIES(g_in.prf_rc < 0, RET < 0) && IMPLIES(g_in.prf_rc >= 0, RET == TLS_HS_FINISHED_SIZE))

int32_t sslSnapshotHSHash(ssl_t *ssl, unsigned char *out, psBool_t sender, psBool_t isFinishedHash)
__CPROVER_requires(ssl == &g_ssl && out == g_out && sender == (g_in.sender ? PS_TRUE : PS_FALSE) && isFinishedHash == PS_TRUE)
POSTS(ENSURES_CLAUSE)
__CPROVER_assigns(gh, __CPROVER_object_whole(g_out))
;

#include "matrixssl/hsNegotiateVersion.c"
#include "matrixssl/hsHash.c"

struct inputs nondet_in(void);
ssl_t nondet_ssl(void);

HARNESS_BEGIN
    HARNESS_INPUTS(struct inputs, in);
    int32_t vr_ret;
    __CPROVER_assume(in.ver <= 2);
    g_in = in;
    g_ssl = nondet_ssl();
    g_ssl.flags = in.flags;
    g_ssl.activeVersion = (in.ver == 2 ? v_tls_1_2 : in.ver == 1 ? v_tls_1_1 : v_tls_1_0) | v_tls_negotiated;
    g_cipher.flags = in.cflags; g_ssl.cipher = &g_cipher;
    Memset(&gh, 0, sizeof(gh));
    vr_ret = sslSnapshotHSHash(&g_ssl, g_out, in.sender ? PS_TRUE : PS_FALSE, PS_TRUE);
    POSTS(NATIVE_CHECK)
#ifdef CANARY
    PLAIN_ASSERT(CANARY, gh.n == 0)
#endif
HARNESS_END
