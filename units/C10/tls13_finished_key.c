/*@UNIT
{
  "property": "C10",
  "unit": "tls13_finished_key",
  "function": "tls13DeriveFinishedKey",
  "source": "matrixssl/tls13KeySchedule.c",
  "assumed": ["psHkdfExpandLabel (model: records secret, label, context, length and destination; verdict from the input)",
              "tls13GetCipherHmacAlg, psGetOutputBlockLength (models: SHA-256/32 or SHA-384/48 chosen by the input)"],
  "mode": "proof",
  "why_proof": "loop-free apart from a constant-size clear (fully unwound); role of the key, hash and done flags fully symbolic",
  "unwind": 50,
  "native_replay": false,
  "object_bits": 10,
  "timeout": 300
}
@*/
/* C10  RFC 8446 4.4.4: finished_key = HKDF-Expand-Label(BaseKey, "finished", "", Hash.length) where
 * BaseKey is the server_handshake_traffic_secret for the server's Finished and the client one for
 * the client's.  A swapped base key or a wrong label/length agrees with MatrixSSL itself on both
 * ends and fails only against another stack. */
#include "verif.h"
#include "matrixssl/matrixsslImpl.h"

static const char *finishedLabel;
static psSize_t finishedLabelLen;

struct __attribute__((packed)) inputs { uint8_t sha384, wantServer; int32_t rc; };
static struct inputs g_in;
static ssl_t g_ssl;
static struct { int n; const unsigned char *secret; unsigned secretLen; const char *label; unsigned labelLen, ctxLen, outLen; unsigned char *out; int alg; } gh;

int32_t psHkdfExpandLabel(psPool_t *pool, psCipherType_e hmacAlg, const unsigned char *secret, psSize_t secretLen, const char *label, psSize_t labelLen,
    const unsigned char *context, psSize_t contextLen, psSize_t length, unsigned char *out)
{
    gh.n++; gh.secret = secret; gh.secretLen = secretLen; gh.label = label; gh.labelLen = labelLen; gh.ctxLen = contextLen; gh.outLen = length; gh.out = out; gh.alg = hmacAlg;
    return g_in.rc < 0 ? PS_FAILURE : PS_SUCCESS;
}
int32_t tls13GetCipherHmacAlg(ssl_t *ssl) { return g_in.sha384 ? HMAC_SHA384 : HMAC_SHA256; }
int32_t psGetOutputBlockLength(psCipherType_e alg) { return alg == HMAC_SHA384 ? 48 : 32; }

#define HL (g_in.sha384 ? 48u : 32u)
#define WAS_DONE (g_in.wantServer ? OLD(g_ssl, sec.tls13KsState.deriveServerFinishedKeyDone) : OLD(g_ssl, sec.tls13KsState.deriveClientFinishedKeyDone))
#define POSTS(P) \
    P(one_expansion_unless_already_done,   gh.n == (WAS_DONE ? 0 : 1)) \
    P(base_key_is_the_senders_handshake_traffic_secret, IMPLIES(gh.n == 1, gh.secret == (g_in.wantServer ? g_ssl.sec.tls13HsTrafficSecretServer : g_ssl.sec.tls13HsTrafficSecretClient) && gh.secretLen == HL)) \
    P(label_is_finished_with_empty_context, IMPLIES(gh.n == 1, gh.label == finishedLabel && gh.labelLen == finishedLabelLen && gh.ctxLen == 0)) \
    P(key_has_hash_length_and_goes_to_the_finished_key_slot, IMPLIES(gh.n == 1, gh.outLen == HL && gh.out == g_ssl.sec.tls13FinishedKey && gh.alg == (g_in.sha384 ? HMAC_SHA384 : HMAC_SHA256))) \
    P(primitive_failure_is_reported,       IMPLIES(gh.n == 1 && g_in.rc < 0, RET < 0))

int32_t tls13DeriveFinishedKey(ssl_t *ssl, psBool_t wantServerKey)
__CPROVER_requires(ssl == &g_ssl && wantServerKey == (g_in.wantServer ? PS_TRUE : PS_FALSE) && gh.n == 0)
POSTS(ENSURES_CLAUSE)
CANARY_CLAUSE(gh.n == 0)
__CPROVER_assigns(gh, g_ssl.sec.tls13KsState, g_ssl.sec.tls13FinishedKey, g_ssl.sec.tls13HsTrafficSecretServer, g_ssl.sec.tls13HsTrafficSecretClient)
;

#include "matrixssl/tls13KeySchedule.c"

#ifndef NATIVE_REPLAY
struct inputs nondet_in(void);
#endif

HARNESS_BEGIN
    HARNESS_INPUTS(struct inputs, in);
    g_in = in;
    Memset(&gh, 0, sizeof(gh));
    g_ssl.hsPool = NULL;
    tls13DeriveFinishedKey(&g_ssl, in.wantServer ? PS_TRUE : PS_FALSE);
HARNESS_END
