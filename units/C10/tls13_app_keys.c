/*@UNIT
{
  "property": "C10",
  "unit": "tls13_app_keys",
  "function": "tls13DeriveAppKeys",
  "source": "matrixssl/tls13KeySchedule.c",
  "assumed": ["psHkdfExpandLabel (model: records secret, label, context, length and destination of each call; verdict from the input; its HkdfLabel layout is the subject of the pinned known-answer tests)",
              "tls13GetCipherHmacAlg, psGetOutputBlockLength (models: SHA-256/32 or SHA-384/48 chosen by the input)"],
  "mode": "proof",
  "why_proof": "loop-free; role, cipher sizes and hash fully symbolic",
  "native_replay": false,
  "object_bits": 10
}
@*/
/* C10  RFC 8446 7.3: [sender]_write_key = HKDF-Expand-Label(Secret, "key", "", key_length),
 * [sender]_write_iv = HKDF-Expand-Label(Secret, "iv", "", iv_length), where a SERVER reads with
 * the client_application_traffic_secret_0 and writes with the server one, and a CLIENT the other
 * way round.  A swap or a wrong label agrees with MatrixSSL itself on both ends and only
 * fails against another stack - exactly what a self-test cannot see. */
#include "verif.h"
#include "matrixssl/matrixsslImpl.h"

struct __attribute__((packed)) inputs { uint8_t sha384; int32_t rc[4]; };
static struct inputs g_in;
static ssl_t g_ssl;
static sslCipherSpec_t g_cipher;
static struct { int n; const unsigned char *secret[4]; unsigned secretLen[4]; char l0[4], l1[4], l2[4]; unsigned labelLen[4]; unsigned ctxLen[4]; unsigned outLen[4]; unsigned char *out[4]; int alg[4]; } gh;

int32_t psHkdfExpandLabel(psPool_t *pool, psCipherType_e hmacAlg, const unsigned char *secret, psSize_t secretLen, const char *label, psSize_t labelLen,
    const unsigned char *context, psSize_t contextLen, psSize_t length, unsigned char *out)
{
    int i = gh.n;
    if (i < 4)
    {
        gh.secret[i] = secret; gh.secretLen[i] = secretLen; gh.labelLen[i] = labelLen; gh.ctxLen[i] = contextLen;
        gh.l0[i] = labelLen > 0 ? label[0] : 0; gh.l1[i] = labelLen > 1 ? label[1] : 0; gh.l2[i] = labelLen > 2 ? label[2] : 0;
        gh.outLen[i] = length; gh.out[i] = out; gh.alg[i] = hmacAlg;
    }
    gh.n++;
    return (i < 4 && g_in.rc[i] < 0) ? PS_FAILURE : PS_SUCCESS;
}
int32_t tls13GetCipherHmacAlg(ssl_t *ssl) { return g_in.sha384 ? HMAC_SHA384 : HMAC_SHA256; }
int32_t psGetOutputBlockLength(psCipherType_e alg) { return alg == HMAC_SHA384 ? 48 : 32; }

#define SRV ((OLD(g_ssl, flags) & SSL_FLAGS_SERVER) != 0)
#define C_SECRET (g_ssl.sec.tls13AppTrafficSecretClient)
#define S_SECRET (g_ssl.sec.tls13AppTrafficSecretServer)
#define IS_KEY(i) (gh.labelLen[i] == 3 && gh.l0[i] == 'k' && gh.l1[i] == 'e' && gh.l2[i] == 'y' && gh.ctxLen[i] == 0 && gh.outLen[i] == g_cipher.keySize)
#define IS_IV(i)  (gh.labelLen[i] == 2 && gh.l0[i] == 'i' && gh.l1[i] == 'v' && gh.ctxLen[i] == 0 && gh.outLen[i] == g_cipher.ivSize)
#define HLEN (g_in.sha384 ? 48u : 32u)
#define DONE0 (OLD(g_ssl, sec.tls13KsState.deriveAppKeysDone))
#define POSTS(P) \
    P(success_derives_all_four,          IMPLIES(RET == PS_SUCCESS && !DONE0, gh.n == 4)) \
    P(read_key_from_the_peers_secret,    IMPLIES(gh.n >= 1, gh.secret[0] == (SRV ? C_SECRET : S_SECRET) && gh.secretLen[0] == HLEN && IS_KEY(0) && gh.out[0] == g_ssl.sec.tls13AppReadKey)) \
    P(read_iv_from_the_peers_secret,     IMPLIES(gh.n >= 2, gh.secret[1] == (SRV ? C_SECRET : S_SECRET) && gh.secretLen[1] == HLEN && IS_IV(1) && gh.out[1] == g_ssl.sec.tls13AppReadIv)) \
    P(write_key_from_the_own_secret,     IMPLIES(gh.n >= 3, gh.secret[2] == (SRV ? S_SECRET : C_SECRET) && gh.secretLen[2] == HLEN && IS_KEY(2) && gh.out[2] == g_ssl.sec.tls13AppWriteKey)) \
    P(write_iv_from_the_own_secret,      IMPLIES(gh.n >= 4, gh.secret[3] == (SRV ? S_SECRET : C_SECRET) && gh.secretLen[3] == HLEN && IS_IV(3) && gh.out[3] == g_ssl.sec.tls13AppWriteIv)) \
    P(hash_is_the_suites,                IMPLIES(gh.n >= 1, gh.alg[0] == (g_in.sha384 ? HMAC_SHA384 : HMAC_SHA256))) \
    P(primitive_failure_is_reported,     IMPLIES(gh.n >= 1 && gh.n <= 4 && g_in.rc[(gh.n - 1) & 3] < 0, RET < 0 && !g_ssl.sec.tls13KsState.deriveAppKeysDone))

int32_t tls13DeriveAppKeys(ssl_t *ssl)
__CPROVER_requires(ssl == &g_ssl && g_ssl.cipher == &g_cipher && gh.n == 0)
POSTS(ENSURES_CLAUSE)
CANARY_CLAUSE(__CPROVER_return_value != PS_SUCCESS || g_ssl.sec.tls13KsState.deriveAppKeysDone == 0 || gh.n == 0)
__CPROVER_assigns(gh, g_ssl.sec.tls13KsState, g_ssl.sec.tls13AppReadKey, g_ssl.sec.tls13AppReadIv, g_ssl.sec.tls13AppWriteKey, g_ssl.sec.tls13AppWriteIv)
;

#include "matrixssl/tls13KeySchedule.c"

#ifndef NATIVE_REPLAY
struct inputs nondet_in(void);
#endif

HARNESS_BEGIN
    HARNESS_INPUTS(struct inputs, in);
    g_in = in;
    Memset(&gh, 0, sizeof(gh));
    g_ssl.cipher = &g_cipher;
    tls13DeriveAppKeys(&g_ssl);
HARNESS_END
