/*@UNIT
{
  "property": "C10",
  "unit": "tls13_resumption_master_secret",
  "function": "tls13DeriveResumptionMasterSecret",
  "source": "matrixssl/tls13KeySchedule.c",
  "replace": ["tls13DeriveSecret"],
  "assumed": ["tls13DeriveSecret (contract: records input secret, label, transcript pointer and destination of the call; verdict free)",
              "tls13GetCipherHmacAlg, psGetOutputBlockLength (models)"],
  "mode": "proof",
  "why_proof": "loop-free apart from constant-size clears (fully unwound)",
  "unwind": 50,
  "native_replay": false,
  "timeout": 300,
  "object_bits": 10
}
@*/
/* C10  RFC 8446 7.1: resumption_master_secret = Derive-Secret(Master Secret, "res master",
 * ClientHello...client Finished), stored in the slot of that name (tickets and resumption PSKs are
 * derived from it on both sides). */
#include "verif.h"
#include "matrixssl/matrixsslImpl.h"

static const char *resLabel;
static psSize_t resLabelLen;

struct __attribute__((packed)) inputs { uint8_t sha384; };
static struct inputs g_in;
static ssl_t g_ssl;
static struct { int n; const unsigned char *secret, *tr; unsigned secretLen, trLen, labelLen; const char *label; unsigned char *out; } gh;

int32_t tls13GetCipherHmacAlg(ssl_t *ssl) { return g_in.sha384 ? HMAC_SHA384 : HMAC_SHA256; }
int32_t psGetOutputBlockLength(psCipherType_e alg) { return alg == HMAC_SHA384 ? 48 : 32; }

int32_t tls13DeriveSecret(ssl_t *ssl, int32_t hmacAlg, const unsigned char *inSecret, psSize_t inSecretLen, const char *label, psSize_t labelLen,
    const unsigned char *trHash, psSize_t trHashLen, unsigned char outSecret[MAX_TLS_1_3_HASH_SIZE])
__CPROVER_requires(ssl == &g_ssl)
__CPROVER_assigns(gh)
__CPROVER_ensures(gh.n == __CPROVER_old(gh.n) + 1 && gh.secret == inSecret && gh.secretLen == inSecretLen && gh.label == label && gh.labelLen == labelLen && gh.tr == trHash && gh.trLen == trHashLen && gh.out == outSecret)
;

#define HL (g_in.sha384 ? 48u : 32u)
#define POSTS(P) \
    P(one_derivation,                         gh.n == 1) \
    P(from_the_master_secret,                 gh.secret == g_ssl.sec.tls13MasterSecret && gh.secretLen == HL) \
    P(label_is_res_master,                    gh.label == resLabel && gh.labelLen == resLabelLen) \
    P(over_the_transcript_up_to_client_finished, gh.tr == g_ssl.sec.tls13TrHashSnapshot && gh.trLen == HL) \
    P(into_the_resumption_master_secret_slot, gh.out == g_ssl.sec.tls13ResumptionMasterSecret)

int32_t tls13DeriveResumptionMasterSecret(ssl_t *ssl)
__CPROVER_requires(ssl == &g_ssl && gh.n == 0)
POSTS(ENSURES_CLAUSE)
CANARY_CLAUSE(gh.n == 0)
__CPROVER_assigns(gh, g_ssl.sec.tls13KsState, g_ssl.sec.tls13ResumptionMasterSecret, g_ssl.sec.tls13MasterSecret)
;

#include "matrixssl/tls13KeySchedule.c"

#ifndef NATIVE_REPLAY
struct inputs nondet_in(void);
#endif

HARNESS_BEGIN
    HARNESS_INPUTS(struct inputs, in);
    g_in = in;
    Memset(&gh, 0, sizeof(gh));
    tls13DeriveResumptionMasterSecret(&g_ssl);
HARNESS_END
