/*@UNIT
{
  "property": "C10",
  "unit": "tls13_early_secrets",
  "function": "tls13DeriveEarlySecrets",
  "source": "matrixssl/tls13KeySchedule.c",
  "plain": true,
  "frame_check": "none: harness-checked contract (VERIF_PLAIN_CONTRACT, DESIGN 9.2); chosen so that the file's label constants keep their initialisers (under the frame instrumentation static objects are havocked)",
  "keep_bodies": ["tls13GenerateEarlySecret"],
  "replace_calls": ["tls13DeriveSecret:model_tls13DeriveSecret"],
  "assumed": ["tls13DeriveSecret (model body, calls redirected with goto-instrument --replace-calls: records secret, label, transcript and destination; verdict from the input; the real function is the subject of the other key-schedule units)",
              "psHkdfExtract (model: records salt, input keying material and destination; verdict from the input)",
              "tls13GetPskHmacAlg, tls13GetPskHashLen, tls13GetCipherHmacAlg, tls13GetCipherHashSize (models: SHA-256/32 or SHA-384/48 chosen by the input)"],
  "mode": "proof",
  "why_proof": "loop-free apart from constant-size clears and the label comparison (fully unwound); PSK present or not, resumption or external, hash, key-schedule flags symbolic",
  "unwind": 66,
  "native_replay": false,
  "object_bits": 10,
  "timeout": 300
}
@*/
/* C10  RFC 8446 7.1, first stage of the key schedule:
 *   Early Secret = HKDF-Extract(salt = 0 (Hash.length zero bytes), IKM = PSK, or Hash.length zero bytes without a PSK)
 *   binder_key   = Derive-Secret(Early Secret, "ext binder" | "res binder", "")
 * "ext binder" for an externally provisioned PSK, "res binder" for a PSK that came out of a NewSessionTicket: a stack
 * that swaps them agrees with itself and fails every PSK handshake with a conforming peer. */
#define VERIF_PLAIN_CONTRACT
#include "verif.h"
#include "matrixssl/matrixsslImpl.h"

struct __attribute__((packed)) inputs { uint8_t havePsk, pskSha384, cipherSha384, isResumption; uint16_t pskLen; int32_t rc_extract, rc_derive; };
static struct inputs g_in;
static ssl_t g_ssl;
DECL_SNAPSHOT(ssl_t, g_ssl);
static psTls13Psk_t g_psk;
static unsigned char g_pskKey[64];
static struct
{
    int extract, derive, derive_before_extract;
    const unsigned char *ex_salt, *ex_ikm; unsigned char *ex_out; unsigned ex_saltLen, ex_ikmLen; int ex_salt_zero, ex_ikm_zero, ex_alg;
    const unsigned char *d_secret; unsigned d_secretLen, d_labelLen, d_trLen; char d_label[16]; unsigned char *d_out; int d_alg;
} gh;

int32_t psHkdfExtract(psCipherType_e hmacAlg, const unsigned char *salt, psSize_t saltLen, const unsigned char *ikm, psSize_t ikmLen,
    unsigned char *prk, psSize_t *prkLen)
{
    unsigned k;
    gh.extract++; gh.ex_salt = salt; gh.ex_ikm = ikm; gh.ex_out = prk; gh.ex_alg = hmacAlg;
    gh.ex_saltLen = saltLen; gh.ex_ikmLen = ikmLen; gh.ex_salt_zero = 1; gh.ex_ikm_zero = 1;
    for (k = 0; k < MAX_TLS_1_3_HASH_SIZE; k++)
    {
        if (k < saltLen && salt[k] != 0) { gh.ex_salt_zero = 0; }
        if (k < ikmLen && k < MAX_TLS_1_3_HASH_SIZE && ikm[k] != 0) { gh.ex_ikm_zero = 0; }
    }
    return g_in.rc_extract < 0 ? PS_FAILURE : PS_SUCCESS;
}
int32_t model_tls13DeriveSecret(ssl_t *ssl, int32_t hmacAlg, const unsigned char *inSecret, psSize_t inSecretLen, const char *label, psSize_t labelLen,
    const unsigned char *trHash, psSize_t trHashLen, unsigned char outSecret[MAX_TLS_1_3_HASH_SIZE])
{
    unsigned k;
    if (gh.extract == 0) { gh.derive_before_extract = 1; }
    gh.derive++; gh.d_secret = inSecret; gh.d_secretLen = inSecretLen; gh.d_labelLen = labelLen; gh.d_trLen = trHashLen; gh.d_out = outSecret; gh.d_alg = hmacAlg;
    for (k = 0; k < sizeof(gh.d_label); k++) { gh.d_label[k] = (k < labelLen) ? label[k] : 0; }
    return g_in.rc_derive < 0 ? PS_FAILURE : PS_SUCCESS;
}
int32_t tls13GetPskHmacAlg(psTls13Psk_t *psk) { return g_in.pskSha384 ? HMAC_SHA384 : HMAC_SHA256; }
psSize_t tls13GetPskHashLen(psTls13Psk_t *psk) { return g_in.pskSha384 ? 48 : 32; }
int32_t tls13GetCipherHmacAlg(ssl_t *ssl) { return g_in.cipherSha384 ? HMAC_SHA384 : HMAC_SHA256; }
psResSize_t tls13GetCipherHashSize(ssl_t *ssl) { return g_in.cipherSha384 ? 48 : 32; }
int32_t psGetOutputBlockLength(psCipherType_e alg) { return alg == HMAC_SHA384 ? 48 : 32; }

static int vr_is(const char *a, const char *b) { unsigned k; for (k = 0; k < 16; k++) { if (a[k] != b[k]) { return 0; } if (b[k] == 0) { return 1; } } return 1; }
#define SHA384 (g_in.havePsk ? g_in.pskSha384 : g_in.cipherSha384)
#define HL (SHA384 ? 48u : 32u)
#define ALG (SHA384 ? HMAC_SHA384 : HMAC_SHA256)
#define EARLY (SHA384 ? g_ssl.sec.tls13EarlySecretSha384 : g_ssl.sec.tls13EarlySecret)
#define OK (RET == PS_SUCCESS)
#define POSTS(P) \
    P(early_secret_is_extract_with_zero_salt_of_hash_length, IMPLIES(gh.extract >= 1, gh.extract == 1 && gh.ex_saltLen == HL && gh.ex_salt_zero && gh.ex_alg == ALG && gh.ex_out == EARLY)) \
    P(early_secret_input_is_the_psk,                IMPLIES(gh.extract >= 1 && g_in.havePsk, gh.ex_ikm == g_pskKey && gh.ex_ikmLen == g_in.pskLen)) \
    P(early_secret_input_without_psk_is_hash_length_zero_bytes, IMPLIES(gh.extract >= 1 && !g_in.havePsk, gh.ex_ikmLen == HL && gh.ex_ikm_zero)) \
    P(binder_key_is_derived_from_the_early_secret_with_empty_transcript, IMPLIES(gh.derive >= 1, gh.derive == 1 && g_in.havePsk && gh.d_secret == EARLY && gh.d_secretLen == HL && gh.d_trLen == 0 && gh.d_alg == ALG && gh.d_out == g_ssl.sec.tls13ExtBinderSecret)) \
    P(resumption_psk_uses_res_binder,               IMPLIES(gh.derive >= 1 && g_in.isResumption, gh.d_labelLen == 10 && vr_is(gh.d_label, "res binder"))) \
    P(external_psk_uses_ext_binder,                 IMPLIES(gh.derive >= 1 && !g_in.isResumption, gh.d_labelLen == 10 && vr_is(gh.d_label, "ext binder"))) \
    P(success_with_a_psk_means_the_binder_key_was_derived, IMPLIES(OK && g_in.havePsk, gh.derive == 1 && g_in.rc_derive >= 0)) \
    P(fresh_schedule_extracts_before_it_derives,    IMPLIES(OK && !OLD(g_ssl, sec.tls13KsState.generateEarlySecretDone), gh.extract == 1 && g_in.rc_extract >= 0 && !gh.derive_before_extract)) \
    P(primitive_failure_is_reported,                IMPLIES((gh.extract >= 1 && g_in.rc_extract < 0) || (gh.derive >= 1 && g_in.rc_derive < 0), RET < 0))

int32_t tls13DeriveEarlySecrets(ssl_t *ssl, psTls13Psk_t *psk)
__CPROVER_requires(ssl == &g_ssl && psk == (g_in.havePsk ? &g_psk : (psTls13Psk_t *) NULL) && gh.extract == 0 && gh.derive == 0)
POSTS(ENSURES_CLAUSE)
CANARY_CLAUSE(gh.derive == 0 || gh.extract == 0)
__CPROVER_assigns(gh, __CPROVER_object_whole(&g_ssl))
;

#include "matrixssl/tls13KeySchedule.c"

struct inputs nondet_in(void);
ssl_t nondet_ssl(void);

HARNESS_BEGIN
    HARNESS_INPUTS(struct inputs, in);
    int32_t vr_ret;
    g_in = in;
    g_ssl = nondet_ssl();
    __CPROVER_assume(in.pskLen <= sizeof(g_pskKey));
    Memset(&gh, 0, sizeof(gh));
    g_psk.pskKey = g_pskKey; g_psk.pskLen = in.pskLen; g_psk.isResumptionPsk = in.isResumption ? PS_TRUE : PS_FALSE;
    g_ssl.hsPool = NULL;
    SNAPSHOT(g_ssl);
    vr_ret = tls13DeriveEarlySecrets(&g_ssl, in.havePsk ? &g_psk : NULL);
    POSTS(NATIVE_CHECK)
#ifdef CANARY
    PLAIN_ASSERT(CANARY, gh.derive == 0 || gh.extract == 0)
#endif
HARNESS_END
