/*@UNIT
{
  "property": "C10",
  "unit": "tls13_binder_key",
  "function": "tls13DeriveBinderKey",
  "source": "matrixssl/tls13KeySchedule.c",
  "assumed": ["psHkdfExpandLabel (model: records secret, label, context, length and destination; verdict from the input)",
              "tls13GetCipherHmacAlg, psGetOutputBlockLength (models: SHA-256/32 or SHA-384/48 chosen by the input)"],
  "mode": "proof",
  "why_proof": "loop-free apart from a constant-size clear (fully unwound); role of the key, hash and done flags fully symbolic",
  "unwind": 50,
  "native_replay": false,
  "object_bits": 10,
  "timeout": 300
}
@*/
/* C10  RFC 8446 4.2.11.2: the PSK binder is computed like a Finished MAC, with the binder_key as
 * BaseKey: key = HKDF-Expand-Label(binder_key, "finished", "", Hash.length), written to the
 * caller's buffer. */
#include "verif.h"
#include "matrixssl/matrixsslImpl.h"

static const char *finishedLabel;
static psSize_t finishedLabelLen;

struct __attribute__((packed)) inputs { uint8_t sha384; int32_t rc; };
static unsigned char g_secret[MAX_TLS_1_3_HASH_SIZE], g_outkey[MAX_TLS_1_3_HASH_SIZE];
static psSize_t g_outlen;
static struct inputs g_in;
static ssl_t g_ssl;
static struct { int n; const unsigned char *secret; unsigned secretLen; const char *label; unsigned labelLen, ctxLen, outLen; unsigned char *out; int alg; } gh;

int32_t psHkdfExpandLabel(psPool_t *pool, psCipherType_e hmacAlg, const unsigned char *secret, psSize_t secretLen, const char *label, psSize_t labelLen,
    const unsigned char *context, psSize_t contextLen, psSize_t length, unsigned char *out)
{
    gh.n++; gh.secret = secret; gh.secretLen = secretLen; gh.label = label; gh.labelLen = labelLen; gh.ctxLen = contextLen; gh.outLen = length; gh.out = out; gh.alg = hmacAlg;
    return g_in.rc < 0 ? PS_FAILURE : PS_SUCCESS;
}
int32_t tls13GetCipherHmacAlg(ssl_t *ssl) { return g_in.sha384 ? HMAC_SHA384 : HMAC_SHA256; }
int32_t psGetOutputBlockLength(psCipherType_e alg) { return alg == HMAC_SHA384 ? 48 : 32; }

#define HL (g_in.sha384 ? 48u : 32u)
#define POSTS(P) \
    P(one_expansion,                        gh.n == 1) \
    P(base_key_is_the_binder_secret,        gh.secret == g_secret && gh.secretLen == HL) \
    P(label_is_finished_with_empty_context, gh.label == finishedLabel && gh.labelLen == finishedLabelLen && gh.ctxLen == 0) \
    P(key_has_hash_length_and_goes_to_the_callers_buffer, gh.outLen == HL && gh.out == g_outkey && gh.alg == (g_in.sha384 ? HMAC_SHA384 : HMAC_SHA256)) \
    P(primitive_failure_is_reported,        IMPLIES(g_in.rc < 0, RET < 0))

int32_t tls13DeriveBinderKey(ssl_t *ssl, int32_t hmacAlg, unsigned char *binderSecret, psSize_t binderSecretLen, unsigned char *binderKeyOut, psSize_t *binderKeyOutLen)
__CPROVER_requires(ssl == &g_ssl && hmacAlg == (g_in.sha384 ? HMAC_SHA384 : HMAC_SHA256) && binderSecret == g_secret && binderSecretLen == HL && binderKeyOut == g_outkey && binderKeyOutLen == &g_outlen && gh.n == 0)
POSTS(ENSURES_CLAUSE)
CANARY_CLAUSE(gh.n == 0)
__CPROVER_assigns(gh, g_outlen, __CPROVER_object_whole(g_secret), __CPROVER_object_whole(g_outkey))
;

#include "matrixssl/tls13KeySchedule.c"

#ifndef NATIVE_REPLAY
struct inputs nondet_in(void);
#endif

HARNESS_BEGIN
    HARNESS_INPUTS(struct inputs, in);
    g_in = in;
    Memset(&gh, 0, sizeof(gh));
    g_ssl.hsPool = NULL;
    tls13DeriveBinderKey(&g_ssl, in.sha384 ? HMAC_SHA384 : HMAC_SHA256, g_secret, HL, g_outkey, &g_outlen);
HARNESS_END
