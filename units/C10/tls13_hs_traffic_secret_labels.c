/*@UNIT
{
  "property": "C10",
  "properties": ["C19"],
  "unit": "tls13_hs_traffic_secret_labels",
  "function": "tls13DeriveHandshakeTrafficSecrets",
  "source": "matrixssl/tls13KeySchedule.c",
  "replace": ["tls13DeriveSecret", "tls13DeriveEarlySecrets"],
  "assumed": ["tls13DeriveSecret (contract: records input secret, label, transcript pointer and destination of each call; verdict free)",
              "tls13DeriveEarlySecrets (contract: any verdict; the early secrets are whatever it left in their slots)",
              "tls13GenSharedSecret (model: a (EC)DHE secret of 32..66 bytes in a fresh allocation, or failure)",
              "psHkdfExtract, tls13GetCipherHmacAlg, psGetOutputBlockLength (models)"],
  "mode": "proof",
  "why_proof": "hash (SHA-256 / SHA-384) and the length of the (EC)DHE secret are enumerated as cases; loop-free apart from constant-size clears and the model's scan of at most 66 bytes (fully unwound)",
  "unwind": 70,
  "cases": [{"name": "sha256_dhe32", "defs": ["MODE_SHA384=0", "MODE_SHAREDLEN=32"]}, {"name": "sha384_dhe66", "defs": ["MODE_SHA384=1", "MODE_SHAREDLEN=66"]}, {"name": "sha384_dhe48", "defs": ["MODE_SHA384=1", "MODE_SHAREDLEN=48"], "tier": "thorough"}],
  "malloc_may_fail": true,
  "native_replay": false,
  "timeout": 300,
  "object_bits": 10
}
@*/
/* C10  RFC 8446 7.1 key schedule, middle stage:
 *   Handshake Secret = HKDF-Extract(Derive-Secret(Early Secret, "derived", ""), (EC)DHE)
 *     where (EC)DHE is replaced by Hash.length zero bytes in psk_ke mode,
 *   client_handshake_traffic_secret = Derive-Secret(Handshake Secret, "c hs traffic", ClientHello...ServerHello)
 *   server_handshake_traffic_secret = Derive-Secret(Handshake Secret, "s hs traffic", ClientHello...ServerHello)
 * each stored in the slot of that name, Early Secret taken from the slot of the negotiated hash.
 * C19  a failed allocation of the psk_ke zero string is an error return. */
#include "verif.h"
#include "matrixssl/matrixsslImpl.h"

static const char *derivedLabel, *cHsTrafficLabel, *sHsTrafficLabel;
static psSize_t derivedLabelLen, trafficLabelLen;

struct __attribute__((packed)) inputs { uint8_t sha384; int32_t rc_extract, rc_early, rc_shared; uint8_t sharedLen; uint8_t pskMode; };
static struct inputs g_in;
static ssl_t g_ssl;
struct call { const unsigned char *secret, *tr; unsigned trLen, labelLen; const char *label; int seen; };
static struct { int n; struct call cli, srv, oth; unsigned char *oth_out; int extract; const unsigned char *ex_salt; unsigned char *ex_out; int n_at_extract;
                unsigned ex_saltLen, ex_ikmLen; int ex_ikm_zero; int ex_ikm_is_shared; int early, shared; unsigned char *shared_ptr; } gh;

int32_t psHkdfExtract(psCipherType_e hmacAlg, const unsigned char *salt, psSize_t saltLen, const unsigned char *ikm, psSize_t ikmLen,
    unsigned char *prk, psSize_t *prkLen)
{
    unsigned k;
    gh.extract++; gh.n_at_extract = gh.n; gh.ex_salt = salt; gh.ex_out = prk;
    gh.ex_saltLen = saltLen; gh.ex_ikmLen = ikmLen; gh.ex_ikm_zero = 1; gh.ex_ikm_is_shared = (gh.shared == 1 && ikm == gh.shared_ptr);
    for (k = 0; k < 66; k++) { if (k < ikmLen && ikm[k] != 0) { gh.ex_ikm_zero = 0; } }
    *prkLen = g_in.sha384 ? 48 : 32;
    return g_in.rc_extract < 0 ? PS_FAILURE : PS_SUCCESS;
}
int32_t tls13GetCipherHmacAlg(ssl_t *ssl) { return g_in.sha384 ? HMAC_SHA384 : HMAC_SHA256; }
int32_t psGetOutputBlockLength(psCipherType_e alg) { return alg == HMAC_SHA384 ? 48 : 32; }
int32_t tls13DeriveEarlySecrets(ssl_t *ssl, psTls13Psk_t *psk)
__CPROVER_requires(ssl == &g_ssl)
__CPROVER_assigns(gh.early, g_ssl.sec.tls13EarlySecret, g_ssl.sec.tls13EarlySecretSha384)
__CPROVER_ensures(gh.early == __CPROVER_old(gh.early) + 1)
;
int32_t tls13GenSharedSecret(ssl_t *ssl, unsigned char **out, psSize_t *outLen)
{
    unsigned char *p;
    gh.shared++;
    if (g_in.rc_shared < 0) { return PS_FAILURE; }
    p = malloc(66);
    if (p == NULL) { return PS_MEM_FAIL; }
    p[0] = 1;      /* a (EC)DHE secret is not the all-zero string */
    *out = p; *outLen = g_in.sharedLen; gh.shared_ptr = p;
    return PS_SUCCESS;
}

#define REC(slot) (gh.slot.seen == 1 && gh.slot.secret == inSecret && gh.slot.tr == trHash && gh.slot.trLen == trHashLen && gh.slot.labelLen == labelLen && gh.slot.label == label)
#define SAME(slot) (gh.slot.seen == __CPROVER_old(gh.slot.seen) && gh.slot.secret == __CPROVER_old(gh.slot.secret) && gh.slot.tr == __CPROVER_old(gh.slot.tr) && \
                    gh.slot.trLen == __CPROVER_old(gh.slot.trLen) && gh.slot.labelLen == __CPROVER_old(gh.slot.labelLen) && gh.slot.label == __CPROVER_old(gh.slot.label))
int32_t tls13DeriveSecret(ssl_t *ssl, int32_t hmacAlg, const unsigned char *inSecret, psSize_t inSecretLen, const char *label, psSize_t labelLen,
    const unsigned char *trHash, psSize_t trHashLen, unsigned char outSecret[MAX_TLS_1_3_HASH_SIZE])
__CPROVER_requires(ssl == &g_ssl)
__CPROVER_assigns(gh.n, gh.cli, gh.srv, gh.oth, gh.oth_out)
__CPROVER_ensures(gh.n == __CPROVER_old(gh.n) + 1)
__CPROVER_ensures(outSecret == g_ssl.sec.tls13HsTrafficSecretClient ? (REC(cli) && SAME(srv) && SAME(oth) && gh.oth_out == __CPROVER_old(gh.oth_out)) :
                  outSecret == g_ssl.sec.tls13HsTrafficSecretServer ? (REC(srv) && SAME(cli) && SAME(oth) && gh.oth_out == __CPROVER_old(gh.oth_out)) :
                  (REC(oth) && gh.oth_out == outSecret && SAME(cli) && SAME(srv)))
;

#define LBL(slot, var, len) (gh.slot.label == (var) && gh.slot.labelLen == (len))
#define HL (g_in.sha384 ? 48u : 32u)
#define EARLY_SLOT (g_in.sha384 ? g_ssl.sec.tls13EarlySecretSha384 : g_ssl.sec.tls13EarlySecret)
#define PSK_KE (g_in.pskMode == psk_keyex_mode_psk_ke)
#define POSTS(P) \
    P(first_stage_is_derived_from_the_early_secret_of_the_negotiated_hash, IMPLIES(gh.oth.seen, LBL(oth, derivedLabel, derivedLabelLen) && gh.oth.secret == EARLY_SLOT && gh.oth.trLen == 0 && gh.early == 1)) \
    P(handshake_secret_is_extract_of_derived, IMPLIES(gh.extract >= 1, gh.extract == 1 && gh.n_at_extract == 1 && gh.oth.seen && gh.ex_salt == gh.oth_out && gh.ex_saltLen == HL && gh.ex_out == g_ssl.sec.tls13HandshakeSecret)) \
    P(psk_ke_input_is_hash_length_zero_bytes, IMPLIES(gh.extract >= 1 && PSK_KE, gh.ex_ikmLen == HL && gh.ex_ikm_zero && gh.shared == 0)) \
    P(dhe_input_is_the_shared_secret,         IMPLIES(gh.extract >= 1 && !PSK_KE, gh.ex_ikm_is_shared && gh.ex_ikmLen == g_in.sharedLen)) \
    P(client_secret_uses_c_hs_traffic,        IMPLIES(gh.cli.seen, LBL(cli, cHsTrafficLabel, trafficLabelLen) && gh.cli.secret == g_ssl.sec.tls13HandshakeSecret && gh.cli.tr == g_ssl.sec.tls13TrHashSnapshotCHtoSH && gh.cli.trLen == HL && gh.extract == 1)) \
    P(server_secret_uses_s_hs_traffic,        IMPLIES(gh.srv.seen, LBL(srv, sHsTrafficLabel, trafficLabelLen) && gh.srv.secret == g_ssl.sec.tls13HandshakeSecret && gh.srv.tr == g_ssl.sec.tls13TrHashSnapshotCHtoSH && gh.srv.trLen == HL && gh.extract == 1)) \
    P(done_flag_only_after_all_stages,        IMPLIES(g_ssl.sec.tls13KsState.deriveHandshakeTrafficSecretsDone && !OLD(g_ssl, sec.tls13KsState.deriveHandshakeTrafficSecretsDone), gh.n == 3 && gh.cli.seen && gh.srv.seen && gh.oth.seen && gh.extract == 1 && RET == PS_SUCCESS))

int32_t tls13DeriveHandshakeTrafficSecrets(ssl_t *ssl)
__CPROVER_requires(ssl == &g_ssl && gh.n == 0 && gh.extract == 0 && gh.early == 0 && gh.shared == 0)
POSTS(ENSURES_CLAUSE)
CANARY_CLAUSE(g_ssl.sec.tls13KsState.deriveHandshakeTrafficSecretsDone == 0 || gh.n == 0)
__CPROVER_assigns(gh, g_ssl.err, g_ssl.sec.tls13KsState, g_ssl.sec.tls13HandshakeSecret, g_ssl.sec.tls13EarlySecret, g_ssl.sec.tls13EarlySecretSha384)
;

#include "matrixssl/tls13KeySchedule.c"

#ifndef NATIVE_REPLAY
struct inputs nondet_in(void);
#endif

HARNESS_BEGIN
    HARNESS_INPUTS(struct inputs, in);
    in.sha384 = MODE_SHA384; in.sharedLen = MODE_SHAREDLEN;   /* hash and (EC)DHE secret length are constants of the case (lengths that feed memset/clear loops) */
    g_in = in;
    Memset(&gh, 0, sizeof(gh));
    g_ssl.sec.tls13ChosenPskMode = in.pskMode;
    g_ssl.sec.tls13ChosenPsk = NULL;
    g_ssl.hsPool = NULL;
    tls13DeriveHandshakeTrafficSecrets(&g_ssl);
HARNESS_END
