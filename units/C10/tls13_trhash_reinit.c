/*@UNIT
{
  "property": "C10",
  "unit": "tls13_trhash_reinit",
  "function": "tls13TranscriptHashReinit",
  "source": "matrixssl/tls13TrHash.c",
  "keep_bodies": ["getHashAlg"],
  "replace": ["tls13TranscriptHashFinish", "tls13TranscriptHashInit", "tls13TranscriptHashUpdate"],
  "assumed": ["tls13TranscriptHashFinish (contract: writes the digest of ClientHello1 into the snapshot buffer; verdict free)",
              "tls13TranscriptHashInit (contract: verdict free)",
              "tls13TranscriptHashUpdate (contract: requires a readable input; records its length and its k-th byte)"],
  "mode": "proof",
  "why_proof": "constant-size copies (32 / 48 bytes) only, fully unwound; suite flags symbolic",
  "unwind": 52,
  "native_replay": false,
  "object_bits": 10
}
@*/
/* C10  RFC 8446 4.4.1: after a HelloRetryRequest ClientHello1 is replaced in the transcript by
 *     message_hash (254) || 00 00 Hash.length || Hash(ClientHello1)
 * with Hash the hash of the negotiated suite: 32 bytes for SHA-256 suites, 48 for SHA-384 suites,
 * both in the length octet and in the number of bytes hashed (ghost index k over the bytes). */
#include "verif.h"
#include "matrixssl/matrixsslImpl.h"

struct __attribute__((packed)) inputs { uint32_t cipherFlags; uint8_t k; int32_t rc_fin, rc_init, rc_upd; };
static struct inputs g_in;
static ssl_t g_ssl;
static sslCipherSpec_t g_cipher;
static struct { int fin, init, upd; unsigned updLen; unsigned char byte_k; int order_ok; } gh;

int32_t tls13TranscriptHashFinish(ssl_t *ssl, unsigned char *out)
__CPROVER_requires(ssl == &g_ssl)
__CPROVER_assigns(gh.fin, gh.order_ok, g_ssl.sec.tls13TrHashSnapshotCH1)
__CPROVER_ensures(gh.fin == __CPROVER_old(gh.fin) + 1 && gh.order_ok == (out == g_ssl.sec.tls13TrHashSnapshotCH1 && __CPROVER_old(gh.init) == 0 && __CPROVER_old(gh.upd) == 0))
;
int32_t tls13TranscriptHashInit(ssl_t *ssl)
__CPROVER_requires(ssl == &g_ssl)
__CPROVER_assigns(gh.init)
__CPROVER_ensures(gh.init == __CPROVER_old(gh.init) + 1)
;
int32_t tls13TranscriptHashUpdate(ssl_t *ssl, const unsigned char *in, psSize_t len)
__CPROVER_requires(ssl == &g_ssl && (len == 0 || __CPROVER_r_ok(in, len)))
__CPROVER_assigns(gh.upd, gh.updLen, gh.byte_k)
__CPROVER_ensures(gh.upd == __CPROVER_old(gh.upd) + 1 && gh.updLen == len && (g_in.k >= len || gh.byte_k == in[g_in.k]))
;

#define SHA384_SUITE ((g_cipher.flags & CRYPTO_FLAGS_SHA3) != 0)
#define HLEN (SHA384_SUITE ? 48u : 32u)
#define SPEC_BYTE(k) ((k) == 0 ? 254 : (k) < 3 ? 0 : (k) == 3 ? HLEN : g_ssl.sec.tls13TrHashSnapshotCH1[((k) - 4) % 48])
#define POSTS(P) \
    P(success_hashes_exactly_one_message_hash,  IMPLIES(RET == MATRIXSSL_SUCCESS, gh.fin == 1 && gh.init == 1 && gh.upd == 1 && gh.order_ok)) \
    P(message_hash_has_header_plus_hash_length, IMPLIES(gh.upd == 1, gh.updLen == 4 + HLEN)) \
    P(message_hash_bytes_are_rfc8446_4_4_1,     IMPLIES(gh.upd == 1 && g_in.k < 4 + HLEN, gh.byte_k == (unsigned char) SPEC_BYTE(g_in.k))) \
    P(failures_are_reported,                    IMPLIES(RET >= 0, RET == MATRIXSSL_SUCCESS))

int32_t tls13TranscriptHashReinit(ssl_t *ssl)
__CPROVER_requires(ssl == &g_ssl && g_ssl.cipher == &g_cipher && gh.fin == 0 && gh.init == 0 && gh.upd == 0)
POSTS(ENSURES_CLAUSE)
CANARY_CLAUSE(__CPROVER_return_value != MATRIXSSL_SUCCESS)
__CPROVER_assigns(gh, g_ssl.sec.tls13TrHashSnapshotCH1)
;

#include "matrixssl/tls13TrHash.c"

#ifndef NATIVE_REPLAY
struct inputs nondet_in(void);
#endif

HARNESS_BEGIN
    HARNESS_INPUTS(struct inputs, in);
    g_in = in;
    Memset(&gh, 0, sizeof(gh));
    g_cipher.flags = in.cipherFlags;
    g_ssl.cipher = &g_cipher;       /* the suite is known (server role, or a client after ServerHello) */
    tls13TranscriptHashReinit(&g_ssl);
HARNESS_END
