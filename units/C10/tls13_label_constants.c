/*@UNIT
{
  "property": "C10",
  "unit": "tls13_label_constants",
  "function": "tls13DeriveSecret",
  "source": "matrixssl/tls13KeySchedule.c",
  "plain": true,
  "mode": "proof",
  "why_proof": "loop-free comparison of constant data with the RFC text (plain cbmc run with the program's own static initialisers)",
  "native_replay": false
}
@*/
/* C10  the label constants of the TLS 1.3 key schedule are the strings of RFC 8446 7.1, with
 * their exact lengths (the derive units identify a label by these constants). */
#include "verif.h"
#include "matrixssl/matrixsslImpl.h"
#include "matrixssl/tls13KeySchedule.c"

#define IS(var, lit) (memcmp((var), (lit), sizeof(lit)) == 0)
#define POSTS(P) \
    P(derived_label,        IS(derivedLabel, "derived") && derivedLabelLen == 7) \
    P(ext_binder_label,     IS(extBinderLabel, "ext binder") && extBinderLabelLen == 10) \
    P(res_binder_label,     IS(resBinderLabel, "res binder") && resBinderLabelLen == 10) \
    P(c_e_traffic_label,    IS(cEarlyTrafficLabel, "c e traffic") && earlyTrafficLabelLen == 11) \
    P(c_hs_traffic_label,   IS(cHsTrafficLabel, "c hs traffic")) \
    P(s_hs_traffic_label,   IS(sHsTrafficLabel, "s hs traffic")) \
    P(finished_label,       IS(finishedLabel, "finished") && finishedLabelLen == 8) \
    P(c_ap_traffic_label,   IS(cApTrafficLabel, "c ap traffic")) \
    P(s_ap_traffic_label,   IS(sApTrafficLabel, "s ap traffic") && trafficLabelLen == 12) \
    P(res_master_label,     IS(resLabel, "res master") && resLabelLen == 10)

void harness(void)
{
    POSTS(PLAIN_ASSERT)
#ifdef CANARY
    __CPROVER_assert(!IS(cApTrafficLabel, "c ap traffic"), "CANARY");
#endif
}
