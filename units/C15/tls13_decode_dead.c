/*@UNIT
{
  "property": "C15",
  "unit": "tls13_decode_dead",
  "function": "matrixSslDecodeTls13",
  "source": "matrixssl/tls13Decode.c",
  "keep_bodies": ["tls13ParseRecordHeader", "tls13ValidateRecordHeader", "tls13ValidateRecordType", "tls13ParseChangeCipherSpec", "tls13ParseAndHandleAlert", "tls13HandleAlert", "psParse* (core/src/psbuf.c, core/include/psbuf.h)"],
  "replace": ["tls13ParseHandshakeMessage"],
  "assumed": ["ssl->decrypt (model = the contract proved for the AEAD openers in C02: fails for records shorter than the tag, else verdict chosen by the input)",
              "tls13ParseHandshakeMessage (contract: advances the cursor inside the record, by >= 4 bytes when it returns >= 0; may change hsState, flags, err, decState)",
              "tls13EncodeAlert, sslEncodeResponse (models: write only into the buffer they are given; SSL_FULL / PS_* error / success)"],
  "mode": "bounded",
  "bounds": "receive buffer of N bytes holding every len <= N received bytes with every content (N=40 quick, 72 thorough); loops unwound with unwinding assertions: padding strip N+2, ignored 6-byte ChangeCipherSpec records N/6+2, handshake messages (>= 4 bytes each) N/4+2",
  "defs_quick": ["BUFN=40"],
  "defs_thorough": ["BUFN=72"],
  "unwind_quick": 42, "unwind_thorough": 74,
  "unwindset_quick": ["matrixSslDecodeTls13_wrapped_for_contract_checking.0:9", "matrixSslDecodeTls13_wrapped_for_contract_checking.2:12"],
  "unwindset_thorough": ["matrixSslDecodeTls13_wrapped_for_contract_checking.0:15", "matrixSslDecodeTls13_wrapped_for_contract_checking.2:20"],
  "remove_function_pointers": true,
  "native_replay": true,
  "object_bits": 10,
  "timeout": 400,
  "weight_gb": 4
}
@*/
/* C15.U3  TLS 1.3 record decoder: every way of failing kills the session.
 *  - a fatal alert handed to the caller for sending leaves SSL_FLAGS_ERROR set;
 *  - a received alert sets CLOSED (close_notify) or ERROR (anything else);
 *  - no error path reports success: an undecryptable record is tolerated
 *    (MATRIXSSL_SUCCESS / SEND_RESPONSE without alert) only on a server that is
 *    rejecting early data, within the configured limit;
 *  - ERROR / CLOSED are never cleared. */
#define EARLY_SKIP_OK ((gh_flags_at_entry & SSL_FLAGS_SERVER) && !g_in.earlyEnabled && (g_in.gotEarlyData & 1) && \
                       g_ssl.tls13ReceivedEarlyDataLen <= g_ssl.tls13SessionMaxEarlyData)
#define POSTS(P) \
    P(alert_sent_marks_session_failed,   IMPLIES(gh_alert_encoded > 0, (g_ssl.flags & SSL_FLAGS_ERROR) != 0)) \
    P(alert_to_send_is_reported_fatal,   IMPLIES(RET == SSL_SEND_RESPONSE && g_alertDesc != SSL_ALERT_NONE, g_alertLevel == SSL_ALERT_LEVEL_FATAL && (g_ssl.flags & SSL_FLAGS_ERROR) != 0)) \
    P(received_alert_kills_session,      IMPLIES(RET == SSL_ALERT, (g_ssl.flags & (SSL_FLAGS_ERROR | SSL_FLAGS_CLOSED)) != 0)) \
    P(received_fatal_alert_sets_error,   IMPLIES(RET == SSL_ALERT && g_alertDesc != SSL_ALERT_CLOSE_NOTIFY, (g_ssl.flags & SSL_FLAGS_ERROR) != 0)) \
    P(decrypt_failure_never_yields_data, IMPLIES(gh_dec_failed, RET != SSL_PROCESS_DATA && RET != SSL_ALERT && gh_hs_calls == 0)) \
    P(decrypt_failure_is_fatal_unless_early_data_skip, IMPLIES(gh_dec_failed && !EARLY_SKIP_OK, (g_ssl.err == SSL_ALERT_BAD_RECORD_MAC && gh_alert_encoded == 1 && (g_ssl.flags & SSL_FLAGS_ERROR) != 0) || RET == SSL_FULL)) \
    P(error_and_closed_are_sticky,       (g_ssl.flags & (SSL_FLAGS_ERROR | SSL_FLAGS_CLOSED) & gh_flags_at_entry) == ((SSL_FLAGS_ERROR | SSL_FLAGS_CLOSED) & gh_flags_at_entry) || gh_hs_calls > 0) \
    P(internal_error_is_reported,        IMPLIES(RET < 0 && RET > -50, g_error == MATRIXSSL_ERROR || RET == MATRIXSSL_ERROR || RET == PS_FAILURE))
#define CANARY_COND (__CPROVER_return_value != SSL_SEND_RESPONSE)
#include "tls13_decode.h"
