/*@UNIT
{
  "property": "C15",
  "unit": "decode_entry_guard",
  "function": "matrixSslDecode",
  "source": "matrixssl/sslDecode.c",
  "replace": ["matrixSslDecodeTls13", "matrixSslDecodeTls12AndBelow"],
  "assumed": [],
  "mode": "proof",
  "why_proof": "loop-free; the two version-specific decoders are replaced by contracts (any verdict, counted in a ghost); their own contracts are enforced in the units tls13_decode_* and tls12_decode_*",
  "native_replay": false,
  "object_bits": 10
}
@*/
/* C15.U1  a session that is flagged ERROR or CLOSED never decodes again: the public
 * record decoder refuses it with MATRIXSSL_ERROR / PS_PROTOCOL_FAIL before any
 * version-specific decoder runs and without touching the buffer, the cursor or the
 * session; a live session is dispatched to exactly one decoder (the TLS 1.3 one
 * first when a 1.3 version is active, falling back only on SSL_NO_TLS_1_3). */
#include "verif.h"
#include "matrixssl/matrixsslImpl.h"

static ssl_t g_ssl;
static struct { unsigned char *inp; uint32 len, remaining, reqLen; int32 error; unsigned char alertLevel, alertDesc; } g_o;
static struct { int calls13, calls12; int32 rc13, rc12; } gh;
static unsigned char g_buf[16];

#define DEAD_AT_ENTRY ((OLD(g_ssl, flags) & (SSL_FLAGS_ERROR | SSL_FLAGS_CLOSED)) != 0)
#define POSTS(P) \
    P(dead_session_is_refused,       IMPLIES(DEAD_AT_ENTRY, RET == MATRIXSSL_ERROR && g_o.error == PS_PROTOCOL_FAIL)) \
    P(dead_session_reaches_no_decoder, IMPLIES(DEAD_AT_ENTRY, gh.calls13 == 0 && gh.calls12 == 0)) \
    P(dead_session_state_untouched,  IMPLIES(DEAD_AT_ENTRY, g_ssl.flags == OLD(g_ssl, flags) && g_o.inp == OLD(g_o, inp) && g_o.len == OLD(g_o, len))) \
    P(live_session_is_dispatched,    IMPLIES(!DEAD_AT_ENTRY, gh.calls13 + gh.calls12 >= 1 && gh.calls13 <= 1 && gh.calls12 <= 1)) \
    P(tls13_session_uses_tls13_decoder, IMPLIES(!DEAD_AT_ENTRY && (OLD(g_ssl, activeVersion) & v_tls_1_3_any), gh.calls13 == 1 && (gh.calls12 == 0 || gh.rc13 == SSL_NO_TLS_1_3))) \
    P(verdict_is_the_decoders,       IMPLIES(!DEAD_AT_ENTRY, RET == (gh.calls12 ? gh.rc12 : gh.rc13)))

int32 matrixSslDecodeTls13(ssl_t *ssl, unsigned char **in, uint32 *len, uint32 size, uint32 *remaining,
    uint32 *requiredLen, int32 *error, unsigned char *alertLevel, unsigned char *alertDescription)
__CPROVER_requires(ssl == &g_ssl)
__CPROVER_assigns(gh.calls13, gh.rc13, g_o, g_ssl.flags, g_ssl.hsState, g_ssl.err, g_ssl.activeVersion)
__CPROVER_ensures(gh.calls13 == __CPROVER_old(gh.calls13) + 1 && gh.rc13 == __CPROVER_return_value)
;
static int32_t matrixSslDecodeTls12AndBelow(ssl_t *ssl, unsigned char **buf, uint32 *len, uint32 size, uint32 *remaining,
    uint32 *requiredLen, int32 *error, unsigned char *alertLevel, unsigned char *alertDescription)
__CPROVER_requires(ssl == &g_ssl)
__CPROVER_assigns(gh.calls12, gh.rc12, g_o, g_ssl.flags, g_ssl.hsState, g_ssl.err, g_ssl.activeVersion)
__CPROVER_ensures(gh.calls12 == __CPROVER_old(gh.calls12) + 1 && gh.rc12 == __CPROVER_return_value)
;

int32 matrixSslDecode(ssl_t *ssl, unsigned char **buf, uint32 *len, uint32 size, uint32 *remaining,
    uint32 *requiredLen, int32 *error, unsigned char *alertLevel, unsigned char *alertDescription)
__CPROVER_requires(ssl == &g_ssl && buf == &g_o.inp && len == &g_o.len && remaining == &g_o.remaining && requiredLen == &g_o.reqLen &&
                   error == &g_o.error && alertLevel == &g_o.alertLevel && alertDescription == &g_o.alertDesc)
__CPROVER_requires(gh.calls13 == 0 && gh.calls12 == 0)
POSTS(ENSURES_CLAUSE)
CANARY_CLAUSE(__CPROVER_return_value == MATRIXSSL_ERROR)
__CPROVER_assigns(gh, g_o, g_ssl.flags, g_ssl.hsState, g_ssl.err, g_ssl.activeVersion)
;

#include "matrixssl/sslDecode.c"

HARNESS_BEGIN
    g_o.inp = g_buf;
    matrixSslDecode(&g_ssl, &g_o.inp, &g_o.len, 16, &g_o.remaining, &g_o.reqLen, &g_o.error, &g_o.alertLevel, &g_o.alertDesc);
HARNESS_END
