/*@UNIT
{
  "property": "C15",
  "unit": "write_alert",
  "function": "writeAlert",
  "source": "matrixssl/sslEncode.c",
  "plain": true,
  "frame_check": "none: harness-checked contract (VERIF_PLAIN_CONTRACT, DESIGN 9.2)",
  "replace_calls": ["writeRecordHeader:model_writeRecordHeader", "encryptRecord:model_encryptRecord"],
  "assumed": ["writeRecordHeader (model body, calls redirected with goto-instrument --replace-calls: SSL_FULL unless the message fits; on success the cursor stands behind the record header)",
              "encryptRecord (model body: any verdict; cursor stays in the buffer)"],
  "mode": "proof",
  "why_proof": "loop-free; alert level and description, pending alert, output buffer fill, verdicts of the record layer symbolic; TLS <= 1.2 (the TLS 1.3 branch is tls13EncodeAlert)",
  "unwind": 4,
  "native_replay": false,
  "object_bits": 10,
  "timeout": 300
}
@*/
/* C15  "Once a session has ... hit a protocol, decoding or decryption error ... it never again delivers ... never
 * again encrypts".  For TLS <= 1.2 the decoder and the API mark a session dead when, AFTER the alert has been
 * written by sslEncodeResponse -> writeAlert, ssl->err is still set (sslDecode.c: `if (ssl->err !=
 * SSL_ALERT_NONE) ssl->flags |= SSL_FLAGS_ERROR`).  So writing a fatal alert must leave it pending; only the two
 * alerts the specification demotes to warnings (no_renegotiation, and unrecognized_name when the build ignores
 * unknown SNI) may clear it.  Also: what goes into the record is the (possibly demoted) level and this
 * description, and a full buffer reports the size needed. */
#define VERIF_PLAIN_CONTRACT
#include "verif.h"
#include "matrixssl/matrixsslImpl.h"

#define OUTSZ 96
struct __attribute__((packed)) inputs { uint8_t level, description; int32_t err0; uint32_t outUsed; int32_t hdr_rc, enc_rc; };
static struct inputs g_in;
static ssl_t g_ssl;
static sslBuf_t g_out;
static unsigned char g_outbuf[OUTSZ];
static uint32 g_reqLen;
static struct { int hdr, enc; unsigned msgSize; unsigned char *body; unsigned char lvl, desc; } gh;

int32_t model_writeRecordHeader(ssl_t *ssl, uint8_t type, uint8_t hsType, psSize_t *messageSize, uint8_t *padLen,
    unsigned char **encryptStart, const unsigned char *end, unsigned char **c)
{
    gh.hdr++;
    gh.msgSize = *messageSize;
    if ((unsigned long) (end - *c) < *messageSize || g_in.hdr_rc != 0) { return SSL_FULL; }
    *encryptStart = *c + 5;
    *c += 5;
    gh.body = *c;
    *padLen = 0;
    return PS_SUCCESS;
}
int32 model_encryptRecord(ssl_t *ssl, int32 type, int32 hsMsgType, int32 messageSize, int32 padLen, unsigned char *pt, sslBuf_t *out, unsigned char **c)
{
    gh.enc++;
    gh.lvl = pt[0]; gh.desc = pt[1];
    return g_in.enc_rc < 0 ? g_in.enc_rc : PS_SUCCESS;
}

#ifdef SERVER_IGNORE_UNRECOGNIZED_SNI
# define DEMOTED (g_in.description == SSL_ALERT_NO_RENEGOTIATION || g_in.description == SSL_ALERT_UNRECOGNIZED_NAME)
#else
# define DEMOTED (g_in.description == SSL_ALERT_NO_RENEGOTIATION)
#endif
#define OK (RET == MATRIXSSL_SUCCESS)
#define POSTS(P) \
    P(fatal_alert_stays_pending_after_it_was_written, IMPLIES(!DEMOTED, g_ssl.err == g_in.err0)) \
    P(only_a_demoted_alert_clears_the_pending_alert,  g_ssl.err == g_in.err0 || (DEMOTED && g_ssl.err == SSL_ALERT_NONE)) \
    P(record_carries_this_level_and_description,      IMPLIES(OK, gh.hdr == 1 && gh.enc == 1 && gh.desc == g_in.description && gh.lvl == (DEMOTED ? SSL_ALERT_LEVEL_WARNING : g_in.level))) \
    P(full_buffer_reports_the_size_needed,            IMPLIES(RET == SSL_FULL && gh.enc == 0, g_reqLen == gh.msgSize && gh.msgSize == 2u + g_ssl.recordHeadLen)) \
    P(failure_leaves_the_output_untouched,            IMPLIES(!OK, g_out.end == g_outbuf + g_in.outUsed))

static int32 writeAlert(ssl_t *ssl, unsigned char level, unsigned char description, sslBuf_t *out, uint32 *requiredLen)
__CPROVER_requires(ssl == &g_ssl && level == g_in.level && description == g_in.description && out == &g_out && requiredLen == &g_reqLen)
__CPROVER_requires(g_ssl.err == g_in.err0 && gh.hdr == 0 && gh.enc == 0)
POSTS(ENSURES_CLAUSE)
__CPROVER_assigns(gh, g_reqLen, g_out.end, g_ssl.err, __CPROVER_object_whole(g_outbuf))
;

#include "matrixssl/sslEncode.c"

struct inputs nondet_in(void);
ssl_t nondet_ssl(void);

HARNESS_BEGIN
    HARNESS_INPUTS(struct inputs, in);
    int32 vr_ret;
    g_in = in;
    g_ssl = nondet_ssl();
    g_ssl.activeVersion = v_tls_1_2 | v_tls_negotiated;
    g_ssl.recordHeadLen = 5;
    g_ssl.err = in.err0;
    __CPROVER_assume(in.outUsed <= OUTSZ);
    g_out.buf = g_out.start = g_outbuf;
    g_out.end = g_outbuf + in.outUsed;
    g_out.size = OUTSZ;
    Memset(&gh, 0, sizeof(gh));
    vr_ret = writeAlert(&g_ssl, in.level, in.description, &g_out, &g_reqLen);
    POSTS(NATIVE_CHECK)
#ifdef CANARY
    PLAIN_ASSERT(CANARY, vr_ret != MATRIXSSL_SUCCESS)
#endif
HARNESS_END
