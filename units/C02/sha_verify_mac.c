/*@UNIT
{
  "property": "C02",
  "unit": "sha_verify_mac",
  "function": "csShaVerifyMac",
  "source": "matrixssl/cipherSuite.c",
  "plain": true,
  "frame_check": "none: harness-checked contract (VERIF_PLAIN_CONTRACT, DESIGN 9.2); the function is static, loop-free and writes only a local buffer",
  "keep_bodies": ["memcmpct (core/src/corelib_strings.c, real body: its loop is fully unwound)"],
  "assumed": ["tlsHMACSha1, tlsHMACSha2 (models: record mode, record type, data range and hash size, write an arbitrary MAC value chosen by the input; that the real functions compute HMAC(read MAC key, seq || type || version || length || data) is C12 / the decoder units)"],
  "mode": "proof",
  "why_proof": "loop-free apart from the constant-time comparison over at most 48 bytes (fully unwound); MAC value computed, MAC value received, MAC sizes, record type and length symbolic",
  "unwind": 50,
  "native_replay": false,
  "object_bits": 10,
  "timeout": 300
}
@*/
/* C02  "any modification of a protected record ends the session with a fatal alert and yields no data from that
 * record": for the HMAC-SHA suites of TLS 1.0-1.2 (every CBC suite) the decoder matrixSslDecodeTls12AndBelow asks
 * ssl->verifyMac and treats exactly a NEGATIVE answer as "MAC wrong" (sslDecode.c: `ssl->verifyMac(...) < 0 ||
 * macError`).  So: a received MAC that differs from the computed one in any of its deMacSize bytes must give a
 * negative answer, and PS_SUCCESS means that the HMAC of the suite's hash was computed in verify mode over this
 * record (type, data, len) and all deMacSize bytes agree.
 * Precondition taken from the suite table: csShaVerifyMac is the verifyMac of suites with macSize 20, 32 or 48
 * only (supportedCiphers[] in this file), and it runs with a negotiated TLS version (v_tls_with_hmac; SSL 3.0 is
 * disabled in this build). */
#define VERIF_PLAIN_CONTRACT
#include "verif.h"
#include "matrixssl/matrixsslImpl.h"

#define DATAN 8
struct __attribute__((packed)) inputs
{
    uint8_t nativeSize, deMacSize, type, k; uint32_t len;
    unsigned char computed[SHA384_HASH_SIZE], received[SHA384_HASH_SIZE];
};
static struct inputs g_in;
static ssl_t g_ssl;
static unsigned char g_data[DATAN], g_mac[SHA384_HASH_SIZE];
static struct { int n, mode, hashSize, sha1; unsigned char type; const unsigned char *data; uint32_t len; } gh;

int32 tlsHMACSha1(ssl_t *ssl, int32 mode, unsigned char type, unsigned char *data, uint32 len, unsigned char *mac)
{
    gh.n++; gh.mode = mode; gh.type = type; gh.data = data; gh.len = len; gh.hashSize = SHA1_HASH_SIZE; gh.sha1 = 1;
    Memcpy(mac, g_in.computed, SHA1_HASH_SIZE);
    return PS_SUCCESS;
}
int32 tlsHMACSha2(ssl_t *ssl, int32 mode, unsigned char type, unsigned char *data, uint32 len, unsigned char *mac, int32 hashSize)
{
    gh.n++; gh.mode = mode; gh.type = type; gh.data = data; gh.len = len; gh.hashSize = hashSize; gh.sha1 = 0;
    if (hashSize == SHA256_HASH_SIZE) { Memcpy(mac, g_in.computed, SHA256_HASH_SIZE); }
    else if (hashSize == SHA384_HASH_SIZE) { Memcpy(mac, g_in.computed, SHA384_HASH_SIZE); }
    return PS_SUCCESS;
}

/* k is an arbitrary byte position: "for every k below deMacSize" */
#define K (g_in.k)
#define OK (RET == PS_SUCCESS)
#define POSTS(P) \
    P(answer_is_success_or_a_negative_value,     OK || RET < 0) \
    P(any_differing_mac_byte_is_a_negative_answer, IMPLIES(K < g_in.deMacSize && g_in.computed[K] != g_in.received[K], RET < 0)) \
    P(success_means_every_mac_byte_agrees,       IMPLIES(OK && K < g_in.deMacSize, g_in.computed[K] == g_in.received[K])) \
    P(equal_macs_verify,                         IMPLIES(memcmp(g_in.computed, g_in.received, g_in.deMacSize) == 0, OK)) \
    P(hmac_of_the_suites_hash_over_this_record_in_verify_mode, gh.n == 1 && gh.mode == HMAC_VERIFY && gh.type == g_in.type && gh.data == g_data && gh.len == g_in.len && gh.hashSize == g_in.nativeSize && \
                                                 gh.sha1 == (g_in.nativeSize == SHA1_HASH_SIZE))

static int32 csShaVerifyMac(void *sslv, unsigned char type, unsigned char *data, uint32 len, unsigned char *mac)
__CPROVER_requires(sslv == &g_ssl && type == g_in.type && data == g_data && len == g_in.len && mac == g_mac)
__CPROVER_requires(g_ssl.nativeDeMacSize == SHA1_HASH_SIZE || g_ssl.nativeDeMacSize == SHA256_HASH_SIZE || g_ssl.nativeDeMacSize == SHA384_HASH_SIZE)
__CPROVER_requires(g_ssl.deMacSize >= 1 && g_ssl.deMacSize <= g_ssl.nativeDeMacSize)     /* truncated_hmac shortens deMacSize only */
POSTS(ENSURES_CLAUSE)
__CPROVER_assigns(gh)
;

#include "core/src/corelib_strings.c"
#include "matrixssl/cipherSuite.c"

struct inputs nondet_in(void);
ssl_t nondet_ssl(void);

HARNESS_BEGIN
    HARNESS_INPUTS(struct inputs, in);
    int32 vr_ret;
    __CPROVER_assume(in.nativeSize == SHA1_HASH_SIZE || in.nativeSize == SHA256_HASH_SIZE || in.nativeSize == SHA384_HASH_SIZE);
    __CPROVER_assume(in.deMacSize >= 1 && in.deMacSize <= in.nativeSize);
    g_in = in;
    g_ssl = nondet_ssl();
    g_ssl.activeVersion = v_tls_1_2 | v_tls_negotiated;
    g_ssl.nativeDeMacSize = in.nativeSize;
    g_ssl.deMacSize = in.deMacSize;
    Memcpy(g_mac, in.received, sizeof(g_mac));
    Memset(&gh, 0, sizeof(gh));
    vr_ret = csShaVerifyMac(&g_ssl, in.type, g_data, in.len, g_mac);
    POSTS(NATIVE_CHECK)
#ifdef CANARY
    PLAIN_ASSERT(CANARY, vr_ret != PS_SUCCESS)
#endif
HARNESS_END
