/*@UNIT
{
 "property": "C02",
 "unit": "chacha_decrypt",
 "function": "csChacha20Poly1305IetfDecrypt",
 "source": "matrixssl/cipherSuite.c",
 "keep_bodies": [
  "psEncodeVersionMaj",
  "psEncodeVersionMin",
  "psEncodeVersion"
 ],
 "assumed": [
  "psChacha20Poly1305IetfDecrypt (model: records nonce, AAD, length; verdict chosen by the harness input; assumption: a real tag mismatch makes it return < 0)"
 ],
 "mode": "proof",
 "why_proof": "all loops have constant bounds (8, 12, 13), fully unwound with unwinding assertions; the record is an allocation of exactly len bytes for EVERY 16-bit len (the record length field) (no loop of the function depends on len)",
 "unwind": 14,
 "native_replay": true,
 "properties": [
  "C10"
 ]
}
@*/
/* C02.U1  opening a TLS 1.2 ChaCha20-Poly1305 record (RFC 7905 s.2):
 * the tag check covers sequence number, type, version and length (they are the AAD),
 * the nonce is readIV XOR (0^32 || expected sequence number); a failed tag check
 * yields an error and leaves the sequence counter alone; success advances it by one;
 * too-short input is refused without touching the buffer beyond its length. */
#include "verif.h"
#include "matrixssl/matrixsslImpl.h"

struct __attribute__((packed)) inputs
{
    unsigned char readIV[12];
    unsigned char remSeq[8];
    unsigned char epoch[2];
    unsigned char rsn[6];
    unsigned char recType;
    uint32_t activeVersion;
    uint32_t len;
    unsigned char prim_fail;
    unsigned char ct[8];            /* the explicit nonce: the only bytes of the record the function itself reads */
};
static struct inputs g_in;
static ssl_t g_ssl;
static unsigned char *g_ct;          /* allocation of exactly g_len bytes */
static uint32 g_len;
#define MODEL_CHACHA
#include "aead.h"

#define OLD_SEQ64 OLD_BE64(g_ssl, sec.remSeq)
#define IS_DTLS ((g_ssl.activeVersion & v_dtls_any) && (g_ssl.activeVersion & v_tls_negotiated))
#define LONG_ENOUGH (g_len >= 16)

#define POSTS(P) \
    P(short_record_is_refused,       IMPLIES(!LONG_ENOUGH, RET < 0 && gh_dec == 0 && BE64(g_ssl.sec.remSeq) == OLD_SEQ64)) \
    P(opened_exactly_once,           IMPLIES(LONG_ENOUGH, gh_dec == 1 && gh_in_ptr == g_ct && gh_len == g_len && gh_out_ptr == g_ct && gh_ctx == &g_ssl.sec.decryptCtx.chacha20poly1305ietf)) \
    P(nonce_is_iv_xor_expected_seq,  IMPLIES(LONG_ENOUGH, BE32(gh_nonce) == BE32(g_ssl.sec.readIV) && (BE64(gh_nonce + 4) ^ BE64(g_ssl.sec.readIV + 4)) == OLD_SEQ64)) \
    P(aad_binds_sequence,            IMPLIES(LONG_ENOUGH, gh_aadlen == 13 && !gh_aad_null && BE64(gh_aad) == OLD_SEQ64)) \
    P(aad_binds_type_version_length, IMPLIES(LONG_ENOUGH, gh_aad[8] == g_ssl.rec.type && gh_aad[9] == psEncodeVersionMaj(g_ssl.activeVersion) && gh_aad[10] == psEncodeVersionMin(g_ssl.activeVersion) && \
                                               gh_aad[11] == (((g_len - 16) >> 8) & 0xff) && gh_aad[12] == ((g_len - 16) & 0xff))) \
    P(tag_failure_is_an_error,       IMPLIES(LONG_ENOUGH && g_in.prim_fail, RET < 0)) \
    P(tag_failure_keeps_sequence,    IMPLIES(LONG_ENOUGH && g_in.prim_fail, BE64(g_ssl.sec.remSeq) == OLD_SEQ64)) \
    P(success_returns_plaintext_len, IMPLIES(LONG_ENOUGH && !g_in.prim_fail, RET == (int32) (g_len - 16))) \
    P(success_advances_sequence,     IMPLIES(LONG_ENOUGH && !g_in.prim_fail, BE64(g_ssl.sec.remSeq) == OLD_SEQ64 + 1))

int32 csChacha20Poly1305IetfDecrypt(void *ssl, unsigned char *ct, unsigned char *pt, uint32 len)
__CPROVER_requires(ssl == &g_ssl && ct == g_ct && pt == g_ct && len == g_len)
/* the caller passes the 16-bit length field of the record header */
__CPROVER_requires(len <= 0xFFFF)
__CPROVER_requires(GH_FRESH)
POSTS(ENSURES_CLAUSE)
CANARY_CLAUSE(__CPROVER_return_value < 0)
__CPROVER_assigns(g_ssl.sec.remSeq, __CPROVER_object_whole(g_ct), GH_ASSIGNS)
;

#include "matrixssl/hsNegotiateVersion.c"
#include "matrixssl/cipherSuite.c"

#ifndef NATIVE_REPLAY
struct inputs nondet_in(void);
#endif
DECL_SNAPSHOT(ssl_t, g_ssl);

HARNESS_BEGIN
    HARNESS_INPUTS(struct inputs, in);
    int32 vr_ret;
    g_in = in;
    Memcpy(g_ssl.sec.readIV, in.readIV, 12);
    Memcpy(g_ssl.sec.remSeq, in.remSeq, 8);
    Memcpy(g_ssl.rec.epoch, in.epoch, 2);
    Memcpy(g_ssl.rec.rsn, in.rsn, 6);
    g_ssl.rec.type = in.recType;
    g_ssl.activeVersion = in.activeVersion;
    g_len = in.len;
    __CPROVER_assume(g_len <= 0xFFFF);
    g_ct = malloc(g_len ? g_len : 1);   /* exactly the record: any read or write at >= len is a violation */
    __CPROVER_assume(g_ct != NULL);
    { unsigned i; for (i = 0; i < 8 && i < g_len; i++) { g_ct[i] = in.ct[i]; } }
    SNAPSHOT(g_ssl);
    vr_ret = csChacha20Poly1305IetfDecrypt(&g_ssl, g_ct, g_ct, g_len);
    (void) vr_ret;
    POSTS(NATIVE_CHECK)
HARNESS_END
