/*@UNIT
{
 "property": "C02",
 "unit": "tls13_chacha_decrypt",
 "function": "csChacha20Poly1305IetfDecryptTls13",
 "source": "matrixssl/tls13CipherSuite.c",
 "keep_bodies": [
  "tls13MakeReadNonce",
  "tls13MakeDecryptAad",
  "psAesIncrSec"
 ],
 "assumed": [
  "psChacha20Poly1305IetfDecrypt (model: records nonce, AAD, length; verdict chosen by the harness input; returns plaintext length or PS_AUTH_FAIL; assumption: a real tag mismatch makes it return < 0)"
 ],
 "mode": "proof",
 "why_proof": "all loops have constant bounds (8, 12), fully unwound with unwinding assertions; the record is an allocation of exactly len bytes for EVERY 16-bit len (no loop of the function depends on len)",
 "unwind": 14,
 "native_replay": true,
 "properties": [
  "C10"
 ]
}
@*/
/* C02.U1  opening a TLS 1.3 ChaCha20-Poly1305 record (RFC 8446 5.2/5.3): nonce = read_iv XOR
 * (0^32 || expected sequence number) - so a reordered, replayed or dropped record
 * fails the tag check -, AAD = 23 || 03 03 || rec.len; failure => error and the
 * counter stays; success => counter + 1. */
#include "verif.h"
#include "matrixssl/matrixsslImpl.h"

struct __attribute__((packed)) inputs
{
    unsigned char readIV[12];
    unsigned char remSeq[8];
    uint16_t recLen;
    uint32_t activeVersion;
    uint32_t len;
    unsigned char prim_fail;
};
static struct inputs g_in;
static ssl_t g_ssl;
static unsigned char *g_ct;          /* allocation of exactly g_len bytes */
static uint32 g_len;
#define MODEL_CHACHA
#include "aead.h"

#define OLD_SEQ64 OLD_BE64(g_ssl, sec.remSeq)
#define LONG_ENOUGH (g_len >= 16)

#define POSTS(P) \
    P(short_record_is_refused,       IMPLIES(!LONG_ENOUGH, RET < 0 && gh_dec == 0 && BE64(g_ssl.sec.remSeq) == OLD_SEQ64)) \
    P(opened_exactly_once,           IMPLIES(LONG_ENOUGH, gh_dec == 1 && gh_in_ptr == g_ct && gh_len == g_len && gh_out_ptr == g_ct && gh_ctx == &g_ssl.sec.decryptCtx.chacha20poly1305ietf)) \
    P(nonce_is_iv_xor_expected_seq,  IMPLIES(LONG_ENOUGH, BE32(gh_nonce) == BE32(g_ssl.sec.tls13ReadIv) && (BE64(gh_nonce + 4) ^ BE64(g_ssl.sec.tls13ReadIv + 4)) == OLD_SEQ64)) \
    P(aad_is_record_header,          IMPLIES(LONG_ENOUGH, gh_aadlen == 5 && !gh_aad_null && gh_aad[0] == 23 && gh_aad[1] == 3 && gh_aad[2] == 3 && gh_aad[3] == (g_ssl.rec.len >> 8) && gh_aad[4] == (g_ssl.rec.len & 0xff))) \
    P(tag_failure_is_an_error,       IMPLIES(LONG_ENOUGH && g_in.prim_fail, RET < 0)) \
    P(tag_failure_keeps_sequence,    IMPLIES(LONG_ENOUGH && g_in.prim_fail, BE64(g_ssl.sec.remSeq) == OLD_SEQ64)) \
    P(success_returns_record_len, IMPLIES(LONG_ENOUGH && !g_in.prim_fail, RET == (int32) g_len)) \
    P(success_advances_sequence,     IMPLIES(LONG_ENOUGH && !g_in.prim_fail, BE64(g_ssl.sec.remSeq) == OLD_SEQ64 + 1))

int32 csChacha20Poly1305IetfDecryptTls13(void *ssl, unsigned char *ct, unsigned char *pt, uint32 len)
__CPROVER_requires(ssl == &g_ssl && ct == g_ct && pt == g_ct && len == g_len)
/* the caller passes the 16-bit length field of the record header */
__CPROVER_requires(len <= 0xFFFF)
__CPROVER_requires(GH_FRESH)
/* the session runs RFC 8446 TLS 1.3 (or a draft >= 25 with the record header as AAD) */
__CPROVER_requires((g_ssl.activeVersion & v_tls_1_3_aad) != 0)
POSTS(ENSURES_CLAUSE)
CANARY_CLAUSE(__CPROVER_return_value < 0)
__CPROVER_assigns(g_ssl.sec.remSeq, __CPROVER_object_whole(g_ct), GH_ASSIGNS)
;

#include "matrixssl/tls13CipherSuite.c"

#ifndef NATIVE_REPLAY
struct inputs nondet_in(void);
#endif
DECL_SNAPSHOT(ssl_t, g_ssl);

HARNESS_BEGIN
    HARNESS_INPUTS(struct inputs, in);
    int32 vr_ret;
    g_in = in;
    Memcpy(g_ssl.sec.tls13ReadIv, in.readIV, 12);
    Memcpy(g_ssl.sec.remSeq, in.remSeq, 8);
    g_ssl.rec.len = in.recLen;
    g_ssl.activeVersion = in.activeVersion;
    g_len = in.len;
    __CPROVER_assume(g_len <= 0xFFFF);
    __CPROVER_assume((g_ssl.activeVersion & v_tls_1_3_aad) != 0);
    g_ct = malloc(g_len ? g_len : 1);   /* exactly the record: any read or write at >= len is a violation */
    __CPROVER_assume(g_ct != NULL);
    SNAPSHOT(g_ssl);
    vr_ret = csChacha20Poly1305IetfDecryptTls13(&g_ssl, g_ct, g_ct, g_len);
    (void) vr_ret;
    POSTS(NATIVE_CHECK)
HARNESS_END
