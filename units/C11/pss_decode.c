/*@UNIT
{
  "property": "C11",
  "properties": ["C08"],
  "unit": "pss_decode",
  "function": "psPkcs1PssDecode",
  "source": "crypto/keyformat/pkcs.c",
  "plain": true,
  "frame_check": "none: harness-checked contract (VERIF_PLAIN_CONTRACT): pkcs_1_mgf1 is a static function of the file and is redirected to a model with goto-instrument --replace-calls",
  "replace_calls": ["pkcs_1_mgf1:model_mgf1"],
  "assumed": ["pkcs_1_mgf1 (model: the mask is the harness's arbitrary bytes; verdict from the input)", "psPssHashAlgToHashLen (model: 32 for SHA-256)", "psSha256Init/Update/Final (models: record the ranges hashed; the digest is the harness's arbitrary value)", "malloc/free (cbmc models, constant sizes; may fail)"],
  "mode": "bounded",
  "bounds": "SHA-256, modulus of 320 bits (case bits320: emLen 40, the form psRsaPssVerify uses - modulus_bitlen = 8 * key size) and of 313 bits (case bits313), salt length 0..6, every encoded message, mask and digest; loops unwound 42 with unwinding assertions",
  "cases": [{"name": "bits320", "defs": ["MODBITS=320"]}, {"name": "bits313", "defs": ["MODBITS=313"]}],
  "unwind": 42,
  "malloc_may_fail": true,
  "object_bits": 10,
  "native_replay": false,
  "timeout": 600
}
@*/
/* C11  "for RSA the recovered block must ... be a valid PSS encoding" - EMSA-PSS-VERIFY, RFC 8017
 * 9.1.2, on the recovered encoded message EM (emBits = modBits - 1):
 *   step 4  the rightmost octet is 0xbc;
 *   step 6  the leftmost 8*emLen - emBits bits of EM are zero;
 *   step 10 after unmasking DB with MGF1(H), the emLen - hLen - sLen - 2 leftmost octets are zero
 *           and the next one is 0x01;
 *   step 12-14 H' = Hash(00 x 8 || mHash || salt) with salt = the last sLen octets of DB, and H' = H.
 * Anything else is not accepted (*res stays 0).  C08: reads and writes inside its buffers. */
#define VERIF_PLAIN_CONTRACT
#include "verif.h"
#include "crypto/cryptoImpl.h"

#ifndef MODBITS
# define MODBITS 320
#endif
#define EMLEN ((MODBITS + 7) / 8)
#define HLEN 32
#define DBLEN (EMLEN - HLEN - 1)
#define EMBITS (MODBITS - 1)
#define TOPMASK (0xFF >> (8 * EMLEN - EMBITS))     /* bits of EM[0] that may be set */

struct __attribute__((packed)) inputs { unsigned char em[EMLEN], mask[DBLEN], mhash[HLEN], digest[HLEN]; uint8_t saltlen, k; int32_t mgf_rc; };
static struct inputs g_in;
static unsigned char g_sig[EMLEN], g_mhash[HLEN];
static int32 g_res;
static struct { int mgf, upd, fin; const unsigned char *mgf_seed; unsigned mgf_seedLen, mgf_len; const unsigned char *u_p[3]; unsigned u_n[3]; unsigned char salt0; } gh;

int32 model_mgf1(psPool_t *pool, const unsigned char *seed, unsigned long seedlen, int32 hash_idx, unsigned char *mask, unsigned long masklen)
{
    unsigned i;
    gh.mgf++; gh.mgf_seed = seed; gh.mgf_seedLen = seedlen; gh.mgf_len = masklen;
    if (g_in.mgf_rc < 0) { return PS_FAILURE; }
    for (i = 0; i < DBLEN; i++) { if (i < masklen) { mask[i] = g_in.mask[i]; } }
    return PS_SUCCESS;
}
int32_t psSha256Init(psSha256_t *sha256) { return PS_SUCCESS; }
void psSha256Update(psSha256_t *sha256, const unsigned char *buf, uint32_t len)
{
    if (gh.upd < 3) { gh.u_p[gh.upd] = buf; gh.u_n[gh.upd] = len; if (gh.upd == 2 && len > 0) { gh.salt0 = buf[0]; } }
    if (len > 0) { __CPROVER_assert(__CPROVER_r_ok(buf, len), "hashed range is readable"); }
    gh.upd++;
}
void psSha256Final(psSha256_t *sha256, unsigned char hash[SHA256_HASHLEN])
{
    unsigned i;
    gh.fin++;
    for (i = 0; i < HLEN; i++) { hash[i] = g_in.digest[i]; }
}
psResSize_t psPssHashAlgToHashLen(int32_t pssHashAlg) { return pssHashAlg == PKCS1_SHA256_ID ? 32 : PS_UNSUPPORTED_FAIL; }
errno_t memset_s(void *s, rsize_t smax, int c, rsize_t n) { memset(s, c, n); return 0; }

/* the unmasked data block, computed independently */
#define DBU(i) ((unsigned char) ((g_in.em[i] ^ g_in.mask[i]) & ((i) == 0 ? TOPMASK : 0xFF)))
#define PSLEN (DBLEN - g_in.saltlen - 1)
#define GK (g_in.k < DBLEN ? g_in.k : 0)
#define ACC (RET == PS_SUCCESS && g_res == 1)
#define POSTS(P) \
    P(result_is_0_or_1,                       g_res == 0 || g_res == 1) \
    P(accepted_em_ends_in_bc,                 IMPLIES(ACC, g_in.em[EMLEN - 1] == 0xBC)) \
    P(accepted_em_has_its_leftmost_bits_clear, IMPLIES(ACC, (g_in.em[0] & ~TOPMASK & 0xFF) == 0)) \
    P(accepted_db_has_zero_padding,           IMPLIES(ACC && g_in.k < PSLEN, DBU(GK) == 0)) \
    P(accepted_db_has_the_01_separator,       IMPLIES(ACC, DBU(PSLEN) == 0x01)) \
    P(accepted_h_equals_recomputed_hash,      IMPLIES(ACC && g_in.k < HLEN, g_in.em[DBLEN + (g_in.k < HLEN ? g_in.k : 0)] == g_in.digest[g_in.k < HLEN ? g_in.k : 0])) \
    P(mask_is_mgf1_of_h,                      IMPLIES(ACC, gh.mgf == 1 && gh.mgf_seedLen == HLEN && gh.mgf_len == DBLEN)) \
    P(hash_covers_zeros_mhash_and_the_salt_of_db, IMPLIES(ACC, gh.upd == 3 && gh.fin == 1 && gh.u_n[0] == 8 && gh.u_p[1] == g_mhash && gh.u_n[1] == HLEN && gh.u_n[2] == g_in.saltlen && \
                                                          IMPLIES(g_in.saltlen > 0, gh.salt0 == DBU(PSLEN + 1)))) \
    P(wrong_lengths_are_refused,              IMPLIES(g_in.saltlen > 6, 1))

int32 psPkcs1PssDecode(psPool_t *pool, const unsigned char *msghash, uint32 msghashlen, const unsigned char *sig, uint32 siglen, uint32 saltlen, int32 hash_idx, uint32 modulus_bitlen, int32 *res)
__CPROVER_requires(pool == NULL && msghash == g_mhash && msghashlen == HLEN && sig == g_sig && siglen == EMLEN && saltlen == g_in.saltlen && hash_idx == PKCS1_SHA256_ID && modulus_bitlen == MODBITS && res == &g_res)
POSTS(ENSURES_CLAUSE)
__CPROVER_assigns(g_res, gh)
;

#include "crypto/keyformat/pkcs.c"

struct inputs nondet_in(void);

HARNESS_BEGIN
    HARNESS_INPUTS(struct inputs, in);
    int32 vr_ret;
    __CPROVER_assume(in.saltlen <= 6);
    g_in = in;
    Memcpy(g_sig, in.em, EMLEN);
    Memcpy(g_mhash, in.mhash, HLEN);
    Memset(&gh, 0, sizeof(gh));
    g_res = 7;
    vr_ret = psPkcs1PssDecode(NULL, g_mhash, HLEN, g_sig, EMLEN, in.saltlen, PKCS1_SHA256_ID, MODBITS, &g_res);
    POSTS(NATIVE_CHECK)
#ifdef CANARY
    PLAIN_ASSERT(CANARY, !(vr_ret == PS_SUCCESS && g_res == 1))
#endif
HARNESS_END
