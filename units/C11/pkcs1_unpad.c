/*@UNIT
{
  "property": "C11",
  "unit": "pkcs1_unpad",
  "function": "pkcs1UnpadExt",
  "source": "crypto/keyformat/pkcs.c",
  "keep_bodies": [],
  "replace": [],
  "assumed": [],
  "mode": "bounded",
  "bounds": "encoded block length inlen <= BLK bytes (quick 32, thorough 48), output buffer <= BLK; every content, block type and both verifyUnpaddedLen modes.  Case shape: static buffers with 2 spare bytes (decides the encoding clauses); case exact: BLK = 20, heap objects of exactly inlen / outlen bytes, so that every access or pointer outside them is an obligation",
  "defs_quick": ["BLK=32"],
  "defs_thorough": ["BLK=48"],
  "cases": [
    {"name": "shape", "defs": []},
    {"name": "exact", "defs": ["EXACT=1"]}
  ],
  "unwind": 50,
  "native_replay": true,
  "timeout": 600
}
@*/
/* C11.U1  PKCS#1 v1.5 un-padding (RFC 8017 s.7.2.2 step 3 / s.9.2):
 *     EM = 00 || BT || PS || 00 || D,   PS non-zero (all FF for BT = 01),  |PS| >= 8
 * SUCCESS means: the block has exactly this shape, the separator is the FIRST
 * zero after BT (ghost index g_k ranges over PS), D is what is copied out
 * (ghost index g_j ranges over D), |D| fits the output buffer (and equals
 * outlen when verifyUnpaddedLen is set), and nothing outside in[0..inlen) /
 * out[0..outlen) is touched (heap objects of exactly that size; cbmc's pointer
 * checks are the obligations, natively ASan).
 */
#include "verif.h"
#include "crypto/cryptoImpl.h"

#ifndef BLK
# define BLK 32
#endif
#ifdef EXACT
/* symbolic-size heap objects are expensive (BLK = 32: 300 s): the exact-bounds case uses a shorter block */
# undef BLK
# define BLK 20
#endif

#ifdef EXACT
static unsigned char *g_in, *g_out;
#else
static unsigned char g_in[BLK + 2], g_out[BLK + 2];
#endif
static psSize_t g_inlen, g_outlen, g_unp;
static uint8_t g_type;
static psBool_t g_verify;
static unsigned g_k, g_j;                 /* ghost indices over the padding string / over the payload */

#define OK      (RET == PS_SUCCESS)
#define OKS     (OK && DLEN + 3 <= g_inlen)       /* guards the index expressions below; payload_fits demands the second conjunct */
#define DLEN    ((unsigned) g_unp)                   /* reported payload length */
#define SEP     ((unsigned) g_inlen - DLEN - 1)      /* index of the separator implied by it */

#define POSTS(P) \
    P(payload_fits,                  IMPLIES(OK, DLEN + 3 <= g_inlen && DLEN <= g_outlen && IMPLIES(g_verify, DLEN == g_outlen))) \
    P(header_is_00_bt,               IMPLIES(OK, g_in[0] == 0x00 && g_in[1] == g_type)) \
    P(separator_is_zero,             IMPLIES(OKS, g_in[SEP] == 0x00)) \
    P(padding_bytes_are_nonzero,     IMPLIES(OKS && g_k >= 2 && g_k < SEP, g_in[g_k] != 0x00)) \
    P(signature_padding_is_ff,       IMPLIES(OKS && g_type == PS_PUBKEY && g_k >= 2 && g_k < SEP, g_in[g_k] == 0xFF)) \
    P(padding_at_least_8_bytes,      IMPLIES(OKS, SEP >= 2 + 8)) \
    P(output_is_payload,             IMPLIES(OKS && g_j < DLEN, g_out[g_j] == g_in[SEP + 1 + g_j]))

int32_t pkcs1UnpadExt(const unsigned char *in, psSize_t inlen, unsigned char *out, psSize_t outlen,
        uint8_t decryptType, psBool_t verifyUnpaddedLen, psSize_t *unpaddedLen)
__CPROVER_requires(in == g_in && inlen == g_inlen && out == g_out && outlen == g_outlen && decryptType == g_type && verifyUnpaddedLen == g_verify && unpaddedLen == &g_unp)
__CPROVER_requires(inlen <= BLK && outlen <= BLK && g_k < BLK && g_j < BLK)
#ifdef EXACT
__CPROVER_requires(__CPROVER_r_ok(g_in, g_inlen) && __CPROVER_w_ok(g_out, g_outlen))
#endif
POSTS(ENSURES_CLAUSE)
CANARY_CLAUSE(__CPROVER_return_value != PS_SUCCESS)
__CPROVER_assigns(__CPROVER_object_whole(out), g_unp)
;

#include "crypto/keyformat/pkcs.c"

struct __attribute__((packed)) inputs
{
    unsigned char in[BLK];
    uint16_t inlen, outlen;
    uint8_t type, verify;
    uint32_t k, j;
};
#ifndef NATIVE_REPLAY
struct inputs nondet_in(void);
#endif

HARNESS_BEGIN
    HARNESS_INPUTS(struct inputs, in);
    int32_t vr_ret;
    unsigned i;
    g_inlen = in.inlen; g_outlen = in.outlen; g_type = in.type; g_verify = (in.verify & 1) ? PS_TRUE : PS_FALSE;
    g_k = in.k; g_j = in.j;
    /* input domain = the requires clauses above */
    __CPROVER_assume(g_inlen <= BLK && g_outlen <= BLK && g_k < BLK && g_j < BLK);
#ifdef EXACT
    g_in = malloc(g_inlen);
    g_out = malloc(g_outlen);
    __CPROVER_assume(g_in != 0 && g_out != 0);   /* the buffers exist (allocation failure is not the subject) */
#endif
    for (i = 0; i < BLK; i++) { if (i < g_inlen) { g_in[i] = in.in[i]; } }
    vr_ret = pkcs1UnpadExt(g_in, g_inlen, g_out, g_outlen, g_type, g_verify, &g_unp);
    (void) vr_ret;
    POSTS(NATIVE_CHECK)
HARNESS_END
