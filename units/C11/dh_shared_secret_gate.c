/*@UNIT
{
  "property": "C11",
  "unit": "dh_shared_secret_gate",
  "function": "psDhGenSharedSecret",
  "source": "crypto/pubkey/dh_gen_secret.c",
  "keep_bodies": [],
  "replace": [],
  "assumed": ["pstm_init, pstm_init_for_read_unsigned_bin, pstm_read_unsigned_bin, pstm_count_bits, pstm_add_d, pstm_cmp, pstm_exptmod, pstm_unsigned_bin_size, pstm_to_unsigned_bin, pstm_clear (models: log their operands by address and the call order; results are arbitrary values from the harness input)"],
  "mode": "proof",
  "why_proof": "the function is loop-free and every callee is a loop-free model; the byte buffers are only handed to the models",
  "native_replay": false,
  "timeout": 300
}
@*/
/* C11.U4  Finite-field DH: the peer's public value is range-checked before use
 * (RFC 7919 s.5.1 / SP 800-56A s.5.6.2.3.1:  2 <= y <= p - 2).
 *
 * Big-number arithmetic is an assumed oracle.  The contract: pstm_exptmod is
 * reached at most once, and only after
 *     count_bits(y) >= 2                                  (y >= 2)
 *     t = y + 1  succeeded  and  cmp(p, t) == GT          (y <= p - 2)
 * where p is the number read from the caller's prime bytes and y is
 * pubKey->pub; it is called as  y ^ privKey->priv mod p;  the output buffer is
 * written only if it is large enough, and *outlen is the size of the result.
 */
#include "verif.h"
#include "crypto/cryptoImpl.h"

static psDhKey_t g_priv, g_pub;
static unsigned char g_pbin[8], g_out[8];
static psSize_t g_pbinlen, g_outlen, g_outlen_in;
static int32_t g_rcs[8];                  /* model results in call order (harness input) */
static uint16_t g_bits, g_binsize;        /* results of count_bits / unsigned_bin_size (harness input) */
static int32_t g_cmp;                     /* result of pstm_cmp (harness input) */

static struct
{
    unsigned nrc, any_fail;
    unsigned nread, nbits, nadd, ncmp, nexp, ntobin;
    const pstm_int *p, *t;
    unsigned read_ok, bits_ok, add_ok, cmp_ok, checks_before_exp, exp_ok, tobin_ok;
} gh;

static int32_t next_rc(void)
{
    int32_t r = g_rcs[gh.nrc & 7];
    gh.nrc++;
    if (r < 0) { gh.any_fail = 1; return r; }
    return PS_SUCCESS;
}
int32_t pstm_init(psPool_t *pool, pstm_int *a) { a->dp = 0; a->used = 0; a->alloc = 0; return next_rc(); }
int32_t pstm_init_for_read_unsigned_bin(psPool_t *pool, pstm_int *a, psSize_t len) { a->dp = 0; a->used = 0; a->alloc = 0; return next_rc(); }
void pstm_clear(pstm_int *a) { }
int32_t pstm_read_unsigned_bin(pstm_int *a, const unsigned char *buf, psSize_t len)
{
    int32_t rc = next_rc();
    gh.read_ok = (rc == PS_SUCCESS && buf == g_pbin && len == g_pbinlen);
    gh.p = a;
    gh.nread++;
    return rc;
}
uint16_t pstm_count_bits(const pstm_int *a)
{
    gh.bits_ok = (a == &g_pub.pub && g_bits >= 2);
    gh.nbits++;
    return g_bits;
}
int32_t pstm_add_d(psPool_t *pool, const pstm_int *a, pstm_digit b, pstm_int *c)
{
    int32_t rc = next_rc();
    gh.add_ok = (rc == PS_SUCCESS && a == &g_pub.pub && b == 1);
    gh.t = c;
    gh.nadd++;
    return rc;
}
int32_t pstm_cmp(const pstm_int *a, const pstm_int *b)
{
    int32_t r = (g_cmp < 0) ? PSTM_LT : (g_cmp == 0 ? PSTM_EQ : PSTM_GT);
    gh.cmp_ok = (gh.nread == 1 && gh.nadd == 1 && ((a == gh.p && b == gh.t && r == PSTM_GT) || (a == gh.t && b == gh.p && r == PSTM_LT)));
    gh.ncmp++;
    return r;
}
int32_t pstm_exptmod(psPool_t *pool, const pstm_int *G, const pstm_int *X, const pstm_int *P, pstm_int *Y)
{
    gh.checks_before_exp = (gh.nread == 1 && gh.read_ok && gh.nbits == 1 && gh.bits_ok && gh.nadd == 1 && gh.add_ok && gh.ncmp == 1 && gh.cmp_ok);
    gh.exp_ok = (G == &g_pub.pub && X == &g_priv.priv && P == gh.p);
    gh.nexp++;
    return next_rc();
}
uint16_t pstm_unsigned_bin_size(const pstm_int *a) { return g_binsize; }
int32_t pstm_to_unsigned_bin(psPool_t *pool, const pstm_int *a, unsigned char *b)
{
    gh.tobin_ok = (gh.nexp == 1 && b == g_out && g_binsize <= g_outlen_in);
    gh.ntobin++;
    return next_rc();
}

#define POSTS(P) \
    P(private_key_type_is_required,  IMPLIES(g_priv.type != PS_PRIVKEY, RET == PS_ARG_FAIL && gh.nexp == 0)) \
    P(exptmod_at_most_once,          gh.nexp <= 1) \
    P(exptmod_only_after_public_value_in_2_to_p_minus_2, IMPLIES(gh.nexp == 1, gh.checks_before_exp)) \
    P(exptmod_is_pub_pow_priv_mod_p, IMPLIES(gh.nexp == 1, gh.exp_ok)) \
    P(small_public_value_is_refused, IMPLIES(g_bits < 2, RET < 0 && gh.nexp == 0)) \
    P(public_value_above_p_minus_2_is_refused, IMPLIES(gh.ncmp == 1 && g_cmp <= 0, RET < 0 && gh.nexp == 0)) \
    P(output_written_only_if_it_fits, gh.ntobin <= 1 && IMPLIES(gh.ntobin == 1, gh.tobin_ok)) \
    P(short_output_buffer_is_refused, IMPLIES(gh.nexp == 1 && !gh.any_fail && g_binsize > g_outlen_in, RET == PS_LIMIT_FAIL && gh.ntobin == 0)) \
    P(success_reports_result_size,   IMPLIES(RET == PS_SUCCESS, gh.nexp == 1 && gh.ntobin == 1 && !gh.any_fail && g_outlen == g_binsize))

int32_t psDhGenSharedSecret(psPool_t *pool, const psDhKey_t *privKey, const psDhKey_t *pubKey,
    const unsigned char *pBin, psSize_t pBinLen, unsigned char *out, psSize_t *outlen, void *usrData)
__CPROVER_requires(pool == (psPool_t *) 0 && privKey == &g_priv && pubKey == &g_pub && pBin == g_pbin && pBinLen == g_pbinlen && out == g_out && outlen == &g_outlen && usrData == (void *) 0)
__CPROVER_requires(g_outlen == g_outlen_in)
__CPROVER_requires(gh.nrc == 0 && gh.any_fail == 0 && gh.nread == 0 && gh.nbits == 0 && gh.nadd == 0 && gh.ncmp == 0 && gh.nexp == 0 && gh.ntobin == 0 && gh.p == 0 && gh.t == 0)
POSTS(ENSURES_CLAUSE)
CANARY_CLAUSE(__CPROVER_return_value != PS_SUCCESS)
__CPROVER_assigns(g_outlen, gh, __CPROVER_object_whole(g_out))
;

#include "crypto/pubkey/dh_gen_secret.c"

struct __attribute__((packed)) inputs
{
    int32_t rcs[8];
    uint16_t bits, binsize, pbinlen, outlen;
    int32_t cmp;
    uint8_t type;
};
#ifndef NATIVE_REPLAY
struct inputs nondet_in(void);
#endif

HARNESS_BEGIN
    HARNESS_INPUTS(struct inputs, in);
    int32_t vr_ret;
    memcpy(g_rcs, in.rcs, sizeof(g_rcs));
    g_bits = in.bits; g_binsize = in.binsize; g_pbinlen = in.pbinlen; g_cmp = in.cmp;
    g_outlen = g_outlen_in = in.outlen;
    g_priv.type = in.type;
    g_priv.priv.dp = 0; g_priv.pub.dp = 0; g_pub.priv.dp = 0; g_pub.pub.dp = 0;
    /* the numbers themselves are only handed to the models */
    vr_ret = psDhGenSharedSecret((psPool_t *) 0, &g_priv, &g_pub, g_pbin, g_pbinlen, g_out, &g_outlen, (void *) 0);
    (void) vr_ret;
    POSTS(NATIVE_CHECK)
HARNESS_END
