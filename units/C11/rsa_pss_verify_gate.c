/*@UNIT
{
  "property": "C11",
  "unit": "rsa_pss_verify_gate",
  "function": "psRsaPssVerify",
  "source": "crypto/pubkey/rsa_pub.c",
  "keep_bodies": [],
  "replace": [],
  "assumed": ["psRsaCrypt (model: the modular exponentiation; arbitrary result and output length from the harness input)", "psPkcs1PssDecode (model: EMSA-PSS verification of the recovered block; logs its arguments, arbitrary result and verdict from the harness input - the PSS encoding internals are NOT verified)", "Malloc/Free (bound to a one-object model allocator in the wrapper)"],
  "mode": "proof",
  "why_proof": "the function is loop-free and every callee is a loop-free model; key size <= 512 bytes (harness buffer), message and signature bytes are only handed to the models",
  "native_replay": false,
  "timeout": 300
}
@*/
/* C11.U7  RSASSA-PSS verification wrapper: PS_SUCCESS (which psVerifySig takes as
 * "valid", unit sig_dispatch) is returned only if the public-key operation
 * succeeded, the PSS decoder was run on exactly the recovered block with the
 * caller's digest, salt length, hash and modulus size, and its verdict was 1.
 */
#include "verif.h"
static void *vr_malloc(unsigned long n);
static void vr_free(void *p);
#define Malloc vr_malloc
#define Free vr_free
#include "crypto/cryptoImpl.h"

static psPubKey_t g_key;
static psVerifyOptions_t g_opts;
static unsigned g_opts_null;
static unsigned char g_msg[64], g_sig[512], g_em[512];
static psSizeL_t g_msglen;
static psSize_t g_siglen, g_emlen_out;
static int32_t g_alg, g_rc_malloc, g_rc_crypt, g_rc_dec, g_verdict;
static psBool_t g_vres, g_vres0;

static struct
{
    unsigned nmalloc, nfree, ncrypt, ndec, crypt_ok, dec_ok;
} gh;

static void *vr_malloc(unsigned long n) { gh.nmalloc++; if (g_rc_malloc < 0 || n > sizeof(g_em)) { return (void *) 0; } return g_em; }
static void vr_free(void *p) { if (p == (void *) g_em) { gh.nfree++; } }
int32_t psRsaCrypt(psPool_t *pool, psRsaKey_t *key, const unsigned char *in, psSize_t inlen,
    unsigned char *out, psSize_t *outlen, uint8_t type, void *data)
{
    gh.crypt_ok = (key == &g_key.key.rsa && in == g_sig && inlen == g_siglen && out == g_em && *outlen == g_key.keysize && type == PS_PUBKEY);
    gh.ncrypt++;
    if (g_rc_crypt < 0) { return g_rc_crypt; }
    *outlen = g_emlen_out;
    return PS_SUCCESS;
}
int32 psPkcs1PssDecode(psPool_t *pool, const unsigned char *msghash, uint32 msghashlen, const unsigned char *sig, uint32 siglen,
    uint32 saltlen, int32 hash_idx, uint32 modulus_bitlen, int32 *res)
{
    gh.dec_ok = (gh.ncrypt == 1 && msghash == g_msg && msghashlen == g_msglen && sig == g_em && siglen == g_emlen_out &&
                 saltlen == g_opts.rsaPssSaltLen && hash_idx == g_opts.rsaPssHashAlg && modulus_bitlen == (uint32) g_key.keysize * 8);
    gh.ndec++;
    *res = g_verdict;
    return g_rc_dec > 0 ? PS_SUCCESS : g_rc_dec;
}

#define OK (RET == PS_SUCCESS)

#define POSTS(P) \
    P(missing_options_are_refused,   IMPLIES(g_opts_null, RET == PS_ARG_FAIL && gh.ncrypt == 0)) \
    P(success_only_if_pss_decoder_said_valid, IMPLIES(OK, gh.ncrypt == 1 && gh.crypt_ok && g_rc_crypt >= 0 && gh.ndec == 1 && gh.dec_ok && g_rc_dec >= 0 && g_verdict == 1)) \
    P(success_sets_result_true,      IMPLIES(OK, g_vres == PS_TRUE)) \
    P(invalid_signature_is_verification_failed, IMPLIES(gh.ndec == 1 && g_rc_dec >= 0 && g_verdict != 1, RET == PS_VERIFICATION_FAILED && g_vres == PS_FALSE)) \
    P(failure_never_sets_result_true, IMPLIES(!OK, g_vres == PS_FALSE || g_vres == g_vres0)) \
    P(block_buffer_is_released,      gh.nfree == (gh.nmalloc == 1 && g_rc_malloc >= 0 ? 1u : 0u))

psRes_t psRsaPssVerify(psPool_t *pool, const unsigned char *msgIn, psSizeL_t msgInLen, const unsigned char *sig, psSize_t sigLen,
    psPubKey_t *key, int32_t signatureAlgorithm, psBool_t *verifyResult, psVerifyOptions_t *opts)
__CPROVER_requires(pool == (psPool_t *) 0 && msgIn == g_msg && msgInLen == g_msglen && sig == g_sig && sigLen == g_siglen && key == &g_key && signatureAlgorithm == g_alg && verifyResult == &g_vres && opts == (g_opts_null ? (psVerifyOptions_t *) 0 : &g_opts))
__CPROVER_requires(g_key.keysize <= 512 && g_vres == g_vres0)
__CPROVER_requires(gh.nmalloc == 0 && gh.nfree == 0 && gh.ncrypt == 0 && gh.ndec == 0)
POSTS(ENSURES_CLAUSE)
CANARY_CLAUSE(__CPROVER_return_value != PS_SUCCESS)
__CPROVER_assigns(g_vres, gh, __CPROVER_object_whole(g_em))
;

#include "crypto/pubkey/rsa_pub.c"

struct __attribute__((packed)) inputs
{
    uint8_t opts_null, vres0;
    uint16_t keysize, siglen, emlen_out, saltlen;
    uint32_t msglen;
    int32_t alg, hashalg, rc_malloc, rc_crypt, rc_dec, verdict;
};
#ifndef NATIVE_REPLAY
struct inputs nondet_in(void);
#endif

HARNESS_BEGIN
    HARNESS_INPUTS(struct inputs, in);
    psRes_t vr_ret;
    g_opts_null = in.opts_null & 1;
    g_opts.rsaPssSaltLen = in.saltlen; g_opts.rsaPssHashAlg = in.hashalg;
    g_key.keysize = in.keysize; g_siglen = in.siglen; g_emlen_out = in.emlen_out; g_msglen = in.msglen; g_alg = in.alg;
    g_rc_malloc = in.rc_malloc; g_rc_crypt = in.rc_crypt; g_rc_dec = in.rc_dec; g_verdict = in.verdict;
    g_vres = g_vres0 = in.vres0;
    /* input domain = the requires clauses above */
    __CPROVER_assume(g_key.keysize <= 512);
    vr_ret = psRsaPssVerify((psPool_t *) 0, g_msg, g_msglen, g_sig, g_siglen, &g_key, g_alg, &g_vres, g_opts_null ? (psVerifyOptions_t *) 0 : &g_opts);
    (void) vr_ret;
    POSTS(NATIVE_CHECK)
HARNESS_END
