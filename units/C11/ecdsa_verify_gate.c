/*@UNIT
{
  "property": "C11",
  "unit": "ecdsa_verify_gate",
  "function": "psEccDsaVerify",
  "source": "crypto/pubkey/ecc_pub.c",
  "keep_bodies": [],
  "replace": [],
  "assumed": ["getAsnSequence, pstm_read_asn (models: DER parsing of the signature; return arbitrary results, r.used / s.used arbitrary)", "pstm_* arithmetic: init, read_radix, read_unsigned_bin, cmp, invmod, mulmod, mod, copy, set, montgomery_setup, clear (models: log their operands by address, return arbitrary results from the harness input)", "eccNewPoint, eccMulmod, eccProjectiveAddPoint, eccMap, eccFreePoint (models: curve arithmetic; log operands, arbitrary results)", "Malloc/Free (bound to a one-object model allocator in the wrapper)"],
  "mode": "proof",
  "why_proof": "the function is loop-free (straight-line with goto clean-up) and every callee is a loop-free model; no input length bounds the proof: signature and digest bytes are only handed to the models",
  "native_replay": false,
  "timeout": 600
}
@*/
/* C11.U3  ECDSA verification (FIPS 186-4 s.6.4, SEC1 s.4.1.4): the decision logic.
 *
 * All big-number and curve arithmetic is an assumed oracle: every model
 * returns an arbitrary result taken from the harness input and logs the
 * ADDRESSES of its operands, so that the contract can say which number went
 * where.  r, s, n (order), v are the function's locals; the models learn them:
 * r / s = target of the 1st / 2nd pstm_read_asn, n = target of the
 * pstm_read_radix of curve->order, v = result of the final pstm_mod.
 *
 *   *status == 1  =>  r != 0 and s != 0 and cmp(r,n) == LT and cmp(s,n) == LT, all
 *                     established BEFORE s is inverted,  and the equation is
 *                     wired as  w = s^-1 mod n, u1 = e*w mod n, u2 = r*w mod n,
 *                     X = u1*G + u2*Q, v = X.x mod n,  and the last comparison
 *                     was cmp(v, r) == EQ,  and no oracle call failed.
 *   every other path leaves *status == -1.
 */
#include "verif.h"

struct vr_point;
static void *vr_malloc(unsigned long n);
static void vr_free(void *p);
#define Malloc vr_malloc
#define Free vr_free
#include "crypto/cryptoImpl.h"

#define NRC 48
static psEccKey_t g_key;
static psEccCurve_t g_curve;
static const char g_order[2] = "1", g_prime[2] = "2", g_gx[2] = "3", g_gy[2] = "4", g_a[2] = "5";
static unsigned char g_buf[8], g_sig[8];
static psSize_t g_buflen, g_siglen;
static int32_t g_status;
static int32_t g_rcs[NRC];                /* model results, consumed in call order (harness input) */
static uint16_t g_r_used, g_s_used;       /* "is zero" view of r and s as parsed (harness input) */
static psEccPoint_t g_pts[2];
static pstm_int g_A;

static struct
{
    unsigned nrc, any_fail;
    unsigned nasn, ncmp, ninv, nmulmod, neccmul, nadd, nmap, nmod, nnewpt, nbin;
    const pstm_int *r, *s, *n, *m, *w, *e, *u1, *u2, *v;
    const pstm_int *cmp_a[4], *cmp_b[4];
    int32_t cmp_res[4];
    unsigned range_checked_before_inverse, inv_ok, mul1_ok, mul2_ok, ecc1_ok, ecc2_ok, add_ok, map_ok, mod_ok, e_ok;
    const psEccPoint_t *mG, *mQ;
} gh;

static int32_t next_rc(void)
{
    int32_t r = g_rcs[gh.nrc % NRC];
    gh.nrc++;
    if (r < 0) { gh.any_fail = 1; return r; }
    return PS_SUCCESS;
}
static void *vr_malloc(unsigned long n) { (void) n; if (next_rc() < 0) { return (void *) 0; } return &g_A; }
static void vr_free(void *p) { (void) p; }

int32_t getAsnSequence(const unsigned char **pp, psSizeL_t size, psSize_t *seqlen) { *seqlen = 0; return next_rc(); }
int32_t pstm_read_asn(psPool_t *pool, const unsigned char **pp, psSize_t len, pstm_int *a)
{
    int32_t rc = next_rc();
    if (rc < 0) { return rc; }
    if (gh.nasn == 0) { gh.r = a; a->used = g_r_used; } else { gh.s = a; a->used = g_s_used; }
    a->alloc = 4; a->dp = 0;
    gh.nasn++;
    return PS_SUCCESS;
}
int32_t pstm_init_for_read_unsigned_bin(psPool_t *pool, pstm_int *a, psSize_t len) { a->alloc = 4; a->used = 0; a->dp = 0; return next_rc(); }
int32_t pstm_init_size(psPool_t *pool, pstm_int *a, psSize_t size) { a->alloc = 4; a->used = 0; a->dp = 0; return next_rc(); }
int32_t pstm_read_radix(psPool_t *pool, pstm_int *a, const char *buf, psSize_t len, uint8_t radix)
{
    if (buf == g_order) { gh.n = a; }
    if (buf == g_prime) { gh.m = a; }
    return next_rc();
}
int32_t pstm_read_unsigned_bin(pstm_int *a, const unsigned char *buf, psSize_t len)
{
    gh.e = a;
    gh.e_ok = (buf == g_buf && len == (g_buflen > g_curve.size ? g_curve.size : g_buflen));
    gh.nbin++;
    return next_rc();
}
int32_t pstm_cmp(const pstm_int *a, const pstm_int *b)
{
    int32_t r = g_rcs[gh.nrc % NRC];
    gh.nrc++;
    r = (r < 0) ? PSTM_LT : (r == 0 ? PSTM_EQ : PSTM_GT);
    if (gh.ncmp < 4) { gh.cmp_a[gh.ncmp] = a; gh.cmp_b[gh.ncmp] = b; gh.cmp_res[gh.ncmp] = r; }
    gh.ncmp++;
    return r;
}
int32_t pstm_invmod(psPool_t *pool, const pstm_int *a, const pstm_int *b, pstm_int *c)
{
    gh.range_checked_before_inverse = (gh.ncmp == 2 && gh.cmp_a[0] == gh.r && gh.cmp_b[0] == gh.n && gh.cmp_res[0] == PSTM_LT &&
                                       gh.cmp_a[1] == gh.s && gh.cmp_b[1] == gh.n && gh.cmp_res[1] == PSTM_LT &&
                                       gh.r != 0 && gh.s != 0 && gh.n != 0 && gh.r->used != 0 && gh.s->used != 0);
    gh.inv_ok = (a == gh.s && b == gh.n);
    gh.w = c;
    gh.ninv++;
    return next_rc();
}
int32_t pstm_mulmod(psPool_t *pool, const pstm_int *a, const pstm_int *b, const pstm_int *c, pstm_int *d)
{
    if (gh.nmulmod == 0) { gh.mul1_ok = (gh.ninv == 1 && gh.nbin == 1 && a == gh.e && b == gh.w && c == gh.n); gh.u1 = d; }
    else { gh.mul2_ok = (a == gh.r && b == gh.w && c == gh.n); gh.u2 = d; }
    gh.nmulmod++;
    return next_rc();
}
void pstm_set(pstm_int *a, pstm_digit b) { }
int32_t pstm_copy(const pstm_int *a, pstm_int *b) { return next_rc(); }
void pstm_clear(pstm_int *a) { }
int32_t pstm_montgomery_setup(const pstm_int *a, pstm_digit *rho) { *rho = 1; return next_rc(); }
int32_t pstm_mod(psPool_t *pool, const pstm_int *a, const pstm_int *b, pstm_int *c)
{
    gh.mod_ok = (gh.nmap == 1 && gh.mG != 0 && a == &gh.mG->x && b == gh.n);
    gh.v = c;
    gh.nmod++;
    return next_rc();
}
psEccPoint_t *eccNewPoint(psPool_t *pool, short size)
{
    psEccPoint_t *p;
    if (next_rc() < 0) { return (psEccPoint_t *) 0; }
    p = &g_pts[gh.nnewpt & 1];
    if (gh.nnewpt == 0) { gh.mG = p; } else { gh.mQ = p; }
    gh.nnewpt++;
    return p;
}
void eccFreePoint(psEccPoint_t *p) { }
int32_t eccMulmod(psPool_t *pool, const pstm_int *k, const psEccPoint_t *G, psEccPoint_t *R, pstm_int *modulus, uint8_t map, pstm_int *tmp_int)
{
    if (gh.neccmul == 0) { gh.ecc1_ok = (gh.nmulmod == 2 && k == gh.u1 && G == gh.mG && R == gh.mG && modulus == gh.m); }
    else { gh.ecc2_ok = (k == gh.u2 && G == gh.mQ && R == gh.mQ && modulus == gh.m); }
    gh.neccmul++;
    return next_rc();
}
int32_t eccProjectiveAddPoint(psPool_t *pool, const psEccPoint_t *P, const psEccPoint_t *Q, psEccPoint_t *R, const pstm_int *modulus, const pstm_digit *mp, pstm_int *tmp_int)
{
    gh.add_ok = (gh.neccmul == 2 && ((P == gh.mQ && Q == gh.mG) || (P == gh.mG && Q == gh.mQ)) && R == gh.mG && modulus == gh.m);
    gh.nadd++;
    return next_rc();
}
int32_t eccMap(psPool_t *pool, psEccPoint_t *P, const pstm_int *modulus, const pstm_digit *mp)
{
    gh.map_ok = (gh.nadd == 1 && P == gh.mG && modulus == gh.m);
    gh.nmap++;
    return next_rc();
}

#define ACCEPT (g_status == 1)
#define LASTCMP ((gh.ncmp - 1) & 3)

#define POSTS(P) \
    P(status_is_minus1_or_1,         g_status == -1 || g_status == 1) \
    P(error_return_means_not_verified, IMPLIES(RET < 0, g_status == -1)) \
    P(accept_only_if_no_oracle_call_failed, IMPLIES(ACCEPT, !gh.any_fail && RET == PS_SUCCESS)) \
    P(accept_only_if_r_s_in_1_to_n_minus_1_checked_before_use, IMPLIES(ACCEPT, gh.ninv == 1 && gh.range_checked_before_inverse)) \
    P(accept_only_if_final_compare_v_eq_r, IMPLIES(ACCEPT, gh.ncmp == 3 && gh.nmod == 1 && gh.mod_ok && gh.cmp_res[LASTCMP] == PSTM_EQ && \
                                                   ((gh.cmp_a[LASTCMP] == gh.v && gh.cmp_b[LASTCMP] == gh.r) || (gh.cmp_a[LASTCMP] == gh.r && gh.cmp_b[LASTCMP] == gh.v)))) \
    P(accept_only_if_equation_is_wired, IMPLIES(ACCEPT, gh.inv_ok && gh.e_ok && gh.nmulmod == 2 && gh.mul1_ok && gh.mul2_ok && gh.neccmul == 2 && gh.ecc1_ok && gh.ecc2_ok && \
                                                   gh.nadd == 1 && gh.add_ok && gh.nmap == 1 && gh.map_ok)) \
    P(valid_signature_is_accepted,   IMPLIES(!gh.any_fail && RET == PS_SUCCESS && gh.ncmp == 3 && gh.cmp_res[2] == PSTM_EQ, ACCEPT))

int32_t psEccDsaVerify(psPool_t *pool, const psEccKey_t *key, const unsigned char *buf, psSize_t buflen,
    const unsigned char *sig, psSize_t siglen, int32_t *status, void *usrData)
__CPROVER_requires(pool == (psPool_t *) 0 && key == &g_key && buf == g_buf && buflen == g_buflen && sig == g_sig && siglen == g_siglen && status == &g_status && usrData == (void *) 0)
__CPROVER_requires(g_key.curve == &g_curve && g_curve.order == g_order && g_curve.prime == g_prime && g_curve.Gx == g_gx && g_curve.Gy == g_gy && g_curve.A == g_a)
__CPROVER_requires(g_buflen <= 8 && g_siglen <= 8)
__CPROVER_requires(gh.nrc == 0 && gh.any_fail == 0 && gh.nasn == 0 && gh.ncmp == 0 && gh.ninv == 0 && gh.nmulmod == 0 && gh.neccmul == 0 && gh.nadd == 0 && gh.nmap == 0 && gh.nmod == 0 && gh.nnewpt == 0 && gh.nbin == 0)
__CPROVER_requires(gh.r == 0 && gh.s == 0 && gh.n == 0 && gh.m == 0 && gh.w == 0 && gh.e == 0 && gh.u1 == 0 && gh.u2 == 0 && gh.v == 0 && gh.mG == 0 && gh.mQ == 0)
POSTS(ENSURES_CLAUSE)
CANARY_CLAUSE(g_status != 1)
__CPROVER_assigns(g_status, gh, g_A, __CPROVER_object_whole(g_pts))
;

#include "crypto/pubkey/ecc_pub.c"

struct __attribute__((packed)) inputs
{
    int32_t rcs[NRC];
    uint16_t r_used, s_used, buflen, siglen;
    uint8_t curve_size, is_optimized;
    uint16_t pub_alloc;
};
#ifndef NATIVE_REPLAY
struct inputs nondet_in(void);
#endif

HARNESS_BEGIN
    HARNESS_INPUTS(struct inputs, in);
    int32_t vr_ret;
    memcpy(g_rcs, in.rcs, sizeof(g_rcs));
    g_r_used = in.r_used; g_s_used = in.s_used; g_buflen = in.buflen; g_siglen = in.siglen;
    g_curve.size = in.curve_size; g_curve.isOptimized = in.is_optimized;
    g_curve.order = g_order; g_curve.prime = g_prime; g_curve.Gx = g_gx; g_curve.Gy = g_gy; g_curve.A = g_a;
    g_key.curve = &g_curve;
    g_key.pubkey.x.alloc = in.pub_alloc; g_key.pubkey.x.dp = 0; g_key.pubkey.y.dp = 0; g_key.pubkey.z.dp = 0;
    /* input domain = the requires clauses above (buffer contents are only handed to the models) */
    __CPROVER_assume(g_buflen <= 8 && g_siglen <= 8);
    vr_ret = psEccDsaVerify((psPool_t *) 0, &g_key, g_buf, g_buflen, g_sig, g_siglen, &g_status, (void *) 0);
    (void) vr_ret;
    POSTS(NATIVE_CHECK)
HARNESS_END
