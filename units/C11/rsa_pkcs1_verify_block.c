/*@UNIT
{
  "property": "C11",
  "unit": "rsa_pkcs1_verify_block",
  "function": "pubRsaDecryptSignedElementExt",
  "source": "crypto/pubkey/rsa_pub.c",
  "keep_bodies": ["psRsaDecryptPubExt", "pkcs1UnpadExt", "psGetDigestInfoPrefix", "psIsValidHashLenSigAlgCombination"],
  "replace": [],
  "assumed": ["psRsaCrypt (model: the modular exponentiation; writes an ARBITRARY block of inlen bytes and an arbitrary output length, returns an arbitrary result, all from the harness input)", "memcmpct (model in the wrapper: returns the OR of the byte-wise XORs, the text of core/src/corelib_strings.c:72)"],
  "mode": "bounded",
  "bounds": "RSA modulus of KBYTES bytes (quick 128 = the configured minimum MIN_RSA_BITS 1024; thorough 256); every recovered block content; signature algorithm enumerated by cases",
  "defs_quick": ["KBYTES=128"],
  "defs_thorough": ["KBYTES=256"],
  "cases": [
    {"name": "sha256", "defs": ["ALG=OID_SHA256_RSA_SIG", "HLEN=32", "SPEC_SHA256=1"]},
    {"name": "sha1",   "defs": ["ALG=OID_SHA1_RSA_SIG", "HLEN=20", "SPEC_SHA1=1"]},
    {"name": "sha384", "defs": ["ALG=OID_SHA384_RSA_SIG", "HLEN=48", "SPEC_SHA384=1"]},
    {"name": "sha512", "defs": ["ALG=OID_SHA512_RSA_SIG", "HLEN=64", "SPEC_SHA512=1"]},
    {"name": "md5",    "defs": ["ALG=OID_MD5_RSA_SIG", "HLEN=16", "SPEC_MD5=1"], "tier": "thorough"},
    {"name": "wrong_hashlen", "defs": ["ALG=OID_SHA256_RSA_SIG", "HLEN=20", "SPEC_SHA256=1", "MISMATCH=1"]}
  ],
  "unwind": 260,
  "native_replay": false,
  "timeout": 900
}
@*/
/* C11.U2  RSASSA-PKCS1-v1_5 verification: "the recovered block equals the one
 * correct encoding" (RFC 8017 s.8.2.2 with s.9.2).
 *
 * The modular exponentiation is an assumed oracle that returns an ARBITRARY
 * block B of k = key->size bytes.  The contract: the function reports success
 * and hands out a digest h only if
 *     B == 00 01 FF ... FF 00 || DigestInfoPrefix(alg) || h,      |B| = k,
 * with the FF run filling the block exactly (so it has the one possible
 * length, >= 8 here), DigestInfoPrefix being the DER text of RFC 8017 s.9.2
 * note 1 (written out below, independently of crypto/common/digest_info.c)
 * in one of its two accepted forms: NULL parameters present / absent.
 * "for all bytes of B" is a ghost index; "one of two forms" makes it two
 * independent ghost indices: (all k: E0(k)) or (all k: E1(k))  <=>
 * all (k,k'): E0(k) or E1(k').
 * The caller compares h with the message digest (unit sig_dispatch).
 */
#include "verif.h"
#include "crypto/cryptoImpl.h"

#ifndef KBYTES
# define KBYTES 128
#endif
#ifndef HLEN
# define HLEN 32
# define ALG OID_SHA256_RSA_SIG
# define SPEC_SHA256 1
#endif

/* RFC 8017 s.9.2 note 1: DER DigestInfo prefixes, with and without the NULL parameters */
#if defined(SPEC_SHA256)
static const unsigned char SP0[] = { 0x30, 0x31, 0x30, 0x0d, 0x06, 0x09, 0x60, 0x86, 0x48, 0x01, 0x65, 0x03, 0x04, 0x02, 0x01, 0x05, 0x00, 0x04, 0x20 };
static const unsigned char SP1[] = { 0x30, 0x2f, 0x30, 0x0b, 0x06, 0x09, 0x60, 0x86, 0x48, 0x01, 0x65, 0x03, 0x04, 0x02, 0x01, 0x04, 0x20 };
#elif defined(SPEC_SHA1)
static const unsigned char SP0[] = { 0x30, 0x21, 0x30, 0x09, 0x06, 0x05, 0x2b, 0x0e, 0x03, 0x02, 0x1a, 0x05, 0x00, 0x04, 0x14 };
static const unsigned char SP1[] = { 0x30, 0x1f, 0x30, 0x07, 0x06, 0x05, 0x2b, 0x0e, 0x03, 0x02, 0x1a, 0x04, 0x14 };
#elif defined(SPEC_SHA384)
static const unsigned char SP0[] = { 0x30, 0x41, 0x30, 0x0d, 0x06, 0x09, 0x60, 0x86, 0x48, 0x01, 0x65, 0x03, 0x04, 0x02, 0x02, 0x05, 0x00, 0x04, 0x30 };
static const unsigned char SP1[] = { 0x30, 0x3f, 0x30, 0x0b, 0x06, 0x09, 0x60, 0x86, 0x48, 0x01, 0x65, 0x03, 0x04, 0x02, 0x02, 0x04, 0x30 };
#elif defined(SPEC_SHA512)
static const unsigned char SP0[] = { 0x30, 0x51, 0x30, 0x0d, 0x06, 0x09, 0x60, 0x86, 0x48, 0x01, 0x65, 0x03, 0x04, 0x02, 0x03, 0x05, 0x00, 0x04, 0x40 };
static const unsigned char SP1[] = { 0x30, 0x4f, 0x30, 0x0b, 0x06, 0x09, 0x60, 0x86, 0x48, 0x01, 0x65, 0x03, 0x04, 0x02, 0x03, 0x04, 0x40 };
#elif defined(SPEC_MD5)
static const unsigned char SP0[] = { 0x30, 0x20, 0x30, 0x0c, 0x06, 0x08, 0x2a, 0x86, 0x48, 0x86, 0xf7, 0x0d, 0x02, 0x05, 0x05, 0x00, 0x04, 0x10 };
/* parameters absent: SEQUENCE lengths shrink by two (0x1e, 0x0a) */
static const unsigned char SP1[] = { 0x30, 0x1e, 0x30, 0x0a, 0x06, 0x08, 0x2a, 0x86, 0x48, 0x86, 0xf7, 0x0d, 0x02, 0x05, 0x04, 0x10 };
#endif
#define PL0 ((unsigned) sizeof(SP0))
#define PL1 ((unsigned) sizeof(SP1))

static psRsaKey_t g_key;
static unsigned char g_sig[KBYTES];       /* signature in, recovered block out (in place) */
static unsigned char g_blk[KBYTES];       /* what the oracle returns (harness input) */
static unsigned char g_hash[64];
static psSize_t g_inlen, g_ptlen;
static int32_t g_rc;
static unsigned g_k, g_k2;                /* ghost indices over the block */
static unsigned gh_crypt_calls, gh_crypt_ok;

int32_t psRsaCrypt(psPool_t *pool, psRsaKey_t *key, const unsigned char *in, psSize_t inlen,
    unsigned char *out, psSize_t *outlen, uint8_t type, void *data)
{
    unsigned i;
    gh_crypt_ok = (key == &g_key && in == g_sig && out == g_sig && inlen == KBYTES && type == PS_PUBKEY);
    gh_crypt_calls++;
    if (g_rc < 0) { return g_rc; }
    for (i = 0; i < KBYTES; i++) { if (i < inlen) { out[i] = g_blk[i]; } }
    *outlen = g_ptlen;
    return g_rc;
}
/* core/src/corelib_strings.c:72 */
int32 memcmpct(const void *s1, const void *s2, size_t len)
{
    int xor = 0;
    while (len > 0)
    {
        len--;
        xor |= ((unsigned char *) s1)[len] ^ ((unsigned char *) s2)[len];
    }
    return xor;
}

#define OK (RET == PS_SUCCESS)
/* byte k of  00 01 FF..FF 00 || prefix || hashOut  for a prefix of length pl */
#define ENC(k, pfx, pl) ((unsigned char) ((k) == 0 ? 0x00 : (k) == 1 ? 0x01 : (k) < KBYTES - 1 - ((pl) + HLEN) ? 0xFF : (k) == KBYTES - 1 - ((pl) + HLEN) ? 0x00 : \
                         (k) < KBYTES - HLEN ? (pfx)[((k) - (KBYTES - ((pl) + HLEN))) % sizeof(pfx)] : g_hash[((k) - (KBYTES - HLEN)) % 64]))

#ifdef MISMATCH
# define MISMATCHED 1
# define CANARY_COND (__CPROVER_return_value != PS_ARG_FAIL)
#else
# define MISMATCHED 0
# define CANARY_COND (__CPROVER_return_value != PS_SUCCESS)
#endif

#define POSTS(P) \
    P(hash_length_not_matching_algorithm_is_refused, IMPLIES(MISMATCHED, RET == PS_ARG_FAIL && gh_crypt_calls == 0)) \
    P(wrong_signature_length_is_refused, IMPLIES(!MISMATCHED && g_inlen != KBYTES, RET < 0 && gh_crypt_calls == 0)) \
    P(rsa_failure_is_honoured,       IMPLIES(!MISMATCHED && g_inlen == KBYTES && (g_rc < 0 || g_ptlen != KBYTES), RET < 0)) \
    P(one_public_key_operation,      IMPLIES(OK, gh_crypt_calls == 1 && gh_crypt_ok && g_rc >= 0)) \
    P(accepted_block_is_the_one_correct_encoding, IMPLIES(OK, g_blk[g_k] == ENC(g_k, SP0, PL0) || g_blk[g_k2] == ENC(g_k2, SP1, PL1)))

int32_t pubRsaDecryptSignedElementExt(psPool_t *pool, psRsaKey_t *key, unsigned char *in, psSize_t inlen,
        unsigned char *hashOut, psSize_t hashOutLen, int32_t signatureAlgorithm, void *data)
__CPROVER_requires(pool == (psPool_t *) 0 && key == &g_key && in == g_sig && inlen == g_inlen && hashOut == g_hash && hashOutLen == HLEN && signatureAlgorithm == ALG && data == (void *) 0)
__CPROVER_requires(g_key.size == KBYTES && g_inlen <= KBYTES && g_k < KBYTES && g_k2 < KBYTES && gh_crypt_calls == 0)
POSTS(ENSURES_CLAUSE)
CANARY_CLAUSE(CANARY_COND)
__CPROVER_assigns(__CPROVER_object_whole(g_sig), __CPROVER_object_whole(g_hash), gh_crypt_calls, gh_crypt_ok)
;

#include "crypto/common/alg_info.c"
#include "crypto/common/digest_info.c"
#include "crypto/keyformat/pkcs.c"
#include "crypto/pubkey/rsa_pub.c"

struct __attribute__((packed)) inputs
{
    unsigned char blk[KBYTES];
    uint16_t inlen, ptlen;
    int32_t rc;
    uint32_t k, k2;
};
#ifndef NATIVE_REPLAY
struct inputs nondet_in(void);
#endif

HARNESS_BEGIN
    HARNESS_INPUTS(struct inputs, in);
    int32_t vr_ret;
    memcpy(g_blk, in.blk, KBYTES);
    g_inlen = in.inlen; g_ptlen = in.ptlen; g_rc = in.rc; g_k = in.k; g_k2 = in.k2;
    g_key.size = KBYTES;                 /* the other key fields are only handed to the (modelled) exponentiation */
    /* input domain = the requires clauses above */
    __CPROVER_assume(g_inlen <= KBYTES && g_k < KBYTES && g_k2 < KBYTES);
    vr_ret = pubRsaDecryptSignedElementExt((psPool_t *) 0, &g_key, g_sig, g_inlen, g_hash, HLEN, ALG, (void *) 0);
    (void) vr_ret;
    POSTS(NATIVE_CHECK)
HARNESS_END
