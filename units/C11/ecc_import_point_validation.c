/*@UNIT
{
  "property": "C11",
  "unit": "ecc_import_point_validation",
  "function": "psEccX963ImportKey",
  "source": "crypto/pubkey/ecc_import.c",
  "keep_bodies": [],
  "replace": [],
  "assumed": ["eccTestPoint (model: the on-curve test y^2 = x^3 - 3x + b; logs its operands, arbitrary result from the harness input)", "psEccInitKey, psEccClearKey, pstm_init_for_read_unsigned_bin, pstm_init_size, pstm_read_unsigned_bin, pstm_read_radix, pstm_set, pstm_clear (models: log operands by address, arbitrary results from the harness input)"],
  "cases": [
    {"name": "a3_curve",  "defs": ["A3_CURVE=1"]},
    {"name": "any_curve", "defs": []}
  ],
  "mode": "proof",
  "why_proof": "the function is loop-free and every callee is a loop-free model; only in[0] is read by the function itself, the coordinates are handed to the models.  inlen <= 140 (size of the harness buffer; the largest supported point, P-521, is 133 bytes)",
  "native_replay": false,
  "timeout": 300
}
@*/
/* C11.U5  Import of a peer's EC point (X9.62/X9.63 uncompressed): "points that are
 * not valid group elements are refused before use".
 *
 * The curve arithmetic is an assumed oracle.  The contract: the function
 * reports success only if
 *   - the encoding is 04 || X || Y with |X| = |Y| = (inlen-1)/2, inlen odd and
 *     at least 2*MIN_ECC_BITS/8 + 1,
 *   - x, y were read from exactly those halves and z was set to 1,
 *   - eccTestPoint was called on THIS point with the curve's prime and B and
 *     returned success;
 * when the on-curve test fails the import fails and the key is cleared.
 * Case a3_curve: curve != NULL and curve->isOptimized (all secp curves, i.e. everything
 * the default configuration enables); case any_curve: also curve == NULL ("may be
 * NULL" per the API comment) and curves with A != -3 (Brainpool, USE_BRAIN*).
 */
#include "verif.h"
#include "crypto/cryptoImpl.h"

#define MAXIN 140
static psEccKey_t g_key;
static psEccCurve_t g_curve;
static const char g_prime[2] = "2", g_b[2] = "6";
static unsigned char g_in[MAXIN];
static psSize_t g_inlen;
static unsigned g_curve_null;
static int32_t g_rcs[16];                 /* model results in call order (harness input) */
static int32_t g_test_rc;                 /* result of eccTestPoint (harness input) */

static struct
{
    unsigned nrc, any_fail;
    unsigned nreadx, nready, nset, ntest, nclearkey;
    unsigned readx_ok, ready_ok, set_ok, test_ok;
    const pstm_int *prime, *b;
} gh;

static int32_t next_rc(void)
{
    int32_t r = g_rcs[gh.nrc & 15];
    gh.nrc++;
    if (r < 0) { gh.any_fail = 1; return r; }
    return PS_SUCCESS;
}
int32_t psEccInitKey(psPool_t *pool, psEccKey_t *key, const psEccCurve_t *curve) { return next_rc(); }
void psEccClearKey(psEccKey_t *key) { if (key == &g_key) { gh.nclearkey++; } }
int32_t pstm_init_for_read_unsigned_bin(psPool_t *pool, pstm_int *a, psSize_t len) { a->dp = 0; a->used = 0; a->alloc = 0; return next_rc(); }
int32_t pstm_init_size(psPool_t *pool, pstm_int *a, psSize_t size) { a->dp = 0; a->used = 0; a->alloc = 0; return next_rc(); }
void pstm_clear(pstm_int *a) { }
int32_t pstm_read_unsigned_bin(pstm_int *a, const unsigned char *buf, psSize_t len)
{
    int32_t rc = next_rc();
    unsigned half = (g_inlen - 1) >> 1;
    if (a == &g_key.pubkey.x) { gh.readx_ok = (rc == PS_SUCCESS && buf == g_in + 1 && len == half); gh.nreadx++; }
    else if (a == &g_key.pubkey.y) { gh.ready_ok = (rc == PS_SUCCESS && buf == g_in + 1 + half && len == half); gh.nready++; }
    return rc;
}
void pstm_set(pstm_int *a, pstm_digit b) { gh.set_ok = (a == &g_key.pubkey.z && b == 1); gh.nset++; }
int32_t pstm_read_radix(psPool_t *pool, pstm_int *a, const char *buf, psSize_t len, uint8_t radix)
{
    int32_t rc = next_rc();
    if (rc == PS_SUCCESS && buf == g_prime) { gh.prime = a; }
    if (rc == PS_SUCCESS && buf == g_b) { gh.b = a; }
    return rc;
}
int32 eccTestPoint(psPool_t *pool, psEccPoint_t *P, pstm_int *prime, pstm_int *b)
{
    gh.test_ok = (P == &g_key.pubkey && prime != 0 && prime == gh.prime && b != 0 && b == gh.b &&
                  gh.nreadx == 1 && gh.readx_ok && gh.nready == 1 && gh.ready_ok && gh.nset == 1 && gh.set_ok);
    gh.ntest++;
    if (g_test_rc < 0) { gh.any_fail = 1; }
    return g_test_rc;
}

#define OK (RET == PS_SUCCESS)
#define LEN_OK (g_inlen >= 2 * (MIN_ECC_BITS / 8) + 1 && (g_inlen & 1) == 1)

#define POSTS(P) \
    P(short_or_even_length_is_refused, IMPLIES(!LEN_OK, RET == PS_ARG_FAIL && gh.ntest == 0)) \
    P(only_uncompressed_format_is_accepted, IMPLIES(OK, LEN_OK && g_in[0] == 0x04)) \
    P(success_only_after_point_is_validated, IMPLIES(OK, gh.ntest == 1 && gh.test_ok && g_test_rc >= 0 && !gh.any_fail)) \
    P(off_curve_point_is_refused_and_key_cleared, IMPLIES(gh.ntest == 1 && g_test_rc < 0, RET < 0 && gh.nclearkey == 1)) \
    P(valid_point_is_accepted,         IMPLIES(LEN_OK && g_in[0] == 0x04 && !gh.any_fail && gh.ntest == 1, OK))

int32_t psEccX963ImportKey(psPool_t *pool, const unsigned char *in, psSize_t inlen, psEccKey_t *key, const psEccCurve_t *curve)
__CPROVER_requires(pool == (psPool_t *) 0 && in == g_in && inlen == g_inlen && key == &g_key && curve == (g_curve_null ? (const psEccCurve_t *) 0 : &g_curve))
__CPROVER_requires(g_inlen <= MAXIN && g_curve.prime == g_prime && g_curve.B == g_b)
__CPROVER_requires(gh.nrc == 0 && gh.any_fail == 0 && gh.nreadx == 0 && gh.nready == 0 && gh.nset == 0 && gh.ntest == 0 && gh.nclearkey == 0 && gh.prime == 0 && gh.b == 0)
POSTS(ENSURES_CLAUSE)
CANARY_CLAUSE(__CPROVER_return_value != PS_SUCCESS)
__CPROVER_assigns(g_key, gh)
;

#include "crypto/pubkey/ecc_import.c"

struct __attribute__((packed)) inputs
{
    int32_t rcs[16];
    int32_t test_rc;
    uint16_t inlen;
    unsigned char first, curve_null, is_optimized, curve_size, key_type;
};
#ifndef NATIVE_REPLAY
struct inputs nondet_in(void);
#endif

HARNESS_BEGIN
    HARNESS_INPUTS(struct inputs, in);
    int32_t vr_ret;
    memcpy(g_rcs, in.rcs, sizeof(g_rcs));
    g_test_rc = in.test_rc; g_inlen = in.inlen; g_in[0] = in.first;
#ifdef A3_CURVE
    /* every curve enabled in the default configuration: a curve is given and it has A = -3 (isOptimized) */
    g_curve_null = 0;
    g_curve.isOptimized = 1;
#else
    g_curve_null = in.curve_null & 1;
    g_curve.isOptimized = in.is_optimized;
#endif g_curve.size = in.curve_size; g_curve.prime = g_prime; g_curve.B = g_b;
    g_key.type = in.key_type;
    g_key.pubkey.x.dp = 0; g_key.pubkey.y.dp = 0; g_key.pubkey.z.dp = 0; g_key.k.dp = 0;
    /* input domain = the requires clauses above; the coordinate bytes are only handed to the models */
    __CPROVER_assume(g_inlen <= MAXIN);
    vr_ret = psEccX963ImportKey((psPool_t *) 0, g_in, g_inlen, &g_key, g_curve_null ? (const psEccCurve_t *) 0 : &g_curve);
    (void) vr_ret;
    POSTS(NATIVE_CHECK)
HARNESS_END
