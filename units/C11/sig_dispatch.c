/*@UNIT
{
  "property": "C11",
  "unit": "sig_dispatch",
  "function": "psVerifySig",
  "source": "crypto/pubkey/pubkey_verify.c",
  "keep_bodies": [],
  "replace": [],
  "assumed": ["psRsaPssVerify (model; assumed contract: PS_SUCCESS iff the PSS signature is valid - the real function sets PS_SUCCESS only together with *verifyResult = TRUE, rsa_pub.c:403-415)", "pubRsaDecryptSignedElementExt (model: enforced in unit rsa_pkcs1_verify_block), psRsaDecryptPub (model)", "psEccDsaVerify (model: enforced in unit ecdsa_verify_gate), psEd25519Verify (model)", "memcmpct (model: logs arguments, arbitrary result)"],
  "mode": "proof",
  "why_proof": "the function is loop-free and every callee is a loop-free model; message and signature bytes are only handed to the models.  Domain: msgInLen <= 64 (the API verifies 'the signature of a digest'), sigLen <= 600",
  "native_replay": false,
  "timeout": 300
}
@*/
/* C11.U6  psVerifySig: algorithm dispatch and result discipline.
 *
 *   *verifyResult == TRUE  <=>  return value == PS_SUCCESS;
 *   TRUE only if exactly ONE verification primitive ran, the one that belongs
 *   to the KEY's type (RSA-PSS / RSA PKCS#1 v1.5 / ECDSA / Ed25519), with the
 *   caller's message, signature and key, and it reported "valid"
 *   (PKCS#1: recovered digest compared over the full length with result 0;
 *    ECDSA: status == 1, not merely return >= 0);
 *   unknown key type => PS_UNSUPPORTED_FAIL;  every error path leaves FALSE;
 *   an Ed25519 signature that is not 64 bytes long is refused without handing
 *   the short buffer to the 64-byte primitive.
 */
#include "verif.h"
#include "crypto/cryptoImpl.h"

static psPubKey_t g_key;
static psVerifyOptions_t g_opts;
static unsigned g_opts_null;
static unsigned char g_msg[64], g_sig[600];
static psSizeL_t g_msglen;
static psSize_t g_siglen;
static int32_t g_alg;
static psBool_t g_vres;
static int32_t g_rc_pss, g_rc_dse, g_rc_dp, g_rc_ecc, g_rc_ed, g_cmp, g_ecc_status;   /* model results (harness input) */

static struct
{
    unsigned pss, dse, dp, ecc, ed, cmp;
    unsigned pss_ok, dse_ok, dp_ok, ecc_ok, ed_ok, cmp_ok;
    const unsigned char *rsa_out;
} gh;

#define OPTS (g_opts_null ? (psVerifyOptions_t *) 0 : &g_opts)

psRes_t psRsaPssVerify(psPool_t *pool, const unsigned char *msgIn, psSizeL_t msgInLen, const unsigned char *sig, psSize_t sigLen,
    psPubKey_t *key, int32_t signatureAlgorithm, psBool_t *verifyResult, psVerifyOptions_t *opts)
{
    gh.pss_ok = (msgIn == g_msg && msgInLen == g_msglen && sig == g_sig && sigLen == g_siglen && key == &g_key && signatureAlgorithm == g_alg && opts == &g_opts);
    gh.pss++;
    *verifyResult = (g_rc_pss == PS_SUCCESS) ? PS_TRUE : PS_FALSE;
    return g_rc_pss;
}
int32_t pubRsaDecryptSignedElementExt(psPool_t *pool, psRsaKey_t *key, unsigned char *in, psSize_t inlen,
    unsigned char *hashOut, psSize_t hashOutLen, int32_t signatureAlgorithm, void *data)
{
    gh.dse_ok = (key == &g_key.key.rsa && in == g_sig && inlen == g_siglen && hashOutLen == g_msglen && signatureAlgorithm == g_alg);
    gh.rsa_out = hashOut;
    gh.dse++;
    return g_rc_dse > 0 ? PS_SUCCESS : g_rc_dse;   /* documented: 0 or < 0 */
}
int32_t psRsaDecryptPub(psPool_t *pool, psRsaKey_t *key, unsigned char *in, psSize_t inlen, unsigned char *out, psSize_t outlen, void *data)
{
    gh.dp_ok = (key == &g_key.key.rsa && in == g_sig && inlen == g_siglen && outlen == g_msglen);
    gh.rsa_out = out;
    gh.dp++;
    return g_rc_dp > 0 ? PS_SUCCESS : g_rc_dp;     /* documented: 0 or < 0 */
}
int32 memcmpct(const void *s1, const void *s2, size_t len)
{
    gh.cmp_ok = (gh.dse + gh.dp == 1 && len == g_msglen &&
                 ((s1 == (const void *) g_msg && s2 == (const void *) gh.rsa_out) || (s2 == (const void *) g_msg && s1 == (const void *) gh.rsa_out)));
    gh.cmp++;
    return g_cmp;
}
int32_t psEccDsaVerify(psPool_t *pool, const psEccKey_t *key, const unsigned char *buf, psSize_t buflen,
    const unsigned char *sig, psSize_t siglen, int32_t *status, void *usrData)
{
    gh.ecc_ok = (key == &g_key.key.ecc && buf == g_msg && buflen == g_msglen && sig == g_sig && siglen == g_siglen);
    gh.ecc++;
    *status = g_ecc_status;
    return g_rc_ecc > 0 ? PS_SUCCESS : g_rc_ecc;   /* documented: 0 or < 0 */
}
int32_t psEd25519Verify(const unsigned char sig[64], const unsigned char *msg, psSizeL_t msgLen, const unsigned char pubKey[32])
{
    gh.ed_ok = (sig == g_sig && msg == g_msg && msgLen == g_msglen && pubKey == g_key.key.ed25519.pub);
    gh.ed++;
    return g_rc_ed;
}

#define ACCEPT   (g_vres == PS_TRUE)
#define NCALLS   (gh.pss + gh.dse + gh.dp + gh.ecc + gh.ed)
#define USE_PSS  (!g_opts_null && g_opts.useRsaPss)
#define DIGINFO  (!g_opts_null && g_opts.msgIsDigestInfo)
#define RSA_PSS_VALID   (gh.pss == 1 && gh.pss_ok && g_rc_pss == PS_SUCCESS)
#define RSA_P1_VALID    (((DIGINFO && gh.dse == 1 && gh.dse_ok && g_rc_dse >= 0) || (!DIGINFO && gh.dp == 1 && gh.dp_ok && g_rc_dp >= 0)) && gh.cmp == 1 && gh.cmp_ok && g_cmp == 0)
#define ECDSA_VALID     (gh.ecc == 1 && gh.ecc_ok && g_rc_ecc >= 0 && g_ecc_status == 1)
#define ED_VALID        (gh.ed == 1 && gh.ed_ok && g_rc_ed == PS_SUCCESS)

#define POSTS(P) \
    P(result_true_iff_success,       ACCEPT == (RET == PS_SUCCESS) && (g_vres == PS_TRUE || g_vres == PS_FALSE)) \
    P(at_most_one_primitive_runs,    NCALLS <= 1) \
    P(rsa_key_accepts_only_valid_rsa_signature, IMPLIES(ACCEPT && g_key.type == PS_RSA, NCALLS == 1 && (USE_PSS ? RSA_PSS_VALID : RSA_P1_VALID))) \
    P(ecc_key_accepts_only_valid_ecdsa_signature, IMPLIES(ACCEPT && g_key.type == PS_ECC, NCALLS == 1 && ECDSA_VALID)) \
    P(ed25519_key_accepts_only_valid_ed25519_signature, IMPLIES(ACCEPT && g_key.type == PS_ED25519, NCALLS == 1 && ED_VALID)) \
    P(unknown_key_type_is_unsupported, IMPLIES(g_key.type != PS_RSA && g_key.type != PS_ECC && g_key.type != PS_ED25519, RET == PS_UNSUPPORTED_FAIL && NCALLS == 0 && !ACCEPT)) \
    P(pkcs1_digest_mismatch_is_rejected, IMPLIES(gh.cmp == 1 && g_cmp != 0, RET == PS_VERIFICATION_FAILED)) \
    P(ecdsa_status_other_than_1_is_rejected, IMPLIES(gh.ecc == 1 && g_ecc_status != 1, !ACCEPT && RET < 0)) \
    P(ed25519_signature_must_be_64_bytes, IMPLIES(g_key.type == PS_ED25519 && g_siglen != 64, !ACCEPT && gh.ed == 0)) \
    P(valid_signature_is_accepted,   IMPLIES((g_key.type == PS_RSA && NCALLS == 1 && (USE_PSS ? RSA_PSS_VALID : RSA_P1_VALID)) || (g_key.type == PS_ECC && ECDSA_VALID), ACCEPT))

psRes_t psVerifySig(psPool_t *pool, const unsigned char *msgIn, psSizeL_t msgInLen, const unsigned char *sig, psSize_t sigLen,
    psPubKey_t *key, int32_t signatureAlgorithm, psBool_t *verifyResult, psVerifyOptions_t *opts)
__CPROVER_requires(pool == (psPool_t *) 0 && msgIn == g_msg && msgInLen == g_msglen && sig == g_sig && sigLen == g_siglen && key == &g_key && signatureAlgorithm == g_alg && verifyResult == &g_vres && opts == OPTS)
/* "verify the signature of a digest" (pubkey.h): at most SHA-512 size; signature fits the harness buffer */
__CPROVER_requires(g_msglen <= 64 && g_siglen <= 600)
__CPROVER_requires(gh.pss == 0 && gh.dse == 0 && gh.dp == 0 && gh.ecc == 0 && gh.ed == 0 && gh.cmp == 0 && gh.rsa_out == 0)
POSTS(ENSURES_CLAUSE)
CANARY_CLAUSE(g_vres != PS_TRUE)
__CPROVER_assigns(g_vres, gh)
;

#include "crypto/pubkey/pubkey_verify.c"

struct __attribute__((packed)) inputs
{
    uint8_t type, opts_null, use_pss, digestinfo;
    uint32_t msglen;
    uint16_t siglen;
    int32_t alg, rc_pss, rc_dse, rc_dp, rc_ecc, rc_ed, cmp, ecc_status;
    uint8_t vres0;
};
#ifndef NATIVE_REPLAY
struct inputs nondet_in(void);
#endif

HARNESS_BEGIN
    HARNESS_INPUTS(struct inputs, in);
    psRes_t vr_ret;
    g_key.type = in.type;
    g_opts_null = in.opts_null & 1;
    g_opts.useRsaPss = (in.use_pss & 1) ? PS_TRUE : PS_FALSE;
    g_opts.msgIsDigestInfo = (in.digestinfo & 1) ? PS_TRUE : PS_FALSE;
    g_msglen = in.msglen; g_siglen = in.siglen; g_alg = in.alg;
    g_rc_pss = in.rc_pss; g_rc_dse = in.rc_dse; g_rc_dp = in.rc_dp; g_rc_ecc = in.rc_ecc; g_rc_ed = in.rc_ed; g_cmp = in.cmp; g_ecc_status = in.ecc_status;
    g_vres = in.vres0;                    /* whatever the caller left there */
    /* input domain = the requires clauses above */
    __CPROVER_assume(g_msglen <= 64 && g_siglen <= 600);
    vr_ret = psVerifySig((psPool_t *) 0, g_msg, g_msglen, g_sig, g_siglen, &g_key, g_alg, &g_vres, OPTS);
    (void) vr_ret;
    POSTS(NATIVE_CHECK)
HARNESS_END
