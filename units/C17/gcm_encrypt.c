/*@UNIT
{
 "property": "C17",
 "unit": "gcm_encrypt",
 "function": "csAesGcmEncrypt",
 "source": "matrixssl/cipherSuite.c",
 "keep_bodies": [
  "psEncodeVersionMaj",
  "psEncodeVersionMin",
  "psEncodeVersion"
 ],
 "replace": [],
 "assumed": [
  "psAesReadyGCM (model: records nonce and AAD in ghosts)",
  "psAesEncryptGCM (model: records the call)",
  "psAesGetGCMTag (model: records the call)"
 ],
 "mode": "proof",
 "why_proof": "all loops have constant bounds (8-byte sequence counter, 12-byte nonce copies), fully unwound with unwinding assertions",
 "unwind": 14,
 "native_replay": true,
 "timeout": 600,
 "properties": [
  "C10"
 ]
}
@*/
/* C17.U1 / C10  TLS 1.2 + DTLS 1.2 AES-GCM record sealing (RFC 5288 s.3, RFC 6347 4.1.2.1).
 *
 * The nonce handed to the AEAD primitive is  writeIV[0..3] || seq  (TLS) or
 * writeIV[0..3] || epoch || rsn (DTLS); the counter is advanced by exactly one
 * per sealed record and not at all when nothing is sealed; the AAD binds
 * sequence, type, version and plaintext length.  The primitive is an assumed
 * model that records its arguments in ghost state.
 */
#include "verif.h"
#include "matrixssl/matrixsslImpl.h"

static ssl_t g_ssl;
static unsigned char g_pt[64], g_ct[64 + 16];
static uint32 g_len;

/* ghost state written by the primitive models */
static unsigned char gh_nonce[12], gh_aad[13];
static unsigned gh_aadlen, gh_ready, gh_enc, gh_tag, gh_enclen, gh_order_ok;

void psAesReadyGCM(psAesGcm_t *ctx, const unsigned char IV[AES_IVLEN], const unsigned char *aad, psSize_t aadLen)
{
    int i;
    for (i = 0; i < 12; i++) { gh_nonce[i] = IV[i]; }
    for (i = 0; i < 13 && i < aadLen; i++) { gh_aad[i] = aad[i]; }
    gh_aadlen = aadLen;
    gh_ready++;
}
void psAesEncryptGCM(psAesGcm_t *ctx, const unsigned char *pt, unsigned char *ct, uint32_t len)
{
    gh_order_ok = (gh_ready == 1 && gh_enc == 0);
    gh_enclen = len;
    gh_enc++;
}
void psAesGetGCMTag(psAesGcm_t *ctx, uint8_t tagBytes, unsigned char tag[AES_BLOCKLEN])
{
    gh_tag++;
}

#define BE64(p) ((((uint64_t) (p)[0]) << 56) | (((uint64_t) (p)[1]) << 48) | (((uint64_t) (p)[2]) << 40) | (((uint64_t) (p)[3]) << 32) | \
                 (((uint64_t) (p)[4]) << 24) | (((uint64_t) (p)[5]) << 16) | (((uint64_t) (p)[6]) << 8) | ((uint64_t) (p)[7]))
#define OLD_SEQ64 ((((uint64_t) OLD(g_ssl, sec.seq[0])) << 56) | (((uint64_t) OLD(g_ssl, sec.seq[1])) << 48) | (((uint64_t) OLD(g_ssl, sec.seq[2])) << 40) | (((uint64_t) OLD(g_ssl, sec.seq[3])) << 32) | \
                   (((uint64_t) OLD(g_ssl, sec.seq[4])) << 24) | (((uint64_t) OLD(g_ssl, sec.seq[5])) << 16) | (((uint64_t) OLD(g_ssl, sec.seq[6])) << 8) | ((uint64_t) OLD(g_ssl, sec.seq[7])))
#define IS_DTLS ((g_ssl.activeVersion & v_dtls_any) && (g_ssl.activeVersion & v_tls_negotiated))
#define DTLS_CTR ((((uint64_t) g_ssl.epoch[0]) << 56) | (((uint64_t) g_ssl.epoch[1]) << 48) | (((uint64_t) g_ssl.rsn[0]) << 40) | (((uint64_t) g_ssl.rsn[1]) << 32) | \
                  (((uint64_t) g_ssl.rsn[2]) << 24) | (((uint64_t) g_ssl.rsn[3]) << 16) | (((uint64_t) g_ssl.rsn[4]) << 8) | ((uint64_t) g_ssl.rsn[5]))
#define SEALED (g_len >= 17)

#define POSTS(P) \
    P(empty_record_seals_nothing,   IMPLIES(g_len == 0, RET == PS_SUCCESS && gh_ready == 0 && gh_enc == 0 && BE64(g_ssl.sec.seq) == OLD_SEQ64)) \
    P(short_record_is_refused,      IMPLIES(g_len > 0 && g_len < 17, RET < 0 && gh_ready == 0 && gh_enc == 0 && BE64(g_ssl.sec.seq) == OLD_SEQ64)) \
    P(sealed_exactly_once,          IMPLIES(SEALED, RET == (int32) g_len && gh_ready == 1 && gh_enc == 1 && gh_tag == 1 && gh_order_ok && gh_enclen == g_len - 16)) \
    P(nonce_salt_is_write_iv,       IMPLIES(SEALED, gh_nonce[0] == g_ssl.sec.writeIV[0] && gh_nonce[1] == g_ssl.sec.writeIV[1] && gh_nonce[2] == g_ssl.sec.writeIV[2] && gh_nonce[3] == g_ssl.sec.writeIV[3])) \
    P(tls_nonce_counter_is_old_seq, IMPLIES(SEALED && !IS_DTLS, BE64(gh_nonce + 4) == OLD_SEQ64)) \
    P(tls_seq_advances_by_one,      IMPLIES(SEALED && !IS_DTLS, BE64(g_ssl.sec.seq) == OLD_SEQ64 + 1)) \
    P(dtls_nonce_counter_is_epoch_rsn, IMPLIES(SEALED && IS_DTLS, BE64(gh_nonce + 4) == DTLS_CTR)) \
    P(dtls_seq_untouched,           IMPLIES(SEALED && IS_DTLS, BE64(g_ssl.sec.seq) == OLD_SEQ64)) \
    P(aad_binds_counter,            IMPLIES(SEALED, gh_aadlen == 13 && BE64(gh_aad) == (IS_DTLS ? DTLS_CTR : OLD_SEQ64))) \
    P(aad_binds_type_version_length, IMPLIES(SEALED, gh_aad[8] == g_ssl.outRecType && gh_aad[9] == psEncodeVersionMaj(g_ssl.activeVersion) && gh_aad[10] == psEncodeVersionMin(g_ssl.activeVersion) && \
                                               gh_aad[11] == (((g_len - 16) >> 8) & 0xff) && gh_aad[12] == ((g_len - 16) & 0xff)))

int32 csAesGcmEncrypt(void *ssl, unsigned char *pt, unsigned char *ct, uint32 len)
__CPROVER_requires(ssl == &g_ssl && pt == g_pt && ct == g_ct && len == g_len && len <= 64 + 16)
__CPROVER_requires(gh_ready == 0 && gh_enc == 0 && gh_tag == 0)
POSTS(ENSURES_CLAUSE)
CANARY_CLAUSE(__CPROVER_return_value <= 0)
__CPROVER_assigns(g_ssl.sec.seq, __CPROVER_object_whole(g_ct),
                  __CPROVER_object_whole(gh_nonce), __CPROVER_object_whole(gh_aad),
                  gh_aadlen, gh_ready, gh_enc, gh_tag, gh_enclen, gh_order_ok)
;

#include "matrixssl/hsNegotiateVersion.c"
#include "matrixssl/cipherSuite.c"

struct __attribute__((packed)) inputs
{
    unsigned char writeIV[4];
    unsigned char seq[8];
    unsigned char epoch[2];
    unsigned char rsn[6];
    unsigned char outRecType;
    uint32_t activeVersion;
    uint32_t len;
};
#ifndef NATIVE_REPLAY
struct inputs nondet_in(void);
#endif
DECL_SNAPSHOT(ssl_t, g_ssl);

HARNESS_BEGIN
    HARNESS_INPUTS(struct inputs, in);
    int32 vr_ret;
    Memcpy(g_ssl.sec.writeIV, in.writeIV, 4);
    Memcpy(g_ssl.sec.seq, in.seq, 8);
    Memcpy(g_ssl.epoch, in.epoch, 2);
    Memcpy(g_ssl.rsn, in.rsn, 6);
    g_ssl.outRecType = in.outRecType;
    g_ssl.activeVersion = in.activeVersion;
    g_len = in.len;
    __CPROVER_assume(g_len <= 64 + 16);
    SNAPSHOT(g_ssl);
    vr_ret = csAesGcmEncrypt(&g_ssl, g_pt, g_ct, g_len);
    (void) vr_ret;
    POSTS(NATIVE_CHECK)
HARNESS_END
