/*@UNIT
{
 "property": "C17",
 "unit": "tls13_chacha_encrypt",
 "function": "csChacha20Poly1305IetfEncryptTls13",
 "source": "matrixssl/tls13CipherSuite.c",
 "keep_bodies": [
  "tls13MakeWriteNonce",
  "tls13MakeEncryptAad",
  "psAesIncrSec"
 ],
 "assumed": [
  "psChacha20Poly1305IetfEncrypt (model: records nonce, AAD, length in ghosts)"
 ],
 "mode": "proof",
 "why_proof": "all loops have constant bounds (8, 12), fully unwound with unwinding assertions",
 "unwind": 14,
 "native_replay": true,
 "properties": [
  "C10"
 ]
}
@*/
/* C17.U1 / C10  TLS 1.3 ChaCha20-Poly1305 record sealing (RFC 8446 5.2, 5.3):
 * nonce = write_iv XOR (0^32 || seq), AAD = 23 || 03 03 || length of the protected record,
 * counter advanced exactly once per sealed record. */
#include "verif.h"
#include "matrixssl/matrixsslImpl.h"

struct __attribute__((packed)) inputs
{
    unsigned char writeIV[12];
    unsigned char seq[8];
    uint16_t outRecLen;
    uint32_t activeVersion;
    uint32_t len;
    unsigned char prim_fail;
};
static struct inputs g_in;
static ssl_t g_ssl;
static unsigned char g_pt[64], g_ct[64 + 16];
static uint32 g_len;
#define MODEL_CHACHA
#include "aead.h"

#define OLD_SEQ64 OLD_BE64(g_ssl, sec.seq)
#define SEALED (g_len > 0)
#define NONCE_IS(iv, ctr) (gh_nonce[0] == (iv)[0] && gh_nonce[1] == (iv)[1] && gh_nonce[2] == (iv)[2] && gh_nonce[3] == (iv)[3] && \
    (BE64(gh_nonce + 4) ^ BE64((iv) + 4)) == (ctr))

#define POSTS(P) \
    P(empty_record_seals_nothing,   IMPLIES(g_len == 0, RET == PS_SUCCESS && gh_enc == 0 && BE64(g_ssl.sec.seq) == OLD_SEQ64)) \
    P(sealed_exactly_once,          IMPLIES(SEALED, RET == (int32) g_len && gh_enc == 1 && gh_len == g_len && gh_in_ptr == g_pt && gh_out_ptr == g_ct && gh_ctx == &g_ssl.sec.encryptCtx.chacha20poly1305ietf)) \
    P(nonce_is_iv_xor_old_seq,      IMPLIES(SEALED, NONCE_IS(g_ssl.sec.tls13WriteIv, OLD_SEQ64))) \
    P(seq_advances_by_one,          IMPLIES(SEALED, BE64(g_ssl.sec.seq) == OLD_SEQ64 + 1)) \
    P(aad_is_record_header,         IMPLIES(SEALED, gh_aadlen == 5 && !gh_aad_null && gh_aad[0] == 23 && gh_aad[1] == 3 && gh_aad[2] == 3 && gh_aad[3] == (g_ssl.outRecLen >> 8) && gh_aad[4] == (g_ssl.outRecLen & 0xff)))

int32 csChacha20Poly1305IetfEncryptTls13(void *ssl, unsigned char *pt, unsigned char *ct, uint32 ptLen)
__CPROVER_requires(ssl == &g_ssl && pt == g_pt && ct == g_ct && ptLen == g_len && ptLen <= 64)
__CPROVER_requires(GH_FRESH)
/* the session runs RFC 8446 TLS 1.3 (or a draft >= 25 with the record header as AAD) */
__CPROVER_requires((g_ssl.activeVersion & v_tls_1_3_aad) != 0)
POSTS(ENSURES_CLAUSE)
CANARY_CLAUSE(__CPROVER_return_value <= 0)
__CPROVER_assigns(g_ssl.sec.seq, __CPROVER_object_whole(g_ct), GH_ASSIGNS)
;

#include "matrixssl/tls13CipherSuite.c"

#ifndef NATIVE_REPLAY
struct inputs nondet_in(void);
#endif
DECL_SNAPSHOT(ssl_t, g_ssl);

HARNESS_BEGIN
    HARNESS_INPUTS(struct inputs, in);
    int32 vr_ret;
    g_in = in;
    Memcpy(g_ssl.sec.tls13WriteIv, in.writeIV, 12);
    Memcpy(g_ssl.sec.seq, in.seq, 8);
    g_ssl.outRecLen = in.outRecLen;
    g_ssl.activeVersion = in.activeVersion;
    g_len = in.len;
    __CPROVER_assume(g_len <= 64);
    __CPROVER_assume((g_ssl.activeVersion & v_tls_1_3_aad) != 0);
    SNAPSHOT(g_ssl);
    vr_ret = csChacha20Poly1305IetfEncryptTls13(&g_ssl, g_pt, g_ct, g_len);
    (void) vr_ret;
    POSTS(NATIVE_CHECK)
HARNESS_END
