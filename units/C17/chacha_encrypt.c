/*@UNIT
{
 "property": "C17",
 "unit": "chacha_encrypt",
 "function": "csChacha20Poly1305IetfEncrypt",
 "source": "matrixssl/cipherSuite.c",
 "keep_bodies": [
  "psEncodeVersionMaj",
  "psEncodeVersionMin",
  "psEncodeVersion"
 ],
 "assumed": [
  "psChacha20Poly1305IetfEncrypt (model: records nonce, AAD, length in ghosts)"
 ],
 "mode": "proof",
 "why_proof": "all loops have constant bounds (8-byte counter, 12-byte nonce), fully unwound with unwinding assertions",
 "unwind": 14,
 "native_replay": true,
 "properties": [
  "C10"
 ]
}
@*/
/* C17.U1 / C10  TLS 1.2 ChaCha20-Poly1305 record sealing (RFC 7905 s.2):
 * nonce = writeIV[0..11] XOR (0^32 || seq), AAD = seq || type || version || length,
 * counter advanced exactly once per sealed record. */
#include "verif.h"
#include "matrixssl/matrixsslImpl.h"

struct __attribute__((packed)) inputs
{
    unsigned char writeIV[12];
    unsigned char seq[8];
    unsigned char outRecType;
    uint32_t activeVersion;
    uint32_t len;
    unsigned char prim_fail;
};
static struct inputs g_in;
static ssl_t g_ssl;
static unsigned char g_pt[64], g_ct[64 + 16];
static uint32 g_len;
#define MODEL_CHACHA
#include "aead.h"

#define OLD_SEQ64 OLD_BE64(g_ssl, sec.seq)
#define SEALED (g_len >= 17)
#define NONCE_IS(iv, ctr) (gh_nonce[0] == (iv)[0] && gh_nonce[1] == (iv)[1] && gh_nonce[2] == (iv)[2] && gh_nonce[3] == (iv)[3] && \
    (BE64(gh_nonce + 4) ^ BE64((iv) + 4)) == (ctr))

#define POSTS(P) \
    P(empty_record_seals_nothing,   IMPLIES(g_len == 0, RET == PS_SUCCESS && gh_enc == 0 && BE64(g_ssl.sec.seq) == OLD_SEQ64)) \
    P(short_record_is_refused,      IMPLIES(g_len > 0 && g_len < 17, RET < 0 && gh_enc == 0 && BE64(g_ssl.sec.seq) == OLD_SEQ64)) \
    P(sealed_exactly_once,          IMPLIES(SEALED, RET == (int32) g_len && gh_enc == 1 && gh_len == g_len - 16 && gh_in_ptr == g_pt && gh_out_ptr == g_ct && gh_ctx == &g_ssl.sec.encryptCtx.chacha20poly1305ietf)) \
    P(nonce_is_iv_xor_old_seq,      IMPLIES(SEALED, NONCE_IS(g_ssl.sec.writeIV, OLD_SEQ64))) \
    P(seq_advances_by_one,          IMPLIES(SEALED, BE64(g_ssl.sec.seq) == OLD_SEQ64 + 1)) \
    P(aad_binds_counter,            IMPLIES(SEALED, gh_aadlen == 13 && !gh_aad_null && BE64(gh_aad) == OLD_SEQ64)) \
    P(aad_binds_type_version_length, IMPLIES(SEALED, gh_aad[8] == g_ssl.outRecType && gh_aad[9] == psEncodeVersionMaj(g_ssl.activeVersion) && gh_aad[10] == psEncodeVersionMin(g_ssl.activeVersion) && \
                                               gh_aad[11] == (((g_len - 16) >> 8) & 0xff) && gh_aad[12] == ((g_len - 16) & 0xff)))

int32 csChacha20Poly1305IetfEncrypt(void *ssl, unsigned char *pt, unsigned char *ct, uint32 len)
__CPROVER_requires(ssl == &g_ssl && pt == g_pt && ct == g_ct && len == g_len && len <= 64 + 16)
__CPROVER_requires(GH_FRESH)
POSTS(ENSURES_CLAUSE)
CANARY_CLAUSE(__CPROVER_return_value <= 0)
__CPROVER_assigns(g_ssl.sec.seq, __CPROVER_object_whole(g_ct), GH_ASSIGNS)
;

#include "matrixssl/hsNegotiateVersion.c"
#include "matrixssl/cipherSuite.c"

#ifndef NATIVE_REPLAY
struct inputs nondet_in(void);
#endif
DECL_SNAPSHOT(ssl_t, g_ssl);

HARNESS_BEGIN
    HARNESS_INPUTS(struct inputs, in);
    int32 vr_ret;
    g_in = in;
    Memcpy(g_ssl.sec.writeIV, in.writeIV, 12);
    Memcpy(g_ssl.sec.seq, in.seq, 8);
    g_ssl.outRecType = in.outRecType;
    g_ssl.activeVersion = in.activeVersion;
    g_len = in.len;
    __CPROVER_assume(g_len <= 64 + 16);
    SNAPSHOT(g_ssl);
    vr_ret = csChacha20Poly1305IetfEncrypt(&g_ssl, g_pt, g_ct, g_len);
    (void) vr_ret;
    POSTS(NATIVE_CHECK)
HARNESS_END
