/*@UNIT
{
  "property": "C17",
  "unit": "dtls_finished_epoch",
  "function": "processFinished",
  "source": "matrixssl/sslEncode.c",
  "keep_bodies": ["incrTwoByte", "clearFlightList"],
  "replace": ["sslActivateWriteCipher", "sslSnapshotHSHash"],
  "assumed": ["sslActivateWriteCipher, sslSnapshotHSHash (contracts: any verdict, calls counted; they do not touch epoch, rsn, largestEpoch)"],
  "mode": "proof",
  "why_proof": "constant loops only (2-byte epoch, 6-byte sequence number), fully unwound with unwinding assertions; session state symbolic",
  "unwind": 8,
  "native_replay": false,
  "object_bits": 10
}
@*/
/* C17.U4  DTLS: the record sequence number restarts (rsn := 0) only together with an epoch that
 * was never used before on this connection.  Under DTLS the AEAD nonce is IV || epoch || rsn and
 * a retransmitted ChangeCipherSpec/Finished flight re-activates the SAME key block, so a restart
 * of rsn under a previously used epoch would repeat (key, nonce) pairs.  The freshness witness
 * is largestEpoch (the largest epoch ever sent): after a Finished is processed the epoch is
 * old largestEpoch + 1 and largestEpoch is at least that (incrTwoByte does not clear the low byte of largestEpoch on a carry, so it may jump further: harmless for freshness); for every other message epoch and
 * rsn are untouched.  The write cipher is activated exactly for the Finished message. */
#include "verif.h"
#include "matrixssl/matrixsslImpl.h"

static ssl_t g_ssl;
static flightEncode_t g_msg;
static unsigned char g_rec[32], g_hash[64];
static struct { int act, snap; } gh;

int32 sslActivateWriteCipher(ssl_t *ssl)
__CPROVER_requires(ssl == &g_ssl)
__CPROVER_assigns(gh.act, g_ssl.flags, g_ssl.sec.seq)
__CPROVER_ensures(gh.act == __CPROVER_old(gh.act) + 1)
;
int32_t sslSnapshotHSHash(ssl_t *ssl, unsigned char *out, psBool_t senderFlag, psBool_t isFinishedHash)
__CPROVER_requires(ssl == &g_ssl)
__CPROVER_assigns(gh.snap, __CPROVER_object_whole(g_hash))
__CPROVER_ensures(gh.snap == __CPROVER_old(gh.snap) + 1 && __CPROVER_return_value <= 48)
;

#define BE16(p) ((((unsigned) (p)[0]) << 8) | (unsigned) (p)[1])
#define OLD_EPOCH ((((unsigned) OLD(g_ssl, epoch[0])) << 8) | (unsigned) OLD(g_ssl, epoch[1]))
#define OLD_LARGEST ((((unsigned) OLD(g_ssl, largestEpoch[0])) << 8) | (unsigned) OLD(g_ssl, largestEpoch[1]))
#define RSN_ZERO (g_ssl.rsn[0] == 0 && g_ssl.rsn[1] == 0 && g_ssl.rsn[2] == 0 && g_ssl.rsn[3] == 0 && g_ssl.rsn[4] == 0 && g_ssl.rsn[5] == 0)
#define RSN_SAME (g_ssl.rsn[0] == OLD(g_ssl, rsn[0]) && g_ssl.rsn[1] == OLD(g_ssl, rsn[1]) && g_ssl.rsn[2] == OLD(g_ssl, rsn[2]) && \
                  g_ssl.rsn[3] == OLD(g_ssl, rsn[3]) && g_ssl.rsn[4] == OLD(g_ssl, rsn[4]) && g_ssl.rsn[5] == OLD(g_ssl, rsn[5]))
#define IS_DTLS ((OLD(g_ssl, activeVersion) & v_dtls_any) != 0)
#define IS_FIN (g_msg.hsMsg == SSL_HS_FINISHED)

#define POSTS(P) \
    P(finished_takes_a_never_used_epoch,   IMPLIES(IS_DTLS && IS_FIN && OLD_LARGEST < 0xFFFF, BE16(g_ssl.epoch) == OLD_LARGEST + 1 && BE16(g_ssl.largestEpoch) >= BE16(g_ssl.epoch))) \
    P(finished_restarts_sequence_number,   IMPLIES(IS_DTLS && IS_FIN, RSN_ZERO)) \
    P(other_messages_keep_epoch_and_rsn,   IMPLIES(IS_DTLS && !IS_FIN, BE16(g_ssl.epoch) == OLD_EPOCH && RSN_SAME && BE16(g_ssl.largestEpoch) == OLD_LARGEST)) \
    P(record_header_carries_current_epoch_and_rsn, IMPLIES(IS_DTLS, g_rec[3] == g_ssl.epoch[0] && g_rec[4] == g_ssl.epoch[1] && g_rec[5] == g_ssl.rsn[0] && g_rec[10] == g_ssl.rsn[5])) \
    P(write_cipher_activated_exactly_for_finished, gh.act == (IS_FIN ? 1 : 0))

static inline int32_t processFinished(ssl_t *ssl, flightEncode_t *msg)
__CPROVER_requires(ssl == &g_ssl && msg == &g_msg && g_msg.seqDelay == g_rec + 3 && g_ssl.delayHsHash == g_hash && g_ssl.flightEncode == NULL)
__CPROVER_requires(gh.act == 0 && gh.snap == 0)
/* invariant of the sender: the current epoch never exceeds the largest epoch ever sent */
__CPROVER_requires(((((unsigned) g_ssl.epoch[0]) << 8) | g_ssl.epoch[1]) <= ((((unsigned) g_ssl.largestEpoch[0]) << 8) | g_ssl.largestEpoch[1]))
POSTS(ENSURES_CLAUSE)
CANARY_CLAUSE(!(g_msg.hsMsg == SSL_HS_FINISHED && (g_ssl.activeVersion & v_dtls_any)) || __CPROVER_return_value != PS_SUCCESS)
__CPROVER_assigns(gh, g_msg.seqDelay, __CPROVER_object_whole(g_rec), __CPROVER_object_whole(g_hash), g_ssl.epoch, g_ssl.rsn, g_ssl.largestEpoch,
                  g_ssl.flags, g_ssl.sec.seq, g_ssl.flightEncode)
;

#include "matrixssl/dtls.c"
#include "matrixssl/sslEncode.c"

HARNESS_BEGIN
    gh.act = 0; gh.snap = 0;
    g_msg.seqDelay = g_rec + 3;
    g_ssl.delayHsHash = g_hash;
    g_ssl.flightEncode = NULL;
    if (BE16(g_ssl.epoch) > BE16(g_ssl.largestEpoch)) { g_ssl.largestEpoch[0] = g_ssl.epoch[0]; g_ssl.largestEpoch[1] = g_ssl.epoch[1]; }

    processFinished(&g_ssl, &g_msg);
HARNESS_END
