/*@UNIT
{
  "property": "C17",
  "properties": ["C08"],
  "unit": "cbc_explicit_iv",
  "function": "writeRecordHeader",
  "source": "matrixssl/sslEncode.c",
  "keep_bodies": ["psWriteRecordInfo", "psWriteHandshakeHeader", "psPadLenPwr2"],
  "assumed": ["psGetPrngLocked (model: records destination and size of the request; fills or fails as the input says)"],
  "mode": "proof",
  "why_proof": "loop-free; TLS (not DTLS) record under a non-AEAD suite, of any type and handshake type, every flag combination, negotiated and pending block sizes 0..16, any message size, output buffer of 128 bytes at any fill level",
  "unwind": 20,
  "native_replay": false,
  "object_bits": 10,
  "timeout": 300
}
@*/
/* C17  "fresh CBC IVs" (RFC 4346 6.2.3.2): whenever a TLS 1.1+ record goes out under a CBC suite -
 * the Finished record, which is written before the pending suite is activated and therefore sized
 * from ssl->cipher, and every record written under the active suite - the explicit IV field is
 * exactly one cipher block, the whole block is requested from the PRNG (one request, destination
 * = start of the field, size = the block size the cursor is advanced by), and a PRNG failure is
 * an error return instead of a record whose IV is whatever the buffer held.
 * C08  writes only inside the output buffer after the size check. */
#include "verif.h"
#include "matrixssl/matrixsslImpl.h"

#define OUTN 128
struct __attribute__((packed)) inputs { uint32_t flags, activeVersion; uint8_t type, hsType, enBlockSize, cBlockSize, enMacSize, cMacSize; uint32_t cFlags; uint16_t messageSize; uint8_t used; int32_t prng_rc; int32_t maxPtFrag; };
static struct inputs g_in;
static ssl_t g_ssl;
static sslCipherSpec_t g_cipher;
static unsigned char g_out[OUTN];
static psSize_t g_msgSize;
static uint8_t g_padLen;
static unsigned char *g_encStart, *g_c;
static struct { int calls; unsigned char *dst; unsigned size; } gh;

int32_t psGetPrngLocked(unsigned char *bytes, psSize_t size, void *userPtr)
{
    gh.calls++; gh.dst = bytes; gh.size = size;
    if (g_in.prng_rc < 0) { return PS_FAILURE; }
    return size;
}

#define EXPL ((g_in.activeVersion & v_tls_explicit_iv) != 0)
#define IS_FIN (g_in.hsType == SSL_HS_FINISHED)
#define IVLEN (IS_FIN ? ((EXPL && g_in.cBlockSize > 1) ? g_in.cBlockSize : 0) : (((g_in.flags & SSL_FLAGS_WRITE_SECURE) && EXPL && g_in.enBlockSize > 1) ? g_in.enBlockSize : 0))
#define HSH ((g_in.type == SSL_RECORD_TYPE_HANDSHAKE || g_in.type == SSL_RECORD_TYPE_HANDSHAKE_FIRST_FRAG) ? 4 : 0)
#define POSTS(P) \
    P(verdict_is_success_full_or_failure,      RET == PS_SUCCESS || RET == SSL_FULL || RET == PS_FAILURE) \
    P(success_leaves_cursor_behind_iv_field,   IMPLIES(RET == PS_SUCCESS, __CPROVER_same_object(g_c, g_out) && __CPROVER_same_object(g_encStart, g_out) && \
                                                       __CPROVER_POINTER_OFFSET(g_encStart) == g_in.used + 5u && __CPROVER_POINTER_OFFSET(g_c) == g_in.used + 5u + IVLEN + HSH)) \
    P(cbc_record_gets_one_full_block_from_the_prng, IMPLIES(RET == PS_SUCCESS && IVLEN > 0, gh.calls == 1 && gh.dst == g_encStart && gh.size == IVLEN)) \
    P(no_iv_field_no_prng_request,             IMPLIES(IVLEN == 0, gh.calls == 0)) \
    P(prng_failure_is_not_success,             IMPLIES(gh.calls > 0 && g_in.prng_rc < 0, RET == PS_FAILURE)) \
    P(announced_size_covers_what_was_written,  IMPLIES(RET == PS_SUCCESS, g_msgSize >= 5u + IVLEN + HSH && g_in.used + g_msgSize <= OUTN))

int32_t writeRecordHeader(ssl_t *ssl, uint8_t type, uint8_t hsType, psSize_t *messageSize, uint8_t *padLen, unsigned char **encryptStart, const unsigned char *end, unsigned char **c)
__CPROVER_requires(ssl == &g_ssl && type == g_in.type && hsType == g_in.hsType && messageSize == &g_msgSize && padLen == &g_padLen && encryptStart == &g_encStart && end == g_out + OUTN && c == &g_c)
__CPROVER_requires(g_c == g_out + g_in.used && g_in.used <= OUTN && g_msgSize == g_in.messageSize && gh.calls == 0)
POSTS(ENSURES_CLAUSE)
CANARY_CLAUSE(__CPROVER_return_value != PS_SUCCESS || gh.calls == 0)
__CPROVER_assigns(g_msgSize, g_padLen, g_encStart, g_c, gh, __CPROVER_object_whole(g_out), g_ssl.msn, g_ssl.encState, g_ssl.seqDelay)
;

#include "matrixssl/hsNegotiateVersion.c"
#include "matrixssl/sslEncode.c"

#ifndef NATIVE_REPLAY
struct inputs nondet_in(void);
#endif

HARNESS_BEGIN
    HARNESS_INPUTS(struct inputs, in);
    g_in = in;
    __CPROVER_assume(in.used <= OUTN && in.enBlockSize <= 16 && in.cBlockSize <= 16 && in.enMacSize <= 48 && in.cMacSize <= 48);
    /* a record starts with its 5-byte header: callers size messages from recordHeadLen upwards */
    __CPROVER_assume(in.messageSize >= 5 + 4 && in.messageSize <= 0x4000);
    /* CBC / stream / NULL suites only: the AEAD explicit nonce is the subject of units gcm_encrypt, chacha_encrypt */
    in.flags &= ~(SSL_FLAGS_AEAD_W | SSL_FLAGS_NONCE_W); in.cFlags &= ~(CRYPTO_FLAGS_GCM | CRYPTO_FLAGS_CCM | CRYPTO_FLAGS_CHACHA);
    g_in.flags = in.flags; g_in.cFlags = in.cFlags;
    /* a handshake type is given exactly for handshake records */
    __CPROVER_assume((in.hsType != 0) == (in.type == SSL_RECORD_TYPE_HANDSHAKE || in.type == SSL_RECORD_TYPE_HANDSHAKE_FIRST_FRAG));
    g_ssl.flags = in.flags;
    g_ssl.activeVersion = in.activeVersion & ~v_dtls_any;
    g_in.activeVersion = g_ssl.activeVersion;
    g_ssl.recordHeadLen = 5; g_ssl.hshakeHeadLen = 4;
    g_ssl.enBlockSize = in.enBlockSize; g_ssl.enMacSize = in.enMacSize;
    __CPROVER_assume(in.maxPtFrag == 0x200 || in.maxPtFrag == 0x400 || in.maxPtFrag == 0x800 || in.maxPtFrag == 0x1000 || in.maxPtFrag == SSL_MAX_PLAINTEXT_LEN);   /* negotiated fragment length: set only from the four RFC 6066 values or the default */
    g_ssl.maxPtFrag = in.maxPtFrag;
    g_cipher.blockSize = in.cBlockSize; g_cipher.macSize = in.cMacSize; g_cipher.flags = in.cFlags;
    g_ssl.cipher = &g_cipher;
    g_ssl.userPtr = NULL;
    g_msgSize = in.messageSize; g_padLen = 0; g_encStart = NULL;
    g_c = g_out + in.used;
    gh.calls = 0; gh.dst = NULL; gh.size = 0;
    writeRecordHeader(&g_ssl, in.type, in.hsType, &g_msgSize, &g_padLen, &g_encStart, g_out + OUTN, &g_c);
HARNESS_END
