/*@UNIT
{
  "property": "C04",
  "unit": "pop_cert_verify_12",
  "function": "parseCertificateVerify",
  "source": "matrixssl/hsDecode.c",
  "keep_bodies": ["tlsSigAlgToMatrix (matrixssl/tlsSigVer.c)", "HASH_SIG_MASK"],
  "replace": [],
  "assumed": [
    "psVerifySig (model: records key, message, signature and algorithm arguments, returns any result and any verifyResult)",
    "sslSha1RetrieveHSHash, sslSha384RetrieveHSHash, sslSha512RetrieveHSHash (model: record which transcript hash was written to which buffer; that the hash contexts hold this handshake's transcript is assumed)"
  ],
  "mode": "bounded",
  "bounds": "CertificateVerify message <= 1100 bytes (covers RSA-8192 signatures); the function itself is loop-free, protocol version symbolic",
  "unwind": 40,
  "solver": "cadical",
  "native_replay": true,
  "timeout": 300
}
@*/
/* C04.U3 (TLS <= 1.2)  proof of possession by the client: parseCertificateVerify.
 *
 * "... and the peer proved possession of the leaf certificate's private key over this
 *  handshake's own transcript".  Success implies that the verify primitive was called
 * exactly once, with the public key of the leaf ssl->sec.cert, over the transcript hash
 * buffer the caller snapshotted (re-filled from the session's running hash when the
 * peer chose another hash), with the signature field of this message, with an
 * algorithm that was offered (TLS 1.2), and that it reported success.
 *
 * ssl_t fields read: activeVersion, hashSigAlg, sec.cert (-> pubKeyAlgorithm), hsPool.
 * Not decided here: that hsMsgHash really is the hash of ClientHello..ClientKeyExchange
 * (snapshot taken by parseSSLHandshake, hash contexts assumed).
 */
#include "verif.h"
#include "matrixssl/matrixsslImpl.h"

#define N 1100

static ssl_t g_ssl;
static psX509Cert_t g_c0;
static unsigned char g_hash[SHA512_HASH_SIZE];
static unsigned char g_msg[N];
static unsigned char *g_p;
static uint32_t g_len;

struct __attribute__((packed)) inputs
{
    uint32_t activeVersion; uint16_t hashSigAlg; int32_t pubKeyAlgorithm;
    uint32_t len;
    unsigned char hdr[4];       /* the first four bytes of the message; the rest is the signature body and is not read by the function */
    int32_t vs_res; unsigned char vs_verify_result;
};
static struct inputs g_in;

static unsigned gh_vs_calls, gh_rehash_calls, gh_rehash_alg, gh_rehash_after_verify;
static const unsigned char *gh_vs_sig, *gh_vs_msg;
static unsigned char *gh_rehash_out;
static psPubKey_t *gh_vs_key;
static size_t gh_vs_msglen;
static unsigned gh_vs_siglen;
static int32_t gh_vs_alg;
static unsigned char gh_vs_digestinfo;

psRes_t psVerifySig(psPool_t *pool, const unsigned char *msgIn, psSizeL_t msgInLen,
    const unsigned char *sig, psSize_t sigLen, psPubKey_t *key, int32_t signatureAlgorithm,
    psBool_t *verifyResult, psVerifyOptions_t *opts)
{
    gh_vs_calls++;
    gh_vs_msg = msgIn; gh_vs_msglen = msgInLen; gh_vs_sig = sig; gh_vs_siglen = sigLen;
    gh_vs_key = key; gh_vs_alg = signatureAlgorithm; gh_vs_digestinfo = opts->msgIsDigestInfo ? 1 : 0;
    *verifyResult = (g_in.vs_verify_result == 1) ? PS_TRUE : PS_FALSE;
    return g_in.vs_res;
}
static int32 vr_rehash(unsigned alg, unsigned char *out)
{
    if (gh_vs_calls > 0) { gh_rehash_after_verify = 1; }
    gh_rehash_calls++; gh_rehash_alg = alg; gh_rehash_out = out;
    return 0;
}
int32 sslSha1RetrieveHSHash(ssl_t *ssl, unsigned char *out)   { return vr_rehash(HASH_SIG_SHA1, out); }
int32 sslSha384RetrieveHSHash(ssl_t *ssl, unsigned char *out) { return vr_rehash(HASH_SIG_SHA384, out); }
int32 sslSha512RetrieveHSHash(ssl_t *ssl, unsigned char *out) { return vr_rehash(HASH_SIG_SHA512, out); }

#define OK      (RET == PS_SUCCESS)
#define TLS12   (NGTD_VER(&g_ssl, v_tls_with_signature_algorithms))
#define ECDSA   (g_c0.pubKeyAlgorithm == OID_ECDSA_KEY_ALG)
#define HALG    (g_msg[0])
#define WIREALG ((uint16_t) ((g_msg[0] << 8) | g_msg[1]))
#define HLEN    (HALG == HASH_SIG_SHA1 ? SHA1_HASH_SIZE : HALG == HASH_SIG_SHA256 ? SHA256_HASH_SIZE : HALG == HASH_SIG_SHA384 ? SHA384_HASH_SIZE : HALG == HASH_SIG_SHA512 ? SHA512_HASH_SIZE : 0)
#define OFF     (TLS12 ? 2 : 0)
#define WIRESIGLEN ((unsigned) ((g_msg[OFF] << 8) | g_msg[OFF + 1]))

#define POSTS(P) \
    P(pop_verified_once_under_the_leaf_key, IMPLIES(OK, gh_vs_calls == 1 && gh_vs_key == &g_c0.publicKey && g_ssl.sec.cert == &g_c0 && g_in.vs_res == PS_SUCCESS && g_in.vs_verify_result == 1)) \
    P(pop_tls12_over_the_transcript_hash_of_the_chosen_algorithm, IMPLIES(OK && TLS12, gh_vs_msg == g_hash && HLEN != 0 && gh_vs_msglen == HLEN && gh_rehash_after_verify == 0 && \
        (HALG == HASH_SIG_SHA256 ? gh_rehash_calls == 0 : (gh_rehash_calls == 1 && gh_rehash_alg == HALG && gh_rehash_out == g_hash)))) \
    P(pop_legacy_over_the_md5sha1_or_sha1_transcript_hash, IMPLIES(OK && !TLS12, gh_rehash_calls == 0 && (ECDSA ? (gh_vs_msg == g_hash + MD5_HASH_SIZE && gh_vs_msglen == SHA1_HASH_SIZE) : (gh_vs_msg == g_hash && gh_vs_msglen == MD5_HASH_SIZE + SHA1_HASH_SIZE)))) \
    P(pop_signature_is_this_messages_field, IMPLIES(OK, gh_vs_sig == g_msg + OFF + 2 && gh_vs_siglen == WIRESIGLEN && g_p == g_msg + OFF + 2 + WIRESIGLEN && g_p <= g_msg + g_len)) \
    P(pop_tls12_algorithm_was_offered, IMPLIES(OK && TLS12, (g_ssl.hashSigAlg & HASH_SIG_MASK(g_msg[0], g_msg[1])) != 0 && gh_vs_alg == (int32_t) (uint16_t) tlsSigAlgToMatrix(WIREALG))) \
    P(pop_legacy_default_algorithm, IMPLIES(OK && !TLS12, gh_vs_alg == (ECDSA ? OID_ECDSA_TLS_SIG_ALG : OID_RSA_TLS_SIG_ALG))) \
    P(success_moves_on_to_finished, IMPLIES(OK, g_ssl.hsState == SSL_HS_FINISHED && g_ssl.err == SSL_ALERT_NONE)) \
    P(failure_is_fatal, IMPLIES(!OK, RET < 0 && g_ssl.err != SSL_ALERT_NONE))

int32 parseCertificateVerify(ssl_t *ssl, unsigned char hsMsgHash[SHA512_HASH_SIZE], unsigned char **cp, unsigned char *end)
__CPROVER_requires(ssl == &g_ssl && hsMsgHash == g_hash && cp == &g_p && g_p == g_msg && end == g_msg + g_len && g_len <= N)
__CPROVER_requires(g_ssl.sec.cert == &g_c0 && g_ssl.err == SSL_ALERT_NONE)
__CPROVER_requires(gh_vs_calls == 0 && gh_rehash_calls == 0 && gh_rehash_after_verify == 0)
POSTS(ENSURES_CLAUSE)
CANARY_CLAUSE(RET != PS_SUCCESS)
__CPROVER_assigns(g_ssl.err, g_ssl.hsState, g_ssl.decState, g_p, __CPROVER_object_whole(g_hash),
                  gh_vs_calls, gh_rehash_calls, gh_rehash_alg, gh_rehash_after_verify, gh_vs_sig, gh_vs_msg, gh_rehash_out, gh_vs_key,
                  gh_vs_msglen, gh_vs_siglen, gh_vs_alg, gh_vs_digestinfo)
;

#include "matrixssl/tlsSigVer.c"
#include "matrixssl/hsDecode.c"

#ifndef NATIVE_REPLAY
struct inputs nondet_in(void);
#endif

HARNESS_BEGIN
    HARNESS_INPUTS(struct inputs, in);
    int32 vr_ret;
    g_in = in;
    Memcpy(g_msg, in.hdr, 4);
    g_len = in.len;
    __CPROVER_assume(g_len <= N);          /* mirrors the requires */
    g_p = g_msg;
    g_ssl.activeVersion = in.activeVersion;
    g_ssl.hashSigAlg = in.hashSigAlg;
    g_c0.pubKeyAlgorithm = in.pubKeyAlgorithm;
    g_ssl.sec.cert = &g_c0;
    g_ssl.err = SSL_ALERT_NONE;
    vr_ret = parseCertificateVerify(&g_ssl, g_hash, &g_p, g_msg + g_len);
    (void) vr_ret;
    POSTS(NATIVE_CHECK)
HARNESS_END
