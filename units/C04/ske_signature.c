/*@UNIT
{
  "property": "C04",
  "properties": ["C07", "C08"],
  "unit": "ske_signature",
  "function": "tlsVerify",
  "source": "matrixssl/tlsSigVer.c",
  "keep_bodies": ["tlsIsSupportedRsaSigAlg", "tlsSigAlgToHashLen", "tlsSigAlgToMatrix", "getDefaultSkeHashSize", "findFromUint16Array (matrixssl/tls.c, when tlsVerify calls it)"],
  "replace": [],
  "plain": true,
  "frame_check": "none: harness-checked contract (VERIF_PLAIN_CONTRACT, DESIGN 9.2)",
  "replace_calls": ["computeSkeHash:model_computeSkeHash"],
  "assumed": ["computeSkeHash (model body, calls redirected with goto-instrument --replace-calls: records the hash size, the range hashed and the output buffer, any verdict; that the real function hashes client_random || server_random || [start, stop) with the hash of that size is read off its source, it is a switch over five straight-line blocks)",
              "psVerifySig (model: records key, message, signature and algorithm arguments, returns any result and any verifyResult)"],
  "mode": "proof",
  "bounds": "none on the message (header bytes symbolic, length symbolic up to 2^16+3); the list of offered signature algorithms is the whole array (TLS_MAX_SIGNATURE_ALGORITHMS = 32 entries, loop of findFromUint16Array fully unwound); protocol version, suite flags symbolic; opts as the only caller passes them (all zero)",
  "unwind": 34,
  "native_replay": false,
  "timeout": 300
}
@*/
/* C04 / C07   the client's check of the ServerKeyExchange signature: tlsVerify
 * (only caller: parseServerKeyExchange, with pubKey = &ssl->sec.cert->publicKey).
 *
 * C04  "... the peer proved possession of the leaf certificate's private key": a positive
 *      return value implies that the verify primitive ran exactly once, under the key passed
 *      in, over the hash of client_random || server_random || ServerParams of the size the
 *      chosen algorithm has, with the signature field of this message, and said yes.
 * C07  "nothing the peer chooses may be outside what this endpoint offered": under TLS 1.2
 *      the SignatureAndHashAlgorithm the server signs with must be one of the
 *      signature_algorithms this client sent (ssl->supportedSigAlgs[0..supportedSigAlgsLen),
 *      written into the ClientHello by sslEncode.c), RFC 5246 7.4.3; and its key type must be
 *      the one of the negotiated suite.
 * C08  the parser reads only [c, end) and the consumed length it returns stays inside it.
 */
#define VERIF_PLAIN_CONTRACT
#include "verif.h"
#include "matrixssl/matrixsslImpl.h"

#define N 8           /* bytes of the message the function itself reads are the first four; the rest is the signature body */
#define TBSN 16

struct __attribute__((packed)) inputs
{
    uint32_t len;
    uint16_t tbsLen;
    unsigned char hdr[4];
    int32_t hash_rc, vs_res; unsigned char vs_verify_result;
};
static struct inputs g_in;
static ssl_t g_ssl;
static psPubKey_t g_key;
static psVerifyOptions_t g_opts;
static unsigned char g_msg[0x10004];
static unsigned char g_tbs[TBSN];
static struct
{
    unsigned vs_calls, hash_calls, hash_after_verify;
    const unsigned char *vs_sig, *vs_msg, *hash_start, *hash_stop;
    unsigned char *hash_out;
    psPubKey_t *vs_key;
    size_t vs_msglen; unsigned vs_siglen; int32_t vs_alg; uint32_t hash_size;
} gh;

psRes_t psVerifySig(psPool_t *pool, const unsigned char *msgIn, psSizeL_t msgInLen,
    const unsigned char *sig, psSize_t sigLen, psPubKey_t *key, int32_t signatureAlgorithm,
    psBool_t *verifyResult, psVerifyOptions_t *opts)
{
    gh.vs_calls++;
    gh.vs_msg = msgIn; gh.vs_msglen = msgInLen; gh.vs_sig = sig; gh.vs_siglen = sigLen;
    gh.vs_key = key; gh.vs_alg = signatureAlgorithm;
    *verifyResult = (g_in.vs_verify_result == 1) ? PS_TRUE : PS_FALSE;
    return g_in.vs_res;
}
int32_t model_computeSkeHash(ssl_t *ssl, psDigestContext_t *digestCtx, uint32_t hashSize,
    const unsigned char *tbsStart, const unsigned char *tbsStop, unsigned char *hsMsgHash)
{
    if (gh.vs_calls > 0) { gh.hash_after_verify = 1; }
    gh.hash_calls++; gh.hash_size = hashSize; gh.hash_start = tbsStart; gh.hash_stop = tbsStop; gh.hash_out = hsMsgHash;
    return g_in.hash_rc;
}

static int vr_offered(uint16_t alg)
{
    unsigned i;
    for (i = 0; i < TLS_MAX_SIGNATURE_ALGORITHMS; i++)
    {
        if (i < g_ssl.supportedSigAlgsLen && g_ssl.supportedSigAlgs[i] == alg) { return 1; }
    }
    return 0;
}
static unsigned vr_hlen(uint16_t a)
{
    switch (a & 0xff00) { case 0x0200: return 20; case 0x0400: return 32; case 0x0500: return 48; case 0x0600: return 64; }
    switch (a) { case 0x0804: case 0x0809: return 32; case 0x0805: case 0x080a: return 48; case 0x0806: case 0x080b: return 64; }
    return 0;
}
/* key type of a TLS 1.2 SignatureAndHashAlgorithm: low byte 1 = rsa, 3 = ecdsa; 0x08xx = rsa-pss */
#define WIRE_IS_RSA   (((WIREALG & 0xff00) == 0x0800) || ((WIREALG & 0xff) == 0x01))
#define WIRE_IS_ECDSA (((WIREALG & 0xff00) != 0x0800) && ((WIREALG & 0xff) == 0x03))

#define OK      (RET > 0)
#define TLS12   (NGTD_VER(&g_ssl, v_tls_with_signature_algorithms))
#define WIREALG ((uint16_t) ((g_msg[0] << 8) | g_msg[1]))
#define OFF     (TLS12 ? 2 : 0)
#define WIRESIGLEN ((unsigned) ((g_msg[OFF] << 8) | g_msg[OFF + 1]))
#define SUITE_RSA   ((g_ssl.flags & SSL_FLAGS_DHE_WITH_RSA) != 0)
#define SUITE_ECDSA ((g_ssl.flags & SSL_FLAGS_DHE_WITH_DSA) != 0)
#define LEGACY_HLEN (SUITE_ECDSA ? SHA1_HASH_SIZE : MD5SHA1_HASH_SIZE)

#define POSTS(P) \
    P(C04_accept_means_one_successful_verification_under_the_given_key, IMPLIES(OK, gh.vs_calls == 1 && gh.vs_key == &g_key && g_in.vs_res >= 0 && g_in.vs_verify_result == 1)) \
    P(C04_signed_data_is_the_hash_of_randoms_and_server_params, IMPLIES(OK, gh.hash_calls == 1 && gh.hash_after_verify == 0 && g_in.hash_rc >= 0 && gh.hash_start == g_tbs && gh.hash_stop == g_tbs + g_in.tbsLen && \
        gh.vs_msg == gh.hash_out && gh.vs_msglen == gh.hash_size && gh.hash_size == (TLS12 ? vr_hlen(WIREALG) : LEGACY_HLEN) && gh.hash_size != 0)) \
    P(C04_signature_is_this_messages_field, IMPLIES(OK, gh.vs_sig == g_msg + OFF + 2 && gh.vs_siglen == WIRESIGLEN)) \
    P(C04_verify_algorithm_is_the_one_on_the_wire, IMPLIES(OK, gh.vs_alg == (TLS12 ? tlsSigAlgToMatrix(WIREALG) : (SUITE_RSA ? OID_RSA_TLS_SIG_ALG : OID_SHA1_ECDSA_SIG)))) \
    P(C07_tls12_signature_algorithm_was_offered_by_this_client, IMPLIES(OK && TLS12, vr_offered(WIREALG))) \
    P(C07_signature_key_type_is_the_one_of_the_suite, IMPLIES(OK && TLS12, (SUITE_RSA ? WIRE_IS_RSA : 1) && (SUITE_ECDSA ? WIRE_IS_ECDSA : 1))) \
    P(C08_consumed_length_is_the_field_and_inside_the_message, IMPLIES(OK, (unsigned) RET == OFF + 2 + WIRESIGLEN && (unsigned) RET <= g_in.len)) \
    P(C04_failure_is_fatal, IMPLIES(!OK, RET < 0 && g_ssl.err != SSL_ALERT_NONE))

int32_t tlsVerify(ssl_t *ssl, const unsigned char *tbs, psSizeL_t tbsLen, const unsigned char *c, const unsigned char *end,
    psPubKey_t *pubKey, psVerifyOptions_t *opts)
__CPROVER_requires(ssl == &g_ssl && tbs == g_tbs && tbsLen == g_in.tbsLen && c == g_msg && end == g_msg + g_in.len && pubKey == &g_key && opts == &g_opts)
__CPROVER_requires(g_ssl.err == SSL_ALERT_NONE && g_ssl.supportedSigAlgsLen <= TLS_MAX_SIGNATURE_ALGORITHMS)
POSTS(ENSURES_CLAUSE)
CANARY_CLAUSE(__CPROVER_return_value <= 0)
__CPROVER_assigns(gh, g_ssl.err, __CPROVER_object_whole(&g_opts))
;

#include "matrixssl/tlsSigVer.c"
#include "matrixssl/tls.c"        /* findFromUint16Array */

#ifndef NATIVE_REPLAY
struct inputs nondet_in(void);
#endif

ssl_t nondet_ssl(void);
HARNESS_BEGIN
    HARNESS_INPUTS(struct inputs, in);
    g_ssl = nondet_ssl();     /* version, flags, offered algorithms: arbitrary */
    g_in = in;
    Memset(&gh, 0, sizeof(gh));
    Memset(&g_opts, 0, sizeof(g_opts));    /* as parseServerKeyExchange passes them */
    __CPROVER_assume(in.len <= sizeof(g_msg) && in.tbsLen <= TBSN);
    __CPROVER_assume(g_ssl.supportedSigAlgsLen <= TLS_MAX_SIGNATURE_ALGORITHMS);
    Memcpy(g_msg, in.hdr, 4);
    g_ssl.err = SSL_ALERT_NONE;
    g_ssl.hsPool = NULL;
    {
        int32_t vr_ret = tlsVerify(&g_ssl, g_tbs, in.tbsLen, g_msg, g_msg + in.len, &g_key, &g_opts);
        POSTS(NATIVE_CHECK)
#ifdef CANARY
        PLAIN_ASSERT(CANARY, vr_ret <= 0)
#endif
    }
HARNESS_END
