/*@UNIT
{
  "property": "C04",
  "unit": "validate_peer_certs_13",
  "function": "matrixSslValidatePeerCerts",
  "source": "matrixssl/tls13Authenticate.c",
  "keep_bodies": ["psCheckValidationResult", "psCheckSetPathLenFailure", "tls13HandleUserCertCbResult"],
  "replace": [],
  "assumed": [
    "matrixValidateCertsExt (model = contract enforced in C03 validate_chain: any result <= 0, any verdicts/flags on the chain; PS_SUCCESS implies every verdict is PASS, FAIL_EXTENSION or FAIL_AUTHKEY)",
    "matrixUserCertValidator (model = contract enforced in unit user_cert_validator)",
    "application certificate callback (model: records its arguments, returns any value)",
    "memcmpct on the subject/issuer DN structures (model: any result; only used for max_verify_depth)"
  ],
  "mode": "bounded",
  "bounds": "presented chain of 1 or 2 certificates (one case each)",
  "unwind": 6,
  "cases": [
    {"name": "n1_nocb", "defs": ["NCERT=1", "WITH_CB=0"]},
    {"name": "n2_nocb", "defs": ["NCERT=2", "WITH_CB=0"]},
    {"name": "n1_cb",   "defs": ["NCERT=1", "WITH_CB=1"]},
    {"name": "n2_cb",   "defs": ["NCERT=2", "WITH_CB=1"]}
  ],
  "solver": "cadical",
  "native_replay": true,
  "timeout": 300
}
@*/
/* C04.U2  TLS 1.3: what the handshake does with the verdict of chain validation.
 * Same postcondition text as the TLS <= 1.2 unit parse_certificate_12 (c04_post.h).
 *
 * ssl_t fields read: sec.cert, keys, expectedName, validateCertsOpts, sec.validateCert,
 * err (entry: SSL_ALERT_NONE, as tls13ParseCertificate is entered), hsPool, memAllocPtr
 * (passed through).  Everything else is not read and left at zero.
 */
#include "verif.h"
#include "matrixssl/matrixsslImpl.h"

#ifndef NCERT
# define NCERT 1
#endif
#ifndef WITH_CB
# define WITH_CB 0
#endif

static ssl_t g_ssl;
static sslKeys_t g_keys;
static psX509Cert_t g_c0, g_c1, g_ca;
static char g_name[4];
struct __attribute__((packed)) inputs
{
    int32_t v_rc, v_status[2]; uint32_t v_flags[2]; int32_t cb_ret;
    int32_t max_verify_depth;
    unsigned char keys_null, ca_null, name_null, self_issued[2];
    uint32_t flags0[2];
};
static struct inputs g_in;
#include "c04_post.h"

static unsigned gh_ct_calls;
int32 memcmpct(const void *s1, const void *s2, size_t len)
{
    unsigned k = gh_ct_calls < 2 ? gh_ct_calls : 1;
    gh_ct_calls++;
    return g_in.self_issued[k] ? 0 : 1;
}

#define C04_ACCEPT       (RET == PS_SUCCESS)
#define C04_CB_NULL      (!WITH_CB)
#define C04_VRC          gh_v_rc
#define C04_V_CALLS      gh_v_calls
#define C04_ALL_PASS     (g_c0.authStatus == PS_CERT_AUTH_PASS && (NCERT < 2 || g_c1.authStatus == PS_CERT_AUTH_PASS))
#define C04_HAVE_CA      (g_ssl.keys != NULL && g_ssl.keys->CAcerts != NULL)
#define C04_CB_CALLS     gh_cb_calls
#define C04_CB_ALERT     gh_cb_alert
#define C04_CB_RET       gh_cb_ret
#define C04_CB_GOT_CHAIN (gh_cb_ssl == &g_ssl && gh_cb_cert == &g_c0)
#define C04_ERR          g_ssl.err
#define C04_ANON         g_ssl.sec.anon

#define POSTS(P) \
    P(no_callback_needs_validator_success,   C04_NOCB_NEEDS_VALIDATOR_SUCCESS) \
    P(no_callback_needs_every_verdict_pass,  C04_NOCB_NEEDS_EVERY_VERDICT_PASS) \
    P(no_callback_needs_trust_anchors,       C04_NOCB_NEEDS_TRUST_ANCHORS) \
    P(no_callback_calls_nothing,             C04_NOCB_CALLS_NOTHING) \
    P(callback_decides,                      C04_CALLBACK_DECIDES) \
    P(override_of_validator_failure_saw_alert, C04_OVERRIDE_OF_VALIDATOR_FAILURE_SAW_ALERT) \
    P(override_of_bad_verdict_saw_alert,     C04_OVERRIDE_OF_BAD_VERDICT_SAW_ALERT) \
    P(override_of_no_trust_anchors_saw_alert, C04_OVERRIDE_OF_NO_TRUST_ANCHORS_SAW_ALERT) \
    P(accept_leaves_no_alert,                C04_ACCEPT_LEAVES_NO_ALERT) \
    P(reject_is_fatal,                       C04_REJECT_IS_FATAL) \
    P(anon_only_by_callback,                 C04_ANON_ONLY_BY_CALLBACK) \
    P(validator_given_session_data,          C04_VALIDATOR_GIVEN_SESSION_DATA)

static int32_t matrixSslValidatePeerCerts(ssl_t *ssl, void *pkiData)
__CPROVER_requires(ssl == &g_ssl && pkiData == NULL)
__CPROVER_requires(g_ssl.err == SSL_ALERT_NONE)
__CPROVER_requires(C04_GHOSTS_ZERO && gh_ct_calls == 0)
POSTS(ENSURES_CLAUSE)
CANARY_CLAUSE(!(RET == PS_SUCCESS && gh_v_calls == 1))
__CPROVER_assigns(g_ssl.err, g_ssl.sec.anon, g_c0.authStatus, g_c0.authFailFlags, g_c1.authStatus, g_c1.authFailFlags, gh_ct_calls, C04_GHOST_FRAME)
;

#include "matrixssl/tls13Authenticate.c"

#ifndef NATIVE_REPLAY
struct inputs nondet_in(void);
#endif

HARNESS_BEGIN
    HARNESS_INPUTS(struct inputs, in);
    int32 vr_ret;
    g_in = in;
    g_c0.next = (NCERT > 1) ? &g_c1 : NULL;
    g_c1.next = NULL;
    g_c0.authFailFlags = in.flags0[0];
    g_c1.authFailFlags = in.flags0[1];
    g_ssl.sec.cert = &g_c0;
    g_ssl.keys = in.keys_null ? NULL : &g_keys;
    g_keys.CAcerts = in.ca_null ? NULL : &g_ca;
    g_ssl.expectedName = in.name_null ? NULL : g_name;
    g_ssl.validateCertsOpts.max_verify_depth = in.max_verify_depth;
    g_ssl.sec.validateCert = WITH_CB ? vr_cert_cb : NULL;
    g_ssl.err = SSL_ALERT_NONE;
    vr_ret = matrixSslValidatePeerCerts(&g_ssl, NULL);
    (void) vr_ret;
    POSTS(NATIVE_CHECK)
HARNESS_END
