/*@UNIT
{
  "property": "C04",
  "unit": "pop_cert_verify_13",
  "function": "tls13ParseCertificateVerify",
  "source": "matrixssl/tls13Decode.c",
  "keep_bodies": ["psParseBufTryParseBigEndianUint16", "psParseCanRead", "findFromUint16Array (matrixssl/tls.c)"],
  "replace": [],
  "assumed": [
    "tls13Verify (model: records key, algorithm, signature, transcript hash and context string arguments, returns any result)",
    "tls13TranscriptHashSnapshot (model: records the output buffer and the order of the call, returns any result; that the running hash holds this handshake's transcript is assumed)",
    "tls13GetCipherHmacAlg, psGetOutputBlockLength (model: any value)",
    "strlen (CBMC library model, constant strings)"
  ],
  "mode": "bounded",
  "bounds": "CertificateVerify message <= 1100 bytes (covers RSA-8192 signatures); loops: 16-entry signature algorithm list and strlen of two constant strings, fully unwound",
  "unwind": 40,
  "cases": [
    {"name": "client", "defs": ["SERVER=0"]},
    {"name": "server", "defs": ["SERVER=1"]}
  ],
  "solver": "cadical",
  "native_replay": true,
  "timeout": 300
}
@*/
/* C04.U3 (TLS 1.3)  proof of possession: tls13ParseCertificateVerify.
 * Success implies that tls13Verify was called exactly once with the public key of the
 * leaf ssl->sec.cert, the algorithm named in the message (which is in the list this side
 * offered), the signature field of this message, the transcript hash snapshot taken
 * for this message (snapshot precedes the verification, same buffer), the context string
 * of the PEER's role, and that it reported success.
 *
 * ssl_t fields read: flags (SERVER constant per case), supportedSigAlgs[], supportedSigAlgsLen,
 * sec.cert, hsPool, cipher (only inside the modelled tls13GetCipherHmacAlg).
 */
#include "verif.h"
#include "matrixssl/matrixsslImpl.h"

#ifndef SERVER
# define SERVER 0
#endif
#define N 1100

static ssl_t g_ssl;
static psX509Cert_t g_c0;
static unsigned char g_msg[N];
static psParseBuf_t g_pb;
static uint32_t g_len;

struct __attribute__((packed)) inputs
{
    uint16_t sigalgs[TLS_MAX_SIGNATURE_ALGORITHMS]; uint16_t sigalgs_len;
    uint32_t len; unsigned char hdr[4]; int32_t pb_err;
    int32_t hmac_alg, block_len, snap_rc, verify_rc;
};
static struct inputs g_in;

static unsigned gh_v_calls, gh_snap_calls, gh_snap_before_verify, gh_v_siglen, gh_v_hashlen, gh_v_ctxlen;
static psPubKey_t *gh_v_key;
static unsigned char *gh_v_sig, *gh_snap_out;
static const unsigned char *gh_v_hash;
static const char *gh_v_ctx;
static uint16_t gh_v_alg;
static int32_t gh_block_arg;

int32_t tls13Verify(psPool_t *pool, psPubKey_t *pubKey, uint16_t sigAlg, unsigned char *signature, psSize_t signatureLen,
    const unsigned char trHash[MAX_TLS_1_3_HASH_SIZE], psSize_t trHashLen, const char *contextString, psSize_t contextStringLen)
{
    gh_snap_before_verify = (gh_snap_calls == 1);
    gh_v_calls++;
    gh_v_key = pubKey; gh_v_alg = sigAlg; gh_v_sig = signature; gh_v_siglen = signatureLen;
    gh_v_hash = trHash; gh_v_hashlen = trHashLen; gh_v_ctx = contextString; gh_v_ctxlen = contextStringLen;
    return g_in.verify_rc;
}
int32_t tls13TranscriptHashSnapshot(ssl_t *ssl, unsigned char *out)
{
    gh_snap_calls++;
    gh_snap_out = out;
    return g_in.snap_rc;
}
int32_t tls13GetCipherHmacAlg(ssl_t *ssl)
{
    return g_in.hmac_alg;
}
psResSize_t psGetOutputBlockLength(psCipherType_e alg)
{
    gh_block_arg = (int32_t) alg;
    return g_in.block_len;
}

static int vr_offered(uint16_t a)
{
    unsigned i;
    for (i = 0; i < TLS_MAX_SIGNATURE_ALGORITHMS; i++) { if (i < g_ssl.supportedSigAlgsLen && g_ssl.supportedSigAlgs[i] == a) { return 1; } }
    return 0;
}
static int vr_ctx_is(const char *s, unsigned n, const char *expect)
{
    unsigned i;
    if (s == NULL) { return 0; }
    for (i = 0; i < 34; i++) { if (s[i] != expect[i]) { return 0; } if (expect[i] == 0) { break; } }
    return n == 33 && s[33] == 0;
}
#define OK         (RET == MATRIXSSL_SUCCESS)
#define WIREALG    ((uint16_t) ((g_msg[0] << 8) | g_msg[1]))
#define WIRESIGLEN ((unsigned) ((g_msg[2] << 8) | g_msg[3]))

#define POSTS(P) \
    P(pop_verified_once_under_the_leaf_key, IMPLIES(OK, gh_v_calls == 1 && gh_v_key == &g_c0.publicKey && g_ssl.sec.cert == &g_c0 && g_in.verify_rc >= 0)) \
    P(pop_over_the_transcript_snapshot_of_this_message, IMPLIES(OK, gh_snap_calls == 1 && gh_snap_before_verify && gh_snap_out == g_ssl.sec.tls13TrHashSnapshot && gh_v_hash == g_ssl.sec.tls13TrHashSnapshot && g_in.snap_rc >= 0)) \
    P(pop_hash_length_is_that_of_the_suite, IMPLIES(OK, gh_block_arg == g_in.hmac_alg && g_in.block_len >= 0 && gh_v_hashlen == (psSize_t) g_in.block_len)) \
    P(pop_signature_is_this_messages_field, IMPLIES(OK, gh_v_sig == g_msg + 4 && gh_v_siglen == WIRESIGLEN && g_len >= 4 && WIRESIGLEN <= g_len - 4)) \
    P(pop_algorithm_was_offered, IMPLIES(OK, gh_v_alg == WIREALG && vr_offered(WIREALG) && g_ssl.sec.tls13PeerCvSigAlg == WIREALG)) \
    P(pop_context_string_is_the_peers_role, IMPLIES(OK, vr_ctx_is(gh_v_ctx, gh_v_ctxlen, SERVER ? "TLS 1.3, client CertificateVerify" : "TLS 1.3, server CertificateVerify"))) \
    P(failure_is_fatal, IMPLIES(!OK, RET < 0 && g_ssl.err != SSL_ALERT_NONE))

static int32_t tls13ParseCertificateVerify(ssl_t *ssl, psParseBuf_t *pb)
__CPROVER_requires(ssl == &g_ssl && pb == &g_pb && g_pb.buf.start == g_msg && g_pb.buf.end == g_msg + g_len && g_len <= N)
__CPROVER_requires(g_ssl.sec.cert == &g_c0 && g_ssl.err == SSL_ALERT_NONE && g_ssl.supportedSigAlgsLen <= TLS_MAX_SIGNATURE_ALGORITHMS)
__CPROVER_requires(gh_v_calls == 0 && gh_snap_calls == 0 && gh_snap_before_verify == 0)
POSTS(ENSURES_CLAUSE)
CANARY_CLAUSE(RET != MATRIXSSL_SUCCESS)
__CPROVER_assigns(g_ssl.err, g_ssl.sec.tls13PeerCvSigAlg, g_pb.buf.start,
                  gh_v_calls, gh_snap_calls, gh_snap_before_verify, gh_v_siglen, gh_v_hashlen, gh_v_ctxlen, gh_v_key, gh_v_sig, gh_snap_out,
                  gh_v_hash, gh_v_ctx, gh_v_alg, gh_block_arg)
;

#include "matrixssl/tls.c"
#include "matrixssl/tls13Decode.c"

#ifndef NATIVE_REPLAY
struct inputs nondet_in(void);
#endif

HARNESS_BEGIN
    HARNESS_INPUTS(struct inputs, in);
    int32 vr_ret;
    g_in = in;
    Memcpy(g_msg, in.hdr, 4);
    g_len = in.len;
    __CPROVER_assume(g_len <= N && in.sigalgs_len <= TLS_MAX_SIGNATURE_ALGORITHMS);      /* mirrors the requires */
    g_pb.buf.buf = g_msg; g_pb.buf.start = g_msg; g_pb.buf.end = g_msg + g_len; g_pb.buf.size = N;
    g_pb.err = in.pb_err;
    g_ssl.flags = SERVER ? SSL_FLAGS_SERVER : 0;
    Memcpy(g_ssl.supportedSigAlgs, in.sigalgs, sizeof(g_ssl.supportedSigAlgs));
    g_ssl.supportedSigAlgsLen = in.sigalgs_len;
    g_ssl.sec.cert = &g_c0;
    g_ssl.err = SSL_ALERT_NONE;
    vr_ret = tls13ParseCertificateVerify(&g_ssl, &g_pb);
    (void) vr_ret;
    POSTS(NATIVE_CHECK)
HARNESS_END
