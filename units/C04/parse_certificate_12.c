/*@UNIT
{
  "property": "C04",
  "unit": "parse_certificate_12",
  "function": "parseCertificate",
  "source": "matrixssl/hsDecode.c",
  "keep_bodies": [],
  "replace": [],
  "assumed": [
    "psX509ParseCert (model: allocator handing out at most two certificate objects with arbitrary parse-time flags and key type, one certificate per blob, or a negative error; consumes the whole blob)",
    "psX509FreeCert (model: no-op)",
    "csCheckCertAgainstCipherSuite (model: any result)",
    "matrixValidateCertsExt (model = contract enforced in C03 validate_chain: any result <= 0, any verdicts/flags on the chain; PS_SUCCESS implies every verdict is PASS, FAIL_EXTENSION or FAIL_AUTHKEY)",
    "matrixUserCertValidator (model = contract enforced in unit user_cert_validator)",
    "application certificate callback (model: records its arguments, returns any value)",
    "memcmpct on the subject/issuer DN structures (model: any result; only used for max_verify_depth)"
  ],
  "mode": "bounded",
  "bounds": "Certificate message <= 12 bytes, presented chain <= 2 certificates (a third one makes the allocator model fail); modes role x callback enumerated, protocol version symbolic",
  "unwind": 8,
  "cases": [
    {"name": "client_nocb", "defs": ["SERVER=0", "WITH_CB=0"]},
    {"name": "client_cb",   "defs": ["SERVER=0", "WITH_CB=1"]},
    {"name": "server_nocb", "defs": ["SERVER=1", "WITH_CB=0"]},
    {"name": "server_cb",   "defs": ["SERVER=1", "WITH_CB=1"]}
  ],
  "solver": "cadical",
  "native_replay": true,
  "timeout": 600
}
@*/
/* C04.U1  TLS <= 1.2 (and DTLS): parseCertificate, what the handshake does with the
 * verdict of chain validation.  Same postcondition text as the TLS 1.3 unit (c04_post.h).
 *
 * ssl_t fields read and set from `in`: flags (SERVER constant per case, DHE_KEY_EXCH),
 * activeVersion, bFlags, keys, expectedName, validateCertsOpts.max_verify_depth,
 * sec.validateCert (constant per case), extFlags.status_request(_v2), cipher->type.
 * err is SSL_ALERT_NONE at entry (matrixSslDecode resets it per record), sec.cert NULL.
 * Not read, left at zero: everything else (hsPool, userPtr, memAllocPtr are only passed on).
 */
#include "verif.h"
#include "matrixssl/matrixsslImpl.h"

#ifndef SERVER
# define SERVER 0
#endif
#ifndef WITH_CB
# define WITH_CB 0
#endif
#define N 12

static ssl_t g_ssl;
static sslKeys_t g_keys;
static sslCipherSpec_t g_cipher;
static psX509Cert_t g_c0, g_c1, g_ca;
static char g_name[4];
static unsigned char g_buf[N];
static unsigned char *g_p;
static uint32_t g_len;

struct __attribute__((packed)) inputs
{
    int32_t v_rc, v_status[2]; uint32_t v_flags[2]; int32_t cb_ret;
    int32_t max_verify_depth;
    unsigned char keys_null, ca_null, name_null, self_issued[2];
    int32_t parse_rc[2]; uint32_t parse_flags[2]; unsigned char key_type[2];
    int32_t cs_check;
    uint32_t activeVersion, bFlags; unsigned char dhe, status_request, status_request_v2;
    uint16_t cipher_type;
    uint32_t len;
    unsigned char buf[N];
};
static struct inputs g_in;
#include "c04_post.h"

static unsigned gh_ct_calls, gh_parse_n, gh_free_n;
int32 memcmpct(const void *s1, const void *s2, size_t len)
{
    unsigned k = gh_ct_calls < 2 ? gh_ct_calls : 1;
    gh_ct_calls++;
    return g_in.self_issued[k] ? 0 : 1;
}
int32 psX509ParseCert(psPool_t *pool, const unsigned char *pp, uint32 size, psX509Cert_t **outcert, int32 flags)
{
    unsigned k = gh_parse_n;
    psX509Cert_t *c;
    if (k >= 2)
    {
        *outcert = NULL;
        return PS_MEM_FAIL;         /* the stated bound: no third certificate object */
    }
    gh_parse_n = k + 1;
    c = (k == 0) ? &g_c0 : &g_c1;
    *outcert = c;
    c->next = NULL;
    c->authStatus = PS_FALSE;
    c->authFailFlags = g_in.parse_flags[k] & PS_CERT_AUTH_FAIL_DATE_FLAG;
    c->publicKey.type = g_in.key_type[k];
    if (g_in.parse_rc[k] < 0)
    {
        return g_in.parse_rc[k];
    }
    return (int32) size;
}
void psX509FreeCert(psX509Cert_t *cert)
{
    gh_free_n++;
}
int32 csCheckCertAgainstCipherSuite(int32 pubKey, int32 cipherType)
{
    return g_in.cs_check;
}

#define C04_ACCEPT       (RET == MATRIXSSL_SUCCESS)
#define C04_CB_NULL      (!WITH_CB)
#define C04_VRC          gh_v_rc
#define C04_V_CALLS      gh_v_calls
#define C04_ALL_PASS     (gh_parse_n >= 1 && g_c0.authStatus == PS_CERT_AUTH_PASS && (gh_parse_n < 2 || g_c1.authStatus == PS_CERT_AUTH_PASS))
#define C04_HAVE_CA      (g_ssl.keys != NULL && g_ssl.keys->CAcerts != NULL)
#define C04_CB_CALLS     gh_cb_calls
#define C04_CB_ALERT     gh_cb_alert
#define C04_CB_RET       gh_cb_ret
#define C04_CB_GOT_CHAIN (gh_cb_ssl == &g_ssl && gh_cb_cert == &g_c0)
#define C04_ERR          g_ssl.err
#define C04_ANON         g_ssl.sec.anon

#define POSTS(P) \
    P(no_callback_needs_validator_success,   C04_NOCB_NEEDS_VALIDATOR_SUCCESS) \
    P(no_callback_needs_every_verdict_pass,  C04_NOCB_NEEDS_EVERY_VERDICT_PASS) \
    P(no_callback_needs_trust_anchors,       C04_NOCB_NEEDS_TRUST_ANCHORS) \
    P(no_callback_calls_nothing,             C04_NOCB_CALLS_NOTHING) \
    P(callback_decides,                      C04_CALLBACK_DECIDES) \
    P(override_of_validator_failure_saw_alert, C04_OVERRIDE_OF_VALIDATOR_FAILURE_SAW_ALERT) \
    P(override_of_bad_verdict_saw_alert,     C04_OVERRIDE_OF_BAD_VERDICT_SAW_ALERT) \
    P(override_of_no_trust_anchors_saw_alert, C04_OVERRIDE_OF_NO_TRUST_ANCHORS_SAW_ALERT) \
    P(accept_leaves_no_alert,                C04_ACCEPT_LEAVES_NO_ALERT) \
    P(reject_is_fatal,                       C04_REJECT_IS_FATAL) \
    P(anon_only_by_callback,                 C04_ANON_ONLY_BY_CALLBACK) \
    P(validator_given_session_data,          C04_VALIDATOR_GIVEN_SESSION_DATA) \
    P(accept_validated_the_whole_presented_chain, IMPLIES(C04_ACCEPT, gh_v_calls == 1 && g_ssl.sec.cert == &g_c0 && gh_parse_n >= 1 && g_c0.next == (gh_parse_n == 2 ? &g_c1 : (psX509Cert_t *) NULL))) \
    P(accept_consumes_within_the_message, IMPLIES(C04_ACCEPT, g_p >= g_buf + 3 && g_p <= g_buf + g_len))

int32 parseCertificate(ssl_t *ssl, unsigned char **cp, unsigned char *end)
__CPROVER_requires(ssl == &g_ssl && cp == &g_p && g_p == g_buf && end == g_buf + g_len && g_len <= N)
__CPROVER_requires(g_ssl.err == SSL_ALERT_NONE && g_ssl.sec.cert == NULL)
__CPROVER_requires(C04_GHOSTS_ZERO && gh_ct_calls == 0 && gh_parse_n == 0 && gh_free_n == 0)
POSTS(ENSURES_CLAUSE)
CANARY_CLAUSE(!(RET == MATRIXSSL_SUCCESS && gh_parse_n == 2))
__CPROVER_assigns(g_ssl.err, g_ssl.sec.anon, g_ssl.sec.cert, g_ssl.hsState, g_ssl.decState, g_ssl.flags, g_p,
                  g_c0.authStatus, g_c0.authFailFlags, g_c0.next, g_c0.publicKey.type,
                  g_c1.authStatus, g_c1.authFailFlags, g_c1.next, g_c1.publicKey.type,
                  gh_ct_calls, gh_parse_n, gh_free_n, C04_GHOST_FRAME)
;

#include "matrixssl/hsDecode.c"

#ifndef NATIVE_REPLAY
struct inputs nondet_in(void);
#endif

HARNESS_BEGIN
    HARNESS_INPUTS(struct inputs, in);
    int32 vr_ret;
    g_in = in;
    Memcpy(g_buf, in.buf, N);
    g_len = in.len;
    __CPROVER_assume(g_len <= N);          /* mirrors the requires */
    g_p = g_buf;
    g_ssl.flags = (SERVER ? SSL_FLAGS_SERVER : 0) | (in.dhe ? SSL_FLAGS_DHE_KEY_EXCH : 0);
    g_ssl.activeVersion = in.activeVersion;
    g_ssl.bFlags = in.bFlags;
    g_ssl.keys = in.keys_null ? NULL : &g_keys;
    g_keys.CAcerts = in.ca_null ? NULL : &g_ca;
    g_ssl.expectedName = in.name_null ? NULL : g_name;
    g_ssl.validateCertsOpts.max_verify_depth = in.max_verify_depth;
    g_ssl.sec.validateCert = WITH_CB ? vr_cert_cb : NULL;
    g_ssl.extFlags.status_request = in.status_request & 1;
    g_ssl.extFlags.status_request_v2 = in.status_request_v2 & 1;
    g_cipher.type = in.cipher_type;
    g_ssl.cipher = &g_cipher;
    g_ssl.err = SSL_ALERT_NONE;
    g_ssl.sec.cert = NULL;
    vr_ret = parseCertificate(&g_ssl, &g_p, g_buf + g_len);
    (void) vr_ret;
    POSTS(NATIVE_CHECK)
HARNESS_END
