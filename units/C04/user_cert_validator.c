/*@UNIT
{
  "property": "C04",
  "unit": "user_cert_validator",
  "function": "matrixUserCertValidator",
  "source": "matrixssl/matrixssl.c",
  "keep_bodies": [],
  "replace": [],
  "assumed": ["application certificate callback (model: records its arguments, returns any value)"],
  "mode": "proof",
  "why_proof": "loop-free",
  "unwind": 24,
  "cases": [
    {"name": "no_callback", "defs": ["WITH_CB=0"]},
    {"name": "callback",    "defs": ["WITH_CB=1"]}
  ],
  "remove_function_pointers": true,
  "native_replay": true,
  "timeout": 300
}
@*/
/* C04  matrixUserCertValidator: the one place where the application callback is called.
 * This contract is what the models of matrixUserCertValidator in the other C04 units
 * (c04_post.h) assume:
 *   no callback  -> PS_SUCCESS, nothing called;
 *   callback     -> called exactly once with (ssl, chain, alert), where "no alert"
 *                   (SSL_ALERT_NONE = 255) is presented as 0 and every other pending
 *                   alert unchanged; the callback's return value is passed through.
 */
#include "verif.h"
#include "matrixssl/matrixsslImpl.h"

#ifndef WITH_CB
# define WITH_CB 1
#endif

static ssl_t g_ssl;
static psX509Cert_t g_c0;
struct __attribute__((packed)) inputs { int32_t alert; int32_t cb_ret; int32_t v_rc, v_status[2]; uint32_t v_flags[2]; };
static struct inputs g_in;
static int32_t g_alert;

#define C04_REAL_USER_CERT_VALIDATOR
#define C04_NO_VALIDATOR_MODEL
#include "c04_post.h"

#define CB (WITH_CB ? vr_cert_cb : (sslCertCb_t) NULL)

#define POSTS(P) \
    P(no_callback_returns_success_without_calling, IMPLIES(!WITH_CB, RET == PS_SUCCESS && gh_cb_calls == 0)) \
    P(callback_called_once_about_this_chain,       IMPLIES(WITH_CB, gh_cb_calls == 1 && gh_cb_ssl == &g_ssl && gh_cb_cert == &g_c0)) \
    P(callback_is_shown_the_pending_alert,         IMPLIES(WITH_CB, gh_cb_alert == (g_alert == SSL_ALERT_NONE ? 0 : g_alert))) \
    P(callback_result_is_passed_through,           IMPLIES(WITH_CB, RET == gh_cb_ret))

int32 matrixUserCertValidator(ssl_t *ssl, int32 alert, psX509Cert_t *subjectCert, sslCertCb_t certValidator)
__CPROVER_requires(ssl == &g_ssl && subjectCert == &g_c0 && alert == g_alert && certValidator == CB)
__CPROVER_requires(C04_GHOSTS_ZERO)
POSTS(ENSURES_CLAUSE)
CANARY_CLAUSE(RET != 0)
__CPROVER_assigns(C04_GHOST_FRAME)
;

#include "matrixssl/matrixssl.c"

#ifndef NATIVE_REPLAY
struct inputs nondet_in(void);
#endif

HARNESS_BEGIN
    HARNESS_INPUTS(struct inputs, in);
    int32 vr_ret;
    g_in = in;
    g_alert = in.alert;
    vr_ret = matrixUserCertValidator(&g_ssl, g_alert, &g_c0, CB);
    (void) vr_ret;
    POSTS(NATIVE_CHECK)
HARNESS_END
