/* C04: ONE postcondition text for "what happens to the verdict of chain validation",
 * shared by the TLS <= 1.2 unit (parseCertificate) and the TLS 1.3 unit
 * (matrixSslValidatePeerCerts + psCheckValidationResult + tls13HandleUserCertCbResult):
 * "identically for every protocol version" is literal.
 *
 * A unit defines, before its POSTS list, how to read the facts off its harness objects:
 *   C04_ACCEPT     the unit lets the handshake go on (its success return value)
 *   C04_CB_NULL    no application certificate callback is registered
 *   C04_VRC        return value of the internal validator (matrixValidateCertsExt model), valid when C04_V_CALLS == 1
 *   C04_V_CALLS    how often the validator was called
 *   C04_ALL_PASS   every certificate of the presented chain carries authStatus == PS_CERT_AUTH_PASS (final state)
 *   C04_HAVE_CA    the session has trust anchors (keys != NULL && keys->CAcerts != NULL)
 *   C04_CB_CALLS, C04_CB_ALERT, C04_CB_RET, C04_CB_GOT_CHAIN   ghosts of the callback model
 *   C04_ERR        ssl->err afterwards,  C04_ANON  ssl->sec.anon afterwards
 * and lists the conditions below under the SAME labels.
 */
#ifndef C04_POST_H
#define C04_POST_H

/* internal chain validation succeeded = the validator returned PS_SUCCESS, every
   certificate of the chain carries the verdict PASS, and there were trust anchors at all */
#define C04_VALIDATOR_OK (C04_V_CALLS == 1 && C04_VRC == PS_SUCCESS)
#define C04_INTERNAL_OK  (C04_VALIDATOR_OK && (C04_ALL_PASS) && (C04_HAVE_CA))

/* no callback: every validation failure is fatal (one facet per way of failing) */
#define C04_NOCB_NEEDS_VALIDATOR_SUCCESS  IMPLIES((C04_ACCEPT) && (C04_CB_NULL), C04_VALIDATOR_OK)
#define C04_NOCB_NEEDS_EVERY_VERDICT_PASS IMPLIES((C04_ACCEPT) && (C04_CB_NULL), (C04_ALL_PASS))
#define C04_NOCB_NEEDS_TRUST_ANCHORS      IMPLIES((C04_ACCEPT) && (C04_CB_NULL), (C04_HAVE_CA))
#define C04_NOCB_CALLS_NOTHING            IMPLIES((C04_CB_NULL), C04_CB_CALLS == 0)
/* with a callback: it is consulted exactly once, about this chain, and must say "go on" */
#define C04_CALLBACK_DECIDES        IMPLIES((C04_ACCEPT) && !(C04_CB_NULL), C04_CB_CALLS == 1 && (C04_CB_GOT_CHAIN) && (C04_CB_RET == 0 || C04_CB_RET == SSL_ALLOW_ANON_CONNECTION))
/* an internal failure is overridden only by a callback that was shown a (non-zero) alert for it */
#define C04_SAW_ALERT               (C04_CB_CALLS == 1 && C04_CB_ALERT > 0 && C04_CB_ALERT != SSL_ALERT_NONE)
#define C04_OVERRIDE_OF_VALIDATOR_FAILURE_SAW_ALERT IMPLIES((C04_ACCEPT) && !(C04_CB_NULL) && !C04_VALIDATOR_OK, C04_SAW_ALERT)
#define C04_OVERRIDE_OF_BAD_VERDICT_SAW_ALERT       IMPLIES((C04_ACCEPT) && !(C04_CB_NULL) && !(C04_ALL_PASS), C04_SAW_ALERT)
#define C04_OVERRIDE_OF_NO_TRUST_ANCHORS_SAW_ALERT  IMPLIES((C04_ACCEPT) && !(C04_CB_NULL) && !(C04_HAVE_CA), C04_SAW_ALERT)
/* going on leaves no pending alert; not going on is fatal with an alert to send */
#define C04_ACCEPT_LEAVES_NO_ALERT  IMPLIES((C04_ACCEPT), C04_ERR == SSL_ALERT_NONE)
#define C04_REJECT_IS_FATAL         IMPLIES(!(C04_ACCEPT), RET < 0 && C04_ERR != SSL_ALERT_NONE)
/* the connection is marked anonymous exactly when the callback said so */
#define C04_ANON_ONLY_BY_CALLBACK   IMPLIES((C04_ACCEPT), (C04_ANON == 1) == (!(C04_CB_NULL) && C04_CB_RET == SSL_ALLOW_ANON_CONNECTION))
/* the validator was asked about this session's chain, anchors, expected name and options */
#define C04_VALIDATOR_GIVEN_SESSION_DATA IMPLIES(C04_V_CALLS > 0, C04_V_CALLS == 1 && gh_v_subject == g_ssl.sec.cert && gh_v_issuers == ((g_ssl.keys == NULL) ? (psX509Cert_t *) NULL : g_ssl.keys->CAcerts) && gh_v_name == g_ssl.expectedName && gh_v_opts == &g_ssl.validateCertsOpts)

/* ---- shared models (assumed), results come from the unit's input record g_in ------------- */
/* g_in must have: int32_t v_rc, v_status[2]; uint32_t v_flags[2]; int32_t cb_ret; */
static unsigned gh_v_calls, gh_cb_calls;
static int32_t gh_v_rc, gh_cb_alert, gh_cb_ret;
static psX509Cert_t *gh_v_subject, *gh_v_issuers, *gh_cb_cert;
static const char *gh_v_name;
static const matrixValidateCertsOptions_t *gh_v_opts;
static ssl_t *gh_cb_ssl;

#define C04_GHOST_FRAME gh_v_calls, gh_cb_calls, gh_v_rc, gh_cb_alert, gh_cb_ret, gh_v_subject, gh_v_issuers, gh_cb_cert, gh_v_name, gh_v_opts, gh_cb_ssl
#define C04_GHOSTS_ZERO (gh_v_calls == 0 && gh_cb_calls == 0)

/* the application's certificate callback: any return value */
static int32_t vr_cert_cb(ssl_t *ssl, psX509Cert_t *cert, int32_t alert)
{
    gh_cb_calls++;
    gh_cb_ssl = ssl; gh_cb_cert = cert; gh_cb_alert = alert;
    /* documented return values: 0, SSL_ALLOW_ANON_CONNECTION, an alert number, or negative;
       255 is the library-internal SSL_ALERT_NONE and not an alert an application can ask for */
    gh_cb_ret = (g_in.cb_ret == SSL_ALERT_NONE) ? SSL_ALERT_BAD_CERTIFICATE : g_in.cb_ret;
    return gh_cb_ret;
}

#ifndef C04_REAL_USER_CERT_VALIDATOR
/* matrixUserCertValidator: model = its contract, enforced on the real function in unit user_cert_validator */
int32 matrixUserCertValidator(ssl_t *ssl, int32 alert, psX509Cert_t *subjectCert, sslCertCb_t certValidator)
{
    if (certValidator == NULL)
    {
        return PS_SUCCESS;
    }
    return vr_cert_cb(ssl, subjectCert, alert == SSL_ALERT_NONE ? 0 : alert);
}
#endif

#ifndef C04_NO_VALIDATOR_MODEL
/* matrixValidateCertsExt: model = the contract enforced in C03 (units validate_chain, auth_pair):
   any result <= 0; it leaves any verdict and any extension-failure flags on the (at most two)
   certificates of the chain, except that PS_SUCCESS means every certificate went through a
   successful authentication step, whose verdict is PASS or a recorded extension / key-id failure */
int32 matrixValidateCertsExt(psPool_t *pool, psX509Cert_t *subjectCerts, psX509Cert_t *issuerCerts, char *expectedName,
    psX509Cert_t **foundIssuer, void *hwCtx, void *poolUserPtr, const matrixValidateCertsOptions_t *opts)
{
    int32_t rc = g_in.v_rc > 0 ? -g_in.v_rc : g_in.v_rc;
    psX509Cert_t *c = subjectCerts;
    int k;
    gh_v_calls++;
    gh_v_subject = subjectCerts; gh_v_issuers = issuerCerts; gh_v_name = expectedName; gh_v_opts = opts;
    for (k = 0; k < 2 && c != NULL; k++)
    {
        int32_t st = g_in.v_status[k];
        /* the verdicts that exist: PS_FALSE (none), PASS, PS_CERT_AUTH_FAIL_BC (-32) ... PS_CERT_AUTH_FAIL_AUTHKEY (-39) */
        if (st != PS_FALSE && st != PS_CERT_AUTH_PASS && !(st <= PS_CERT_AUTH_FAIL_BC && st >= PS_CERT_AUTH_FAIL_AUTHKEY))
        {
            st = PS_FALSE;
        }
        if (rc == PS_SUCCESS && st != PS_CERT_AUTH_PASS && st != PS_CERT_AUTH_FAIL_EXTENSION && st != PS_CERT_AUTH_FAIL_AUTHKEY)
        {
            st = PS_CERT_AUTH_PASS;
        }
        c->authStatus = st;
        c->authFailFlags |= g_in.v_flags[k];
        c = c->next;
    }
    *foundIssuer = (rc == PS_SUCCESS) ? issuerCerts : NULL;
    gh_v_rc = rc;
    return rc;
}
#endif

#endif /* C04_POST_H */
