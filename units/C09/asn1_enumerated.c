/*@UNIT
{
  "property": "C09",
  "unit": "asn1_enumerated",
  "function": "getAsnEnumerated",
  "source": "crypto/keyformat/asn1.c",
  "keep_bodies": ["getAsnLength32"],
  "replace": [],
  "assumed": [],
  "mode": "proof",
  "why_proof": "the only loops run over the value octets, at most sizeof(int32_t) = 4 iterations (unwound 14 with unwinding assertions; 14 also closes the 12-iteration setup loop of the harness); heap input object of exactly buflen bytes, buflen symbolic in [0, 128 KiB]",
  "unwind": 14,
  "native_replay": true,
  "timeout": 300
}
@*/
/* C09  getAsnEnumerated: tag 0x0a, DER length octets, 1..4 value octets, two's complement.
 *   success  =>  the whole TLV lies in [old, old+size), cursor right behind it,
 *                value == sign-extended big-endian content (X.690 8.3);
 *   failure  =>  cursor untouched;   reads only inside [*pp, *pp+size).
 * An empty value (length 0) is not excluded by the property statement, so it is
 * not demanded here (X.690 8.4 would); but then no octet may be looked at.
 */
#include "verif.h"
#include "crypto/cryptoImpl.h"
#define MAXBUF 0x20000u
#define HN 12
#include "asn1_harness.h"

#define TL   (1 + HDRLEN_AT(1))
#define VLEN DERLEN_AT(1)
/* spec: sign-extended big-endian value of the n octets at cursor+start */
static int32_t spec_int(size_t start, uint32_t n)
{
    uint32_t u, i;
    if (n < 1 || n > 4 || start + n > HN) { return 0; }
    u = (g_h[start] & 0x80) ? 0xFFFFFFFFu : 0;
    for (i = 0; i < n; i++) { u = (u << 8) | g_h[start + i]; }
    return (int32_t) u;
}

#define POSTS(P) \
    P(ret_is_success_or_error_code,   RET == PS_SUCCESS || RET == PS_LIMIT_FAIL || RET == PS_PARSE_FAIL) \
    P(success_tlv_wellformed_inside,  IMPLIES(RET == PS_SUCCESS, g_h[0] == 0x0a && WELLFORMED_AT(1) && VLEN >= 0 && VLEN <= 4 && TL + VLEN <= g_size)) \
    P(success_cursor_after_value,     IMPLIES(RET == PS_SUCCESS, CUR == g_off + TL + VLEN && CUR <= END)) \
    P(success_value_is_twos_complement, IMPLIES(RET == PS_SUCCESS && VLEN >= 1, g.val == spec_int(TL, VLEN))) \
    P(failure_leaves_cursor,          IMPLIES(RET < 0, g.p == OLD(g, p))) \
    P(wellformed_is_accepted,         IMPLIES(g_h[0] == 0x0a && WELLFORMED_AT(1) && VLEN >= 1 && VLEN <= 4 && TL + VLEN <= g_size, RET == PS_SUCCESS))

int32_t getAsnEnumerated(const unsigned char **pp, psSizeL_t size, int32_t *val)
__CPROVER_requires(pp == &g.p && val == &g.val && size == g_size)
__CPROVER_requires(g.p == g_buf + g_off)
POSTS(ENSURES_CLAUSE)
CANARY_CLAUSE(__CPROVER_return_value != PS_SUCCESS)
__CPROVER_assigns(g.p, g.val)
;

#include "crypto/keyformat/asn1.c"

HARNESS_BEGIN
    HARNESS_INPUTS(struct inputs, in);
    int32_t vr_ret;
    ASN1_HARNESS_SETUP(in);
    SNAPSHOT(g);
    vr_ret = getAsnEnumerated(&g.p, g_size, &g.val);
    (void) vr_ret;
    POSTS(NATIVE_CHECK)
HARNESS_END
