/*@UNIT
{
  "property": "C09",
  "properties": ["C19"],
  "unit": "x509_dn_attributes",
  "function": "psX509GetDNAttributes",
  "source": "crypto/keyformat/x509.c",
  "keep_bodies": ["getAsnLength", "getAsnLength32", "getAsnSequence", "getAsnSet"],
  "assumed": ["Malloc/Free (model: constant-size blocks, request placed at the tail so that an overflow leaves the object; request size checked; may fail)", "psSha1PreInit, psSha1Init, psSha1Update, psSha1Final (models: Update demands a readable range, Final writes 20 bytes; the DN hash value is in no clause)"],
  "mode": "bounded",
  "plain": true,
  "frame_check": "none: harness-checked contract (VERIF_PLAIN_CONTRACT, DESIGN 9.2); under goto-instrument's frame instrumentation the SAT solver ran out of memory (allocations of symbolic size)",
  "bounds": "every DistinguishedName encoding of N bytes or fewer (N = 18: up to two attributes, one of them may be a domainComponent without value), every content, with and without CERT_STORE_DN_BUFFER; loops unwound to N+2 with unwinding assertions; every allocation may fail; over-reads decided by object bounds (the DN is the tail of a static array)",
  "defs": ["BUFN=18"],
  "unwind": 4,
  "unwindset": ["psX509GetDNAttributes.0:33", "psX509GetDNAttributes.1:3", "psX509GetDNAttributes.2:33", "psX509GetDNAttributes.3:2", "psX509GetDNAttributes.4:3", "strlen.0:22", "harness.0:19", "psSha1Final.0:21"],
  "object_bits": 10,
  "native_replay": true,
  "timeout": 900
}
@*/
/* C09  the X.509 Name parser (issuer, subject, CRL issuer, directoryName) on arbitrary bytes: no
 * access outside the len bytes it was given, total, and on success the cursor stands inside the
 * input and the strings it recorded are allocations of exactly the recorded length ending in the
 * two NUL bytes the API promises (the expected-name check and the application read them as C
 * strings); 8-bit string types hold no embedded NUL.
 * C19  an allocation failure is an error return, not a NULL dereference. */
#define VERIF_PLAIN_CONTRACT
#include "verif.h"
/* Allocation model (osdep_stdlib.h: Malloc / Free "may be overridden"): allocations of symbolic size made
   the SAT solver run out of memory.  Every request is served from its own constant-size block and is
   placed at the TAIL of that block, so one byte past the requested size is outside the object and an
   overflow of the allocation is still a bounds violation; the request must fit the block (checked);
   any request may fail.  Free records nothing (no leak check in this unit). */
#ifndef NATIVE_REPLAY
# define VR_CAP 80      /* > 64: cbmc then keeps each block as one array instead of 80 scalars per version */
# define VR_NBLK 8
static unsigned char vr_b0[VR_CAP], vr_b1[VR_CAP], vr_b2[VR_CAP], vr_b3[VR_CAP], vr_b4[VR_CAP], vr_b5[VR_CAP], vr_b6[VR_CAP], vr_b7[VR_CAP];
static unsigned vr_nalloc;
_Bool nondet_bool(void);
static void *vr_malloc(size_t n)
{
    unsigned k = vr_nalloc;
    unsigned char *b;
    __CPROVER_assert(n <= VR_CAP && k < VR_NBLK, "allocation fits the modelled block");
    if (n > VR_CAP || k >= VR_NBLK || nondet_bool()) { return NULL; }
    vr_nalloc++;
    b = k == 0 ? vr_b0 : k == 1 ? vr_b1 : k == 2 ? vr_b2 : k == 3 ? vr_b3 : k == 4 ? vr_b4 : k == 5 ? vr_b5 : k == 6 ? vr_b6 : vr_b7;
    return b + (VR_CAP - n);
}
static void vr_free(void *p) { (void) p; }
# define Malloc vr_malloc
# define Free vr_free
# define VR_ALLOC_IS(s, l) (__CPROVER_POINTER_OFFSET(s) + (size_t) (l) == VR_CAP)
#else
# define VR_ALLOC_IS(s, l) 1
#endif
#include "crypto/cryptoImpl.h"
#ifndef BUFN
# define BUFN 24
#endif

struct __attribute__((packed)) inputs
{
    uint16_t len;
    uint32_t flags;
    uint16_t j;
    unsigned char buf[BUFN];
};
static struct inputs g_in;
static unsigned char g_store[BUFN];
static const unsigned char *g_p;
static x509DNattributes_t g_dn;
static uint16_t g_j;     /* ghost byte index */


int32_t psSha1Init(psSha1_t *sha1) { return PS_SUCCESS; }
void psSha1Update(psSha1_t *sha1, const unsigned char *buf, uint32_t len)
{
    if (len > 0) { __CPROVER_assert(__CPROVER_r_ok(buf, len), "DN hash reads inside the input"); }
}
void psSha1Final(psSha1_t *sha1, unsigned char hash[SHA1_HASHLEN])
{
    int i;
    for (i = 0; i < SHA1_HASHLEN; i++) { hash[i] = 0; }
}

#define OK (RET == PS_SUCCESS)
#define START (BUFN - g_in.len)
#define IS8BIT(t) ((t) == ASN_PRINTABLESTRING || (t) == ASN_UTF8STRING || (t) == ASN_IA5STRING || (t) == ASN_T61STRING)
/* a recorded string: allocation of exactly len bytes, len counts the two terminators, both are 0 */
#define STR_OK(s, l) ((s) == NULL || ((l) >= 2 && VR_ALLOC_IS(s, l) && (s)[(l) - 1] == 0 && (s)[(l) - 2] == 0))
#define NO_NUL(s, l, t) ((s) == NULL || !IS8BIT(t) || (l) < 2 || g_j >= (l) - 2 || (s)[g_j] != 0)

#define POSTS(P) \
    P(verdict_is_one_of_the_documented_codes, OK || RET == PS_PARSE_FAIL || RET == PS_LIMIT_FAIL || RET == PS_MEM_FAIL || RET == PS_UNSUPPORTED_FAIL) \
    P(ok_cursor_inside_the_input,       IMPLIES(OK, __CPROVER_same_object(g_p, g_store) && __CPROVER_POINTER_OFFSET(g_p) >= START && __CPROVER_POINTER_OFFSET(g_p) <= BUFN)) \
    P(ok_common_name_is_a_c_string,     IMPLIES(OK, STR_OK(g_dn.commonName, g_dn.commonNameLen))) \
    P(ok_country_is_a_c_string,         IMPLIES(OK, STR_OK(g_dn.country, g_dn.countryLen))) \
    P(ok_organization_is_a_c_string,    IMPLIES(OK, STR_OK(g_dn.organization, g_dn.organizationLen))) \
    P(ok_state_is_a_c_string,           IMPLIES(OK, STR_OK(g_dn.state, g_dn.stateLen))) \
    P(ok_org_unit_is_a_c_string,        IMPLIES(OK && g_dn.orgUnit != NULL, STR_OK(g_dn.orgUnit->name, g_dn.orgUnit->len))) \
    P(ok_domain_component_is_a_c_string, IMPLIES(OK && g_dn.domainComponent != NULL, STR_OK(g_dn.domainComponent->name, g_dn.domainComponent->len))) \
    P(ok_common_name_has_no_embedded_nul, IMPLIES(OK, NO_NUL(g_dn.commonName, g_dn.commonNameLen, g_dn.commonNameType))) \
    P(ok_stored_dn_is_the_input,        IMPLIES(OK && (g_in.flags & CERT_STORE_DN_BUFFER), g_dn.dnenc != NULL && g_dn.dnencLen <= g_in.len && VR_ALLOC_IS(g_dn.dnenc, g_dn.dnencLen)))

int32_t psX509GetDNAttributes(psPool_t *pool, const unsigned char **pp, psSize_t len, x509DNattributes_t *attribs, uint32_t flags)
__CPROVER_requires(pool == NULL && pp == &g_p && g_p == g_store + (BUFN - g_in.len) && len == g_in.len && len <= BUFN && attribs == &g_dn && flags == g_in.flags)
POSTS(ENSURES_CLAUSE)
CANARY_CLAUSE(__CPROVER_return_value != PS_SUCCESS || g_dn.commonName == NULL)
__CPROVER_assigns(g_p, __CPROVER_object_whole(&g_dn))
;

#include "crypto/keyformat/asn1.c"
#include "crypto/keyformat/x509.c"

#ifndef NATIVE_REPLAY
struct inputs nondet_in(void);
#endif

HARNESS_BEGIN
    HARNESS_INPUTS(struct inputs, in);
    int32_t vr_ret;
    unsigned i;
    __CPROVER_assume(in.len <= BUFN);
    g_in = in;
    g_j = in.j;
    /* the DN is the tail of the store: one byte past it is outside the object */
    for (i = 0; i < BUFN; i++) { g_store[i] = (i >= BUFN - in.len) ? in.buf[i - (BUFN - in.len)] : 0; }
    Memset(&g_dn, 0, sizeof(g_dn));    /* the callers parse into a zeroed certificate / CRL structure */
    g_p = g_store + (BUFN - in.len);
    vr_ret = psX509GetDNAttributes(NULL, &g_p, in.len, &g_dn, in.flags);
    (void) vr_ret;
    POSTS(NATIVE_CHECK)
#if defined(CANARY) && !defined(NATIVE_REPLAY)
    PLAIN_ASSERT(CANARY, vr_ret != PS_SUCCESS || g_dn.commonName == NULL)
#endif
HARNESS_END
