/*@UNIT
{
  "property": "C09",
  "unit": "asn1_copy_oid",
  "function": "asnCopyOid",
  "source": "crypto/keyformat/asn1.c",
  "mode": "proof",
  "why_proof": "the only loop runs derlen times and derlen is refused above MAX_OID_BYTES (32): unwound 36 with unwinding assertion; derlen itself is fully symbolic (64-bit), the source buffer is an allocation of exactly min(derlen, 40) bytes and the destination is exactly one psAsnOid_t",
  "unwind": 42,
  "native_replay": true,
  "object_bits": 10
}
@*/
/* C09  storing an OID taken from a certificate: for EVERY claimed length the function either
 * refuses (returns 0, stored OID zeroized) or stores tag, length and content inside the
 * 32-byte psAsnOid_t - never writing outside it, never reading outside the DER value - and
 * on success the recorded length (oid[1] + 2) lies inside the object. */
#include "verif.h"
#include "crypto/cryptoImpl.h"

struct __attribute__((packed)) inputs
{
    uint64_t derlen;
    unsigned char der[40];
};
static struct inputs g_in;
static unsigned char *g_der;      /* allocation of exactly min(derlen, 40) bytes */
static unsigned char *g_oid;      /* allocation of exactly sizeof(psAsnOid_t) bytes */
static psSizeL_t g_derlen;

#define POSTS(P) \
    P(success_records_a_length_inside_the_object, IMPLIES(RET != 0, g_oid[0] == ASN_OID && (unsigned) g_oid[1] + 2 <= sizeof(psAsnOid_t) && g_oid[1] == g_derlen)) \
    P(success_only_for_lengths_that_fit,          IMPLIES(RET != 0, g_derlen >= 1 && g_derlen + 2 <= sizeof(psAsnOid_t))) \
    P(too_long_is_refused_and_zeroized,           IMPLIES(g_derlen + 2 > sizeof(psAsnOid_t) || g_derlen < 1, RET == 0 && g_oid[0] == 0 && g_oid[1] == 0))

uint8_t asnCopyOid(const unsigned char *der, psSizeL_t derlen, psAsnOid_t oid)
__CPROVER_requires(der == g_der && derlen == g_derlen && oid == g_oid)
POSTS(ENSURES_CLAUSE)
CANARY_CLAUSE(__CPROVER_return_value == 0)
__CPROVER_assigns(__CPROVER_object_whole(g_oid))
;

#include "crypto/keyformat/asn1.c"

#ifndef NATIVE_REPLAY
struct inputs nondet_in(void);
#endif

HARNESS_BEGIN
    HARNESS_INPUTS(struct inputs, in);
    uint8_t vr_ret;
    unsigned i, n;
    g_in = in;
    g_derlen = (psSizeL_t) in.derlen;
    n = in.derlen > 40 ? 40 : (unsigned) in.derlen;
    g_der = malloc(n ? n : 1);
    g_oid = malloc(sizeof(psAsnOid_t));
    __CPROVER_assume(g_der != NULL && g_oid != NULL);
    for (i = 0; i < 40 && i < n; i++) { g_der[i] = in.der[i]; }
    vr_ret = asnCopyOid(g_der, g_derlen, g_oid);
    (void) vr_ret;
    POSTS(NATIVE_CHECK)
HARNESS_END
