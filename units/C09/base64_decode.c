/*@UNIT
{
  "property": "C09",
  "unit": "base64_decode",
  "function": "psBase64decode",
  "source": "crypto/keyformat/base64.c",
  "keep_bodies": [],
  "replace": [],
  "assumed": [],
  "mode": "bounded",
  "bounds": "every input of N bytes or fewer over the full byte alphabet, every output capacity 0..N (N = 12 quick, 20 thorough); the loop unwound N+2 with unwinding assertions; input and output are the tails of static arrays (their ends are object ends, so any access past in+len or out+*outlen is out of bounds)",
  "defs_quick": ["BUFN=12"],
  "defs_thorough": ["BUFN=20"],
  "unwind": 24,
  "native_replay": true,
  "timeout": 600
}
@*/
/* C09  psBase64decode (PEM bodies of certificates, keys, CRLs).
 *   - reads only in[0..len), writes only out[0..*outlen)  (buffers end where
 *     their objects end; a heap object of symbolic size ran out of 10 GB here)
 *   - success  =>  the new *outlen is at most the capacity and at most 3*len/4
 *   - failure  =>  *outlen untouched
 */
#include "verif.h"
#include "crypto/cryptoImpl.h"
#ifndef BUFN
# define BUFN 12
#endif

static struct bst { psSize_t outlen; } g;
static unsigned char g_store[BUFN], g_ostore[BUFN];
static const unsigned char *g_in;
static unsigned char *g_out;
static psSize_t g_len, g_cap;

#define POSTS(P) \
    P(ret_is_success_or_error_code, RET == PS_SUCCESS || RET == PS_LIMIT_FAIL || RET == PS_PARSE_FAIL) \
    P(success_length_within_capacity, IMPLIES(RET == PS_SUCCESS, g.outlen <= g_cap)) \
    P(success_length_within_input,  IMPLIES(RET == PS_SUCCESS, (unsigned) g.outlen * 4 <= (unsigned) g_len * 3)) \
    P(failure_leaves_outlen,        IMPLIES(RET < 0, g.outlen == OLD(g, outlen)))

int32_t psBase64decode(const unsigned char *in, psSize_t len, unsigned char *out, psSize_t *outlen)
__CPROVER_requires(in == g_in && len == g_len && out == g_out && outlen == &g.outlen && g.outlen == g_cap)
POSTS(ENSURES_CLAUSE)
CANARY_CLAUSE(!(__CPROVER_return_value == PS_SUCCESS && g.outlen >= 4))
__CPROVER_assigns(g.outlen, __CPROVER_object_whole(g_ostore))
;

#include "crypto/keyformat/base64.c"

struct __attribute__((packed)) inputs
{
    uint16_t len;
    uint16_t cap;
    unsigned char bytes[BUFN];
};
#ifndef NATIVE_REPLAY
struct inputs nondet_in(void);
#endif
DECL_SNAPSHOT(struct bst, g);

HARNESS_BEGIN
    HARNESS_INPUTS(struct inputs, in);
    int32_t vr_ret;
    unsigned i;
    /* input domain: len <= BUFN input bytes, an output buffer of cap <= BUFN bytes */
    __CPROVER_assume(in.len <= BUFN && in.cap <= BUFN);
    for (i = 0; i < BUFN; i++) { g_store[i] = in.bytes[i]; }
    g_len = in.len; g_cap = in.cap;
    g_in = g_store + (BUFN - g_len);
    g_out = g_ostore + (BUFN - g_cap);
    g.outlen = g_cap;
    SNAPSHOT(g);
    vr_ret = psBase64decode(g_in, g_len, g_out, &g.outlen);
    (void) vr_ret;
    POSTS(NATIVE_CHECK)
HARNESS_END
