/*@UNIT
{
  "property": "C09",
  "unit": "asn1_length",
  "function": "getAsnLength",
  "source": "crypto/keyformat/asn1.c",
  "keep_bodies": ["getAsnLength32"],
  "replace": [],
  "assumed": [],
  "mode": "proof",
  "why_proof": "loop-free; the input is a heap object of exactly buflen bytes, buflen symbolic in [0, 128 KiB] (every psSize_t size and the range above 65535), so any read outside [*pp, *pp+size) is a pointer-check failure",
  "native_replay": true,
  "timeout": 300
}
@*/
/* C09.U2  getAsnLength: the 16-bit front end of getAsnLength32 used by most
 * of x509.c / pkcs.c.  Same contract as U1 (definite form only), with the
 * result in a psSize_t.  "The returned length equals the DER length" is the
 * internal-consistency clause of the property: a parser that is told 0x0005
 * for a value of 0x10005 bytes continues in the middle of that value.
 * EXPECTED TO FAIL on the unchanged tree (F14: `len32 & 0xFFFF`).
 */
#include "verif.h"
#include "crypto/cryptoImpl.h"
#define MAXBUF 0x20000u
#define HN 6
#include "asn1_harness.h"

#define POSTS(P) \
    P(ret_is_success_or_error_code,    RET == PS_SUCCESS || RET == PS_LIMIT_FAIL) \
    P(success_cursor_inside,           IMPLIES(RET == PS_SUCCESS, CUR > g_off && CUR <= END)) \
    P(success_cursor_after_header,     IMPLIES(RET == PS_SUCCESS, WELLFORMED_AT(0) && CUR == g_off + HDRLEN_AT(0))) \
    P(success_length_is_der_length,    IMPLIES(RET == PS_SUCCESS, (uint32_t) g.len16 == DERLEN_AT(0))) \
    P(success_value_inside_buffer,     IMPLIES(RET == PS_SUCCESS, (uint64_t) CUR + g.len16 <= (uint64_t) END)) \
    P(failure_leaves_cursor,           IMPLIES(RET < 0, g.p == OLD(g, p))) \
    P(wellformed_fitting_16bit_is_accepted, IMPLIES(WELLFORMED_AT(0) && DERLEN_AT(0) <= 0xFFFF && (uint64_t) DERLEN_AT(0) <= g_size - HDRLEN_AT(0), RET == PS_SUCCESS))

int32_t getAsnLength(const unsigned char **pp, psSizeL_t size, psSize_t *len)
__CPROVER_requires(pp == &g.p && len == &g.len16 && size == g_size)
__CPROVER_requires(g.p == g_buf + g_off)
POSTS(ENSURES_CLAUSE)
CANARY_CLAUSE(__CPROVER_return_value != PS_SUCCESS)
__CPROVER_assigns(g.p, g.len16)
;

#include "crypto/keyformat/asn1.c"

HARNESS_BEGIN
    HARNESS_INPUTS(struct inputs, in);
    int32_t vr_ret;
    ASN1_HARNESS_SETUP(in);
    SNAPSHOT(g);
    vr_ret = getAsnLength(&g.p, g_size, &g.len16);
    (void) vr_ret;
    POSTS(NATIVE_CHECK)
HARNESS_END
