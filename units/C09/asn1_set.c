/*@UNIT
{
  "property": "C09",
  "unit": "asn1_set",
  "function": "getAsnSet",
  "source": "crypto/keyformat/asn1.c",
  "keep_bodies": ["getAsnSet32", "getAsnLength32"],
  "replace": [],
  "assumed": [],
  "mode": "proof",
  "why_proof": "loop-free; the input is a heap object of exactly buflen bytes, buflen symbolic in [0, 128 KiB] (every psSize_t size and the range above 65535), so any read outside [*pp, *pp+size) is a pointer-check failure",
  "native_replay": true,
  "timeout": 300
}
@*/
/* C09  getAsnSet: tag 0x31 (SET, constructed) followed by DER length octets.
 *   success  =>  tag and length octets well-formed, cursor just behind them and
 *                in (old, old+size], returned length == DER length, and (definite
 *                mode) the content lies inside the buffer;
 *   failure  =>  cursor untouched;  reads only inside [*pp, *pp+size).
 * 16-bit front end: the length clause is EXPECTED TO FAIL above 65535 (F14).
 */
#include "verif.h"
#include "crypto/cryptoImpl.h"
#define MAXBUF 0x20000u
#define HN 7
#include "asn1_harness.h"

#define POSTS(P) \
    P(ret_is_success_or_error_code,    RET == PS_SUCCESS || RET == PS_LIMIT_FAIL || RET == PS_PARSE_FAIL) \
    P(success_cursor_inside,           IMPLIES(RET >= 0, CUR > g_off && CUR <= END)) \
    P(success_tag_and_header,          IMPLIES(RET == PS_SUCCESS, g_h[0] == 0x31 && WELLFORMED_AT(1) && CUR == g_off + 1 + HDRLEN_AT(1))) \
    P(success_length_is_der_length,    IMPLIES(RET == PS_SUCCESS, (uint32_t) g.len16 == DERLEN_AT(1))) \
    P(success_content_inside_buffer,   IMPLIES(RET == PS_SUCCESS, (uint64_t) CUR + g.len16 <= (uint64_t) END)) \
    P(failure_leaves_cursor,           IMPLIES(RET < 0, g.p == OLD(g, p))) \
    P(wellformed_fitting_16bit_is_accepted, IMPLIES(g_h[0] == 0x31 && WELLFORMED_AT(1) && DERLEN_AT(1) <= 0xFFFF && (uint64_t) DERLEN_AT(1) <= g_size - 1 - HDRLEN_AT(1), RET == PS_SUCCESS))

int32_t getAsnSet(const unsigned char **pp, psSizeL_t size, psSize_t *len)
__CPROVER_requires(pp == &g.p && len == &g.len16 && size == g_size)
__CPROVER_requires(g.p == g_buf + g_off)
POSTS(ENSURES_CLAUSE)
CANARY_CLAUSE(__CPROVER_return_value != PS_SUCCESS)
__CPROVER_assigns(g.p, g.len16)
;

#include "crypto/keyformat/asn1.c"

HARNESS_BEGIN
    HARNESS_INPUTS(struct inputs, in);
    int32_t vr_ret;
    ASN1_HARNESS_SETUP(in);
    SNAPSHOT(g);
    vr_ret = getAsnSet(&g.p, g_size, &g.len16);
    (void) vr_ret;
    POSTS(NATIVE_CHECK)
HARNESS_END
