/*@UNIT
{
 "property": "C09",
 "unit": "general_names",
 "function": "parseGeneralNames",
 "source": "crypto/keyformat/x509.c",
 "keep_bodies": [
  "getAsnLength",
  "getAsnLength32",
  "x509FreeExtensions (called by the harness to free the result)"
 ],
 "replace": [],
 "assumed": [
  "Strncpy (model: havocs dst[0..n) - the 16-byte display label `name` of an entry is not part of any clause; the bound n = sizeof(name)-1 is still checked against the object)"
 ],
 "mode": "bounded",
 "bounds": "every GeneralNames content of N bytes or fewer inside an extension of N bytes or fewer, every content, every `limit` (N = 10 in both tiers: up to 3 entries; symbolic execution of the allocation-heavy loop grows steeply - 7 unwindings took 210 s of symex alone, 4 take 15 s); loops unwound to N+2 bytes / N/3+2 entries with unwinding assertions; malloc may fail at every call; over-reads decided by object bounds (buffer = tail of a static array)",
 "defs_quick": [
  "BUFN=10"
 ],
 "defs_thorough": [
  "BUFN=10"
 ],
 "unwind": 12,
 "unwindset": [
  "parseGeneralNames_wrapped_for_contract_checking.0:4",
  "parseGeneralNames_wrapped_for_contract_checking.1:11",
  "parseGeneralNames_wrapped_for_contract_checking.2:4",
  "x509FreeExtensions.0:5"
 ],
 "object_bits": 8,
 "malloc_may_fail": true,
 "leak_check": true,
 "native_replay": true,
 "timeout": 300,
 "properties": [
  "C19"
 ]
}
@*/
/* C09.U / C05.U4   parseGeneralNames (subjectAltName, issuerAltName, name constraints ...).
 *
 * The list it produces is what the expected-name check (C05) reads with
 * strlen/strcasecmp and what the API hands to the application as C strings.
 * For EVERY entry of the list after a successful return (ghost index g_k) and
 * every byte of it (ghost index g_j):
 *   - data is present and data[dataLen] == 0            (terminated)
 *   - dataLen == wire length, minus one if and only if THIS entry is an
 *     IA5String name (rfc822Name, dNSName, URI) whose last wire byte is NUL
 *   - data[0..dataLen) == the wire bytes
 *   - no byte outside 0x20..0x7e in rfc822Name / dNSName / URI (no embedded NUL)
 *   - id == low nibble of the tag;  iPAddress has at least 4 bytes
 * plus: cursor stays inside [buf, buf+len]; no memory error with malloc
 * failing anywhere; nothing leaks once the harness has released the list with
 * the library's own x509FreeExtensions (also after an error return).
 * The wire position of entry k is computed by an independent walk over the
 * buffer (spec_walk); it only speaks about lists without otherName entries
 * before k (otherName has a nested layout; for those entries termination and
 * printability are still checked, position is not).
 */
#include "verif.h"
#include "crypto/cryptoImpl.h"
#ifndef BUFN
# define BUFN 10
#endif
#define KMAX (BUFN / 3 + 1)

/* Strncpy is an #ifndef-guarded macro of osdep_string.h ("may be overridden").
   cbmc's strncpy model is a byte loop; ten switch arms times every entry made
   symbolic execution alone take minutes.  The label it fills is in no clause. */
#ifndef NATIVE_REPLAY
static char *vr_strncpy(char *d, const char *s, size_t n)
{
    (void) s;
    __CPROVER_havoc_slice(d, n);
    return d;
}
# define Strncpy vr_strncpy
#endif

static struct gst { const unsigned char *p; x509GeneralName_t *name; } g;
static unsigned char g_store[BUFN];
static const unsigned char *g_buf;     /* start of the GeneralNames content = tail of g_store */
static size_t g_size;                  /* bytes up to the end of the extension (extEnd - buf) */
static uint16_t g_len;                 /* length of the GeneralNames content */
static int16_t g_limit;
static unsigned g_k, g_j;              /* ghost indices: entry number, byte number */

/* ---- spec side ------------------------------------------------------- */
static x509GeneralName_t *entry_at(unsigned k)
{
    x509GeneralName_t *e = g.name;
    unsigned i;
    for (i = 0; i < KMAX && e != NULL; i++)
    {
        if (i == k) { return e; }
        e = e->next;
    }
    return NULL;
}
/* position of the content of the k-th GeneralName if entries 0..k are plain  tag, length, content */
static int spec_walk(unsigned k, size_t *tagpos, size_t *start, size_t *wlen)
{
    size_t pos = 0, hl, l, n;
    unsigned i;
    for (i = 0; i < KMAX; i++)
    {
        if (pos + 3 > g_len) { return 0; }
        if ((g_buf[pos] & 0xF) == GN_OTHER) { return 0; }
        if (g_buf[pos + 1] & 0x80)
        {
            n = g_buf[pos + 1] & 0x7f;
            if (n != 1 || pos + 3 > g_size) { return 0; }     /* BUFN < 128: longer forms cannot fit */
            hl = 2; l = g_buf[pos + 2];
        }
        else
        {
            hl = 1; l = g_buf[pos + 1];
        }
        if (pos + 1 + hl + l > g_len) { return 0; }
        if (i == k) { *tagpos = pos; *start = pos + 1 + hl; *wlen = l; return 1; }
        pos += 1 + hl + l;
    }
    return 0;
}
#define IS_IA5(id) ((id) == GN_EMAIL || (id) == GN_DNS || (id) == GN_URI)
static int entry_matches_wire(void)     /* length and content clause for entry g_k, byte g_j */
{
    x509GeneralName_t *e = entry_at(g_k);
    size_t tagpos, start, wlen, want;
    if (e == NULL || e->data == NULL || !spec_walk(g_k, &tagpos, &start, &wlen)) { return 1; }
    if (e->id != (x509GeneralNameType_t) (g_buf[tagpos] & 0xF)) { return 0; }
    want = wlen;
    if (IS_IA5(e->id) && wlen >= 1 && g_buf[start + wlen - 1] == 0) { want = wlen - 1; }
    if (e->dataLen != want) { return 0; }
    if (g_j < want && e->data[g_j] != g_buf[start + g_j]) { return 0; }
    return 1;
}
static int entry_terminated(void)
{
    x509GeneralName_t *e = entry_at(g_k);
    return e == NULL || (e->data != NULL && e->data[e->dataLen] == 0);
}
static int entry_printable(void)
{
    x509GeneralName_t *e = entry_at(g_k);
    if (e == NULL || e->data == NULL || !IS_IA5(e->id) || g_j >= e->dataLen) { return 1; }
    return e->data[g_j] >= 0x20 && e->data[g_j] <= 0x7e;
}
static int entry_ip_ok(void)
{
    x509GeneralName_t *e = entry_at(g_k);
    return e == NULL || e->id != GN_IP || e->dataLen >= 4;
}
#define CUR ((size_t) (g.p - g_buf))

#define POSTS(P) \
    P(ret_is_success_or_error_code,   RET == PS_SUCCESS || RET == PS_PARSE_FAIL || RET == PS_MEM_FAIL || RET == PS_FAILURE) \
    P(success_cursor_inside,          IMPLIES(RET == PS_SUCCESS, CUR <= g_len)) \
    P(every_entry_is_terminated,      IMPLIES(RET == PS_SUCCESS, entry_terminated())) \
    P(every_entry_matches_its_wire_bytes, IMPLIES(RET == PS_SUCCESS, entry_matches_wire())) \
    P(names_are_printable_no_embedded_nul, IMPLIES(RET == PS_SUCCESS, entry_printable())) \
    P(ip_entries_have_4_bytes,        IMPLIES(RET == PS_SUCCESS, entry_ip_ok())) \
    P(failure_leaves_cursor,          IMPLIES(RET < 0, g.p == OLD(g, p)))

static int32_t parseGeneralNames(psPool_t *pool, const unsigned char **buf, psSize_t len,
    const unsigned char *extEnd, x509GeneralName_t **name, int16_t limit)
__CPROVER_requires(pool == NULL && buf == &g.p && len == g_len && extEnd == g_buf + g_size && name == &g.name && limit == g_limit)
__CPROVER_requires(g.p == g_buf && g.name == NULL && g_len <= g_size)
POSTS(ENSURES_CLAUSE)
CANARY_CLAUSE(!(__CPROVER_return_value == PS_SUCCESS && g.name != NULL && g.name->next != NULL))
__CPROVER_assigns(g.p, g.name)
;

#include "crypto/keyformat/asn1.c"
#include "crypto/keyformat/x509.c"

struct __attribute__((packed)) inputs
{
    uint16_t buflen;
    uint16_t len;
    int16_t limit;
    uint16_t k, j;
    unsigned char bytes[BUFN];
};
#ifndef NATIVE_REPLAY
struct inputs nondet_in(void);
#endif
DECL_SNAPSHOT(struct gst, g);
static x509v3extensions_t g_ext;        /* only used to release the result through the library's own code */

HARNESS_BEGIN
    HARNESS_INPUTS(struct inputs, in);
    int32_t vr_ret;
    size_t i;
    /* input domain: an extension body of buflen <= BUFN bytes, the GeneralNames
       SEQUENCE content of len <= buflen bytes at its start (the callers take len
       from getAsnSequence(&p, extEnd - p, &len), x509.c:4293, 4830) */
    __CPROVER_assume(in.buflen <= BUFN && in.len <= in.buflen);
    for (i = 0; i < BUFN; i++) { g_store[i] = in.bytes[i]; }
    g_buf = g_store + (BUFN - in.buflen);
    g_size = in.buflen; g_len = in.len; g_limit = in.limit; g_k = in.k; g_j = in.j;
    g.p = g_buf; g.name = NULL;
    SNAPSHOT(g);
    vr_ret = parseGeneralNames(NULL, &g.p, g_len, g_buf + g_size, &g.name, g_limit);
    (void) vr_ret;
    POSTS(NATIVE_CHECK)
    /* "no leak after the result is freed": release it the way psX509FreeCert does */
    Memset(&g_ext, 0, sizeof(g_ext));   /* DFCC havocs statics: every other list of the extension record is empty */
    g_ext.refCount = 1;
    g_ext.san = g.name;
    x509FreeExtensions(&g_ext);
HARNESS_END
