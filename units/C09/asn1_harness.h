/* Shared harness of the C09 asn1.c units (not a unit: no UNIT header, not a .c file).
 *
 * The input is a HEAP object of exactly `buflen` bytes (symbolic, <= MAXBUF);
 * the cursor is at its start and `size` is the whole object (a symbolic
 * cursor offset was tried: it adds nothing to what the pointer checks can
 * see - the functions only know pointer and size - and made the two units with
 * loops 20 times slower through symbolic-index writes in the setup).
 * So "reads only inside [*pp, *pp+size)" is decided by cbmc's pointer checks (and by ASan in the native replay): any access at or past
 * buf+buflen is an out-of-object access.
 *
 * The first HN bytes at the cursor come from the input record (in.h), the rest
 * of a larger buffer is left uninitialised: units with MAXBUF > HN are the
 * loop-free header parsers, which must never look at it.
 *
 * The unit defines MAXBUF and HN before including this file.
 */
#ifndef ASN1_HARNESS_H
#define ASN1_HARNESS_H

static struct st
{
    const unsigned char *p;     /* the cursor *pp */
    uint32_t len32;
    uint16_t len16;
    int32_t val;
    int32_t oi;
    uint16_t plen;
} g;
static unsigned char *g_buf;
#if MAXBUF <= 4096
static unsigned char g_store[MAXBUF];    /* only used by ASN1_HARNESS_SETUP_TAIL */
#endif
static size_t g_off, g_size;
static uint32_t g_indef;
static unsigned char g_h[HN];   /* copy of the bytes at the cursor (0 beyond size) */

#define CUR ((size_t) (g.p - g_buf))
#define END (g_off + g_size)

/* X.690 8.1.3 length octets starting at byte B of the cursor (spec side) */
#define LONGFORM_AT(B) ((g_h[B] & 0x80) != 0)
#define NLEN_AT(B)     ((size_t) (g_h[B] & 0x7f))
#define HDRLEN_AT(B)   (LONGFORM_AT(B) ? 1 + NLEN_AT(B) : (size_t) 1)
#define DERLEN_AT(B)   (!LONGFORM_AT(B) ? (uint32_t) g_h[B] : \
                        NLEN_AT(B) == 1 ? (uint32_t) g_h[(B) + 1] : \
                        NLEN_AT(B) == 2 ? (((uint32_t) g_h[(B) + 1] << 8) | g_h[(B) + 2]) : \
                        NLEN_AT(B) == 3 ? (((uint32_t) g_h[(B) + 1] << 16) | ((uint32_t) g_h[(B) + 2] << 8) | g_h[(B) + 3]) : \
                        (((uint32_t) g_h[(B) + 1] << 24) | ((uint32_t) g_h[(B) + 2] << 16) | ((uint32_t) g_h[(B) + 3] << 8) | g_h[(B) + 4]))
/* definite form, 1..4 length octets, all of them present in [cursor, cursor+size) */
#define WELLFORMED_AT(B) (g_size >= (size_t) (B) + 1 && (!LONGFORM_AT(B) || (NLEN_AT(B) >= 1 && NLEN_AT(B) <= 4)) && g_size >= (B) + HDRLEN_AT(B))

struct __attribute__((packed)) inputs
{
    uint64_t buflen;
    uint32_t indefinite;
    uint32_t pre32;             /* initial content of the out parameters */
    unsigned char flag;
    unsigned char h[HN];
};
#ifndef NATIVE_REPLAY
struct inputs nondet_in(void);
/* Variant for the BOUNDED units (loops over the content): the buffer is the
 * TAIL of a static array of MAXBUF bytes, [g_store + MAXBUF - buflen, g_store + MAXBUF),
 * so its end is the end of the object and every over-read is an out-of-object
 * access.  (A heap object of symbolic size decides reads on BOTH sides but
 * costs 2-6 million SAT variables in the units with loops - measured 250 s
 * for getAsnOID against 10-20 s this way; reads BEFORE the cursor are therefore
 * only caught by the heap-object units of the same functions' callees and by
 * the native ASan replay.)  in.h is the content of the whole static array. */
#define ASN1_HARNESS_SETUP_TAIL(in) \
    { size_t i_; \
      /* input domain: the caller owns a buffer of buflen <= MAXBUF bytes */ \
      __CPROVER_assume((in).buflen <= MAXBUF); \
      for (i_ = 0; i_ < MAXBUF; i_++) { g_store[i_] = (in).h[i_]; } \
      g_buf = g_store + (MAXBUF - (in).buflen); \
      g_off = 0; g_size = (in).buflen; g_indef = (in).indefinite; \
      for (i_ = 0; i_ < HN; i_++) { g_h[i_] = (i_ < g_size) ? g_buf[i_] : 0; } \
      g.p = g_buf; g.len32 = (in).pre32; g.len16 = (uint16_t) (in).pre32; g.val = (int32_t) (in).pre32; \
      g.oi = (int32_t) (in).pre32; g.plen = (uint16_t) (in).pre32; }

#endif
DECL_SNAPSHOT(struct st, g);

#define ASN1_HARNESS_SETUP(in) \
    { size_t i_; \
      /* input domain: the caller owns a buffer of buflen bytes */ \
      __CPROVER_assume((in).buflen <= MAXBUF); \
      g_buf = malloc((in).buflen); \
      /* the harness' own allocation of the input succeeded (not a path of the unit) */ \
      __CPROVER_assume(g_buf != NULL); \
      g_off = 0; g_size = (in).buflen; g_indef = (in).indefinite; \
      for (i_ = 0; i_ < HN; i_++) { g_h[i_] = 0; if (i_ < g_size) { g_buf[g_off + i_] = (in).h[i_]; g_h[i_] = (in).h[i_]; } } \
      g.p = g_buf + g_off; g.len32 = (in).pre32; g.len16 = (uint16_t) (in).pre32; g.val = (int32_t) (in).pre32; \
      g.oi = (int32_t) (in).pre32; g.plen = (uint16_t) (in).pre32; }

/* Variant for the BOUNDED units (loops over the content): the buffer is the
 * TAIL of a static array of MAXBUF bytes, [g_store + MAXBUF - buflen, g_store + MAXBUF),
 * so its end is the end of the object and every over-read is an out-of-object
 * access.  (A heap object of symbolic size decides reads on BOTH sides but
 * costs 2-6 million SAT variables in the units with loops - measured 250 s
 * for getAsnOID against 10-20 s this way; reads BEFORE the cursor are therefore
 * only caught by the heap-object units of the same functions' callees and by
 * the native ASan replay.)  in.h is the content of the whole static array. */
#define ASN1_HARNESS_SETUP_TAIL(in) \
    { size_t i_; \
      /* input domain: the caller owns a buffer of buflen <= MAXBUF bytes */ \
      __CPROVER_assume((in).buflen <= MAXBUF); \
      for (i_ = 0; i_ < MAXBUF; i_++) { g_store[i_] = (in).h[i_]; } \
      g_buf = g_store + (MAXBUF - (in).buflen); \
      g_off = 0; g_size = (in).buflen; g_indef = (in).indefinite; \
      for (i_ = 0; i_ < HN; i_++) { g_h[i_] = (i_ < g_size) ? g_buf[i_] : 0; } \
      g.p = g_buf; g.len32 = (in).pre32; g.len16 = (uint16_t) (in).pre32; g.val = (int32_t) (in).pre32; \
      g.oi = (int32_t) (in).pre32; g.plen = (uint16_t) (in).pre32; }

#endif
