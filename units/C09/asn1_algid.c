/*@UNIT
{
  "property": "C09",
  "unit": "asn1_algid",
  "function": "getAsnAlgorithmIdentifier",
  "source": "crypto/keyformat/asn1.c",
  "keep_bodies": ["getAsnSequence32", "getAsnOID", "getAsnLength32", "checkAsnOidDatabase"],
  "replace": [],
  "assumed": [],
  "mode": "bounded",
  "bounds": "every buffer of N bytes or fewer, every content (N = 24 quick, 32 thorough; 48 did not finish in 600 s); loops unwound 50 with unwinding assertions; over-reads decided by object bounds (buffer = tail of a static array), reads before the cursor only by the native replay",
  "defs_quick": ["BUFN=24"],
  "defs_thorough": ["BUFN=32"],
  "unwind": 50,
  "unwindset": ["checkAsnOidDatabase.0:6", "memcmp.0:16"],
  "native_replay": true,
  "timeout": 600
}
@*/
/* C09  getAsnAlgorithmIdentifier:  SEQUENCE { OID, parameters ANY OPTIONAL }.
 *   success  =>  the SEQUENCE header is well-formed and its content lies inside
 *                the buffer; the cursor is behind the OID (and a skipped NULL),
 *                in (old, old+size]; cursor + *paramLen is exactly the end of
 *                the SEQUENCE - the recorded parameter length lies inside the
 *                buffer;
 *   any outcome => the cursor stays inside [old, old+size];
 *   reads only inside [*pp, *pp+size).
 * NOT claimed: "failure leaves the cursor" - the function stores the cursor
 * after the SEQUENCE header even when the OID is refused (asn1.c:422-424);
 * neither asn1.h nor the property promise otherwise, callers abandon the parse.
 */
#include "verif.h"
#include "crypto/cryptoImpl.h"
#ifndef BUFN
# define BUFN 24
#endif
#define MAXBUF BUFN
#define HN BUFN
#include "asn1_harness.h"

#define SEQHDR (1 + HDRLEN_AT(1))
#define SEQLEN DERLEN_AT(1)
#define SEQEND (g_off + SEQHDR + SEQLEN)

#define POSTS(P) \
    P(ret_is_success_or_error_code,  RET == PS_SUCCESS || RET == PS_LIMIT_FAIL || RET == PS_PARSE_FAIL) \
    P(cursor_always_inside,          CUR >= g_off && CUR <= END) \
    P(success_sequence_wellformed_inside, IMPLIES(RET == PS_SUCCESS, g_h[0] == (ASN_SEQUENCE | ASN_CONSTRUCTED) && WELLFORMED_AT(1) && SEQEND <= END)) \
    P(success_cursor_inside_sequence, IMPLIES(RET == PS_SUCCESS, CUR >= g_off + SEQHDR + 2 && CUR <= SEQEND)) \
    P(success_paramlen_ends_at_sequence_end, IMPLIES(RET == PS_SUCCESS, CUR + g.plen == SEQEND))

int32_t getAsnAlgorithmIdentifier(const unsigned char **pp, psSizeL_t size, int32_t *oi, psSize_t *paramLen)
__CPROVER_requires(pp == &g.p && oi == &g.oi && paramLen == &g.plen && size == g_size)
__CPROVER_requires(g.p == g_buf + g_off)
POSTS(ENSURES_CLAUSE)
CANARY_CLAUSE(__CPROVER_return_value != PS_SUCCESS || g.oi != OID_SHA256_RSA_SIG || g.plen != 0)
__CPROVER_assigns(g.p, g.oi, g.plen)
;

#include "crypto/keyformat/asn1.c"

HARNESS_BEGIN
    HARNESS_INPUTS(struct inputs, in);
    int32_t vr_ret;
    ASN1_HARNESS_SETUP_TAIL(in);
    SNAPSHOT(g);
    vr_ret = getAsnAlgorithmIdentifier(&g.p, g_size, &g.oi, &g.plen);
    (void) vr_ret;
    POSTS(NATIVE_CHECK)
HARNESS_END
