/*@UNIT
{
  "property": "C09",
  "unit": "asn1_length32",
  "function": "getAsnLength32",
  "source": "crypto/keyformat/asn1.c",
  "keep_bodies": [],
  "replace": [],
  "assumed": [],
  "mode": "proof",
  "why_proof": "loop-free; the input is a heap object of exactly buflen bytes, buflen symbolic in [0, 128 KiB] (every psSize_t size and the range above 65535), so any read outside [*pp, *pp+size) is a pointer-check failure",
  "native_replay": true,
  "timeout": 300
}
@*/
/* C09.U1  DER length octets (X.690 8.1.3), the primitive under every other parser.
 *
 * Contract (what the higher parsers rely on):
 *   success  =>  the cursor moved past exactly the length octets and stays in
 *                (old, old+size]; the returned length is the DER length and
 *                (definite mode) the value lies inside the buffer;
 *   failure  =>  cursor untouched (the code guarantees it: *pp is written only
 *                on the two non-error returns);
 *   reads only inside [*pp, *pp+size)  (heap buffer of exactly that extent).
 * indefinite != 0 is the stream-parser mode: by the function's own comment the
 * value need not be present, so "value inside the buffer" is claimed for
 * indefinite == 0 only.
 */
#include "verif.h"
#include "crypto/cryptoImpl.h"
#define MAXBUF 0x20000u
#define HN 6
#include "asn1_harness.h"

#define POSTS(P) \
    P(ret_is_success_or_error_code,    RET == PS_SUCCESS || RET == PS_LIMIT_FAIL || (RET == ASN_UNKNOWN_LEN && g_indef != 0)) \
    P(success_cursor_inside,           IMPLIES(RET == PS_SUCCESS, CUR > g_off && CUR <= END)) \
    P(success_cursor_after_header,     IMPLIES(RET == PS_SUCCESS, WELLFORMED_AT(0) && CUR == g_off + HDRLEN_AT(0))) \
    P(success_length_is_der_length,    IMPLIES(RET == PS_SUCCESS, g.len32 == DERLEN_AT(0))) \
    P(success_value_inside_buffer,     IMPLIES(RET == PS_SUCCESS && g_indef == 0, (uint64_t) CUR + g.len32 <= (uint64_t) END)) \
    P(failure_leaves_cursor,           IMPLIES(RET < 0, g.p == OLD(g, p))) \
    P(indefinite_form_only_on_request, IMPLIES(RET == ASN_UNKNOWN_LEN, g_h[0] == 0x80 && CUR == g_off + 1)) \
    P(wellformed_fitting_is_accepted,  IMPLIES(g_indef == 0 && WELLFORMED_AT(0) && (uint64_t) DERLEN_AT(0) <= g_size - HDRLEN_AT(0), RET == PS_SUCCESS))

int32_t getAsnLength32(const unsigned char **pp, psSizeL_t size, psSize32_t *len, uint32_t indefinite)
__CPROVER_requires(pp == &g.p && len == &g.len32 && size == g_size && indefinite == g_indef)
__CPROVER_requires(g.p == g_buf + g_off)
POSTS(ENSURES_CLAUSE)
CANARY_CLAUSE(__CPROVER_return_value != PS_SUCCESS)
__CPROVER_assigns(g.p, g.len32)
;

#include "crypto/keyformat/asn1.c"

HARNESS_BEGIN
    HARNESS_INPUTS(struct inputs, in);
    int32_t vr_ret;
    ASN1_HARNESS_SETUP(in);
    SNAPSHOT(g);
    vr_ret = getAsnLength32(&g.p, g_size, &g.len32, g_indef);
    (void) vr_ret;
    POSTS(NATIVE_CHECK)
HARNESS_END
