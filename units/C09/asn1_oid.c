/*@UNIT
{
  "property": "C09",
  "unit": "asn1_oid",
  "function": "getAsnOID",
  "source": "crypto/keyformat/asn1.c",
  "keep_bodies": ["getAsnLength32", "checkAsnOidDatabase"],
  "replace": [],
  "assumed": [],
  "mode": "bounded",
  "bounds": "every buffer of N bytes or fewer, every content (N = 24 quick, 48 thorough); loops unwound 50 with unwinding assertions; over-reads decided by object bounds (buffer = tail of a static array), reads before the cursor only by the native replay",
  "defs_quick": ["BUFN=24"],
  "defs_thorough": ["BUFN=48"],
  "unwind": 50,
  "unwindset": ["checkAsnOidDatabase.0:6", "memcmp.0:16"],
  "native_replay": true,
  "timeout": 600
}
@*/
/* C09  getAsnOID: OBJECT IDENTIFIER TLV, summed into the implementation's `oi`
 * number and looked up in the OID database; optionally (checkForParams) tells
 * how many bytes of AlgorithmIdentifier parameters follow and skips a NULL.
 *   success  =>  tag/length well-formed, the OID content lies inside the
 *                buffer, the cursor is behind it (plus 2 if a NULL was
 *                skipped) and in (old, old+size];  cursor + *paramLen never
 *                passes the end of the buffer ("recorded length inside");
 *                a database hit really is that OID (checked for two ids);
 *   failure  =>  cursor untouched;   reads only inside [*pp, *pp+size).
 */
#include "verif.h"
#include "crypto/cryptoImpl.h"
#ifndef BUFN
# define BUFN 24
#endif
#define MAXBUF BUFN
#define HN BUFN
#include "asn1_harness.h"

static uint8_t g_check;
#define TL   (1 + HDRLEN_AT(1))
#define ARC  DERLEN_AT(1)
#define OIDEND (g_off + TL + ARC)
static int oid_is(const char *hex)    /* spec: the OID content equals the database string (tag, length, content) */
{
    size_t i;
    if (ARC != (unsigned char) hex[1] || TL + ARC > HN) { return 0; }
    for (i = 0; i < ARC; i++) { if (g_h[TL + i] != (unsigned char) hex[2 + i]) { return 0; } }
    return 1;
}

#define POSTS(P) \
    P(ret_is_success_or_error_code,  RET == PS_SUCCESS || RET == PS_LIMIT_FAIL || RET == PS_PARSE_FAIL) \
    P(success_tlv_wellformed_inside, IMPLIES(RET == PS_SUCCESS, g_h[0] == ASN_OID && WELLFORMED_AT(1) && TL + ARC <= g_size)) \
    P(success_cursor_inside,         IMPLIES(RET == PS_SUCCESS, CUR > g_off && CUR <= END)) \
    P(success_cursor_after_oid,      IMPLIES(RET == PS_SUCCESS, CUR == OIDEND || (g_check != 0 && CUR == OIDEND + 2 && g_h[TL + ARC] == ASN_NULL))) \
    P(success_paramlen_inside_buffer, IMPLIES(RET == PS_SUCCESS, CUR + g.plen <= END)) \
    P(success_paramlen_is_the_rest,  IMPLIES(RET == PS_SUCCESS, g.plen == (g_check != 0 ? END - CUR : 0))) \
    P(sha256_hit_is_sha256,          IMPLIES(RET == PS_SUCCESS && g.oi == OID_SHA256_ALG, oid_is(OID_SHA256_ALG_HEX))) \
    P(sha256rsa_hit_is_sha256rsa,    IMPLIES(RET == PS_SUCCESS && g.oi == OID_SHA256_RSA_SIG, oid_is(OID_SHA256_RSA_SIG_HEX))) \
    P(failure_leaves_cursor,         IMPLIES(RET < 0, g.p == OLD(g, p)))

int32_t getAsnOID(const unsigned char **pp, psSizeL_t size, int32_t *oi, uint8_t checkForParams, psSize_t *paramLen)
__CPROVER_requires(pp == &g.p && oi == &g.oi && paramLen == &g.plen && size == g_size && checkForParams == g_check)
__CPROVER_requires(g.p == g_buf + g_off)
POSTS(ENSURES_CLAUSE)
CANARY_CLAUSE(__CPROVER_return_value != PS_SUCCESS || g.oi != OID_SHA256_RSA_SIG)
__CPROVER_assigns(g.p, g.oi, g.plen)
;

#include "crypto/keyformat/asn1.c"

HARNESS_BEGIN
    HARNESS_INPUTS(struct inputs, in);
    int32_t vr_ret;
    ASN1_HARNESS_SETUP_TAIL(in);
    g_check = in.flag;
    SNAPSHOT(g);
    vr_ret = getAsnOID(&g.p, g_size, &g.oi, g_check, &g.plen);
    (void) vr_ret;
    POSTS(NATIVE_CHECK)
HARNESS_END
