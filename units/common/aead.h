/* Shared by the record-protection units of C02 / C17 / C10: ghost state and
 * assumed models of the AEAD primitives (they record what they are called with;
 * the decrypting ones report the verdict chosen by the harness input), and the
 * big-endian helpers used in postconditions.
 *
 * The including unit defines, before including this file:
 *     static ssl_t g_ssl;   and   static struct inputs g_in;  with member  prim_fail
 */
#ifndef VERIF_AEAD_H
#define VERIF_AEAD_H

#define BE64(p) ((((uint64_t) (p)[0]) << 56) | (((uint64_t) (p)[1]) << 48) | (((uint64_t) (p)[2]) << 40) | (((uint64_t) (p)[3]) << 32) | \
                 (((uint64_t) (p)[4]) << 24) | (((uint64_t) (p)[5]) << 16) | (((uint64_t) (p)[6]) << 8) | ((uint64_t) (p)[7]))
#define OLD_BE64(obj, arr) ((((uint64_t) OLD(obj, arr[0])) << 56) | (((uint64_t) OLD(obj, arr[1])) << 48) | (((uint64_t) OLD(obj, arr[2])) << 40) | (((uint64_t) OLD(obj, arr[3])) << 32) | \
                            (((uint64_t) OLD(obj, arr[4])) << 24) | (((uint64_t) OLD(obj, arr[5])) << 16) | (((uint64_t) OLD(obj, arr[6])) << 8) | ((uint64_t) OLD(obj, arr[7])))
#define BE32(p) ((((uint32_t) (p)[0]) << 24) | (((uint32_t) (p)[1]) << 16) | (((uint32_t) (p)[2]) << 8) | ((uint32_t) (p)[3]))
#define EPOCH_RSN64(e, r) ((((uint64_t) (e)[0]) << 56) | (((uint64_t) (e)[1]) << 48) | (((uint64_t) (r)[0]) << 40) | (((uint64_t) (r)[1]) << 32) | \
                           (((uint64_t) (r)[2]) << 24) | (((uint64_t) (r)[3]) << 16) | (((uint64_t) (r)[4]) << 8) | ((uint64_t) (r)[5]))

/* ghost state written by the primitive models */
static unsigned char gh_nonce[12], gh_aad[13];
static unsigned gh_aadlen, gh_aad_null, gh_ready, gh_enc, gh_dec, gh_tag, gh_len, gh_order_ok;
static const unsigned char *gh_in_ptr;
static unsigned char *gh_out_ptr;
static const void *gh_ctx;

#define GH_ASSIGNS __CPROVER_object_whole(gh_nonce), __CPROVER_object_whole(gh_aad), \
                   gh_aadlen, gh_aad_null, gh_ready, gh_enc, gh_dec, gh_tag, gh_len, gh_order_ok, gh_in_ptr, gh_out_ptr, gh_ctx
#define GH_FRESH (gh_ready == 0 && gh_enc == 0 && gh_dec == 0 && gh_tag == 0)

static void gh_record_aad(const unsigned char *aad, unsigned long aadLen)
{
    unsigned i;
    gh_aadlen = (unsigned) aadLen;
    gh_aad_null = (aad == NULL);
    if (aad != NULL)
    {
        for (i = 0; i < 13 && i < aadLen; i++) { gh_aad[i] = aad[i]; }
    }
}

#ifdef MODEL_GCM
void psAesReadyGCM(psAesGcm_t *ctx, const unsigned char IV[AES_IVLEN], const unsigned char *aad, psSize_t aadLen)
{
    int i;
    for (i = 0; i < 12; i++) { gh_nonce[i] = IV[i]; }
    gh_record_aad(aad, aadLen);
    gh_ctx = ctx;
    gh_ready++;
}
void psAesEncryptGCM(psAesGcm_t *ctx, const unsigned char *pt, unsigned char *ct, uint32_t len)
{
    gh_order_ok = (gh_ready == 1 && gh_enc == 0 && gh_ctx == ctx);
    gh_len = len; gh_in_ptr = pt; gh_out_ptr = ct;
    gh_enc++;
}
void psAesGetGCMTag(psAesGcm_t *ctx, uint8_t tagBytes, unsigned char tag[AES_BLOCKLEN])
{
    gh_tag++;
}
/* verdict of the primitive = harness input; like the real one it returns the
   plaintext length on success and a negative code on tag mismatch */
int32_t psAesDecryptGCM(psAesGcm_t *ctx, const unsigned char *ct, uint32_t ctLen, unsigned char *pt, uint32_t ptLen)
{
    gh_order_ok = (gh_ready == 1 && gh_dec == 0 && gh_ctx == ctx);
    gh_len = ctLen; gh_in_ptr = ct; gh_out_ptr = pt;
    gh_dec++;
    if (g_in.prim_fail) { return PS_AUTH_FAIL; }
    return (int32_t) ptLen;
}
#endif

#ifdef MODEL_CHACHA
psResSize_t psChacha20Poly1305IetfEncrypt(psChacha20Poly1305Ietf_t *Context_p, const unsigned char *Plaintext_p,
    psSizeL_t PlaintextNBytes, const unsigned char *Iv_p, const unsigned char *Aad_p, psSizeL_t AadNBytes,
    unsigned char *Ciphertext_p)
{
    int i;
    for (i = 0; i < 12; i++) { gh_nonce[i] = Iv_p[i]; }
    gh_record_aad(Aad_p, AadNBytes);
    gh_ctx = Context_p;
    gh_len = (unsigned) PlaintextNBytes; gh_in_ptr = Plaintext_p; gh_out_ptr = Ciphertext_p;
    gh_ready++; gh_enc++; gh_tag++; gh_order_ok = 1;
    return (psResSize_t) (PlaintextNBytes + 16);
}
psResSize_t psChacha20Poly1305IetfDecrypt(psChacha20Poly1305Ietf_t *Context_p, const unsigned char *CiphertextWithTag_p,
    psSizeL_t CiphertextWithTagNBytes, const unsigned char *Iv_p, const unsigned char *Aad_p, psSizeL_t AadNBytes,
    unsigned char *Plaintext_p)
{
    int i;
    for (i = 0; i < 12; i++) { gh_nonce[i] = Iv_p[i]; }
    gh_record_aad(Aad_p, AadNBytes);
    gh_ctx = Context_p;
    gh_len = (unsigned) CiphertextWithTagNBytes; gh_in_ptr = CiphertextWithTag_p; gh_out_ptr = Plaintext_p;
    gh_ready++; gh_dec++; gh_order_ok = 1;
    if (g_in.prim_fail || CiphertextWithTagNBytes < 16) { return PS_AUTH_FAIL; }
    return (psResSize_t) (CiphertextWithTagNBytes - 16);
}
#endif

#endif
