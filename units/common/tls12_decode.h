/* Harness shared by the units that enforce a contract on matrixSslDecodeTls12AndBelow
 * (matrixssl/sslDecode.c, 1430 lines): C01, C02, C06, C15, C16, C18, C08.
 * The including unit defines POSTS(P) and CANARY_COND first.
 *
 * Mode enumeration (DESIGN 1.4): the fields that select the code path are
 * compile-time constants of the case (-D), everything else is symbolic:
 *     MODE_VER     ssl->activeVersion            (e.g. v_tls_1_2 | v_tls_negotiated)
 *     MODE_FLAGS   the bits of ssl->flags the decoder reads: READ_SECURE, AEAD_R, NONCE_R
 *                  (SERVER, ANON_CIPHER, PSK_CIPHER stay symbolic)
 *     MODE_BLOCK   ssl->deBlockSize   MODE_MAC  ssl->deMacSize   MODE_HDR  ssl->recordHeadLen
 * Objects: static ssl_t g_ssl; receive buffer = static array of BUFN bytes (= size),
 * the first len (every len <= BUFN) are received data.
 * Callees:
 *   ssl->decrypt, ssl->verifyMac   assumed models: verdicts chosen by the input, calls recorded in ghosts;
 *                                  decrypt of an AEAD suite fails for records shorter than nonce + tag (proved in C02)
 *   parseSSLHandshake              replaced by a contract: any verdict; may change hsState, flags, err, decState, ...
 *   dtlsChkReplayWindow            replaced by the contract enforced in C16
 *   sslActivateReadCipher, sslCreateKeys, sslEncodeResponse, matrixSslEncodeClientHello
 *                                  assumed models (verdict from the input)
 */
#include "verif.h"
#include "matrixssl/matrixsslImpl.h"

#ifndef BUFN
# define BUFN 40
#endif

struct __attribute__((packed)) inputs
{
    uint32_t flags;
    uint8_t hsState, decState;
    uint8_t prim_fail, mac_fail;
    int32_t enc_rc;
    uint32_t enc_len;
    int32_t act_rc, keys_rc;
    uint32_t len;
    uint32_t outlen;
    int32_t maxPtFrag;
    int32_t ignored;
    uint8_t hasSid, ticketState;
    uint8_t expectedEpoch[2], lastRsn[6];
    uint8_t parsedCCS; uint16_t appDataExch;
    uint32_t cipherFlags;
    uint8_t replay_ok;
    uint8_t callerAlertDesc;
    uint32_t supported;
    uint32_t k;              /* ghost index into the delivered plaintext */
    unsigned char buf[BUFN];
};
static struct inputs g_in;
static ssl_t g_ssl;
static sslCipherSpec_t g_cipher;
static sslSessionId_t g_sid;
static unsigned char g_buf[BUFN];
static unsigned char g_outbuf[32];
static struct { unsigned char *inp; uint32 len, remaining, reqLen; int32 error; unsigned char alertLevel, alertDesc; } g_o;
#define g_inp g_o.inp
#define g_len g_o.len
#define g_remaining g_o.remaining
#define g_reqLen g_o.reqLen
#define g_error g_o.error
#define g_alertLevel g_o.alertLevel
#define g_alertDesc g_o.alertDesc
static uint32 g_size;

static struct { int dec_calls, dec_ok, dec_failed, mac_calls, mac_ok, mac_failed, hs_calls, enc_calls, replay_calls, replay_refused, act_calls;
                uint32_t flags_at_entry; uint8_t hsstate_at_entry; uint32_t dec_len; int pad_ok; uint32_t dec_off; } gh;

static int32 model_decrypt(void *ssl, unsigned char *ct, unsigned char *pt, uint32 len)
{
    gh.dec_calls++;
    gh.dec_len = len;
    gh.dec_off = (uint32_t) (ct - g_buf);   /* where the protected record body starts on the wire */
#ifdef MODE_AEAD
    /* contract proved for csAesGcmDecrypt / csChacha20Poly1305IetfDecrypt in C02 */
    if (len < 16 + (MODE_NONCE ? 8 : 0) + (MODE_NONCE ? 1 : 0) || g_in.prim_fail)
    {
        gh.dec_failed = 1;
        return -1;
    }
    gh.dec_ok = 1;
    if (pt != ct) { Memmove(pt, ct + (MODE_NONCE ? 8 : 0), len - 16 - (MODE_NONCE ? 8 : 0)); }
    return (int32) (len - 16 - (MODE_NONCE ? 8 : 0));
#else
    if (g_in.prim_fail)
    {
        gh.dec_failed = 1;
        return -1;
    }
    gh.dec_ok = 1;
    /* identity "cipher": the plaintext is the (arbitrary) wire content, moved to where the real
       cipher would put it */
    if (pt != ct) { Memmove(pt, ct, len); }
# if MODE_BLOCK > 1
    /* spec of well-formed CBC padding (RFC 5246 6.2.3.2), evaluated on the decrypted record:
       the last byte p is the pad length, the record holds MAC + p + 1 bytes (+ the explicit IV
       from TLS 1.1 on), and (TLS) all p + 1 trailing bytes equal p; SSL 3.0: p < block size */
    {
        unsigned pad, need, k;
        gh.pad_ok = 0;
        if (len >= 1)
        {
            pad = pt[len - 1];
            need = MODE_MAC + pad + 1 + ((((MODE_VER) & v_tls_explicit_iv) != 0) ? MODE_BLOCK : 0);
            if (len >= need)
            {
                gh.pad_ok = 1;
                if ((MODE_VER) & v_ssl_3_0)
                {
                    if (pad >= MODE_BLOCK) { gh.pad_ok = 0; }
                }
                else
                {
                    for (k = 0; k <= pad && k < len; k++)
                    {
                        if (pt[len - 1 - k] != pad) { gh.pad_ok = 0; }
                    }
                }
            }
        }
    }
# else
    gh.pad_ok = 1;
# endif
    return (int32) len;
#endif
}
static int32 model_verifyMac(void *ssl, unsigned char type, unsigned char *data, uint32 len, unsigned char *mac)
{
    gh.mac_calls++;
    if (g_in.mac_fail) { gh.mac_failed = 1; return -1; }
    gh.mac_ok = 1;
    return PS_SUCCESS;
}
int32 sslActivateReadCipher(ssl_t *ssl)
{
    gh.act_calls++;
    if (g_in.act_rc < 0) { return PS_FAILURE; }
    ssl->flags |= SSL_FLAGS_READ_SECURE;
    return PS_SUCCESS;
}
int32 sslCreateKeys(ssl_t *ssl)
{
    return g_in.keys_rc < 0 ? PS_FAILURE : PS_SUCCESS;
}
/* Lucky-13 blinding: digests of a local scratch buffer into a local context; their result is discarded */
int32_t psSha1Init(psSha1_t *sha1) { return PS_SUCCESS; }
void psSha1Update(psSha1_t *sha1, const unsigned char *buf, uint32_t len) { }
void psSha1Final(psSha1_t *sha1, unsigned char hash[SHA1_HASHLEN]) { }
int32_t psSha256Init(psSha256_t *sha256) { return PS_SUCCESS; }
void psSha256Update(psSha256_t *sha256, const unsigned char *buf, uint32_t len) { }
void psSha256Final(psSha256_t *sha256, unsigned char hash[SHA256_HASHLEN]) { }
int32_t psSha384Init(psSha384_t *sha384) { return PS_SUCCESS; }
void psSha384Update(psSha384_t *sha384, const unsigned char *buf, uint32_t len) { }
void psSha384Final(psSha384_t *sha384, unsigned char hash[SHA384_HASHLEN]) { }
static int32 model_encode(psBuf_t *out, uint32 *requiredLen)
{
    gh.enc_calls++;
    if (g_in.enc_rc == SSL_FULL) { *requiredLen = 7; return SSL_FULL; }
    /* assumed: failures are PS_*_FAIL codes (-1 .. -49), never one of the SSL_* decoder verdicts */
    if (g_in.enc_rc < 0) { return g_in.enc_rc > -50 ? g_in.enc_rc : MATRIXSSL_ERROR; }
    if (g_in.enc_len <= out->size) { out->end = out->start + g_in.enc_len; }
    return MATRIXSSL_SUCCESS;
}
int32 sslEncodeResponse(ssl_t *ssl, psBuf_t *out, uint32 *requiredLen) { return model_encode(out, requiredLen); }
int32_t matrixSslEncodeClientHello(ssl_t *ssl, sslBuf_t *out, const psCipher16_t cipherSpec[], uint8_t cipherSpecLen,
    uint32 *requiredLen, tlsExtension_t *userExt, sslSessOpts_t *options) { return model_encode(out, requiredLen); }

int32 dtlsChkReplayWindow(ssl_t *ssl, unsigned char *seq64)
__CPROVER_requires(ssl == &g_ssl)
__CPROVER_assigns(g_ssl.lastRsn, g_ssl.dtlsBitmap, gh.replay_calls, gh.replay_refused)
__CPROVER_ensures(__CPROVER_return_value == 0 || __CPROVER_return_value == 1)
__CPROVER_ensures(gh.replay_calls == __CPROVER_old(gh.replay_calls) + 1)
__CPROVER_ensures(gh.replay_refused == (__CPROVER_return_value == 0 ? 1 : __CPROVER_old(gh.replay_refused)))
;

static int32 parseSSLHandshake(ssl_t *ssl, char *inbuf, uint32 len)
__CPROVER_requires(ssl == &g_ssl)
__CPROVER_assigns(g_ssl.hsState, g_ssl.flags, g_ssl.err, g_ssl.decState, g_ssl.sec.anon, g_ssl.bFlags, gh.hs_calls)
__CPROVER_ensures(gh.hs_calls == __CPROVER_old(gh.hs_calls) + 1)
;

#ifndef DECODER_SSL_FRAME
# define DECODER_SSL_FRAME __CPROVER_object_whole(&g_ssl)
#endif
#define ENTRY_SECURE ((gh.flags_at_entry & SSL_FLAGS_READ_SECURE) != 0)

static int32_t matrixSslDecodeTls12AndBelow(ssl_t *ssl, unsigned char **buf, uint32 *len, uint32 size, uint32 *remaining,
    uint32 *requiredLen, int32 *error, unsigned char *alertLevel, unsigned char *alertDescription)
__CPROVER_requires(ssl == &g_ssl && buf == &g_inp && len == &g_len && size == g_size && remaining == &g_remaining &&
                   requiredLen == &g_reqLen && error == &g_error && alertLevel == &g_alertLevel && alertDescription == &g_alertDesc)
__CPROVER_requires(g_inp == g_buf && g_len <= g_size && g_size == BUFN && g_remaining == g_len)
__CPROVER_requires(gh.dec_calls == 0 && gh.dec_ok == 0 && gh.dec_failed == 0 && gh.mac_calls == 0 && gh.mac_ok == 0 && gh.mac_failed == 0 &&
                   gh.hs_calls == 0 && gh.enc_calls == 0 && gh.replay_calls == 0 && gh.replay_refused == 0 && gh.act_calls == 0)
__CPROVER_requires(gh.flags_at_entry == g_ssl.flags && gh.hsstate_at_entry == g_ssl.hsState)
POSTS(ENSURES_CLAUSE)
CANARY_CLAUSE(CANARY_COND)
__CPROVER_assigns(g_o, gh, __CPROVER_object_whole(g_buf), __CPROVER_object_whole(g_outbuf), __CPROVER_object_whole(&g_sid), DECODER_SSL_FRAME)
;

#include "matrixssl/hsNegotiateVersion.c"
#include "matrixssl/dtls.c"
#include "matrixssl/sslDecode.c"

#ifndef NATIVE_REPLAY
struct inputs nondet_in(void);
#endif

#define MODE_FLAG_MASK (SSL_FLAGS_READ_SECURE | SSL_FLAGS_AEAD_R | SSL_FLAGS_NONCE_R | SSL_FLAGS_NEED_ENCODE | SSL_FLAGS_FALSE_START)

HARNESS_BEGIN
    HARNESS_INPUTS(struct inputs, in);
    int32 vr_ret;
    unsigned i;
    g_in = in;
    /* mode fields: constants of the case */
    g_ssl.activeVersion = MODE_VER;
    g_ssl.flags = (in.flags & ~MODE_FLAG_MASK) | (MODE_FLAGS);
    g_ssl.deBlockSize = MODE_BLOCK;
    g_ssl.enBlockSize = MODE_BLOCK;
    g_ssl.deMacSize = MODE_MAC;
    g_ssl.recordHeadLen = MODE_HDR;
    g_ssl.hshakeHeadLen = (MODE_HDR == 13) ? 12 : 4;
    /* type invariant: a session offers DTLS versions iff it uses the DTLS record header */
    g_ssl.supportedVersions = (MODE_HDR == 13) ? (in.supported & v_dtls_any) | v_dtls_1_2 : (in.supported & v_tls_any & ~v_tls_1_3_any) | v_tls_1_2;
    /* everything else symbolic */
    g_ssl.hsState = in.hsState;
    g_ssl.decState = in.decState;
    g_ssl.err = SSL_ALERT_NONE;      /* a live session has no pending alert */
    g_ssl.maxPtFrag = in.maxPtFrag;
    __CPROVER_assume(in.maxPtFrag == 0xFF || in.maxPtFrag == 0x200 || in.maxPtFrag == 0x400 || in.maxPtFrag == 0x800 || in.maxPtFrag == 0x1000 || in.maxPtFrag == SSL_MAX_PLAINTEXT_LEN);
    g_ssl.ignoredMessageCount = in.ignored;
    __CPROVER_assume(in.ignored >= 0 && in.ignored <= SSL_MAX_IGNORED_MESSAGE_COUNT + 1);
    g_cipher.flags = in.cipherFlags & ~CRYPTO_FLAGS_CCM8;   /* no suite of the table sets CCM8 */
    /* the cipher spec agrees with the mode: ChaCha20-Poly1305 is the AEAD without an explicit nonce */
#if defined(MODE_AEAD) && !MODE_NONCE
    g_cipher.flags |= CRYPTO_FLAGS_CHACHA;
#else
    g_cipher.flags &= ~CRYPTO_FLAGS_CHACHA;
#endif
    g_ssl.cipher = &g_cipher;
    g_ssl.activeReadCipher = &g_cipher;
    g_ssl.decrypt = model_decrypt;
    g_ssl.verifyMac = model_verifyMac;
    g_ssl.fragMessage = NULL;        /* handshake reassembly is the subject of the parseSSLHandshake units */
    g_ssl.sid = in.hasSid ? &g_sid : NULL;
    g_sid.sessionTicketState = in.ticketState;
    Memcpy(g_ssl.expectedEpoch, in.expectedEpoch, 2);
    Memcpy(g_ssl.lastRsn, in.lastRsn, 6);
    g_ssl.parsedCCS = in.parsedCCS;
    g_ssl.appDataExch = in.appDataExch;
    g_size = BUFN;
    g_len = in.len;
    __CPROVER_assume(g_len <= g_size);
    g_remaining = g_len;
    for (i = 0; i < BUFN; i++) { g_buf[i] = in.buf[i]; }
    g_inp = g_buf;
    g_ssl.outsize = 32;
    g_ssl.outlen = in.outlen;
    __CPROVER_assume(in.outlen <= 32);
    g_ssl.outbuf = g_outbuf;
    g_alertDesc = in.callerAlertDesc;
    gh.flags_at_entry = g_ssl.flags;
    gh.hsstate_at_entry = g_ssl.hsState;
    vr_ret = matrixSslDecodeTls12AndBelow(&g_ssl, &g_inp, &g_len, g_size, &g_remaining, &g_reqLen, &g_error, &g_alertLevel, &g_alertDesc);
    (void) vr_ret;
    POSTS(NATIVE_CHECK)
HARNESS_END
