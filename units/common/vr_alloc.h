/* Allocation model for harness-checked units (osdep_stdlib.h: Malloc / Free "may be overridden").
 * Allocations of symbolic size made the SAT solver run out of memory.  Every request is served
 * from its own constant-size block and is placed at the TAIL of that block, so one byte past the
 * requested size is outside the object and an overflow of the allocation is still a bounds
 * violation; the request must fit the block (checked); any request may fail.  Free records
 * nothing (no leak check).  Blocks are > 64 bytes so that cbmc keeps each as one array.
 * Include BEFORE any library header.  VR_ALLOC_IS(p, n): p is an allocation of exactly n bytes. */
#ifndef VR_ALLOC_H
#define VR_ALLOC_H
#ifndef NATIVE_REPLAY
# include <stddef.h>
# ifndef VR_CAP
#  define VR_CAP 80
# endif
# define VR_NBLK 8
static unsigned char vr_b0[VR_CAP], vr_b1[VR_CAP], vr_b2[VR_CAP], vr_b3[VR_CAP], vr_b4[VR_CAP], vr_b5[VR_CAP], vr_b6[VR_CAP], vr_b7[VR_CAP];
static unsigned vr_nalloc;
_Bool nondet_bool(void);
static void *vr_malloc(size_t n)
{
    unsigned k = vr_nalloc;
    unsigned char *b;
    __CPROVER_assert(n <= VR_CAP && k < VR_NBLK, "allocation fits the modelled block");
    if (n > VR_CAP || k >= VR_NBLK || nondet_bool()) { return NULL; }
    vr_nalloc++;
    b = k == 0 ? vr_b0 : k == 1 ? vr_b1 : k == 2 ? vr_b2 : k == 3 ? vr_b3 : k == 4 ? vr_b4 : k == 5 ? vr_b5 : k == 6 ? vr_b6 : vr_b7;
    return b + (VR_CAP - n);
}
static void vr_free(void *p) { (void) p; }
# define Malloc vr_malloc
# define Free vr_free
# define VR_ALLOC_IS(s, l) (__CPROVER_POINTER_OFFSET(s) + (size_t) (l) == VR_CAP)
#else
# define VR_ALLOC_IS(s, l) 1
#endif
#endif
