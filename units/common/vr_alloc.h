/* Allocation model for harness-checked units (osdep_stdlib.h: Malloc / Free "may be overridden").
 * Allocations of symbolic size made the SAT solver run out of memory.  Every request is served
 * from its own constant-size block and is placed at the TAIL of that block, so one byte past the
 * requested size is outside the object and an overflow of the allocation is still a bounds
 * violation; the request must fit the block (checked); any request may fail.  Free records the
 * block as freed (double free is a failed obligation; no leak check).  Blocks are > 64 bytes so that cbmc keeps each as one array.
 * Include BEFORE any library header.  VR_ALLOC_IS(p, n): p is an allocation of exactly n bytes. */
#ifndef VR_ALLOC_H
#define VR_ALLOC_H
#ifndef NATIVE_REPLAY
# include <stddef.h>
# ifndef VR_CAP
#  define VR_CAP 80
# endif
# define VR_NBLK 8
static unsigned char vr_b0[VR_CAP], vr_b1[VR_CAP], vr_b2[VR_CAP], vr_b3[VR_CAP], vr_b4[VR_CAP], vr_b5[VR_CAP], vr_b6[VR_CAP], vr_b7[VR_CAP];
static unsigned vr_nalloc;
_Bool nondet_bool(void);
static void *vr_malloc(size_t n)
{
    unsigned k = vr_nalloc;
    unsigned char *b;
    __CPROVER_assert(n <= VR_CAP && k < VR_NBLK, "allocation fits the modelled block");
    if (n > VR_CAP || k >= VR_NBLK || nondet_bool()) { return NULL; }
    vr_nalloc++;
    b = k == 0 ? vr_b0 : k == 1 ? vr_b1 : k == 2 ? vr_b2 : k == 3 ? vr_b3 : k == 4 ? vr_b4 : k == 5 ? vr_b5 : k == 6 ? vr_b6 : vr_b7;
    return b + (VR_CAP - n);
}
/* Free: a block served by vr_malloc may be freed once (a second free of it is a failed obligation); pointers that
   are not such blocks (objects the harness placed in the session) are ignored.  VR_LIVE(p): p is NULL, or not a
   modelled block, or a modelled block that has not been freed - "the session keeps no pointer to freed memory". */
static unsigned char vr_freed[VR_NBLK];
static int vr_block_of(const void *p)
{
    return __CPROVER_same_object(p, vr_b0) ? 0 : __CPROVER_same_object(p, vr_b1) ? 1 : __CPROVER_same_object(p, vr_b2) ? 2 : __CPROVER_same_object(p, vr_b3) ? 3 :
           __CPROVER_same_object(p, vr_b4) ? 4 : __CPROVER_same_object(p, vr_b5) ? 5 : __CPROVER_same_object(p, vr_b6) ? 6 : __CPROVER_same_object(p, vr_b7) ? 7 : -1;
}
static void vr_free(void *p)
{
    int k;
    if (p == NULL) { return; }
    k = vr_block_of(p);
    if (k < 0) { return; }
    __CPROVER_assert(!vr_freed[k], "allocation is freed at most once (double free)");
    vr_freed[k] = 1;
}
# define VR_LIVE(p) ((p) == NULL || vr_block_of(p) < 0 || !vr_freed[vr_block_of(p)])
# define Malloc vr_malloc
# define Free vr_free
# define VR_ALLOC_IS(s, l) (__CPROVER_POINTER_OFFSET(s) + (size_t) (l) == VR_CAP)
#else
# define VR_ALLOC_IS(s, l) 1
# define VR_LIVE(p) 1
#endif
#endif
