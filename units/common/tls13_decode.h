/* Harness shared by the units that enforce a contract on matrixSslDecodeTls13
 * (matrixssl/tls13Decode.c): C01, C02, C15, C18.  The including unit defines
 * POSTS(P) and CANARY_COND first.
 *
 * Objects: static ssl_t g_ssl; the receive buffer is a static array of BUFN bytes
 * (= `size`) of which the first `len` (every len <= BUFN) are the bytes received.
 * Callees:
 *   ssl->decrypt                  assumed: the contract proved for the four TLS 1.3 / 1.2 AEAD
 *                                 openers in C02 (fails for records shorter than the tag; verdict
 *                                 otherwise chosen by the input); records the call in gh_dec_ok
 *   tls13ParseHandshakeMessage    replaced by its contract (cursor clauses ENFORCED in unit C06/tls13_hs_transitions):
 *                                 moves the cursor forward inside the record; may change hsState / flags / err / decState
 *   tls13EncodeAlert, sslEncodeResponse   assumed models: write only into the buffer they are given,
 *                                 return SSL_FULL, an error, or success (chosen by the input)
 */
#include "verif.h"
#include "matrixssl/matrixsslImpl.h"

#ifndef BUFN
# define BUFN 40
#endif

struct __attribute__((packed)) inputs
{
    uint32_t flags;
    uint8_t hsState;
    uint8_t decState;
    int32_t err_unused;
    uint8_t earlyEnabled;
    uint8_t gotEarlyData;
    uint32_t recvdEarly;
    uint32_t maxEarly;
    uint32_t cipherFlags;
    uint32_t len, size;
    uint8_t prim_fail;
    int32_t enc_rc;          /* verdict of the encode models */
    uint32_t enc_len;
    int32_t hs_rc;           /* behaviour of the replaced handshake parser */
    uint32_t hs_adv;
    uint8_t hs_state, hs_err;
    uint32_t hs_flags;
    uint32_t outlen, outsize;
    uint8_t pskChosen, pskHasParams, callerAlertDesc, fragPending;
    uint32_t k;              /* ghost index into the delivered plaintext */
    uint32_t pskMaxEarly;
    unsigned char buf[BUFN];
};
static struct inputs g_in;
static ssl_t g_ssl;
static sslCipherSpec_t g_cipher;
static psTls13Psk_t g_psk;
static psTls13SessionParams_t g_pskParams;
static unsigned char g_buf[BUFN];  /* the receive buffer: size BUFN, the first g_len bytes are received data */
static unsigned char g_outbuf[32];
static unsigned char g_fragDummy[8];
/* the in/out arguments of the decoder, one object so that the frame has one target */
static struct { unsigned char *inp; uint32 len, remaining, reqLen; int32 error; unsigned char alertLevel, alertDesc; } g_o;
#define g_inp g_o.inp
#define g_len g_o.len
#define g_remaining g_o.remaining
#define g_reqLen g_o.reqLen
#define g_error g_o.error
#define g_alertLevel g_o.alertLevel
#define g_alertDesc g_o.alertDesc
static uint32 g_size;

/* ghosts, one object */
static struct { int dec_calls, dec_ok, dec_failed, alert_encoded, hs_calls; uint32_t flags_at_entry; uint8_t hsstate_at_entry; uint32_t dec_off; } gh;
#define gh_dec_calls gh.dec_calls
#define gh_dec_ok gh.dec_ok
#define gh_dec_failed gh.dec_failed
#define gh_alert_encoded gh.alert_encoded
#define gh_hs_calls gh.hs_calls
#define gh_flags_at_entry gh.flags_at_entry
#define gh_hsstate_at_entry gh.hsstate_at_entry
#define gh_dec_off gh.dec_off

static int32 model_decrypt(void *ssl, unsigned char *ct, unsigned char *pt, uint32 len)
{
    gh_dec_calls++;
    gh_dec_off = (uint32_t) (ct - g_buf);   /* in-situ: the plaintext of this record starts here */
    if (len < 16 || g_in.prim_fail)
    {
        gh_dec_failed = 1;
        return -1;
    }
    gh_dec_ok = 1;
    return (int32) len;
}

int32_t tls13EncodeAlert(ssl_t *ssl, unsigned char type, sslBuf_t *out, uint32_t *requiredLen)
{
    gh_alert_encoded++;
    if (g_in.enc_rc == SSL_FULL) { *requiredLen = 7; return SSL_FULL; }
    if (g_in.enc_rc < 0) { return MATRIXSSL_ERROR; }
    if (g_in.enc_len <= out->size) { out->end = out->start + g_in.enc_len; }
    return MATRIXSSL_SUCCESS;
}
int32 sslEncodeResponse(ssl_t *ssl, psBuf_t *out, uint32 *requiredLen)
{
    if (g_in.enc_rc == SSL_FULL) { *requiredLen = 7; return SSL_FULL; }
    /* assumed: its failures are PS_*_FAIL codes (-1 .. -49), never one of the SSL_* decoder verdicts */
    if (g_in.enc_rc < 0) { return g_in.enc_rc > -50 ? g_in.enc_rc : MATRIXSSL_ERROR; }
    if (g_in.enc_len <= out->size) { out->end = out->start + g_in.enc_len; }
    return MATRIXSSL_SUCCESS;
}

static int32_t tls13ParseHandshakeMessage(ssl_t *ssl, unsigned char **bufStart, unsigned char *bufEnd)
__CPROVER_requires(ssl == &g_ssl)
__CPROVER_requires(__CPROVER_same_object(*bufStart, bufEnd) && *bufStart <= bufEnd)
__CPROVER_assigns(*bufStart, g_ssl.hsState, g_ssl.flags, g_ssl.err, g_ssl.decState, g_ssl.fragMessage, gh_hs_calls)
__CPROVER_ensures(__CPROVER_same_object(*bufStart, bufEnd) &&
                  __CPROVER_POINTER_OFFSET(*bufStart) >= __CPROVER_POINTER_OFFSET(__CPROVER_old(*bufStart)) &&
                  __CPROVER_POINTER_OFFSET(*bufStart) <= __CPROVER_POINTER_OFFSET(bufEnd))
/* a stored fragment (SSL_PARTIAL) consumed the rest of the record and activated no keys
   (tls13FragMessageReadInit/Continue take everything readable; key activation only follows a complete message) */
__CPROVER_ensures(__CPROVER_return_value != SSL_PARTIAL ||
                  (__CPROVER_POINTER_OFFSET(*bufStart) == __CPROVER_POINTER_OFFSET(bufEnd) && g_ssl.flags == __CPROVER_old(g_ssl.flags) && g_ssl.hsState == __CPROVER_old(g_ssl.hsState)))
/* a message that parsed (rc >= 0) consumed at least its 4-byte handshake header, or completed a pending
   fragment buffer (then >= 1 byte and the buffer is released) */
__CPROVER_ensures(__CPROVER_return_value < 0 ||
                  __CPROVER_POINTER_OFFSET(*bufStart) >= __CPROVER_POINTER_OFFSET(__CPROVER_old(*bufStart)) + 4 ||
                  (__CPROVER_old(g_ssl.fragMessage) != NULL && g_ssl.fragMessage == NULL &&
                   __CPROVER_POINTER_OFFSET(*bufStart) >= __CPROVER_POINTER_OFFSET(__CPROVER_old(*bufStart)) + 1))
__CPROVER_ensures(gh_hs_calls == __CPROVER_old(gh_hs_calls) + 1)
;

/* frame of the decoder inside ssl_t; units that state frame properties name the fields,
   the others use the whole object (one target: cheaper write-set checks) */
#ifndef DECODER_SSL_FRAME
# define DECODER_SSL_FRAME __CPROVER_object_whole(&g_ssl)
#endif
#define ENTRY_SECURE ((gh_flags_at_entry & SSL_FLAGS_READ_SECURE) != 0)

int32 matrixSslDecodeTls13(ssl_t *ssl, unsigned char **in, uint32 *len, uint32 size, uint32 *remaining,
    uint32 *requiredLen, int32 *error, unsigned char *alertLevel, unsigned char *alertDescription)
__CPROVER_requires(ssl == &g_ssl && in == &g_inp && len == &g_len && size == g_size && remaining == &g_remaining &&
                   requiredLen == &g_reqLen && error == &g_error && alertLevel == &g_alertLevel && alertDescription == &g_alertDesc)
__CPROVER_requires(g_inp == g_buf && g_len <= g_size && g_size == BUFN && g_remaining == g_len)
/* state invariant: SSL_HS_TLS_1_3_WAIT_EOED is entered only by a server that enabled early data
   under a chosen PSK (its single assignment, tls13Encode.c, scanned every run) */
__CPROVER_requires(g_ssl.hsState != SSL_HS_TLS_1_3_WAIT_EOED ||
                   ((g_ssl.flags & SSL_FLAGS_SERVER) && g_ssl.tls13ServerEarlyDataEnabled == PS_TRUE && g_ssl.sec.tls13ChosenPsk != NULL))
__CPROVER_requires(gh_dec_calls == 0 && gh_dec_ok == 0 && gh_dec_failed == 0 && gh_alert_encoded == 0 && gh_hs_calls == 0)
__CPROVER_requires(gh_flags_at_entry == g_ssl.flags && gh_hsstate_at_entry == g_ssl.hsState)
POSTS(ENSURES_CLAUSE)
CANARY_CLAUSE(CANARY_COND)
__CPROVER_assigns(g_o, gh, __CPROVER_object_whole(g_buf), __CPROVER_object_whole(g_outbuf), DECODER_SSL_FRAME)
;

#include "core/src/psbuf.c"
#include "matrixssl/tls13Decode.c"

#ifndef NATIVE_REPLAY
struct inputs nondet_in(void);
#endif

HARNESS_BEGIN
    HARNESS_INPUTS(struct inputs, in);
    int32 vr_ret;
    unsigned i;
    g_in = in;
#ifdef MODE_FLAGS
    g_ssl.flags = MODE_FLAGS;        /* mode enumeration (DESIGN 1.4): constants prune the symbolic execution */
#else
    g_ssl.flags = in.flags;
#endif
#ifdef MODE_HSSTATE
    g_ssl.hsState = MODE_HSSTATE;
#else
    g_ssl.hsState = in.hsState;
#endif
    g_ssl.decState = in.decState;
    g_ssl.err = SSL_ALERT_NONE;     /* a live session has no pending alert (set only on the way to encodeResponse) */
    g_ssl.tls13ServerEarlyDataEnabled = in.earlyEnabled ? PS_TRUE : PS_FALSE;
    g_ssl.extFlags.got_early_data = in.gotEarlyData & 1;
    g_ssl.tls13ReceivedEarlyDataLen = in.recvdEarly;
    g_ssl.tls13SessionMaxEarlyData = in.maxEarly;
    /* no entry of the cipher-suite table sets CRYPTO_FLAGS_CCM8 (the flag is only ever tested, in AEAD_TAG_LEN) */
    g_cipher.flags = in.cipherFlags & ~CRYPTO_FLAGS_CCM8;
    g_ssl.cipher = &g_cipher;
    g_ssl.decrypt = model_decrypt;
    g_ssl.recordHeadLen = TLS_REC_HDR_LEN;
    g_ssl.activeVersion = v_tls_1_3 | v_tls_negotiated;
    g_ssl.fragMessage = in.fragPending ? g_fragDummy : NULL;   /* only compared with NULL here */
    g_ssl.sec.tls13ChosenPsk = NULL;
    g_psk.params = in.pskHasParams ? &g_pskParams : NULL;
    g_pskParams.maxEarlyData = in.pskMaxEarly;
    if (g_ssl.hsState == SSL_HS_TLS_1_3_WAIT_EOED)
    {
        __CPROVER_assume((g_ssl.flags & SSL_FLAGS_SERVER) && in.earlyEnabled);
        g_ssl.sec.tls13ChosenPsk = &g_psk;
    }
    else if (in.pskChosen)
    {
        g_ssl.sec.tls13ChosenPsk = &g_psk;
    }
    g_size = BUFN;
    g_len = in.len;
    __CPROVER_assume(g_len <= g_size);
    g_remaining = g_len;
    for (i = 0; i < BUFN; i++) { g_buf[i] = in.buf[i]; }
    g_inp = g_buf;
    g_ssl.outsize = 32;
    g_ssl.outlen = in.outlen;
    __CPROVER_assume(in.outlen <= 32);
    g_ssl.outbuf = g_outbuf;
    g_alertDesc = in.callerAlertDesc;   /* the caller passes an uninitialised local */
    g_error = PS_SUCCESS;               /* matrixSslDecode sets *error = PS_SUCCESS before dispatching */
    gh_flags_at_entry = g_ssl.flags;
    gh_hsstate_at_entry = g_ssl.hsState;
    vr_ret = matrixSslDecodeTls13(&g_ssl, &g_inp, &g_len, g_size, &g_remaining, &g_reqLen, &g_error, &g_alertLevel, &g_alertDesc);
    (void) vr_ret;
    POSTS(NATIVE_CHECK)
HARNESS_END
