/* Shared conventions of every wrapper translation unit (see DESIGN.md 1.1).
 *
 *   CBMC build   : goto-cc -DVERIF_CBMC ...   contracts are live
 *   native build : gcc -DNATIVE_REPLAY ...    contracts vanish, the harness
 *                                             reads its inputs from a replay
 *                                             file and re-evaluates the
 *                                             postconditions on the real code
 *
 * A unit writes its postconditions once, as an X-macro list
 *     #define POSTS(P)  P(label, condition) P(label2, condition2) ...
 * The contract uses POSTS(ENSURES_CLAUSE); the native harness uses
 * POSTS(NATIVE_CHECK).  Inside a condition:
 *     RET              the return value
 *     OLD(obj, path)   value of obj.path before the call   (obj is a harness
 *                      object with static storage; the native harness keeps a
 *                      copy  old_<obj>)
 *     IMPLIES(a, b)
 * The driver maps cbmc's  <fn>.postcondition.<k>  to the k-th label.
 */
#ifndef VERIF_H
#define VERIF_H

#include <stddef.h>
#include <stdint.h>

#define IMPLIES(a, b) (!(a) || (b))
#define IFF(a, b) ((!(a)) == (!(b)))

#ifdef NATIVE_REPLAY
# include <stdio.h>
# include <stdlib.h>
# include <string.h>
# define __CPROVER_requires(x)
# define __CPROVER_ensures(x)
# define __CPROVER_assigns(...)
# define __CPROVER_frees(...)
# define __CPROVER_same_object(a, b) 1
# define __CPROVER_POINTER_OFFSET(p) ((size_t) (p))
# define __CPROVER_object_whole(p) (p)
# define __CPROVER_r_ok(p, n) 1
# define __CPROVER_w_ok(p, n) 1
# define __CPROVER_assume(x) do { if (!(x)) { printf("REPLAY-ASSUMPTION-FALSE %s\n", #x); exit(3); } } while (0)
# define __CPROVER_assert(x, msg) do { if (!(x)) { printf("REPRODUCED %s\n", msg); vr_failed = 1; } } while (0)
# define RET vr_ret
# define OLD(obj, path) (old_##obj.path)
# define ENSURES_CLAUSE(label, cond)
# define NATIVE_CHECK(label, cond) { if (!(cond)) { printf("REPRODUCED %s\n", #label); vr_failed = 1; } }
# define SNAPSHOT(obj) (old_##obj = obj)
# define DECL_SNAPSHOT(type, obj) static type old_##obj
static int vr_failed;
/* fills `in` from the hex string given in argv[1] */
static void vr_load(void *p, size_t n, int argc, char **argv)
{
    size_t i; const char *h;
    unsigned char *b = (unsigned char *) p;
    memset(p, 0, n);
    if (argc < 2) { return; }
    h = argv[1];
    for (i = 0; i < n && h[2 * i] && h[2 * i + 1]; i++)
    {
        unsigned v; sscanf(h + 2 * i, "%2x", &v); b[i] = (unsigned char) v;
    }
}
# define HARNESS_INPUTS(type, var) type var; vr_load(&var, sizeof(var), argc, argv)
# define HARNESS_BEGIN int main(int argc, char **argv) {
# define HARNESS_END   if (vr_failed) { return 1; } printf("NOT-REPRODUCED\n"); return 0; }
#elif defined(VERIF_PLAIN_CONTRACT)
/* "harness-checked contract" (units with "plain": true that still state a contract): goto-instrument's
   frame instrumentation made the unit intractable, so cbmc runs the harness itself - the harness makes
   the objects nondeterministic, assumes the requires clauses, calls the real function and asserts the
   same POSTS list.  What is lost against DFCC: the assigns clause is not enforced. */
# define RET vr_ret
# define OLD(obj, path) (old_##obj.path)
# define ENSURES_CLAUSE(label, cond)
# define NATIVE_CHECK(label, cond) __CPROVER_assert(cond, #label);
# define SNAPSHOT(obj) (old_##obj = obj)
# define DECL_SNAPSHOT(type, obj) static type old_##obj
#else
# define RET __CPROVER_return_value
# define OLD(obj, path) __CPROVER_old(obj.path)
# define ENSURES_CLAUSE(label, cond) __CPROVER_ensures(cond)
# define NATIVE_CHECK(label, cond)
# define SNAPSHOT(obj)
# define DECL_SNAPSHOT(type, obj)
#endif
#ifndef NATIVE_REPLAY
/* one nondeterministic, pointer-free input record per unit: cbmc's trace
   gives its value as nested members, the driver flattens it to bytes */
# define HARNESS_INPUTS(type, var) type var = nondet_##var()
# define HARNESS_BEGIN void harness(void) {
# define HARNESS_END   }
#endif

/* The raw trace/error sinks of core (corelib_trace.c) write to stdio; they have no
   effect on library state.  Bodies are needed because DFCC turns a call to an
   undefined function into assert(false)+assume(false), which would cut every
   path that traces. */
#if defined(VERIF_CBMC) && !defined(VERIF_NO_TRACE_STUBS)
void _psTrace(const char *msg) { }
void _psTraceInt(const char *msg, int val) { }
void _psTraceStr(const char *msg, const char *val) { }
void _psTracePtr(const char *message, const void *value) { }
void psTraceBytes(const char *tag, const unsigned char *p, int l) { }
void _psError(const char *msg) { }
void _psErrorInt(const char *msg, int val) { }
void _psErrorStr(const char *msg, const char *val) { }
#endif

/* plain units (metadata "plain": true): obligations are harness assertions */
#define PLAIN_ASSERT(label, cond) __CPROVER_assert(cond, #label);

/* a postcondition that must FAIL; the driver builds a twin of every unit with
   -DCANARY and refuses (exit 2) if the twin verifies: the precondition or an
   assumed contract is then contradictory and the real run proves nothing */
#ifdef CANARY
# define CANARY_CLAUSE(cond) __CPROVER_ensures(cond)
#else
# define CANARY_CLAUSE(cond)
#endif

#endif /* VERIF_H */
