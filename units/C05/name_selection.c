/*@UNIT
{
  "property": "C05",
  "unit": "name_selection",
  "function": "matrixValidateCertsExt",
  "source": "matrixssl/matrixssl.c",
  "keep_bodies": ["wildcardMatch", "matchEmail", "checkPathLenConstraint"],
  "replace": [],
  "assumed": ["psX509AuthenticateCert (model: returns an arbitrary input value, stores the issuer in *foundIssuer on success; the signature/path part is property C03)",
              "psX509ValidateGeneralName (model: returns an arbitrary input value; the real function is enforced in unit validate_general_name)",
              "Snprintf (cbmc build only: model of C99 snprintf for the one format \"%u.%u.%u.%u\": at most size-1 characters and a NUL are stored; the native replay uses libc)",
              "libc strchr, strcasecmp, strcmp, strlen, strncmp (cbmc's built-in models)"],
  "mode": "bounded",
  "bounds": "leaf certificate with a subjectAltName list of at most 2 entries of every kind (tag 0..15) and an optional common name, one trusted issuer, every option combination except REVALIDATE_DATES. case names: expected name, entries and CN of 4 bytes or fewer; case ip: expected name of 15 bytes or fewer, entries of 16 bytes or fewer, kinds restricted to iPAddress/URI/otherName, no CN. Loops unwound with unwinding assertions",
  "cases": [{"name": "names", "defs": ["XMAX=4", "DMAX=4", "CASE_NAMES=1"]},
            {"name": "ip", "defs": ["XMAX=15", "DMAX=16", "CASE_IP=1"]}],
  "unwind": 20,
  "unwindset": ["matrixValidateCertsExt_wrapped_for_contract_checking.0:2", "matrixValidateCertsExt_wrapped_for_contract_checking.1:2", "matrixValidateCertsExt_wrapped_for_contract_checking.2:4", "matrixValidateCertsExt_wrapped_for_contract_checking.3:3"],
  "native_replay": true,
  "timeout": 900
}
@*/
/* C05.U3  the expected-name block of matrixValidateCertsExt (matrixssl.c:2516-2627),
 * reached with a leaf, one trusted issuer and the path check stubbed.
 *
 * NAME_CHECKED (issuer found, expected name given, check not switched off):
 *     the SUBJECT failure flag stays clear  <=>  spec_name_ok()
 * where spec_name_ok is the statement: SOME subjectAltName entry of the kind
 * selected by opts->nameType matches (dNSName: spec_match, rfc822Name:
 * spec_email, iPAddress: a 4-byte address whose dotted quad EQUALS the expected
 * name), or the common name matches - consulted only if the list has no
 * dNSName/rfc822Name/iPAddress entry (or the application set
 * ALWAYS_CHECK_SUBJECT_CN).  The spec is an existential over the list, so it is
 * invariant under permutation: position independence follows from the
 * equivalence.  And: RET == PS_SUCCESS with an expected name  =>  spec_name_ok().
 *
 * Input domain: entries are what parseGeneralNames returns (terminated, IA5
 * kinds without embedded NUL: C09 unit general_names); the expected name is a
 * C string that does not start with '.' (unit validate_general_name).
 * Fixed modes (assigned constants): chain of length 1, one issuer without a
 * pathLenConstraint, VCERTS_FLAG_REVALIDATE_DATES clear.
 * Left at zero and irrelevant on this path: every other field of the two
 * psX509Cert_t objects (the stubbed psX509AuthenticateCert is the only reader).
 */
#include "verif.h"
#include "matrixssl/matrixsslImpl.h"
#ifndef XMAX
# define XMAX 4
# define DMAX 4
# define CASE_NAMES 1
#endif
#define LMAX (XMAX > DMAX ? XMAX : DMAX)
#include "names_harness.h"
#define NSAN 2

static psX509Cert_t g_leaf, g_ca;
static psX509Cert_t *g_found;
static matrixValidateCertsOptions_t g_opts;
static x509GeneralName_t g_san[NSAN];
static unsigned char g_data[NSAN][DMAX + 1];
static char g_x[XMAX + 1], g_cn[DMAX + 1];
static unsigned g_nsan;
static int g_have_x, g_have_cn;
static int32 g_auth_rc, g_validate_rc;      /* what the two stubs answer */
static unsigned gh_auth_calls;

int32 psX509AuthenticateCert(psPool_t *pool, psX509Cert_t *subjectCert, psX509Cert_t *issuerCert,
    psX509Cert_t **foundIssuer, void *hwCtx, void *poolUserPtr)
{
    gh_auth_calls++;
    if (g_auth_rc == PS_SUCCESS) { *foundIssuer = issuerCert; }
    return g_auth_rc;
}
int32_t psX509ValidateGeneralName(const char *n)
{
    return g_validate_rc;
}
#ifndef NATIVE_REPLAY
static int vr_snprintf(char *buf, size_t size, const char *fmt, unsigned v0, unsigned v1, unsigned v2, unsigned v3)
{
    /* C99 7.19.6.5 for "%u.%u.%u.%u": format completely, store at most size-1 characters, then NUL */
    char tmp[4 * 10 + 4];
    unsigned v[4], k, n = 0, i, d, started;
    (void) fmt;                     /* the only reachable call site uses "%u.%u.%u.%u" (matrixssl.c:2568) */
    v[0] = v0; v[1] = v1; v[2] = v2; v[3] = v3;
    for (k = 0; k < 4; k++)
    {
        started = 0;
        for (d = 1000000000u; d >= 1; d /= 10)
        {
            unsigned q = (v[k] / d) % 10;
            if (q != 0 || started || d == 1) { tmp[n++] = (char) ('0' + q); started = 1; }
        }
        if (k < 3) { tmp[n++] = '.'; }
    }
    for (i = 0; i < n && i + 1 < size; i++) { buf[i] = tmp[i]; }
    if (size > 0) { buf[i] = 0; }
    return (int) n;
}
# define Snprintf(...) vr_snprintf(__VA_ARGS__)
#endif

/* ---- spec ------------------------------------------------------------ */
static int spec_ip(const unsigned char *d, const char *x)    /* x == dotted quad of d[0..3] */
{
    char q[16];
    unsigned k, n = 0, v;
    for (k = 0; k < 4; k++)
    {
        v = d[k];
        if (v >= 100) { q[n++] = (char) ('0' + v / 100); }
        if (v >= 10) { q[n++] = (char) ('0' + (v / 10) % 10); }
        q[n++] = (char) ('0' + v % 10);
        if (k < 3) { q[n++] = '.'; }
    }
    q[n] = 0;
    if (spec_len(x) != n) { return 0; }
    for (k = 0; k < n; k++) { if (q[k] != x[k]) { return 0; } }
    return 1;
}
#define NT g_opts.nameType
static int spec_name_ok(void)
{
    unsigned i;
    int supported = 0;
    for (i = 0; i < g_nsan && i < NSAN; i++)
    {
        x509GeneralName_t *e = &g_san[i];
        if (e->id == GN_DNS)
        {
            supported = 1;
            if ((NT == NAME_TYPE_ANY || NT == NAME_TYPE_HOSTNAME || NT == NAME_TYPE_SAN_DNS) && spec_match((char *) e->data, g_x)) { return 1; }
        }
        else if (e->id == GN_EMAIL)
        {
            supported = 1;
            if ((NT == NAME_TYPE_ANY || NT == NAME_TYPE_SAN_EMAIL) &&
                spec_email((char *) e->data, e->dataLen, g_x, !(g_opts.mFlags & VCERTS_MFLAG_SAN_EMAIL_CASE_INSENSITIVE_LOCAL_PART))) { return 1; }
        }
        else if (e->id == GN_IP)
        {
            supported = 1;
            if ((NT == NAME_TYPE_ANY || NT == NAME_TYPE_SAN_IP_ADDRESS) && e->dataLen == 4 && spec_ip(e->data, g_x)) { return 1; }
        }
    }
    if ((NT == NAME_TYPE_ANY || NT == NAME_TYPE_CN || NT == NAME_TYPE_HOSTNAME) &&
        (!supported || (g_opts.mFlags & VCERTS_MFLAG_ALWAYS_CHECK_SUBJECT_CN)) &&
        g_have_cn && spec_match(g_cn, g_x)) { return 1; }
    return 0;
}
#define ARG_REFUSED (((g_opts.mFlags & VCERTS_MFLAG_ALWAYS_CHECK_SUBJECT_CN) && NT != NAME_TYPE_ANY && NT != NAME_TYPE_HOSTNAME && NT != NAME_TYPE_CN) || \
                     ((g_opts.flags & VCERTS_FLAG_VALIDATE_EXPECTED_GENERAL_NAME) && g_have_x && g_validate_rc < 0))
#define NAME_CHECKED (!ARG_REFUSED && g_auth_rc == PS_SUCCESS && g_have_x && !(g_opts.flags & VCERTS_FLAG_SKIP_EXPECTED_NAME_VALIDATION))
#define SUBJECT_FAILED ((g_leaf.authFailFlags & PS_CERT_AUTH_FAIL_SUBJECT_FLAG) != 0)

#define POSTS(P) \
    P(bad_options_are_refused,          IMPLIES(ARG_REFUSED, RET == PS_ARG_FAIL && gh_auth_calls == 0)) \
    P(name_accepted_only_if_carried,    IMPLIES(NAME_CHECKED && !SUBJECT_FAILED, spec_name_ok())) \
    P(carried_name_is_accepted,         IMPLIES(NAME_CHECKED && spec_name_ok(), !SUBJECT_FAILED)) \
    P(name_failure_is_reported,         IMPLIES(NAME_CHECKED && SUBJECT_FAILED, RET == PS_CERT_AUTH_FAIL_EXTENSION && g_leaf.authStatus == PS_CERT_AUTH_FAIL_EXTENSION)) \
    P(success_only_with_the_expected_name, IMPLIES(RET == PS_SUCCESS && g_have_x && !(g_opts.flags & VCERTS_FLAG_SKIP_EXPECTED_NAME_VALIDATION), g_auth_rc == PS_SUCCESS && spec_name_ok())) \
    P(subject_flag_only_from_name_check, IMPLIES(!NAME_CHECKED, !SUBJECT_FAILED))

int32 matrixValidateCertsExt(psPool_t *pool, psX509Cert_t *subjectCerts, psX509Cert_t *issuerCerts, char *expectedName,
    psX509Cert_t **foundIssuer, void *hwCtx, void *poolUserPtr, const matrixValidateCertsOptions_t *opts)
__CPROVER_requires(pool == NULL && subjectCerts == &g_leaf && issuerCerts == &g_ca && expectedName == (g_have_x ? g_x : (char *) 0))
__CPROVER_requires(foundIssuer == &g_found && hwCtx == NULL && poolUserPtr == NULL && opts == &g_opts && gh_auth_calls == 0)
POSTS(ENSURES_CLAUSE)
CANARY_CLAUSE(!(__CPROVER_return_value == PS_SUCCESS && g_have_x && g_nsan == 2 && !(g_opts.flags & VCERTS_FLAG_SKIP_EXPECTED_NAME_VALIDATION)))
__CPROVER_assigns(g_found, g_leaf.authStatus, g_leaf.authFailFlags, gh_auth_calls)
;

#include "matrixssl/matrixssl.c"

struct __attribute__((packed)) inputs
{
    unsigned char nsan, have_x, have_cn;
    unsigned char nameType;
    unsigned char flags, mFlags;
    int32_t auth_rc, validate_rc;
    uint32_t critFlags, ekuFlags, authFailFlags;
    unsigned char id[NSAN];
    unsigned char dlen[NSAN];
    unsigned char data[NSAN][DMAX];
    char x[XMAX];
    char cn[DMAX];
};
#ifndef NATIVE_REPLAY
struct inputs nondet_in(void);
#endif
DECL_SNAPSHOT(psX509Cert_t, g_leaf);

HARNESS_BEGIN
    HARNESS_INPUTS(struct inputs, in);
    int32 vr_ret;
    unsigned i, j;
    Memset(&g_leaf, 0, sizeof(g_leaf)); Memset(&g_ca, 0, sizeof(g_ca)); Memset(&g_opts, 0, sizeof(g_opts));
    Memset(g_san, 0, sizeof(g_san));
    g_leaf.next = NULL; g_ca.next = NULL;                   /* mode: chain of one, one issuer (assigned, so that symex sees constants) */
    /* type invariant of the options record */
    __CPROVER_assume(in.nameType <= NAME_TYPE_SAN_IP_ADDRESS);
    g_opts.nameType = (expectedNameType_t) in.nameType;
    g_opts.flags = in.flags & (VCERTS_FLAG_VALIDATE_EXPECTED_GENERAL_NAME | VCERTS_FLAG_SKIP_EXPECTED_NAME_VALIDATION); /* mode: REVALIDATE_DATES clear */
    g_opts.mFlags = in.mFlags & (VCERTS_MFLAG_ALWAYS_CHECK_SUBJECT_CN | VCERTS_MFLAG_SAN_EMAIL_CASE_INSENSITIVE_LOCAL_PART);
    g_auth_rc = in.auth_rc; g_validate_rc = in.validate_rc;
    gh_auth_calls = 0; g_found = NULL;
    g_ca.extensions.bc.pathLenConstraint = -1;              /* mode: issuer without pathLenConstraint */
    g_leaf.extensions.critFlags = in.critFlags; g_leaf.extensions.ekuFlags = in.ekuFlags;
    g_leaf.authFailFlags = in.authFailFlags & ~(uint32_t) PS_CERT_AUTH_FAIL_SUBJECT_FLAG;
    /* expected name: C string of at most XMAX bytes, not starting with '.' (validated, see header) */
    for (i = 0; i < XMAX; i++) { g_x[i] = in.x[i]; }
    g_x[XMAX] = 0;
    g_have_x = in.have_x & 1;
    __CPROVER_assume(g_x[0] != '.');
    /* common name */
    for (i = 0; i < DMAX; i++) { g_cn[i] = in.cn[i]; }
    g_cn[DMAX] = 0;
#ifdef CASE_IP
    g_have_cn = 0;
#else
    g_have_cn = in.have_cn & 1;
#endif
    g_leaf.subject.commonName = g_have_cn ? g_cn : NULL;
    /* subjectAltName list as parseGeneralNames leaves it */
    __CPROVER_assume(in.nsan <= NSAN);
    g_nsan = in.nsan;
    for (i = 0; i < NSAN; i++)
    {
        __CPROVER_assume(in.id[i] <= 15 && in.dlen[i] >= 1 && in.dlen[i] <= DMAX);
#ifdef CASE_IP
        __CPROVER_assume(in.id[i] == GN_IP || in.id[i] == GN_URI || in.id[i] == GN_OTHER);
#endif
        g_san[i].id = (x509GeneralNameType_t) in.id[i];
        for (j = 0; j < DMAX; j++) { g_data[i][j] = in.data[i][j]; }
        g_data[i][DMAX] = 0;
        g_san[i].dataLen = in.dlen[i];
        g_data[i][in.dlen[i]] = 0;                           /* terminated */
        if (in.id[i] == GN_DNS || in.id[i] == GN_EMAIL || in.id[i] == GN_URI)
        {
            /* IA5 kinds: no NUL inside (dataLen may be 0 after the trailing-NUL trim) */
            __CPROVER_assume(spec_len((char *) g_data[i]) == in.dlen[i] || (in.dlen[i] == 1 && g_data[i][0] == 0));
            if (g_data[i][0] == 0) { g_san[i].dataLen = 0; }
        }
        if (in.id[i] == GN_IP) { __CPROVER_assume(in.dlen[i] >= 4 || DMAX < 4); }
        g_san[i].data = g_data[i];
        g_san[i].next = (i + 1 < g_nsan) ? &g_san[i + 1] : NULL;
    }
    g_leaf.extensions.san = g_nsan ? &g_san[0] : NULL;
    SNAPSHOT(g_leaf);
    vr_ret = matrixValidateCertsExt(NULL, &g_leaf, &g_ca, g_have_x ? g_x : NULL, &g_found, NULL, NULL, &g_opts);
    (void) vr_ret;
    POSTS(NATIVE_CHECK)
HARNESS_END
