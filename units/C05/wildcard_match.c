/*@UNIT
{
  "property": "C05",
  "unit": "wildcard_match",
  "function": "wildcardMatch",
  "source": "matrixssl/matrixssl.c",
  "keep_bodies": [],
  "replace": [],
  "assumed": ["libc strchr, strcasecmp (cbmc's built-in models: byte loops, ASCII case folding)"],
  "mode": "bounded",
  "bounds": "every presented name and every expected name of L bytes or fewer over the full byte alphabet (L = 6 quick, 10 thorough); string loops unwound L+3 with unwinding assertions",
  "defs_quick": ["LMAX=6"],
  "defs_thorough": ["LMAX=10"],
  "unwind": 14,
  "native_replay": true,
  "timeout": 600
}
@*/
/* C05.U1  wildcardMatch(presented, expected): the matcher used for SAN dNSName
 * entries and for the subject common name.
 *
 *     ret == 0  <=>  spec_match(presented, expected)        (names_harness.h)
 *
 * i.e. case-insensitive exact equality, or "*.rest" where the '*' stands for
 * exactly one non-empty left-most label of the expected name; partial, suffix
 * and multi-label matches never succeed.
 *
 * Input domain: the expected name does not start with '.'.  Every expected
 * name that reaches this function through a session has passed
 * psX509ValidateGeneralName (matrixsslApi.c:215-221), whose unit
 * validate_general_name proves "accepted => first character is alphanumeric".
 * Without that restriction wildcardMatch("*.a", ".a") == 0 (the '*' would stand
 * for an EMPTY label): recorded in NOTES.md, reachable only through a direct
 * matrixValidateCerts() call with such a name.
 */
#include "verif.h"
#include "matrixssl/matrixsslImpl.h"
#ifndef LMAX
# define LMAX 6
#endif
#include "names_harness.h"

static char g_w[LMAX + 1], g_s[LMAX + 1];
static int g_wnull;

#define POSTS(P) \
    P(ret_is_0_or_minus_1,           RET == 0 || RET == -1) \
    P(match_only_if_statement_allows, IMPLIES(RET == 0, !g_wnull && spec_match(g_w, g_s))) \
    P(allowed_match_is_accepted,     IMPLIES(!g_wnull && spec_match(g_w, g_s), RET == 0)) \
    P(absent_name_never_matches,     IMPLIES(g_wnull, RET == -1))

static int wildcardMatch(char *wild, char *s)
__CPROVER_requires(wild == (g_wnull ? (char *) 0 : g_w) && s == g_s)
__CPROVER_requires(g_w[LMAX] == 0 && g_s[LMAX] == 0 && g_s[0] != '.')
POSTS(ENSURES_CLAUSE)
CANARY_CLAUSE(__CPROVER_return_value != 0 || g_w[0] != '*')
__CPROVER_assigns()
;

#include "matrixssl/matrixssl.c"

struct __attribute__((packed)) inputs
{
    unsigned char wnull;
    char w[LMAX];
    char s[LMAX];
};
#ifndef NATIVE_REPLAY
struct inputs nondet_in(void);
#endif

HARNESS_BEGIN
    HARNESS_INPUTS(struct inputs, in);
    int vr_ret;
    unsigned i;
    for (i = 0; i < LMAX; i++) { g_w[i] = in.w[i]; g_s[i] = in.s[i]; }
    g_w[LMAX] = 0; g_s[LMAX] = 0;         /* C strings of at most LMAX bytes: the first NUL ends them */
    g_wnull = in.wnull & 1;
    /* input domain (see above): validated expected names do not start with '.' */
    __CPROVER_assume(g_s[0] != '.');
    vr_ret = wildcardMatch(g_wnull ? (char *) 0 : g_w, g_s);
    (void) vr_ret;
    POSTS(NATIVE_CHECK)
HARNESS_END
