/*@UNIT
{
  "property": "C05",
  "unit": "match_email",
  "function": "matchEmail",
  "source": "matrixssl/matrixssl.c",
  "keep_bodies": [],
  "replace": [],
  "assumed": ["libc strlen, strncmp, strcasecmp (cbmc's built-in models)"],
  "mode": "bounded",
  "bounds": "every rfc822Name entry and every expected name of L bytes or fewer over the full byte alphabet (L = 6 quick, 10 thorough); loops unwound L+3 with unwinding assertions",
  "defs_quick": ["LMAX=6"],
  "defs_thorough": ["LMAX=10"],
  "unwind": 14,
  "native_replay": true,
  "timeout": 600
}
@*/
/* C05.U2  matchEmail(entry, entryLen, expected, caseSensitiveLocalPart): SAN rfc822Name.
 *
 *     ret == 1  <=>  spec_email(entry, entryLen, expected, caseSensitiveLocalPart)
 *     ret is 0 or 1
 *
 * equal length; the part from the first '@' of the entry on is compared
 * case-insensitively, the local part exactly (RFC 5280 7.5) unless the caller
 * asked for a fully case-insensitive comparison.
 *
 * Input domain: the entry is what parseGeneralNames produces for an IA5String
 * name: data[dataLen] == 0 and no NUL inside (C09 unit general_names, clauses
 * every_entry_is_terminated / names_are_printable_no_embedded_nul - which FAIL
 * on the unchanged tree, finding F5: there the second name of a list can be
 * unterminated and dataLen one short, and this function is then called outside
 * its domain).
 */
#include "verif.h"
#include "matrixssl/matrixsslImpl.h"
#ifndef LMAX
# define LMAX 6
#endif
#include "names_harness.h"

static char g_e[LMAX + 1], g_x[LMAX + 1];
static int32 g_elen, g_cs;

#define POSTS(P) \
    P(ret_is_0_or_1,                 RET == 0 || RET == 1) \
    P(match_only_if_statement_allows, IMPLIES(RET == 1, spec_email(g_e, (unsigned) g_elen, g_x, g_cs))) \
    P(allowed_match_is_accepted,     IMPLIES(spec_email(g_e, (unsigned) g_elen, g_x, g_cs), RET == 1))

static int matchEmail(char *email, int32 emailLen, char *expectedEmail, int32 caseSensitiveLocalPart)
__CPROVER_requires(email == g_e && emailLen == g_elen && expectedEmail == g_x && caseSensitiveLocalPart == g_cs)
__CPROVER_requires(g_x[LMAX] == 0 && g_elen >= 0 && g_elen <= LMAX && g_e[g_elen] == 0 && spec_len(g_e) == (unsigned) g_elen)
POSTS(ENSURES_CLAUSE)
CANARY_CLAUSE(__CPROVER_return_value != 1 || g_elen < 3)
__CPROVER_assigns()
;

#include "matrixssl/matrixssl.c"

struct __attribute__((packed)) inputs
{
    unsigned char elen;
    unsigned char cs;
    char e[LMAX];
    char x[LMAX];
};
#ifndef NATIVE_REPLAY
struct inputs nondet_in(void);
#endif

HARNESS_BEGIN
    HARNESS_INPUTS(struct inputs, in);
    int vr_ret;
    unsigned i;
    for (i = 0; i < LMAX; i++) { g_e[i] = in.e[i]; g_x[i] = in.x[i]; }
    g_e[LMAX] = 0; g_x[LMAX] = 0;
    g_cs = in.cs & 1;
    /* input domain (see above): entry = C string of exactly elen <= LMAX bytes */
    __CPROVER_assume(in.elen <= LMAX);
    g_elen = in.elen;
    g_e[g_elen] = 0;
    __CPROVER_assume(spec_len(g_e) == (unsigned) g_elen);
    vr_ret = matchEmail(g_e, g_elen, g_x, g_cs);
    (void) vr_ret;
    POSTS(NATIVE_CHECK)
HARNESS_END
