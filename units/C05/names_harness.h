/* Shared SPEC side of the C05 units (not a unit).  Plain C, written from the
 * property statement, independent of the code under contract:
 *
 *   spec_ci_eq      case-insensitive (ASCII) equality of two C strings
 *   spec_match      presented DNS-style name `w` (SAN dNSName or CN) against the
 *                   expected name `s`:
 *                     - w starts with '*': it must continue with '.', s must
 *                       not be an e-mail address (no '@'), and the wildcard
 *                       stands for EXACTLY ONE, NON-EMPTY, LEFT-MOST label:
 *                       s has its first '.' at p >= 1 and w+1 == s+p (case-insens.)
 *                     - otherwise: case-insensitive exact equality (a presented
 *                       name starting with '.' never matches)
 *   spec_email      rfc822Name: same length, host part case-insensitive, local
 *                   part exact (or case-insensitive when the option says so)
 * Loops are bounded by LMAX+1 (strings of the harness are at most LMAX long).
 */
#ifndef NAMES_HARNESS_H
#define NAMES_HARNESS_H

static int spec_lower(int c)
{
    return (c >= 'A' && c <= 'Z') ? c + ('a' - 'A') : c;
}
static int spec_ci_eq(const char *a, const char *b)
{
    unsigned i;
    for (i = 0; i <= LMAX; i++)
    {
        if (spec_lower((unsigned char) a[i]) != spec_lower((unsigned char) b[i])) { return 0; }
        if (a[i] == 0) { return 1; }
    }
    return 0;
}
static unsigned spec_len(const char *a)
{
    unsigned i;
    for (i = 0; i <= LMAX; i++) { if (a[i] == 0) { return i; } }
    return LMAX + 1;
}
static int spec_match(const char *w, const char *s)
{
    unsigned i, p = LMAX + 1, n;
    if (w == NULL) { return 0; }
    if (w[0] == '*')
    {
        if (w[1] != '.') { return 0; }
        n = spec_len(s);
        for (i = 0; i < n && i <= LMAX; i++)
        {
            if (s[i] == '@') { return 0; }
            if (s[i] == '.' && p > LMAX) { p = i; }
        }
        if (p > LMAX || p < 1) { return 0; }
        return spec_ci_eq(w + 1, s + p);
    }
    if (w[0] == '.') { return 0; }
    return spec_ci_eq(w, s);
}
static int spec_email(const char *e, unsigned elen, const char *x, int caseSensitiveLocal)
{
    unsigned i, at = elen;
    if (spec_len(x) != elen) { return 0; }
    if (caseSensitiveLocal)
    {
        for (i = 0; i < elen && i <= LMAX; i++) { if (e[i] == '@') { at = i; break; } }
    }
    else
    {
        at = 0;
    }
    for (i = 0; i < elen && i <= LMAX; i++)
    {
        if (i < at) { if (e[i] != x[i]) { return 0; } }
        else if (spec_lower((unsigned char) e[i]) != spec_lower((unsigned char) x[i])) { return 0; }
    }
    return 1;
}

#endif
