/*@UNIT
{
  "property": "C05",
  "unit": "validate_general_name",
  "function": "psX509ValidateGeneralName",
  "source": "crypto/keyformat/x509.c",
  "keep_bodies": [],
  "replace": [],
  "assumed": [],
  "mode": "bounded",
  "bounds": "every name of L bytes or fewer over the full byte alphabet (L = 8 quick, 12 thorough); the scan loop unwound L+3 with unwinding assertions; the string is a heap object of exactly strlen+1 bytes, so a read behind the terminator is a pointer-check failure",
  "defs_quick": ["LMAX=8"],
  "defs_thorough": ["LMAX=12"],
  "unwind": 16,
  "native_replay": true,
  "timeout": 600
}
@*/
/* C05.U5  psX509ValidateGeneralName: the filter every expected name passes
 * before it is stored in the session (matrixsslApi.c:215-221).
 *
 *   ret == 0  <=>  the name is non-empty, consists of [A-Za-z0-9.@-] only,
 *                  starts and ends with a letter or digit, has no two
 *                  adjacent punctuation characters (. - @), at most one '@',
 *                  and does not start with a digit if it has an '@'
 *   otherwise ret == PS_FAILURE;   NULL is accepted (no expected name).
 * Consequences used by the other units: an accepted name has no '*', no NUL
 * or control character inside, and does not start with '.'.
 */
#include "verif.h"
#include "crypto/cryptoImpl.h"
#ifndef LMAX
# define LMAX 8
#endif

static char *g_n;
static unsigned g_len;      /* strlen of the name */

static int is_alnum(char c) { return (c >= '0' && c <= '9') || (c >= 'A' && c <= 'Z') || (c >= 'a' && c <= 'z'); }
static int is_punct(char c) { return c == '.' || c == '-' || c == '@'; }
static int spec_valid(void)
{
    unsigned i, ats = 0;
    if (g_len < 1) { return 0; }
    for (i = 0; i < g_len && i < LMAX; i++)
    {
        if (!is_alnum(g_n[i]) && !is_punct(g_n[i])) { return 0; }
        if (i > 0 && is_punct(g_n[i]) && is_punct(g_n[i - 1])) { return 0; }
        if (g_n[i] == '@') { ats++; }
    }
    if (!is_alnum(g_n[0]) || !is_alnum(g_n[g_len - 1])) { return 0; }
    if (ats > 1) { return 0; }
    if (ats == 1 && g_n[0] >= '0' && g_n[0] <= '9') { return 0; }
    return 1;
}

#define POSTS(P) \
    P(ret_is_0_or_failure,          RET == 0 || RET == PS_FAILURE) \
    P(accepted_only_if_wellformed,  IMPLIES(RET == 0, spec_valid())) \
    P(wellformed_is_accepted,       IMPLIES(spec_valid(), RET == 0)) \
    P(accepted_starts_alphanumeric, IMPLIES(RET == 0, g_len >= 1 && g_n[0] != '.' && g_n[0] != '*'))

int32_t psX509ValidateGeneralName(const char *n)
__CPROVER_requires(n == g_n && g_n != NULL && g_n[g_len] == 0)
POSTS(ENSURES_CLAUSE)
CANARY_CLAUSE(__CPROVER_return_value != 0 || g_len < 5)
__CPROVER_assigns()
;

#include "crypto/keyformat/asn1.c"
#include "crypto/keyformat/x509.c"

struct __attribute__((packed)) inputs
{
    unsigned char len;
    char n[LMAX];
};
#ifndef NATIVE_REPLAY
struct inputs nondet_in(void);
#endif

HARNESS_BEGIN
    HARNESS_INPUTS(struct inputs, in);
    int32_t vr_ret;
    unsigned i;
    /* input domain: a C string of exactly len <= LMAX bytes, in a heap object of len+1 bytes */
    __CPROVER_assume(in.len <= LMAX);
    g_len = in.len;
    g_n = malloc((size_t) g_len + 1);
    __CPROVER_assume(g_n != NULL);      /* the harness' own allocation */
    for (i = 0; i < LMAX; i++)
    {
        if (i < g_len) { __CPROVER_assume(in.n[i] != 0); g_n[i] = in.n[i]; }
    }
    g_n[g_len] = 0;
    vr_ret = psX509ValidateGeneralName(g_n);
    (void) vr_ret;
    POSTS(NATIVE_CHECK)
HARNESS_END
