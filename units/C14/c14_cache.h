/* Shared harness vocabulary of the C14 session-cache units (U1, U2).
 *
 * The wrapper #includes matrixssl/matrixssl.c, so the file-static cache
 * (g_sessionTable, g_sessionChronList, g_sessionTableLock) is visible; the
 * tentative declarations below only let this header name them before the
 * #include.  The table is cut to C14_TABLE entries by re-defining the
 * configuration constant SSL_SESSION_TABLE_SIZE (matrixsslConfig.h: "minimum
 * value is 1") - same code, smaller configuration (DESIGN probe 2.16).
 *
 *   INV  (c14_wf):  the chronological list is a well-formed circular doubly
 *        linked list whose nodes are exactly the entries with inUse == 0, no
 *        entry has a negative reference count, and id[0..3] of entry i is the
 *        little-endian encoding of i.
 *   OWNS(ssl, i): the session holds a reference on entry i: it carries the
 *        full 32-byte id of the entry and the entry's count is >= 1.
 *
 * Assumed models (never enforced): psLockMutex/psUnlockMutex (ghost gh.held,
 * gh.lock_err on a double lock or an unlock without lock), psGetTime (hands
 * out the harness-chosen time), psDiffMsecs (returns a harness-chosen number
 * and records what it was asked about).
 */
#ifndef C14_CACHE_H
#define C14_CACHE_H

#undef SSL_SESSION_TABLE_SIZE
#define SSL_SESSION_TABLE_SIZE 3
#define C14_TABLE 3
#define C14_INUSE_MAX 0x40000000       /* harness domain: far fewer than 2^30 live sessions share an entry (no int32 overflow of inUse) */

static sslSessionEntry_t g_sessionTable[SSL_SESSION_TABLE_SIZE];
static DLListEntry g_sessionChronList;
static psMutex_t g_sessionTableLock;

static ssl_t g_ssl;
static sslSessionId_t g_sid;
static const sslCipherSpec_t g_specA, g_specB;
static sslSessionEntry_t old_tab[C14_TABLE];       /* copy of the table taken by the harness right before the call */
static int old_pos[C14_TABLE];                     /* position of each entry in the chronological list before the call */
static unsigned char old_sid[SSL_MAX_SESSION_ID_SIZE], old_sidlen;   /* the session's id before the call */

/* ghost state of the assumed models, ONE struct (README: cost of write-set checks) */
static struct
{
    int held, lock_err, locks;
    unsigned gettime_calls, diff_calls;
    psTime_t now, diff_then, diff_now;
    int32 diff_result;
    /* ghost indices: entry, byte of an id, byte of a master secret */
    uint32_t e, k, m;
} gh;

void psLockMutex(psMutex_t *mutex)
{
    if (gh.held || mutex != &g_sessionTableLock)
    {
        gh.lock_err = 1;
    }
    gh.held = 1;
    gh.locks++;
}

void psUnlockMutex(psMutex_t *mutex)
{
    if (!gh.held || mutex != &g_sessionTableLock)
    {
        gh.lock_err = 1;
    }
    gh.held = 0;
}

int32 psGetTime(psTime_t *t, void *userPtr)
{
    gh.gettime_calls++;
    if (t != NULL)
    {
        *t = gh.now;
    }
    return (int32) gh.now.psTimeAbstract[0];
}

int32 psDiffMsecs(psTime_t then, psTime_t now, void *userPtr)
{
    gh.diff_calls++;
    gh.diff_then = then;
    gh.diff_now = now;
    return gh.diff_result;
}

#define TIME_EQ(a, b) ((a).psTimeAbstract[0] == (b).psTimeAbstract[0] && (a).psTimeAbstract[1] == (b).psTimeAbstract[1])

/* index encoded in the first four id bytes, as a 64-bit number (no overflow) */
#define ID_INDEX(id) (((uint64_t) (id)[3] << 24) + ((uint64_t) (id)[2] << 16) + ((uint64_t) (id)[1] << 8) + (uint64_t) (id)[0])

static int c14_node_index(const DLListEntry *p)
{
    int i;

    for (i = 0; i < C14_TABLE; i++)
    {
        if (p == &g_sessionTable[i].chronList)
        {
            return i;
        }
    }
    return -1;
}

static int c14_wf(void)
{
    const DLListEntry *p;
    int seen[C14_TABLE];
    int i, e, step;

    for (i = 0; i < C14_TABLE; i++)
    {
        seen[i] = 0;
        if (g_sessionTable[i].inUse < 0)
        {
            return 0;
        }
        if (ID_INDEX(g_sessionTable[i].id) != (uint64_t) i)
        {
            return 0;
        }
    }
    p = g_sessionChronList.pNext;
    if (p != &g_sessionChronList && c14_node_index(p) < 0)
    {
        return 0;
    }
    if (p->pPrev != &g_sessionChronList)
    {
        return 0;
    }
    for (step = 0; step < C14_TABLE; step++)
    {
        if (p == &g_sessionChronList)
        {
            break;
        }
        e = c14_node_index(p);
        if (e < 0 || seen[e] || g_sessionTable[e].inUse != 0)
        {
            return 0;
        }
        seen[e] = 1;
        /* the successor is the head or a node, and points back */
        if (p->pNext != &g_sessionChronList && c14_node_index(p->pNext) < 0)
        {
            return 0;
        }
        if (p->pNext->pPrev != p)
        {
            return 0;
        }
        p = p->pNext;
    }
    if (p != &g_sessionChronList)
    {
        return 0;
    }
    for (i = 0; i < C14_TABLE; i++)
    {
        if (g_sessionTable[i].inUse == 0 && !seen[i])
        {
            return 0;
        }
    }
    return 1;
}

/* position of entry e in the chronological list (0 = next to be recycled), C14_TABLE if absent */
static int c14_list_pos(int e)
{
    const DLListEntry *p = g_sessionChronList.pNext;
    int step;

    for (step = 0; step < C14_TABLE; step++)
    {
        if (p == &g_sessionChronList)
        {
            return C14_TABLE;
        }
        if (p == &g_sessionTable[e].chronList)
        {
            return step;
        }
        p = p->pNext;
    }
    return C14_TABLE;
}

/* ---- pointer-free description of an arbitrary INV state of the cache ---- */
struct __attribute__((packed)) tab_in
{
    unsigned char id_tail[C14_TABLE][SSL_MAX_SESSION_ID_SIZE - 4];
    unsigned char ms[C14_TABLE][SSL_HS_MASTER_SIZE];
    unsigned char cipher_sel[C14_TABLE];           /* 0: NULL (empty / invalidated), 1: suite A, 2..: suite B */
    unsigned char majVer[C14_TABLE], minVer[C14_TABLE];
    unsigned char ems[C14_TABLE];
    uint64_t start[C14_TABLE][2];
    int32_t inUse[C14_TABLE];
    unsigned char order;                           /* which permutation of the free entries the list holds */
};

static const unsigned char c14_perm[6][3] = { {0, 1, 2}, {0, 2, 1}, {1, 0, 2}, {1, 2, 0}, {2, 0, 1}, {2, 1, 0} };

static const sslCipherSpec_t *c14_cipher(unsigned sel)
{
    return sel == 0 ? NULL : (sel == 1 ? &g_specA : &g_specB);
}

/* builds the state; every INV state is reachable by some tab_in (the pointers
   of in-use nodes are never read by the code: they are made self-loops) */
static void c14_build_table(const struct tab_in *t)
{
    int i, j, e;

    for (i = 0; i < C14_TABLE; i++)
    {
        g_sessionTable[i].id[0] = (unsigned char) i;
        g_sessionTable[i].id[1] = 0;
        g_sessionTable[i].id[2] = 0;
        g_sessionTable[i].id[3] = 0;
        Memcpy(g_sessionTable[i].id + 4, t->id_tail[i], SSL_MAX_SESSION_ID_SIZE - 4);
        Memcpy(g_sessionTable[i].masterSecret, t->ms[i], SSL_HS_MASTER_SIZE);
        g_sessionTable[i].cipher = c14_cipher(t->cipher_sel[i]);
        g_sessionTable[i].majVer = t->majVer[i];
        g_sessionTable[i].minVer = t->minVer[i];
        g_sessionTable[i].extendedMasterSecret = t->ems[i] ? 1 : 0;
        g_sessionTable[i].startTime.psTimeAbstract[0] = t->start[i][0];
        g_sessionTable[i].startTime.psTimeAbstract[1] = t->start[i][1];
        g_sessionTable[i].inUse = t->inUse[i];
        g_sessionTable[i].chronList.pNext = &g_sessionTable[i].chronList;
        g_sessionTable[i].chronList.pPrev = &g_sessionTable[i].chronList;
    }
    DLListInit(&g_sessionChronList);
    for (j = 0; j < C14_TABLE; j++)
    {
        e = c14_perm[t->order % 6][j];
        if (g_sessionTable[e].inUse == 0)
        {
            DLListInsertTail(&g_sessionChronList, &g_sessionTable[e].chronList);
        }
    }
}

static void c14_snapshot_table(void)
{
    int i;

    for (i = 0; i < C14_TABLE; i++)
    {
        old_tab[i] = g_sessionTable[i];
        old_pos[i] = c14_list_pos(i);
    }
    Memcpy(old_sid, g_ssl.sessionId, SSL_MAX_SESSION_ID_SIZE);
    old_sidlen = g_ssl.sessionIdLen;
}

/* ---- pointer-free description of the session object ---- */
struct __attribute__((packed)) ssl_in
{
    uint32_t flags;                                /* only SERVER, CLOSED, ERROR, RESUMED are read */
    unsigned char sessionIdLen;
    unsigned char sessionId[SSL_MAX_SESSION_ID_SIZE];
    unsigned char masterSecret[SSL_HS_MASTER_SIZE];
    unsigned char serverRandom[SSL_HS_RANDOM_SIZE];
    unsigned char cipher_sel;
    uint32_t activeVersion;
    unsigned char ems;
    unsigned char has_sid;
    uint16_t ticketState;
};

static void c14_build_ssl(const struct ssl_in *s)
{
    g_ssl.flags = s->flags;
    g_ssl.sessionIdLen = s->sessionIdLen;
    Memcpy(g_ssl.sessionId, s->sessionId, SSL_MAX_SESSION_ID_SIZE);
    Memcpy(g_ssl.sec.masterSecret, s->masterSecret, SSL_HS_MASTER_SIZE);
    Memcpy(g_ssl.sec.serverRandom, s->serverRandom, SSL_HS_RANDOM_SIZE);
    g_ssl.cipher = c14_cipher(s->cipher_sel);
    g_ssl.activeVersion = s->activeVersion;
    g_ssl.extFlags.extended_master_secret = s->ems ? 1 : 0;
    g_ssl.userPtr = NULL;
    g_ssl.sid = s->has_sid ? &g_sid : NULL;
    g_sid.sessionTicketState = s->ticketState;
}

/* ---- predicates used by several units ---- */
#define T(e)      g_sessionTable[(e) < C14_TABLE ? (e) : 0]
#define OT(e)     old_tab[(e) < C14_TABLE ? (e) : 0]
#define GE        (gh.e < C14_TABLE ? gh.e : 0)
#define GK        (gh.k < SSL_MAX_SESSION_ID_SIZE ? gh.k : 0)
#define GM        (gh.m < SSL_HS_MASTER_SIZE ? gh.m : 0)

static int c14_id_equal(const unsigned char *a, const unsigned char *b)
{
    int j;

    for (j = 0; j < SSL_MAX_SESSION_ID_SIZE; j++)
    {
        if (a[j] != b[j])
        {
            return 0;
        }
    }
    return 1;
}

/* content of entry e (everything but the list node) is what it was before the
   call; the byte arrays are compared at the ghost positions gh.k / gh.m (the
   predicate is only used as a CONSEQUENT, where a ghost index means "all") */
static int c14_entry_unchanged(unsigned e)
{
    return T(e).id[GK] == OT(e).id[GK] && T(e).masterSecret[GM] == OT(e).masterSecret[GM] &&
           T(e).cipher == OT(e).cipher && T(e).majVer == OT(e).majVer && T(e).minVer == OT(e).minVer &&
           T(e).extendedMasterSecret == OT(e).extendedMasterSecret && TIME_EQ(T(e).startTime, OT(e).startTime) &&
           T(e).inUse == OT(e).inUse;
}

/* OWNS: the session (as it was before the call) holds a reference on entry e:
   it carries the entry's full 32-byte id and the entry is referenced at all.
   Used as an ANTECEDENT, hence a real loop over the 32 bytes (c14_id_equal). */
#define OLD_IDX   ID_INDEX(old_sid)
#define OLD_IDXE  ((unsigned) (OLD_IDX < C14_TABLE ? OLD_IDX : 0))
#define OWNS_OLD(e) (old_sidlen == SSL_MAX_SESSION_ID_SIZE && (e) < C14_TABLE && c14_id_equal(OT(e).id, old_sid) && OT(e).inUse >= 1)
#define CHANGED(e)  (!c14_entry_unchanged(e))

/* the loop-free units give the library loops of DFCC a small --unwind and name
   the few long loops (this one, memcmp) in "unwindset" */
#endif
