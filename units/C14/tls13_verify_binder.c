/*@UNIT
{
  "property": "C14",
  "properties": ["C08"],
  "unit": "tls13_verify_binder",
  "function": "tls13VerifyBinder",
  "source": "matrixssl/tls13DecodeExt.c",
  "plain": true,
  "frame_check": "none: harness-checked contract (VERIF_PLAIN_CONTRACT, DESIGN 9.2): tls13VerifyBinder is a static function of a 2200-line file whose other parsers need a dozen more models under goto-instrument",
  "assumed": ["tls13GetPskHmacAlg / tls13GetPskHashLen (models: SHA-256/32 or SHA-384/48 from the input)",
              "tls13TranscriptHashUpdate / tls13TranscriptHashSnapshot (models: record order, ranges and destination)",
              "tls13DeriveEarlySecrets, tls13DeriveBinderKey (models: record the PSK / binder secret they were given, verdict from the input)",
              "psHmacSingle (model: records key, data and lengths; the MAC is the harness's value), memcmpct (model: zero iff equal)",
              "psParseTlsVariableLengthVec (real body from core/src/psbuf.c is linked in through the header's inline wrappers)"],
  "mode": "bounded",
  "bounds": "binder list of every length <= N = 100 bytes (up to three binders of 32..48 bytes) with every content, selected identity 0..2, both hashes; loops unwound with unwinding assertions",
  "defs": ["BUFN=100"],
  "unwind": 52,
  "unwindset": ["harness.0:102"],
  "object_bits": 10,
  "native_replay": false,
  "timeout": 400
}
@*/
/* C14  TLS 1.3 PSK resumption (RFC 8446 4.2.11.2): the server goes on with a pre-shared key only if
 * the binder the client sent FOR THAT identity (the one at the selected index, not any other) has
 * the length of the PSK's hash and equals HMAC(binder_key, Transcript-Hash(truncated ClientHello)),
 * where binder_key is derived from this PSK's early secret and the transcript snapshot is taken
 * after exactly the ClientHello bytes in front of the binders list.  A forged, truncated or
 * foreign binder is decrypt_error.
 * C08  reads only inside the binders list. */
#define VERIF_PLAIN_CONTRACT
#include "verif.h"
#include "matrixssl/matrixsslImpl.h"

#ifndef BUFN
# define BUFN 100
#endif
struct __attribute__((packed)) inputs
{
    uint16_t listLen; uint16_t sel; uint8_t sha384; uint16_t chLen; int32_t early_rc, bk_rc, hmac_rc; uint8_t k;
    unsigned char mac[48]; unsigned char buf[BUFN];
};
static struct inputs g_in;
static ssl_t g_ssl;
static psTls13Psk_t g_psk;
#define PRE 10
static unsigned char g_ch[PRE + 2 + BUFN];     /* the ClientHello: PRE bytes, then the binders list (2-byte length + listLen bytes) at a fixed place */
static psParseBuf_t g_pb;
static struct { int upd, snap, early, bk, hmac; const unsigned char *upd_p[2]; unsigned upd_n[2]; int snap_after; unsigned char *snap_out; psTls13Psk_t *early_psk;
                unsigned char *bk_secret, *bk_out; unsigned bk_secretLen; const unsigned char *h_key, *h_in; unsigned h_keyLen, h_inLen; unsigned char *h_out; } gh;

#define HL (g_in.sha384 ? 48u : 32u)
int32_t tls13GetPskHmacAlg(psTls13Psk_t *psk) { return g_in.sha384 ? HMAC_SHA384 : HMAC_SHA256; }
psSize_t tls13GetPskHashLen(psTls13Psk_t *psk) { return HL; }
int32_t tls13TranscriptHashUpdate(ssl_t *ssl, const unsigned char *in, psSize_t len)
{
    if (gh.upd < 2) { gh.upd_p[gh.upd] = in; gh.upd_n[gh.upd] = len; }
    if (len > 0) { __CPROVER_assert(__CPROVER_r_ok(in, len), "transcript update reads inside the ClientHello"); }
    gh.upd++;
    return 0;
}
int32_t tls13TranscriptHashSnapshot(ssl_t *ssl, unsigned char *out) { gh.snap++; gh.snap_after = gh.upd; gh.snap_out = out; return 0; }
int32_t tls13DeriveEarlySecrets(ssl_t *ssl, psTls13Psk_t *psk) { gh.early++; gh.early_psk = psk; return g_in.early_rc < 0 ? PS_FAILURE : PS_SUCCESS; }
int32_t tls13DeriveBinderKey(ssl_t *ssl, int32_t hmacAlg, unsigned char *binderSecret, psSize_t binderSecretLen, unsigned char *binderKeyOut, psSize_t *binderKeyOutLen)
{
    gh.bk++; gh.bk_secret = binderSecret; gh.bk_secretLen = binderSecretLen; gh.bk_out = binderKeyOut;
    if (g_in.bk_rc < 0) { return PS_FAILURE; }
    *binderKeyOutLen = HL;
    return PS_SUCCESS;
}
int32_t psHmacSingle(psHmac_t *ctx, psCipherType_e hmacAlg, const unsigned char *key, psSize_t keyLen, const unsigned char *in, psSizeL_t inLen, unsigned char out[MAX_HASHLEN])
{
    unsigned i;
    gh.hmac++; gh.h_key = key; gh.h_keyLen = keyLen; gh.h_in = in; gh.h_inLen = inLen; gh.h_out = out;
    if (g_in.hmac_rc < 0) { return PS_FAILURE; }
    for (i = 0; i < 48; i++) { out[i] = g_in.mac[i]; }
    return PS_SUCCESS;
}
int32 memcmpct(const void *s1, const void *s2, size_t len) { return memcmp(s1, s2, len) != 0; }

/* independent walk over the binders list: offset and length of the binder at index g_in.sel */
static int spec_binder(unsigned *off, unsigned *len)
{
    unsigned pos = 0, i, l;
    for (i = 0; i < 4; i++)
    {
        if (pos + 1 > g_in.listLen) { return 0; }
        l = g_in.buf[pos < BUFN ? pos : 0];
        if (l < 32 || pos + 1 + l > g_in.listLen) { return 0; }
        if (i == g_in.sel) { *off = pos + 1; *len = l; return 1; }
        pos += 1 + l;
    }
    return 0;
}
static int binder_ok(void)
{
    unsigned off = 0, len = 0;
    if (!spec_binder(&off, &len)) { return 0; }
    if (len != HL) { return 0; }
    return g_in.k >= HL || g_in.buf[(off + g_in.k) < BUFN ? off + g_in.k : 0] == g_in.mac[g_in.k < 48 ? g_in.k : 0];
}

#define OK (RET == PS_SUCCESS)
#define POSTS(P) \
    P(verdict_is_success_or_fatal,                    OK || RET < 0) \
    P(accepted_binder_is_the_selected_identitys_and_equals_the_mac, IMPLIES(OK, binder_ok())) \
    P(mac_is_keyed_with_this_psks_binder_key,         IMPLIES(OK, gh.early == 1 && gh.early_psk == &g_psk && gh.bk == 1 && gh.bk_secret == g_ssl.sec.tls13ExtBinderSecret && gh.bk_secretLen == HL && \
                                                                  gh.hmac == 1 && gh.h_key == gh.bk_out && gh.h_keyLen == HL)) \
    P(mac_covers_the_transcript_of_the_truncated_hello, IMPLIES(OK, gh.h_in == g_ssl.sec.tls13TrHashSnapshotCHWithoutBinders && gh.h_inLen == HL && gh.snap == 1 && gh.snap_after == 1 && \
                                                                  gh.snap_out == g_ssl.sec.tls13TrHashSnapshotCHWithoutBinders && gh.upd_p[0] == g_ch && gh.upd_n[0] == (unsigned) g_in.chLen - (g_in.listLen + 2u))) \
    P(binders_enter_the_transcript_afterwards,        IMPLIES(OK, gh.upd == 2 && gh.upd_p[1] == g_ch + (g_in.chLen - (g_in.listLen + 2u)) && gh.upd_n[1] == g_in.listLen + 2u)) \
    P(refusal_is_an_alert,                            IMPLIES(!OK && g_in.hmac_rc >= 0, g_ssl.err != SSL_ALERT_NONE))

static int32_t tls13VerifyBinder(ssl_t *ssl, psParseBuf_t *pb)
__CPROVER_requires(ssl == &g_ssl && pb == &g_pb)
POSTS(ENSURES_CLAUSE)
__CPROVER_assigns(gh, g_pb, __CPROVER_object_whole(&g_ssl))
;

#include "core/src/psbuf.c"
#include "matrixssl/hsNegotiateVersion.c"
#include "matrixssl/tls13DecodeExt.c"

struct inputs nondet_in(void);
ssl_t nondet_ssl(void);

HARNESS_BEGIN
    HARNESS_INPUTS(struct inputs, in);
    int32_t vr_ret;
    unsigned i, bl;
    __CPROVER_assume(in.listLen >= 33 && in.listLen <= BUFN && in.sel <= 2);
    bl = in.listLen + 2u;                       /* tls13BindersLen counts the 2-byte length of the list */
    in.chLen = PRE + bl;
    g_in = in;
    g_ssl = nondet_ssl();
    g_ssl.err = SSL_ALERT_NONE;
    g_ssl.sec.tls13ChosenPsk = &g_psk;
    g_ssl.sec.tls13SelectedIdentityIndex = in.sel;
    g_ssl.sec.tls13BindersLen = bl;
    g_ssl.sec.tls13CHStart = g_ch;
    g_ssl.sec.tls13CHLen = in.chLen;
    g_ch[PRE] = in.listLen >> 8; g_ch[PRE + 1] = in.listLen & 0xff;
    for (i = 0; i < BUFN; i++) { g_ch[PRE + 2 + i] = in.buf[i]; }
    Memset(&g_pb, 0, sizeof(g_pb));
    g_pb.buf.buf = g_ch; g_pb.buf.start = g_ch + PRE + 2; g_pb.buf.end = g_ch + in.chLen; g_pb.buf.size = in.chLen;
    g_pb.pool = NULL; g_pb.master = NULL; g_pb.err = 0;
    Memset(&gh, 0, sizeof(gh));
    vr_ret = tls13VerifyBinder(&g_ssl, &g_pb);
    POSTS(NATIVE_CHECK)
#ifdef CANARY
    PLAIN_ASSERT(CANARY, vr_ret != PS_SUCCESS)
#endif
HARNESS_END
