/*@UNIT
{
  "property": "C14",
  "unit": "ticket_create",
  "function": "matrixCreateSessionTicket",
  "source": "matrixssl/matrixssl.c",
  "keep_bodies": ["matrixSessionTicketLen", "psEncodeVersionMaj", "psEncodeVersionMin", "psEncodeVersion"],
  "replace": [],
  "assumed": ["psHmacSha256Init/Update/Final (model: records key, buffer and length; the digest is an arbitrary 32-byte value chosen by the harness)", "psAesInitCBC/psAesEncryptCBC/psAesClearCBC (model: records IV, key, buffer and length, keeps a copy of the plaintext it is handed; the ciphertext is an arbitrary 64-byte value chosen by the harness)", "psGetPrngLocked (model: harness-chosen bytes and result)", "psGetTime (model: harness-chosen seconds)", "sslWritePad (model with the body of sslEncode.c:8051: writes padLen bytes of value padLen-1)", "psLockMutex/psUnlockMutex (model: ghost held flag, error flag on double lock / unlock without lock / wrong mutex)", "memset_s (model: memset)", "Memcpy (CBMC model)"],
  "mode": "proof",
  "why_proof": "loop-free apart from the 7-byte padding loop and constant-length copies (fully unwound with unwinding assertions); only the first key of the list is used, the list is not walked",
  "unwind": 10,
  "object_bits": 10,
  "native_replay": true,
  "timeout": 300
}
@*/
/* C14.U4  sealing of an RFC 5077 session ticket (sslEncode.c:3967) - the
 * inverse of unit ticket_unlock.  Output: hint[4] | len[2] | ticket[128] with
 *     ticket = name[16] | IV[16] | AES-CBC( ver[2] suite[2] ems[1] master[48] time[4] pad[7] ) | HMAC-SHA256[32]
 *
 * Statement -> obligations ("a ... ticket that this server (holder of the
 * ticket keys) issued", "exactly the original session's secret", "ticket-key
 * rotation"):
 *   the ticket is sealed under the FIRST key of the current list (the one
 *       matrixSslLoadSessionTicketKeys documents as the issuing key): its name
 *       goes into the name field, its symmetric key into the AES primitive, its
 *       hash key into the HMAC primitive;
 *   the sealed plaintext is exactly this session's version, suite, EMS use,
 *       master secret and the current time;
 *   the MAC covers name | IV | ciphertext (bytes [0,96) of the ticket), is
 *       computed after encryption, and lands in bytes [96,128);
 *   round-trip lemma with ticket_unlock: both units agree on every offset
 *       (name 0, IV 16, ciphertext 32..96, MAC 96..128, MAC input [0,96),
 *       plaintext offsets 0/2/4/5/53), so a ticket sealed here is accepted
 *       there iff the primitives are inverse/deterministic (assumed);
 *   the ticket lock is free on every return path.
 */
#include "verif.h"
#include "matrixssl/matrixsslImpl.h"

#define TLEN 128
#define OUTCAP (TLEN + 6 + 8)

static psMutex_t g_sessTicketLock;

static ssl_t g_ssl;
static sslKeys_t g_keysObj;
static psSessionTicketKeys_t g_k[2];
static sslCipherSpec_t g_spec;
static unsigned char g_out[OUTCAP], old_out[OUTCAP];
static int32 g_outlen;

static struct
{
    unsigned char mac[32], ct[64], iv[16];
    uint32_t now;
    int32_t prng_rc, aes_init_rc, hmac_init_rc;
} md;

static struct
{
    int held, lock_err;
    unsigned hmac_init, hmac_update, hmac_final, aes_init, aes_enc, gettime_calls, prng_calls;
    const unsigned char *hmac_key, *hmac_buf, *aes_iv, *aes_key, *aes_pt;
    unsigned char *aes_ct, *hmac_out;
    uint32_t hmac_keylen, hmac_len, aes_keylen, aes_len, aes_flags;
    int hmac_after_encrypt, prng_outside_lock;
    unsigned char sealed[64];        /* the plaintext as handed to the AES model */
    unsigned char iv_at_init[16];    /* the IV bytes as seen by psAesInitCBC */
    uint32_t k, m;
} gh;

void psLockMutex(psMutex_t *mutex)
{
    if (gh.held || mutex != &g_sessTicketLock) { gh.lock_err = 1; }
    gh.held = 1;
}
void psUnlockMutex(psMutex_t *mutex)
{
    if (!gh.held || mutex != &g_sessTicketLock) { gh.lock_err = 1; }
    gh.held = 0;
}
int32 psGetTime(psTime_t *t, void *userPtr)
{
    gh.gettime_calls++;
    return (int32) md.now;
}
int32_t psGetPrngLocked(unsigned char *bytes, psSize_t size, void *userPtr)
{
    gh.prng_calls++;
    gh.prng_outside_lock = !gh.held;
    if (size == 16)
    {
        Memcpy(bytes, md.iv, 16);
    }
    return md.prng_rc;
}
int32_t psHmacSha256Init(psHmacSha256_t *ctx, const unsigned char *key, psSize_t keyLen)
{
    gh.hmac_init++;
    gh.hmac_key = key;
    gh.hmac_keylen = keyLen;
    return md.hmac_init_rc;
}
void psHmacSha256Update(psHmacSha256_t *ctx, const unsigned char *buf, uint32_t len)
{
    gh.hmac_update++;
    gh.hmac_buf = buf;
    gh.hmac_len = len;
    gh.hmac_after_encrypt = (gh.aes_enc == 1);
}
void psHmacSha256Final(psHmacSha256_t *ctx, unsigned char hash[SHA256_HASHLEN])
{
    gh.hmac_final++;
    gh.hmac_out = hash;
    Memcpy(hash, md.mac, 32);
}
int32_t psAesInitCBC(psAesCbc_t *ctx, const unsigned char IV[AES_IVLEN], const unsigned char key[AES_MAXKEYLEN], uint8_t keylen, uint32_t flags)
{
    gh.aes_init++;
    gh.aes_iv = IV;
    Memcpy(gh.iv_at_init, IV, 16);
    gh.aes_key = key;
    gh.aes_keylen = keylen;
    gh.aes_flags = flags;
    return md.aes_init_rc;
}
void psAesEncryptCBC(psAesCbc_t *ctx, const unsigned char *pt, unsigned char *ct, uint32_t len)
{
    gh.aes_enc++;
    gh.aes_pt = pt;
    gh.aes_ct = ct;
    gh.aes_len = len;
    if (len == 64)
    {
        Memcpy(gh.sealed, pt, 64);
        Memcpy(ct, md.ct, 64);
    }
}
void psAesClearCBC(psAesCbc_t *ctx)
{
}
/* memset_s (core/osdep/src/osdep.c): plain memset semantics */
errno_t memset_s(void *s, rsize_t smax, int c, rsize_t n)
{
    if (s != NULL && n <= smax)
    {
        Memset(s, c, n);
    }
    return 0;
}
/* body of sslEncode.c:8051 (that file cannot share a translation unit with matrixssl.c) */
int32 sslWritePad(unsigned char *p, unsigned char padLen)
{
    unsigned char c = padLen;

    while (c > 0)
    {
        *p++ = padLen - 1;
        c--;
    }
    return padLen;
}

#define OK    (RET == PS_SUCCESS)
#define GK16  (gh.k < 16 ? gh.k : 0)
#define GK32  (gh.k < 32 ? gh.k : 0)
#define GK64  (gh.k < 64 ? gh.k : 0)
#define GM    (gh.m < SSL_HS_MASTER_SIZE ? gh.m : 0)
#define S8(i) ((uint32_t) gh.sealed[i])
#define TK    (g_out + 6)            /* the ticket proper */
#define LIFE_S (SSL_SESSION_ENTRY_LIFE / 1000)
#ifdef NATIVE_REPLAY
# define OLD_OUTLEN old_g_outlen
#else
# define OLD_OUTLEN __CPROVER_old(g_outlen)
#endif

#define POSTS(P) \
    P(ret_in_range,                    RET == PS_SUCCESS || RET == PS_LIMIT_FAIL || RET == md.aes_init_rc || RET == md.hmac_init_rc) \
    P(small_buffer_is_refused_untouched, IMPLIES(OLD_OUTLEN < TLEN + 6, RET == PS_LIMIT_FAIL && g_out[gh.k < OUTCAP ? gh.k : 0] == old_out[gh.k < OUTCAP ? gh.k : 0] && g_outlen == OLD_OUTLEN)) \
    P(writes_stay_inside_announced_length, g_out[TLEN + 6 + (gh.k < 8 ? gh.k : 0)] == old_out[TLEN + 6 + (gh.k < 8 ? gh.k : 0)]) \
    P(header_is_lifetime_and_length,   IMPLIES(OK, g_outlen == TLEN + 6 && g_out[0] == ((LIFE_S >> 24) & 0xff) && g_out[1] == ((LIFE_S >> 16) & 0xff) && g_out[2] == ((LIFE_S >> 8) & 0xff) && g_out[3] == (LIFE_S & 0xff) && g_out[4] == 0 && g_out[5] == TLEN)) \
    P(name_is_first_keys_name,         IMPLIES(OK, TK[GK16] == g_k[0].name[GK16])) \
    P(iv_is_prng_output,               IMPLIES(OK, TK[16 + GK16] == md.iv[GK16] && gh.iv_at_init[GK16] == md.iv[GK16] && gh.prng_calls == 1)) \
    P(sealed_with_first_keys_symkey,   IMPLIES(OK, gh.aes_init == 1 && gh.aes_enc == 1 && gh.aes_key == g_k[0].symkey && gh.aes_keylen == (uint32_t) g_k[0].symkeyLen && gh.aes_iv == TK + 16 && gh.aes_pt == TK + 32 && gh.aes_ct == TK + 32 && gh.aes_len == 64 && gh.aes_flags == PS_AES_ENCRYPT)) \
    P(ciphertext_is_primitive_output,  IMPLIES(OK, TK[32 + GK64] == md.ct[GK64])) \
    P(sealed_version_suite_ems,        IMPLIES(OK, S8(0) == psEncodeVersionMaj(g_ssl.activeVersion) && S8(1) == psEncodeVersionMin(g_ssl.activeVersion) && ((S8(2) << 8) | S8(3)) == g_spec.ident && S8(4) == g_ssl.extFlags.extended_master_secret)) \
    P(sealed_secret_is_sessions,       IMPLIES(OK, gh.sealed[5 + GM] == g_ssl.sec.masterSecret[GM])) \
    P(sealed_time_is_now,              IMPLIES(OK, gh.gettime_calls == 1 && ((S8(53) << 24) | (S8(54) << 16) | (S8(55) << 8) | S8(56)) == md.now)) \
    P(sealed_padding_is_tls_style,     IMPLIES(OK, gh.sealed[57 + (gh.k < 7 ? gh.k : 0)] == 6)) \
    P(mac_keyed_with_first_keys_hashkey, IMPLIES(OK, gh.hmac_init == 1 && gh.hmac_key == g_k[0].hashkey && gh.hmac_keylen == (uint32_t) g_k[0].hashkeyLen)) \
    P(mac_covers_name_iv_ciphertext,   IMPLIES(OK, gh.hmac_update == 1 && gh.hmac_final == 1 && gh.hmac_buf == TK && gh.hmac_len == 96 && gh.hmac_after_encrypt && gh.hmac_out == TK + 96 && TK[96 + GK32] == md.mac[GK32])) \
    P(primitive_failures_are_reported, IMPLIES(md.aes_init_rc < 0 || md.hmac_init_rc < 0, !OK)) \
    P(session_untouched,               g_ssl.sec.masterSecret[GM] == OLD(g_ssl, sec.masterSecret[GM])) \
    P(lock_balanced,                   gh.held == 0 && !gh.lock_err)

int32 matrixCreateSessionTicket(ssl_t *ssl, unsigned char *out, int32 *outLen)
__CPROVER_requires(ssl == &g_ssl && out == g_out && outLen == &g_outlen)
/* the caller (sslEncode.c:3955-3967) sized the record for matrixSessionTicketLen() + 6; never more than the buffer */
__CPROVER_requires(g_outlen <= OUTCAP)
__CPROVER_requires(gh.held == 0 && gh.lock_err == 0 && gh.hmac_init == 0 && gh.hmac_update == 0 && gh.hmac_final == 0 && gh.aes_init == 0 && gh.aes_enc == 0 && gh.gettime_calls == 0 && gh.prng_calls == 0)
POSTS(ENSURES_CLAUSE)
CANARY_CLAUSE(__CPROVER_return_value != PS_SUCCESS)
__CPROVER_assigns(__CPROVER_object_whole(g_out), g_outlen, gh)
;

#include "matrixssl/hsNegotiateVersion.c"
#include "matrixssl/matrixssl.c"

struct __attribute__((packed)) inputs
{
    unsigned char out[OUTCAP];
    int32_t outlen;
    unsigned char mac[32], ct[64], iv[16];
    unsigned char name[16];
    unsigned char symkey_is_128, ems, two_keys;
    int32_t prng_rc, aes_init_rc, hmac_init_rc;
    uint32_t now, activeVersion;
    uint16_t ident;
    unsigned char ms[SSL_HS_MASTER_SIZE];
    uint32_t k, m;
};
#ifndef NATIVE_REPLAY
struct inputs nondet_in(void);
#endif
DECL_SNAPSHOT(ssl_t, g_ssl);
DECL_SNAPSHOT(int32, g_outlen);

/* key material bytes are left havocked (cbmc) / zero (native): the primitives are
   models that only look at the POINTERS they are given */
HARNESS_BEGIN
    HARNESS_INPUTS(struct inputs, in);
    int32 vr_ret;
    Memcpy(g_out, in.out, OUTCAP);
    Memcpy(old_out, in.out, OUTCAP);
    g_outlen = in.outlen;
    __CPROVER_assume(g_outlen <= OUTCAP);      /* mirror of the requires clause */
    Memcpy(md.mac, in.mac, 32);
    Memcpy(md.ct, in.ct, 64);
    Memcpy(md.iv, in.iv, 16);
    md.now = in.now; md.prng_rc = in.prng_rc; md.aes_init_rc = in.aes_init_rc; md.hmac_init_rc = in.hmac_init_rc;
    Memcpy(g_k[0].name, in.name, 16);
    /* type invariant of a loaded key (matrixSslLoadSessionTicketKeys) */
    g_k[0].symkeyLen = in.symkey_is_128 ? 16 : 32; g_k[0].hashkeyLen = 32; g_k[0].inUse = 0;
    g_k[0].next = in.two_keys ? &g_k[1] : NULL;
    g_k[1].next = NULL;
    g_keysObj.sessTickets = &g_k[0];     /* the caller issues tickets only with a non-empty key list */
    g_ssl.keys = &g_keysObj;
    g_ssl.userPtr = NULL;
    g_spec.ident = in.ident;
    g_ssl.cipher = &g_spec;
    g_ssl.activeVersion = in.activeVersion;
    g_ssl.extFlags.extended_master_secret = in.ems ? 1 : 0;
    Memcpy(g_ssl.sec.masterSecret, in.ms, SSL_HS_MASTER_SIZE);
    Memset(&gh, 0, sizeof(gh));
    gh.k = in.k; gh.m = in.m;
    SNAPSHOT(g_ssl);
    SNAPSHOT(g_outlen);
    vr_ret = matrixCreateSessionTicket(&g_ssl, g_out, &g_outlen);
    (void) vr_ret;
    POSTS(NATIVE_CHECK)
HARNESS_END
