/*@UNIT
{
  "property": "C14",
  "unit": "session_clear",
  "function": "matrixClearSession",
  "source": "matrixssl/matrixssl.c",
  "keep_bodies": ["DLListInsertTail (macro)"],
  "replace": [],
  "assumed": ["psLockMutex/psUnlockMutex (model: ghost held flag, error flag on double lock / unlock without lock / wrong mutex)", "Memset/Memcpy (CBMC models)"],
  "mode": "proof",
  "why_proof": "loop-free; session table configured to 3 entries (SSL_SESSION_TABLE_SIZE is a configuration constant; the function indexes the table, it does not iterate it); the induction over histories is carried by the invariant INV (requires INV, ensures INV)",
  "unwind": 8,
  "unwindset": ["c14_id_equal.0:34", "memcmp.0:34"],
  "cases": [{"name": "index0", "defs": ["IDXC=0"]}, {"name": "index1", "defs": ["IDXC=1"]}, {"name": "index2", "defs": ["IDXC=2"]}, {"name": "index_out_of_range", "defs": ["IDXC=3"]}],
  "object_bits": 10,
  "native_replay": true,
  "timeout": 300
}
@*/
/* C14.U2b  release of a cache reference: matrixClearSession(ssl, 0) when a
 * handshake restarts (hsDecode.c:308, matrixssl.c:2138) and
 * matrixClearSession(ssl, 1) - full removal - when a fatal alert is written
 * (sslEncode.c:1151: "remove this client from the session table as a
 * precaution") or the application asks for a full handshake
 * (matrixssl.c:1043, 1072).
 *
 * Statement -> obligations:
 *   "has not been invalidated by a fatal alert": removal wipes the owner's entry
 *       (cipher NULL - matrixResumeSession refuses it -, master secret and id
 *       tail zero) and the session forgets the id.
 *   "never another session's, under any history": OWNERSHIP - entry e may change
 *       only if the calling session holds it (full 32-byte id equal, entry
 *       referenced); INV in, INV out.
 */
#include "verif.h"
#include "matrixssl/matrixsslImpl.h"
#include "c14_cache.h"

#define OK      (RET == PS_SUCCESS)
#define OWNER   (OWNS_OLD(OLD_IDXE) && OLD_IDX < C14_TABLE)
#define REMOVE  (g_remove != 0)

static int32 g_remove;

#define POSTS(P) \
    P(ret_in_range,                     RET == PS_SUCCESS || RET == PS_ARG_FAIL || RET == PS_LIMIT_FAIL) \
    P(clear_touches_only_own_entry,     IMPLIES(CHANGED(GE), OWNER && GE == OLD_IDXE)) \
    P(invariant_preserved,              c14_wf()) \
    P(invariant_preserved_for_owner,    IMPLIES(OWNER, c14_wf())) \
    P(owner_releases_one_reference,     IMPLIES(OWNER, OK && T(OLD_IDXE).inUse == OT(OLD_IDXE).inUse - 1)) \
    P(removal_invalidates_owners_entry, IMPLIES(OWNER && REMOVE, T(OLD_IDXE).cipher == NULL && T(OLD_IDXE).masterSecret[GM] == 0 && (GK < 4 || T(OLD_IDXE).id[GK] == 0))) \
    P(removal_forgets_the_id,           IMPLIES(OK && REMOVE, g_ssl.sessionIdLen == 0 && g_ssl.sessionId[GK] == 0 && (g_ssl.flags & SSL_FLAGS_RESUMED) == 0)) \
    P(plain_release_keeps_entry_content, IMPLIES(!REMOVE, T(GE).masterSecret[GM] == OT(GE).masterSecret[GM] && T(GE).id[GK] == OT(GE).id[GK] && T(GE).cipher == OT(GE).cipher)) \
    P(index_bytes_of_entry_are_kept,    ID_INDEX(T(GE).id) == ID_INDEX(OT(GE).id)) \
    P(session_secret_untouched,         g_ssl.sec.masterSecret[GM] == OLD(g_ssl, sec.masterSecret[GM])) \
    P(lock_balanced,                    gh.held == 0 && !gh.lock_err)

int32 matrixClearSession(ssl_t *ssl, int32 remove)
__CPROVER_requires(ssl == &g_ssl && remove == g_remove)
__CPROVER_requires(c14_wf())
__CPROVER_requires(gh.held == 0 && gh.lock_err == 0 && gh.locks == 0)
__CPROVER_requires(g_ssl.sessionIdLen <= SSL_MAX_SESSION_ID_SIZE)
POSTS(ENSURES_CLAUSE)
#if IDXC < C14_TABLE
CANARY_CLAUSE(__CPROVER_return_value != PS_SUCCESS)
#else
CANARY_CLAUSE(__CPROVER_return_value != PS_LIMIT_FAIL)      /* nothing else is reachable with an out-of-range index */
#endif
__CPROVER_assigns(__CPROVER_object_whole(g_sessionTable), g_sessionChronList, gh, g_ssl.sessionId, g_ssl.sessionIdLen, g_ssl.flags)
;

#include "matrixssl/hsNegotiateVersion.c"
#include "matrixssl/matrixssl.c"

struct __attribute__((packed)) inputs
{
    struct tab_in tab;
    struct ssl_in ssl;
    int32_t remove;
    uint32_t e, k, m;
};
#ifndef NATIVE_REPLAY
struct inputs nondet_in(void);
#endif
DECL_SNAPSHOT(ssl_t, g_ssl);

HARNESS_BEGIN
    HARNESS_INPUTS(struct inputs, in);
    int32 vr_ret;
    int i;
    /* domain of the reference counts (C14_INUSE_MAX) */
    for (i = 0; i < C14_TABLE; i++) { __CPROVER_assume(in.tab.inUse[i] >= 0 && in.tab.inUse[i] <= C14_INUSE_MAX); }
    __CPROVER_assume(in.ssl.sessionIdLen <= SSL_MAX_SESSION_ID_SIZE);
    c14_build_table(&in.tab);
    c14_build_ssl(&in.ssl);
    /* mode enumeration: the table index encoded in the id is a constant per case (3 = any out-of-range value) */
#if IDXC < C14_TABLE
    g_ssl.sessionId[0] = IDXC; g_ssl.sessionId[1] = 0; g_ssl.sessionId[2] = 0; g_ssl.sessionId[3] = 0;
#else
    __CPROVER_assume(ID_INDEX(g_ssl.sessionId) >= C14_TABLE);
#endif
    gh.held = 0; gh.lock_err = 0; gh.locks = 0; gh.gettime_calls = 0; gh.diff_calls = 0;
    g_remove = in.remove;
    gh.e = in.e; gh.k = in.k; gh.m = in.m;
    c14_snapshot_table();
    SNAPSHOT(g_ssl);
    vr_ret = matrixClearSession(&g_ssl, g_remove);
    (void) vr_ret;
    POSTS(NATIVE_CHECK)
HARNESS_END
