/*@UNIT
{
  "property": "C14",
  "unit": "session_register",
  "function": "matrixRegisterSession",
  "source": "matrixssl/matrixssl.c",
  "keep_bodies": ["psEncodeVersionMaj", "psEncodeVersionMin", "psEncodeVersion", "DLListGetHead / DLListGetContainer (macros)"],
  "replace": [],
  "assumed": ["psLockMutex/psUnlockMutex (model: ghost held flag, error flag on double lock / unlock without lock / wrong mutex)", "psGetTime (model: returns the harness-chosen time)", "Memcpy (CBMC model)"],
  "mode": "proof",
  "why_proof": "loop-free; session table configured to 3 entries (SSL_SESSION_TABLE_SIZE is a configuration constant; the function takes the head of the list, it does not iterate the table); the induction over histories is carried by the invariant INV (requires INV, ensures INV)",
  "unwind": 8,
  "object_bits": 10,
  "native_replay": true,
  "timeout": 300
}
@*/
/* C14.U2a  issue of a new session id: the server takes the oldest unreferenced
 * cache entry and binds it to the current handshake (sslEncode.c:3603).
 *
 * Statement -> obligations ("this server issued", "evictions from the bounded
 * cache", "never another session's"):
 *   only an entry nobody references is recycled (inUse 0 -> 1), and it is the
 *       oldest one of the chronological list (eviction order);
 *   a full cache (every entry referenced) yields no id, never a shared entry;
 *   the issued id is 32 bytes: the entry's index followed by 28 bytes of
 *       server_random, and the session carries exactly that id;
 *   the entry records this session's secret, suite, version, EMS use and the
 *       current time; no other entry changes;  INV in, INV out.
 * PS_SUCCESS is 0, i.e. also a valid index: the obligations are therefore
 * stated on "entry e changed", not on the return value.
 */
#include "verif.h"
#include "matrixssl/matrixsslImpl.h"
#include "c14_cache.h"

#define IS_SRV   ((g_ssl.flags & SSL_FLAGS_SERVER) != 0)
#define NEW_IDX  ID_INDEX(g_ssl.sessionId)
#define ALL_BUSY (OT(0).inUse > 0 && OT(1).inUse > 0 && OT(2).inUse > 0)
#define TICKET_OVERRIDE (g_ssl.sid != NULL && g_sid.sessionTicketState == SESS_TICKET_STATE_RECVD_EXT)
#define DTLS_RETRANSMIT ((g_ssl.activeVersion & v_dtls_any) != 0 && old_sidlen > 0)
#define SESSION_ID_CHANGED (g_ssl.sessionIdLen != old_sidlen || g_ssl.sessionId[GK] != old_sid[GK])

#define POSTS(P) \
    P(ret_in_range,                      (RET >= 0 && RET < C14_TABLE) || RET == PS_FAILURE || RET == PS_LIMIT_FAIL) \
    P(recycles_only_an_unreferenced_entry, IMPLIES(CHANGED(GE), OT(GE).inUse == 0 && T(GE).inUse == 1)) \
    P(recycles_the_oldest_entry,         IMPLIES(CHANGED(GE), old_pos[GE] == 0)) \
    P(changed_entry_is_the_issued_one,   IMPLIES(CHANGED(GE), IS_SRV && RET == (int32) GE && NEW_IDX == GE && g_ssl.sessionIdLen == SSL_MAX_SESSION_ID_SIZE)) \
    P(session_carries_the_entrys_id,     IMPLIES(CHANGED(GE), T(GE).id[GK] == g_ssl.sessionId[GK])) \
    P(id_is_index_plus_server_random,    IMPLIES(CHANGED(GE), ID_INDEX(T(GE).id) == GE && (GK < 4 || T(GE).id[GK] == g_ssl.sec.serverRandom[GK - 4]))) \
    P(entry_records_this_session,        IMPLIES(CHANGED(GE), T(GE).masterSecret[GM] == g_ssl.sec.masterSecret[GM] && T(GE).cipher == g_ssl.cipher && T(GE).majVer == psEncodeVersionMaj(g_ssl.activeVersion) && T(GE).minVer == psEncodeVersionMin(g_ssl.activeVersion) && T(GE).extendedMasterSecret == (short) g_ssl.extFlags.extended_master_secret && TIME_EQ(T(GE).startTime, gh.now))) \
    P(new_id_only_with_a_recycled_entry, IMPLIES(SESSION_ID_CHANGED, NEW_IDX < C14_TABLE && OT(NEW_IDX < C14_TABLE ? NEW_IDX : 0).inUse == 0 && T(NEW_IDX < C14_TABLE ? NEW_IDX : 0).inUse == 1)) \
    P(full_cache_issues_nothing,         IMPLIES(IS_SRV && !TICKET_OVERRIDE && !DTLS_RETRANSMIT && ALL_BUSY, RET == PS_LIMIT_FAIL)) \
    P(free_entry_is_issued,              IMPLIES(IS_SRV && !TICKET_OVERRIDE && !DTLS_RETRANSMIT && !ALL_BUSY, RET >= 0 && RET < C14_TABLE && OT(RET >= 0 && RET < C14_TABLE ? RET : 0).inUse == 0 && T(RET >= 0 && RET < C14_TABLE ? RET : 0).inUse == 1)) \
    P(client_registers_nothing,          IMPLIES(!IS_SRV, RET == PS_FAILURE)) \
    P(session_secret_untouched,          g_ssl.sec.masterSecret[GM] == OLD(g_ssl, sec.masterSecret[GM]) && g_ssl.cipher == OLD(g_ssl, cipher)) \
    P(invariant_preserved,               c14_wf()) \
    P(lock_balanced,                     gh.held == 0 && !gh.lock_err)

int32 matrixRegisterSession(ssl_t *ssl)
__CPROVER_requires(ssl == &g_ssl)
__CPROVER_requires(c14_wf())
__CPROVER_requires(gh.held == 0 && gh.lock_err == 0 && gh.locks == 0 && gh.gettime_calls == 0)
__CPROVER_requires(g_ssl.sessionIdLen <= SSL_MAX_SESSION_ID_SIZE)
POSTS(ENSURES_CLAUSE)
CANARY_CLAUSE(__CPROVER_return_value < 0 || g_sessionTable[1].inUse == old_tab[1].inUse)
__CPROVER_assigns(__CPROVER_object_whole(g_sessionTable), g_sessionChronList, gh, g_ssl.sessionId, g_ssl.sessionIdLen)
;

#include "matrixssl/hsNegotiateVersion.c"
#include "matrixssl/matrixssl.c"

struct __attribute__((packed)) inputs
{
    struct tab_in tab;
    struct ssl_in ssl;
    uint64_t now[2];
    uint32_t e, k, m;
};
#ifndef NATIVE_REPLAY
struct inputs nondet_in(void);
#endif
DECL_SNAPSHOT(ssl_t, g_ssl);

HARNESS_BEGIN
    HARNESS_INPUTS(struct inputs, in);
    int32 vr_ret;
    int i;
    /* domain of the reference counts (C14_INUSE_MAX) */
    for (i = 0; i < C14_TABLE; i++) { __CPROVER_assume(in.tab.inUse[i] >= 0 && in.tab.inUse[i] <= C14_INUSE_MAX); }
    __CPROVER_assume(in.ssl.sessionIdLen <= SSL_MAX_SESSION_ID_SIZE);
    c14_build_table(&in.tab);
    c14_build_ssl(&in.ssl);
    gh.held = 0; gh.lock_err = 0; gh.locks = 0; gh.gettime_calls = 0; gh.diff_calls = 0;
    gh.now.psTimeAbstract[0] = in.now[0];
    gh.now.psTimeAbstract[1] = in.now[1];
    gh.e = in.e; gh.k = in.k; gh.m = in.m;
    c14_snapshot_table();
    SNAPSHOT(g_ssl);
    vr_ret = matrixRegisterSession(&g_ssl);
    (void) vr_ret;
    POSTS(NATIVE_CHECK)
HARNESS_END
