/*@UNIT
{
  "property": "C14",
  "unit": "session_update",
  "function": "matrixUpdateSession",
  "source": "matrixssl/matrixssl.c",
  "keep_bodies": ["DLListInsertTail (macro)"],
  "replace": [],
  "assumed": ["psLockMutex/psUnlockMutex (model: ghost held flag, error flag on double lock / unlock without lock / wrong mutex)", "Memset/Memcpy (CBMC models)"],
  "mode": "proof",
  "why_proof": "loop-free; session table configured to 3 entries (SSL_SESSION_TABLE_SIZE is a configuration constant; the function indexes the table, it does not iterate it); the induction over histories is carried by the invariant INV (requires INV, ensures INV)",
  "unwind": 8,
  "unwindset": ["c14_id_equal.0:34", "memcmp.0:34"],
  "cases": [{"name": "index0", "defs": ["IDXC=0"]}, {"name": "index1", "defs": ["IDXC=1"]}, {"name": "index2", "defs": ["IDXC=2"]}, {"name": "index_out_of_range", "defs": ["IDXC=3"]}],
  "object_bits": 10,
  "native_replay": true,
  "timeout": 300
}
@*/
/* C14.U2c  cache update when the master secret is known (hsDecode.c:1262) and
 * when a session is deleted (matrixssl.c:849, with SSL_FLAGS_CLOSED and
 * possibly SSL_FLAGS_ERROR set).
 *
 * Statement -> obligations:
 *   "has not been invalidated by a fatal alert": an update with SSL_FLAGS_ERROR
 *       wipes the owner's entry (cipher NULL - matrixResumeSession refuses it -
 *       and master secret zero).
 *   "uses exactly the original session's secret, never another session's,
 *    under any history": OWNERSHIP - the function may change entry e only if
 *       the calling session holds it (full 32-byte id equal, entry referenced);
 *       a session that does not own the entry its first four id bytes point at
 *       leaves the table alone.  INV in, INV out.
 *   the secret stored for the owner is the session's current master secret.
 */
#include "verif.h"
#include "matrixssl/matrixsslImpl.h"
#include "c14_cache.h"

#define OK      (RET == PS_SUCCESS)
#define IS_SRV  ((g_ssl.flags & SSL_FLAGS_SERVER) != 0)
#define ERRFLAG ((g_ssl.flags & SSL_FLAGS_ERROR) != 0)
#define CLOSED  ((g_ssl.flags & SSL_FLAGS_CLOSED) != 0)
#define OWNER   (IS_SRV && OWNS_OLD(OLD_IDXE) && OLD_IDX < C14_TABLE)

#define POSTS(P) \
    P(ret_in_range,                     RET == PS_SUCCESS || RET == PS_ARG_FAIL || RET == PS_LIMIT_FAIL || RET == PS_FAILURE) \
    P(update_touches_only_own_entry,    IMPLIES(CHANGED(GE), OWNER && GE == OLD_IDXE)) \
    P(invariant_preserved,              c14_wf()) \
    P(invariant_preserved_for_owner,    IMPLIES(OWNER, c14_wf())) \
    P(error_invalidates_owners_entry,   IMPLIES(OWNER && ERRFLAG, RET == PS_FAILURE && T(OLD_IDXE).cipher == NULL && T(OLD_IDXE).masterSecret[GM] == 0)) \
    P(owner_stores_its_own_secret,      IMPLIES(OWNER && !ERRFLAG, OK && T(OLD_IDXE).masterSecret[GM] == g_ssl.sec.masterSecret[GM] && T(OLD_IDXE).cipher == g_ssl.cipher)) \
    P(close_releases_one_reference,     IMPLIES(OWNER, T(OLD_IDXE).inUse == OT(OLD_IDXE).inUse - (CLOSED ? 1 : 0))) \
    P(identity_of_entry_is_kept,        T(GE).id[GK] == OT(GE).id[GK] && T(GE).majVer == OT(GE).majVer && T(GE).minVer == OT(GE).minVer && TIME_EQ(T(GE).startTime, OT(GE).startTime)) \
    P(session_object_untouched,         g_ssl.sessionIdLen == old_sidlen && g_ssl.sessionId[GK] == old_sid[GK] && g_ssl.sec.masterSecret[GM] == OLD(g_ssl, sec.masterSecret[GM])) \
    P(lock_balanced,                    gh.held == 0 && !gh.lock_err)

int32 matrixUpdateSession(ssl_t *ssl)
__CPROVER_requires(ssl == &g_ssl)
__CPROVER_requires(c14_wf())
__CPROVER_requires(gh.held == 0 && gh.lock_err == 0 && gh.locks == 0)
__CPROVER_requires(g_ssl.sessionIdLen <= SSL_MAX_SESSION_ID_SIZE)
POSTS(ENSURES_CLAUSE)
#if IDXC < C14_TABLE
CANARY_CLAUSE(__CPROVER_return_value != PS_SUCCESS)
#else
CANARY_CLAUSE(__CPROVER_return_value != PS_LIMIT_FAIL)      /* nothing else is reachable with an out-of-range index */
#endif
__CPROVER_assigns(__CPROVER_object_whole(g_sessionTable), g_sessionChronList, gh)
;

#include "matrixssl/hsNegotiateVersion.c"
#include "matrixssl/matrixssl.c"

struct __attribute__((packed)) inputs
{
    struct tab_in tab;
    struct ssl_in ssl;
    uint32_t e, k, m;
};
#ifndef NATIVE_REPLAY
struct inputs nondet_in(void);
#endif
DECL_SNAPSHOT(ssl_t, g_ssl);

HARNESS_BEGIN
    HARNESS_INPUTS(struct inputs, in);
    int32 vr_ret;
    int i;
    /* domain of the reference counts (C14_INUSE_MAX) */
    for (i = 0; i < C14_TABLE; i++) { __CPROVER_assume(in.tab.inUse[i] >= 0 && in.tab.inUse[i] <= C14_INUSE_MAX); }
    __CPROVER_assume(in.ssl.sessionIdLen <= SSL_MAX_SESSION_ID_SIZE);
    c14_build_table(&in.tab);
    c14_build_ssl(&in.ssl);
    /* mode enumeration: the table index encoded in the id is a constant per case (3 = any out-of-range value) */
#if IDXC < C14_TABLE
    g_ssl.sessionId[0] = IDXC; g_ssl.sessionId[1] = 0; g_ssl.sessionId[2] = 0; g_ssl.sessionId[3] = 0;
#else
    __CPROVER_assume(ID_INDEX(g_ssl.sessionId) >= C14_TABLE);
#endif
    gh.held = 0; gh.lock_err = 0; gh.locks = 0; gh.gettime_calls = 0; gh.diff_calls = 0;
    gh.e = in.e; gh.k = in.k; gh.m = in.m;
    c14_snapshot_table();
    SNAPSHOT(g_ssl);
    vr_ret = matrixUpdateSession(&g_ssl);
    (void) vr_ret;
    POSTS(NATIVE_CHECK)
HARNESS_END
