/*@UNIT
{
  "property": "C14",
  "unit": "ticket_unlock",
  "function": "matrixUnlockSessionTicket",
  "source": "matrixssl/matrixssl.c",
  "keep_bodies": ["getTicketKeys", "matrixSessionTicketLen", "psEncodeVersionMaj", "psEncodeVersionMin", "psEncodeVersion"],
  "replace": [],
  "assumed": ["psHmacSha256Init/Update/Final (model: records key, buffer and length; the digest is an arbitrary 32-byte value chosen by the harness)", "psAesInitCBC/psAesDecryptCBC/psAesClearCBC (model: records IV, key, ciphertext pointer and length; the plaintext is an arbitrary 64-byte value chosen by the harness)", "sslGetCipherSpec (model: records the queried id, returns NULL or a suite as chosen by the harness)", "psGetTime (model: harness-chosen seconds)", "psLockMutex/psUnlockMutex (model: ghost held flag, error flag on double lock / unlock without lock / wrong mutex)", "application ticket callback keys->ticket_cb (model: returns a harness-chosen result and optionally appends one key to the list, as matrixSslLoadSessionTicketKeys would; records whether it ran with the lock held)", "Memcmp/Memcpy (CBMC models)"],
  "mode": "bounded",
  "bounds": "ticket-key list <= 3 keys before the call (+1 key appended by the callback); real limit SSL_SESSION_TICKET_LIST_LEN = 32; the ticket itself has the fixed length 128, all contents",
  "unwind": 8,
  "unwindset": ["memcmp.0:34"],
  "remove_function_pointers": true,
  "object_bits": 10,
  "native_replay": true,
  "timeout": 300
}
@*/
/* C14.U3  server-side acceptance of an RFC 5077 session ticket (extDecode.c:653).
 * Ticket layout (fixed, matrixSessionTicketLen() == 128):
 *     name[16] | IV[16] | AES-CBC( ver[2] suite[2] ems[1] master[48] time[4] pad[7] ) | HMAC-SHA256[32]
 *
 * Statement -> obligations ("a ... ticket that this server (holder of the
 * ticket keys) issued, that has not expired, ... whose recorded protocol
 * version, cipher suite and extended-master-secret use match ...; Forged,
 * altered, truncated, foreign ... tickets lead to a full handshake or to
 * failure, never to a resumed session ... under ... ticket-key rotation"):
 *   SUCCESS =>  the length is exactly 128 (truncated / extended);
 *       the key used is one of the server's CURRENT list (rotation) and its
 *       name is the ticket's name field (foreign);
 *       the HMAC primitive was keyed with THAT key's hash key, run exactly once
 *       over bytes [0,96) = name | IV | ciphertext, before anything was
 *       decrypted in place, and its output equals bytes [96,128) (forged,
 *       altered);
 *       the plaintext was produced by the AES primitive keyed with THAT key's
 *       symmetric key, the ticket's IV, over bytes [32,96);
 *       recorded version == the version of this handshake; the suite is known;
 *       EMS required => the ticket has EMS; now - issue time <= lifetime;
 *       the secret set aside for the session is the ticket's.
 *   an unauthentic ticket changes nothing in the session;
 *   the ticket lock is free on return and while the application callback runs.
 */
#include "verif.h"
#include "matrixssl/matrixsslImpl.h"

#define TLEN 128
#define NKEYS 3

static psMutex_t g_sessTicketLock;

static ssl_t g_ssl;
static sslSessionId_t g_sid;
static sslKeys_t g_keysObj;
static psSessionTicketKeys_t g_k[NKEYS], g_kadd;
static const sslCipherSpec_t g_specA, g_specB;
static unsigned char g_ticket[TLEN], old_ticket[TLEN];
static int32 g_inlen;

/* harness-chosen behaviour of the assumed models */
static struct
{
    unsigned char mac[32], plain[64];
    unsigned char spec_sel;
    uint32_t now;
    int32_t cb_rc;
    unsigned char cb_adds;
    int32_t aes_init_rc;
} md;

/* ghost state written by the models */
static struct
{
    int held, lock_err;
    unsigned hmac_init, hmac_update, hmac_final, aes_init, aes_dec, cb_calls, cb_saw_lock, gettime_calls, spec_calls;
    const unsigned char *hmac_key, *hmac_buf, *aes_iv, *aes_key, *aes_ct;
    unsigned char *aes_pt;
    uint32_t hmac_keylen, hmac_len, aes_keylen, aes_len, aes_flags;
    int hmac_before_decrypt;
    uint32_t spec_query;
    uint32_t k, m;                   /* ghost byte indices */
} gh;

void psLockMutex(psMutex_t *mutex)
{
    if (gh.held || mutex != &g_sessTicketLock) { gh.lock_err = 1; }
    gh.held = 1;
}
void psUnlockMutex(psMutex_t *mutex)
{
    if (!gh.held || mutex != &g_sessTicketLock) { gh.lock_err = 1; }
    gh.held = 0;
}
int32 psGetTime(psTime_t *t, void *userPtr)
{
    gh.gettime_calls++;
    return (int32) md.now;
}
int32_t psHmacSha256Init(psHmacSha256_t *ctx, const unsigned char *key, psSize_t keyLen)
{
    gh.hmac_init++;
    gh.hmac_key = key;
    gh.hmac_keylen = keyLen;
    return PS_SUCCESS;
}
void psHmacSha256Update(psHmacSha256_t *ctx, const unsigned char *buf, uint32_t len)
{
    gh.hmac_update++;
    gh.hmac_buf = buf;
    gh.hmac_len = len;
    gh.hmac_before_decrypt = (gh.aes_dec == 0);
}
void psHmacSha256Final(psHmacSha256_t *ctx, unsigned char hash[SHA256_HASHLEN])
{
    gh.hmac_final++;
    Memcpy(hash, md.mac, 32);
}
int32_t psAesInitCBC(psAesCbc_t *ctx, const unsigned char IV[AES_IVLEN], const unsigned char key[AES_MAXKEYLEN], uint8_t keylen, uint32_t flags)
{
    gh.aes_init++;
    gh.aes_iv = IV;
    gh.aes_key = key;
    gh.aes_keylen = keylen;
    gh.aes_flags = flags;
    return md.aes_init_rc;
}
void psAesDecryptCBC(psAesCbc_t *ctx, const unsigned char *ct, unsigned char *pt, uint32_t len)
{
    gh.aes_dec++;
    gh.aes_ct = ct;
    gh.aes_pt = pt;
    gh.aes_len = len;
    if (len == 64)
    {
        Memcpy(pt, md.plain, 64);
    }
}
void psAesClearCBC(psAesCbc_t *ctx)
{
}
const sslCipherSpec_t *sslGetCipherSpec(const ssl_t *ssl, uint16_t id)
{
    gh.spec_calls++;
    gh.spec_query = id;
    return md.spec_sel == 0 ? NULL : (md.spec_sel == 1 ? &g_specA : &g_specB);
}
/* the application's key-lookup callback */
static int32 c14_ticket_cb(void *keys, unsigned char name[16], short found)
{
    psSessionTicketKeys_t *l;
    int i;

    gh.cb_calls++;
    if (gh.held) { gh.cb_saw_lock = 1; }
    if (md.cb_adds)
    {
        /* what matrixSslLoadSessionTicketKeys does: append at the end */
        g_kadd.next = NULL;
        if (g_keysObj.sessTickets == NULL)
        {
            g_keysObj.sessTickets = &g_kadd;
        }
        else
        {
            l = g_keysObj.sessTickets;
            for (i = 0; i < NKEYS; i++)
            {
                if (l->next != NULL) { l = l->next; }
            }
            l->next = &g_kadd;
        }
    }
    return md.cb_rc;
}

/* the key whose hash key the HMAC model was given, NULL if it is none of the server's */
static psSessionTicketKeys_t *c14_mac_key(void)
{
    int i;

    for (i = 0; i < NKEYS; i++)
    {
        if (gh.hmac_key == g_k[i].hashkey) { return &g_k[i]; }
    }
    if (gh.hmac_key == g_kadd.hashkey) { return &g_kadd; }
    return NULL;
}
static int c14_in_current_list(const psSessionTicketKeys_t *key)
{
    const psSessionTicketKeys_t *l = g_keysObj.sessTickets;
    int i;

    for (i = 0; i <= NKEYS; i++)
    {
        if (l == NULL) { return 0; }
        if (l == key) { return 1; }
        l = l->next;
    }
    return 0;
}

#define OK     (RET == PS_SUCCESS)
#define GK16   (gh.k < 16 ? gh.k : 0)
#define GK32   (gh.k < 32 ? gh.k : 0)
#define GM     (gh.m < SSL_HS_MASTER_SIZE ? gh.m : 0)
#define MK     c14_mac_key()
#define P8(i)  ((uint32_t) md.plain[i])
#define T_SUITE ((P8(2) << 8) + P8(3))
#define T_TIME  ((P8(53) << 24) + (P8(54) << 16) + (P8(55) << 8) + P8(56))
#define MAC_DIFFERS_AT_K (md.mac[GK32] != old_ticket[96 + GK32])
#define SESSION_UNCHANGED (g_ssl.cipher == OLD(g_ssl, cipher) && g_sid.masterSecret[GM] == OLD(g_sid, masterSecret[GM]) && g_sid.cipherId == OLD(g_sid, cipherId) && \
                           g_ssl.extFlags.require_extended_master_secret == OLD(g_ssl, extFlags.require_extended_master_secret))

#define POSTS(P) \
    P(ret_is_success_or_failure,        RET == PS_SUCCESS || RET == PS_FAILURE) \
    P(accept_needs_exact_length,        IMPLIES(OK, g_inlen == TLEN)) \
    P(accept_key_is_in_current_list,    IMPLIES(OK, MK != NULL && c14_in_current_list(MK))) \
    P(accept_key_name_is_tickets_name,  IMPLIES(OK && MK != NULL, MK->name[GK16] == old_ticket[GK16])) \
    P(accept_mac_keyed_with_that_hash_key, IMPLIES(OK && MK != NULL, gh.hmac_init == 1 && gh.hmac_keylen == (uint32_t) MK->hashkeyLen)) \
    P(accept_mac_covers_name_iv_ciphertext, IMPLIES(OK, gh.hmac_update == 1 && gh.hmac_final == 1 && gh.hmac_buf == g_ticket && gh.hmac_len == 96 && gh.hmac_before_decrypt)) \
    P(accept_mac_equals_ticket_mac,     IMPLIES(OK, md.mac[GK32] == old_ticket[96 + GK32] && g_ticket[96 + GK32] == old_ticket[96 + GK32])) \
    P(accept_decrypts_with_that_keys_symkey, IMPLIES(OK && MK != NULL, gh.aes_init == 1 && gh.aes_dec == 1 && gh.aes_key == MK->symkey && gh.aes_keylen == (uint32_t) (uint8_t) MK->symkeyLen && gh.aes_iv == g_ticket + 16 && gh.aes_ct == g_ticket + 32 && gh.aes_pt == g_ticket + 32 && gh.aes_len == 64 && gh.aes_flags == PS_AES_DECRYPT)) \
    P(accept_version_matches,           IMPLIES(OK, P8(0) == psEncodeVersionMaj(g_ssl.activeVersion) && P8(1) == psEncodeVersionMin(g_ssl.activeVersion))) \
    P(accept_suite_is_known,            IMPLIES(OK, g_ssl.cipher != NULL && gh.spec_calls == 1 && gh.spec_query == T_SUITE && g_sid.cipherId == T_SUITE)) \
    P(accept_respects_ems_requirement,  IMPLIES(OK && OLD(g_ssl, extFlags.require_extended_master_secret) == 1, P8(4) != 0)) \
    P(accept_not_expired,               IMPLIES(OK, gh.gettime_calls == 1 && (uint32_t) (md.now - T_TIME) <= SSL_SESSION_ENTRY_LIFE / 1000)) \
    P(accept_sets_aside_tickets_secret, IMPLIES(OK, g_sid.masterSecret[GM] == md.plain[5 + GM])) \
    P(wrong_length_changes_nothing,     IMPLIES(g_inlen != TLEN, !OK && SESSION_UNCHANGED && g_ticket[gh.k < TLEN ? gh.k : 0] == old_ticket[gh.k < TLEN ? gh.k : 0])) \
    P(bad_mac_changes_nothing,          IMPLIES(MAC_DIFFERS_AT_K, !OK && SESSION_UNCHANGED)) \
    P(session_master_secret_untouched,  g_ssl.sec.masterSecret[GM] == OLD(g_ssl, sec.masterSecret[GM])) \
    P(lock_balanced,                    gh.held == 0 && !gh.lock_err) \
    P(callback_runs_without_the_lock,   !gh.cb_saw_lock)

int32 matrixUnlockSessionTicket(ssl_t *ssl, unsigned char *in, int32 inLen)
__CPROVER_requires(ssl == &g_ssl && in == g_ticket && inLen == g_inlen)
__CPROVER_requires(gh.held == 0 && gh.lock_err == 0 && gh.hmac_init == 0 && gh.hmac_update == 0 && gh.hmac_final == 0 && gh.aes_init == 0 && gh.aes_dec == 0 && gh.cb_calls == 0 && gh.cb_saw_lock == 0 && gh.gettime_calls == 0 && gh.spec_calls == 0)
POSTS(ENSURES_CLAUSE)
CANARY_CLAUSE(__CPROVER_return_value != PS_SUCCESS)
__CPROVER_assigns(__CPROVER_object_whole(g_ticket), g_ssl.cipher, g_ssl.extFlags, g_sid.masterSecret, g_sid.cipherId,
                  __CPROVER_object_whole(g_k), g_kadd, g_keysObj.sessTickets, gh)
;

#include "matrixssl/hsNegotiateVersion.c"
#include "matrixssl/matrixssl.c"

struct __attribute__((packed)) inputs
{
    unsigned char ticket[TLEN];
    int32_t inlen;
    unsigned char mac[32], plain[64];
    unsigned char names[NKEYS][16], add_name[16];
    unsigned char nkeys, has_cb, cb_adds, spec_sel, cipher_sel, require_ems;
    int32_t cb_rc, aes_init_rc;
    int16_t symkeyLen[NKEYS + 1], hashkeyLen[NKEYS + 1], inUse[NKEYS + 1];
    uint32_t now, activeVersion, old_cipherId;
    unsigned char old_ms[SSL_HS_MASTER_SIZE], ssl_ms[SSL_HS_MASTER_SIZE];
    uint32_t k, m;
};
#ifndef NATIVE_REPLAY
struct inputs nondet_in(void);
#endif
DECL_SNAPSHOT(ssl_t, g_ssl);
DECL_SNAPSHOT(sslSessionId_t, g_sid);

/* key material bytes (symkey, hashkey) are left havocked (cbmc) / zero (native): the
   primitives are models that only look at the POINTERS they are given */
HARNESS_BEGIN
    HARNESS_INPUTS(struct inputs, in);
    int32 vr_ret;
    int i;
    unsigned n = in.nkeys % (NKEYS + 1);
    Memcpy(g_ticket, in.ticket, TLEN);
    Memcpy(old_ticket, in.ticket, TLEN);
    g_inlen = in.inlen;
    Memcpy(md.mac, in.mac, 32);
    Memcpy(md.plain, in.plain, 64);
    md.spec_sel = in.spec_sel; md.now = in.now; md.cb_rc = in.cb_rc; md.cb_adds = in.cb_adds; md.aes_init_rc = in.aes_init_rc;
    for (i = 0; i < NKEYS; i++)
    {
        Memcpy(g_k[i].name, in.names[i], 16);
        /* type invariant of a loaded key (matrixSslLoadSessionTicketKeys): AES-128/256 key, 32-byte HMAC key */
        g_k[i].symkeyLen = (in.symkeyLen[i] & 1) ? 16 : 32; g_k[i].hashkeyLen = 32; g_k[i].inUse = in.inUse[i];
        g_k[i].next = ((unsigned) i + 1 < n) ? &g_k[i + 1] : NULL;
    }
    Memcpy(g_kadd.name, in.add_name, 16);
    g_kadd.symkeyLen = (in.symkeyLen[NKEYS] & 1) ? 16 : 32; g_kadd.hashkeyLen = 32; g_kadd.inUse = in.inUse[NKEYS];
    g_kadd.next = NULL;
    g_keysObj.sessTickets = n > 0 ? &g_k[0] : NULL;
    g_keysObj.ticket_cb = in.has_cb ? c14_ticket_cb : NULL;
    g_ssl.keys = &g_keysObj;
    g_ssl.sid = &g_sid;
    g_ssl.userPtr = NULL;
    g_ssl.cipher = in.cipher_sel == 0 ? NULL : (in.cipher_sel == 1 ? &g_specA : &g_specB);
    g_ssl.activeVersion = in.activeVersion;
    g_ssl.extFlags.require_extended_master_secret = in.require_ems ? 1 : 0;
    Memcpy(g_ssl.sec.masterSecret, in.ssl_ms, SSL_HS_MASTER_SIZE);
    Memcpy(g_sid.masterSecret, in.old_ms, SSL_HS_MASTER_SIZE);
    g_sid.cipherId = in.old_cipherId;
    Memset(&gh, 0, sizeof(gh));
    gh.k = in.k; gh.m = in.m;
    SNAPSHOT(g_ssl);
    SNAPSHOT(g_sid);
    vr_ret = matrixUnlockSessionTicket(&g_ssl, g_ticket, g_inlen);
    (void) vr_ret;
    POSTS(NATIVE_CHECK)
HARNESS_END
