/*@UNIT
{
  "property": "C14",
  "unit": "session_init",
  "function": "initSessionEntryChronList",
  "source": "matrixssl/matrixssl.c",
  "keep_bodies": ["DLListInit / DLListInsertTail (macros)"],
  "replace": [],
  "assumed": [],
  "mode": "proof",
  "why_proof": "one loop over the session table (configured to 3 entries; constant bound SSL_SESSION_TABLE_SIZE), fully unwound with unwinding assertions",
  "unwind": 8,
  "object_bits": 10,
  "no_canary": false,
  "native_replay": false,
  "timeout": 300
}
@*/
/* C14.U2d  base case of the induction over histories: matrixSslOpen zeroes the
 * table (matrixssl.c:147) and calls this function; afterwards INV holds, every
 * entry is free, invalid (cipher NULL: nothing can be resumed from an empty
 * cache) and the recycling order is 0, 1, 2.
 * Not replayed natively: a static void function without inputs.
 */
#include "verif.h"
#include "matrixssl/matrixsslImpl.h"
#include "c14_cache.h"

#define POSTS(P) \
    P(establishes_invariant,    c14_wf()) \
    P(all_entries_free_and_invalid, T(GE).inUse == 0 && T(GE).cipher == NULL) \
    P(recycling_order_is_index_order, c14_list_pos(0) == 0 && c14_list_pos(1) == 1 && c14_list_pos(2) == 2)

static void initSessionEntryChronList(void)
/* the table was just zeroed by matrixSslOpen (Memset at matrixssl.c:147) */
__CPROVER_requires(g_sessionTable[0].inUse == 0 && g_sessionTable[1].inUse == 0 && g_sessionTable[2].inUse == 0)
__CPROVER_requires(g_sessionTable[0].cipher == NULL && g_sessionTable[1].cipher == NULL && g_sessionTable[2].cipher == NULL)
POSTS(ENSURES_CLAUSE)
CANARY_CLAUSE(c14_list_pos(1) != 1)
__CPROVER_assigns(__CPROVER_object_whole(g_sessionTable), g_sessionChronList)
;

#include "matrixssl/hsNegotiateVersion.c"
#include "matrixssl/matrixssl.c"

struct __attribute__((packed)) inputs
{
    uint32_t e;
};
#ifndef NATIVE_REPLAY
struct inputs nondet_in(void);
#endif

HARNESS_BEGIN
    HARNESS_INPUTS(struct inputs, in);
    int i;
    for (i = 0; i < C14_TABLE; i++) { Memset(&g_sessionTable[i], 0, sizeof(g_sessionTable[i])); }
    gh.e = in.e;
    initSessionEntryChronList();
    POSTS(NATIVE_CHECK)
HARNESS_END
