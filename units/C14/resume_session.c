/*@UNIT
{
  "property": "C14",
  "unit": "resume_session",
  "function": "matrixResumeSession",
  "source": "matrixssl/matrixssl.c",
  "keep_bodies": ["psEncodeVersionMaj", "psEncodeVersionMin", "psEncodeVersion", "DLListRemove (macro)"],
  "replace": [],
  "assumed": ["psLockMutex/psUnlockMutex (model: ghost held flag, error flag on double lock / unlock without lock / wrong mutex)", "psGetTime (model: returns the harness-chosen time)", "psDiffMsecs (model: returns a harness-chosen value, records its two arguments)", "Memcmp/Memcpy (CBMC models)"],
  "mode": "proof",
  "why_proof": "the function is loop-free; the memcmp length is at most 32 (constant capacity, loop of the memcmp model fully unwound with unwinding assertions, --unwindset memcmp.0:34); session table configured to 3 entries (SSL_SESSION_TABLE_SIZE is a configuration constant, the function indexes the table, it does not iterate it)",
  "unwind": 8,
  "unwindset": ["memcmp.0:34"],
  "cases": [{"name": "index0", "defs": ["IDXC=0"]}, {"name": "index1", "defs": ["IDXC=1"]}, {"name": "index2", "defs": ["IDXC=2"]}, {"name": "index_out_of_range", "defs": ["IDXC=3"]}],
  "object_bits": 10,
  "native_replay": true,
  "timeout": 300
}
@*/
/* C14.U1  server-side lookup of a presented session id in the session cache.
 *
 * Statement -> obligations ("A server resumes a session only when the client
 * presents a session identifier ... that this server issued, that has not
 * expired, that has not been invalidated ..., and whose recorded protocol
 * version ... and extended-master-secret use match ...; the resumed connection
 * then uses exactly the original session's secret, never another session's.
 * Forged, altered, truncated ... identifiers ... never [lead] to a resumed
 * session"):
 *   issued by this server  = the id is a full 32-byte id (the only length
 *       matrixRegisterSession ever issues) and equals, byte for byte, the id
 *       of the entry it indexes                      (truncated / altered)
 *   not invalidated        = that entry's cipher is not NULL
 *   not expired            = the clock model was asked about exactly that
 *       entry's start time and now, and the answer was within the lifetime;
 *       a NEGATIVE age is not evidence of freshness: psDiffMsecs returns the
 *       age in milliseconds as int32 (core/osdep/POSIX/osdep.c:113-125), which
 *       wraps to a negative number for an entry between 24.9 and 49.7 days old
 *   version / EMS match
 *   exactly that secret    = ssl->sec.masterSecret and ssl->cipher are the
 *       entry's; on refusal both are untouched
 *   history independence   = INV in, INV out (c14_cache.h); one reference is
 *       taken on success, nothing in the table changes on refusal
 *   lock discipline        = the table lock is released on every path.
 */
#include "verif.h"
#include "matrixssl/matrixsslImpl.h"
#include "c14_cache.h"

#define IDX  ID_INDEX(g_ssl.sessionId)
#define IDXE ((unsigned) (IDX < C14_TABLE ? IDX : 0))
#define OK   (RET == PS_SUCCESS)

#define POSTS(P) \
    P(ret_in_range,                      RET == PS_SUCCESS || RET == PS_ARG_FAIL || RET == PS_LIMIT_FAIL || RET == PS_FAILURE) \
    P(resume_only_for_server,            IMPLIES(OK, (g_ssl.flags & SSL_FLAGS_SERVER) != 0)) \
    P(resume_needs_full_length_id,       IMPLIES(OK, g_ssl.sessionIdLen == SSL_MAX_SESSION_ID_SIZE)) \
    P(resume_index_names_a_valid_entry,  IMPLIES(OK, IDX < C14_TABLE && OT(IDXE).cipher != NULL)) \
    P(resume_id_equals_all_32_bytes,     IMPLIES(OK, OT(IDXE).id[GK] == g_ssl.sessionId[GK])) \
    P(resume_not_expired,                IMPLIES(OK, gh.gettime_calls == 1 && gh.diff_calls == 1 && gh.diff_result <= SSL_SESSION_ENTRY_LIFE && TIME_EQ(gh.diff_then, OT(IDXE).startTime) && TIME_EQ(gh.diff_now, gh.now))) \
    P(resume_age_is_not_negative,        IMPLIES(OK, gh.diff_result >= 0)) \
    P(resume_version_matches,            IMPLIES(OK, OT(IDXE).majVer == psEncodeVersionMaj(g_ssl.activeVersion) && OT(IDXE).minVer == psEncodeVersionMin(g_ssl.activeVersion))) \
    P(resume_ems_matches,                IMPLIES(OK, OT(IDXE).extendedMasterSecret == (short) g_ssl.extFlags.extended_master_secret)) \
    P(resume_uses_exactly_that_entrys_secret, IMPLIES(OK, g_ssl.sec.masterSecret[GM] == OT(IDXE).masterSecret[GM] && g_ssl.cipher == OT(IDXE).cipher)) \
    P(resume_takes_one_reference,        IMPLIES(OK, T(IDXE).inUse == OT(IDXE).inUse + 1)) \
    P(refusal_keeps_secret_and_cipher,   IMPLIES(!OK, g_ssl.sec.masterSecret[GM] == OLD(g_ssl, sec.masterSecret[GM]) && g_ssl.cipher == OLD(g_ssl, cipher))) \
    P(refusal_leaves_table_unchanged,    IMPLIES(!OK, c14_entry_unchanged(GE))) \
    P(other_entries_unchanged,           IMPLIES(OK && GE != IDXE, c14_entry_unchanged(GE))) \
    P(entry_content_is_read_only,        T(GE).masterSecret[GM] == OT(GE).masterSecret[GM] && T(GE).id[GK] == OT(GE).id[GK] && T(GE).cipher == OT(GE).cipher) \
    P(invariant_preserved,               c14_wf()) \
    P(lock_balanced,                     gh.held == 0 && !gh.lock_err)

int32 matrixResumeSession(ssl_t *ssl)
__CPROVER_requires(ssl == &g_ssl)
__CPROVER_requires(c14_wf())
__CPROVER_requires(gh.held == 0 && gh.lock_err == 0 && gh.locks == 0 && gh.gettime_calls == 0 && gh.diff_calls == 0)
/* parseClientHello (hsDecode.c:221) and the TLS 1.3 parser refuse longer ids */
__CPROVER_requires(g_ssl.sessionIdLen <= SSL_MAX_SESSION_ID_SIZE)
POSTS(ENSURES_CLAUSE)
#if IDXC < C14_TABLE
CANARY_CLAUSE(__CPROVER_return_value != PS_SUCCESS)
#else
CANARY_CLAUSE(__CPROVER_return_value != PS_LIMIT_FAIL)      /* success is (rightly) unreachable with an out-of-range index */
#endif
__CPROVER_assigns(g_ssl.sec.masterSecret, g_ssl.cipher, __CPROVER_object_whole(g_sessionTable), g_sessionChronList, gh)
;

#include "matrixssl/hsNegotiateVersion.c"
#include "matrixssl/matrixssl.c"

struct __attribute__((packed)) inputs
{
    struct tab_in tab;
    struct ssl_in ssl;
    uint64_t now[2];
    int32_t diff_result;
    uint32_t e, k, m;
};
#ifndef NATIVE_REPLAY
struct inputs nondet_in(void);
#endif
DECL_SNAPSHOT(ssl_t, g_ssl);

/* fields of g_ssl not set by c14_build_ssl: havocked by DFCC in the cbmc run, zero natively; not read */
HARNESS_BEGIN
    HARNESS_INPUTS(struct inputs, in);
    int32 vr_ret;
    int i;
    /* domain of the reference counts (C14_INUSE_MAX): no int32 overflow by one more reference */
    for (i = 0; i < C14_TABLE; i++) { __CPROVER_assume(in.tab.inUse[i] >= 0 && in.tab.inUse[i] <= C14_INUSE_MAX); }
    __CPROVER_assume(in.ssl.sessionIdLen <= SSL_MAX_SESSION_ID_SIZE);
    c14_build_table(&in.tab);
    c14_build_ssl(&in.ssl);
    /* mode enumeration (DESIGN 1.4): the table index encoded in the id is a constant per case;
       IDXC = 0, 1, 2 are the in-range indices, IDXC = 3 stands for every out-of-range value */
#if IDXC < C14_TABLE
    g_ssl.sessionId[0] = IDXC; g_ssl.sessionId[1] = 0; g_ssl.sessionId[2] = 0; g_ssl.sessionId[3] = 0;
#else
    __CPROVER_assume(IDX >= C14_TABLE);
#endif
    gh.held = 0; gh.lock_err = 0; gh.locks = 0; gh.gettime_calls = 0; gh.diff_calls = 0;
    gh.now.psTimeAbstract[0] = in.now[0];
    gh.now.psTimeAbstract[1] = in.now[1];
    gh.diff_result = in.diff_result;
    gh.e = in.e; gh.k = in.k; gh.m = in.m;
    c14_snapshot_table();
    SNAPSHOT(g_ssl);
    vr_ret = matrixResumeSession(&g_ssl);
    (void) vr_ret;
    POSTS(NATIVE_CHECK)
HARNESS_END
