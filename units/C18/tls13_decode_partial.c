/*@UNIT
{
  "property": "C18",
  "unit": "tls13_decode_partial",
  "function": "matrixSslDecodeTls13",
  "source": "matrixssl/tls13Decode.c",
  "keep_bodies": ["tls13ParseRecordHeader", "tls13ValidateRecordHeader", "tls13ValidateRecordType", "tls13ParseChangeCipherSpec", "tls13ParseAndHandleAlert", "tls13HandleAlert", "psParse* (core/src/psbuf.c, core/include/psbuf.h)"],
  "replace": ["tls13ParseHandshakeMessage"],
  "assumed": ["ssl->decrypt (model = the contract proved for the AEAD openers in C02: fails for records shorter than the tag, else verdict chosen by the input)",
              "tls13ParseHandshakeMessage (contract: advances the cursor inside the record, by >= 4 bytes when it returns >= 0; may change hsState, flags, err, decState)",
              "tls13EncodeAlert, sslEncodeResponse (models: write only into the buffer they are given; SSL_FULL / PS_* error / success)"],
  "mode": "bounded",
  "bounds": "receive buffer of N bytes holding every len <= N received bytes with every content (N=40 quick, 72 thorough); loops unwound with unwinding assertions: padding strip N+2, ignored 6-byte ChangeCipherSpec records N/6+2, handshake messages (>= 4 bytes each) N/4+2",
  "defs_quick": ["BUFN=40"],
  "defs_thorough": ["BUFN=72"],
  "unwind_quick": 42, "unwind_thorough": 74,
  "unwindset_quick": ["matrixSslDecodeTls13_wrapped_for_contract_checking.0:9", "matrixSslDecodeTls13_wrapped_for_contract_checking.2:12"],
  "unwindset_thorough": ["matrixSslDecodeTls13_wrapped_for_contract_checking.0:15", "matrixSslDecodeTls13_wrapped_for_contract_checking.2:20"],
  "remove_function_pointers": true,
  "native_replay": true,
  "object_bits": 10,
  "timeout": 400,
  "weight_gb": 4
}
@*/
/* C18.L1  a record that has not arrived completely changes nothing: SSL_PARTIAL is
 * returned with the cursor, the length and the session state untouched, and
 * requiredLen tells how many bytes (counted from the cursor) make the record
 * complete - so feeding the same bytes in any chunking reaches the same state. */
#define DECODER_SSL_FRAME g_ssl.flags, g_ssl.err, g_ssl.rec, g_ssl.hsState, g_ssl.decState, g_ssl.outlen, g_ssl.tls13ReceivedEarlyDataLen, g_ssl.tls13EarlyDataStatus
#define POSTS(P) \
    P(partial_leaves_cursor_and_length,  IMPLIES(RET == SSL_PARTIAL, g_inp == g_buf && g_len == g_in.len && g_remaining == g_in.len)) \
    P(partial_leaves_session_state,      IMPLIES(RET == SSL_PARTIAL, g_ssl.flags == gh_flags_at_entry && g_ssl.hsState == gh_hsstate_at_entry && g_ssl.err == SSL_ALERT_NONE && g_ssl.outlen == g_in.outlen && gh_dec_calls == 0 && gh_hs_calls == 0 && gh_alert_encoded == 0)) \
    P(partial_asks_for_more_than_present, IMPLIES(RET == SSL_PARTIAL, g_reqLen > g_in.len || g_reqLen == TLS_REC_HDR_LEN)) \
    P(consumed_bytes_lie_in_received_data, IMPLIES(RET == MATRIXSSL_SUCCESS || RET == SSL_PROCESS_DATA || RET == SSL_ALERT, __CPROVER_same_object(g_inp, g_buf) && __CPROVER_POINTER_OFFSET(g_inp) <= g_in.len))
#define CANARY_COND (__CPROVER_return_value != SSL_PARTIAL)
#include "tls13_decode.h"
