/*@UNIT
{
  "property": "C19",
  "properties": ["C08"],
  "unit": "tls13_import_public_value",
  "function": "tls13ImportPublicValue",
  "source": "matrixssl/tls13KeyAgree.c",
  "plain": true,
  "frame_check": "none: harness-checked contract (VERIF_PLAIN_CONTRACT, DESIGN 9.2)",
  "keep_bodies": ["psIsEcdheGroup (crypto/common/alg_info.c)"],
  "assumed": ["Malloc/Free (units/common/vr_alloc.h: constant-size blocks, tail placement, request checked, may fail)",
              "getEccParamById, psEccNewKey, psEccClearKey, psEccX963ImportKey, psDhImportPubKey (models: demand a readable key range; verdict from the input)"],
  "mode": "bounded",
  "bounds": "peer key_exchange value of every length <= N = 40 with every content, every NamedGroup, any earlier key left in the session; the function is loop-free except the 32-byte copy (unwound with unwinding assertions); every allocation may fail",
  "defs": ["BUFN=40"],
  "unwind": 44,
  "object_bits": 10,
  "native_replay": false,
  "timeout": 300
}
@*/
/* C19  TLS 1.3: the peer's key_share value is imported (server: from ClientHello, client: from ServerHello).
 * "If any memory allocation fails ... the API call in progress returns an error ...: no crash or undefined
 * behaviour": every allocation made here may fail; then the function must return an error and must not touch
 * the missing block.
 * C08  the key_exchange bytes are read only inside [keyExchangeData, keyExchangeData + len). */
#define VERIF_PLAIN_CONTRACT
#include "verif.h"
#define VR_CAP 512
#include "vr_alloc.h"
#include "matrixssl/matrixsslImpl.h"

#ifndef BUFN
# define BUFN 40
#endif
struct __attribute__((packed)) inputs
{
    uint16_t len, group;
    uint8_t curveOk, newKeyOk, importOk, dhImportOk, hadX25519, hadEcc;
    unsigned char buf[BUFN];
};
static struct inputs g_in;
static ssl_t g_ssl;
static unsigned char g_store[BUFN];
static unsigned char g_oldX[PS_DH_X25519_PUBLIC_KEY_BYTES];
static psEccKey_t g_eccKey, g_oldEcc;
static psEccCurve_t g_curve;
static struct { int import, dhImport; } gh;

int32_t getEccParamById(psCurve16_t curveId, const psEccCurve_t **curve)
{
    if (!g_in.curveOk) { return PS_FAILURE; }
    *curve = &g_curve;
    return PS_SUCCESS;
}
void psEccClearKey(psEccKey_t *key) { __CPROVER_assert(key == &g_oldEcc, "only the session's earlier key is cleared"); }
int32_t psEccNewKey(psPool_t *pool, psEccKey_t **key, const psEccCurve_t *curve)
{
    if (!g_in.newKeyOk) { return PS_MEM_FAIL; }
    *key = &g_eccKey;
    return PS_SUCCESS;
}
int32_t psEccX963ImportKey(psPool_t *pool, const unsigned char *in, psSize_t inlen, psEccKey_t *key, const psEccCurve_t *curve)
{
    gh.import++;
    __CPROVER_assert(key == &g_eccKey, "the point is imported into the key that was just created");
    if (inlen > 0) { __CPROVER_assert(__CPROVER_r_ok(in, inlen), "ECDHE point lies inside the key_exchange value"); }
    return g_in.importOk ? PS_SUCCESS : PS_FAILURE;
}
int32_t psDhImportPubKey(psPool_t *pool, const unsigned char *inbuf, psSize_t inlen, psDhKey_t *key)
{
    gh.dhImport++;
    __CPROVER_assert(key != NULL && __CPROVER_w_ok(key, sizeof(psDhKey_t)), "DH value is imported into an allocated key");
    if (inlen > 0) { __CPROVER_assert(__CPROVER_r_ok(inbuf, inlen), "DH public value lies inside the key_exchange value"); }
    return g_in.dhImportOk ? PS_SUCCESS : PS_FAILURE;
}

#define OK (RET == MATRIXSSL_SUCCESS)
#define X25519 (g_in.group == namedgroup_x25519)
#define POSTS(P) \
    P(verdict_is_documented,                   OK || RET == MATRIXSSL_ERROR || RET == PS_MEM_FAIL) \
    P(refusal_carries_an_alert_or_is_a_memory_error, IMPLIES(RET == MATRIXSSL_ERROR, g_ssl.err != SSL_ALERT_NONE)) \
    P(acceptance_has_no_pending_alert,         IMPLIES(OK, g_ssl.err == SSL_ALERT_NONE)) \
    P(success_means_a_key_was_stored,          IMPLIES(OK, X25519 ? (g_ssl.sec.x25519KeyPub != NULL && VR_ALLOC_IS(g_ssl.sec.x25519KeyPub, PS_DH_X25519_PUBLIC_KEY_BYTES) && g_in.len == PS_DH_X25519_PUBLIC_KEY_BYTES) \
                                                              : psIsEcdheGroup(g_in.group) ? (g_ssl.sec.eccKeyPub == &g_eccKey && gh.import == 1 && g_in.importOk) \
                                                              : (g_ssl.sec.dhKeyPub != NULL && gh.dhImport == 1 && g_in.dhImportOk))) \
    P(C08_x25519_value_is_copied_verbatim,     IMPLIES(OK && X25519, g_ssl.sec.x25519KeyPub[0] == g_in.buf[0] && g_ssl.sec.x25519KeyPub[31] == g_in.buf[31]))

int32_t tls13ImportPublicValue(ssl_t *ssl, const unsigned char *keyExchangeData, psSize_t keyExchangeDataLen, uint16_t namedGroup)
__CPROVER_requires(ssl == &g_ssl && keyExchangeData == g_store + (BUFN - g_in.len) && keyExchangeDataLen == g_in.len && g_in.len <= BUFN && namedGroup == g_in.group)
POSTS(ENSURES_CLAUSE)
__CPROVER_assigns(gh, __CPROVER_object_whole(&g_ssl))
;

#include "crypto/common/alg_info.c"
#include "matrixssl/tls13KeyAgree.c"

struct inputs nondet_in(void);
ssl_t nondet_ssl(void);

HARNESS_BEGIN
    HARNESS_INPUTS(struct inputs, in);
    int32 vr_ret;
    unsigned i;
    __CPROVER_assume(in.len <= BUFN);
    g_in = in;
    g_ssl = nondet_ssl();
    g_ssl.err = SSL_ALERT_NONE;
    g_ssl.hsPool = NULL; g_ssl.sec.eccDhKeyPool = NULL;
    /* an earlier import (HelloRetryRequest round) may have left keys behind */
    g_ssl.sec.x25519KeyPub = in.hadX25519 ? g_oldX : NULL;
    g_ssl.sec.eccKeyPub = in.hadEcc ? &g_oldEcc : NULL;
    g_ssl.sec.dhKeyPub = NULL;
    Memset(&gh, 0, sizeof(gh));
    for (i = 0; i < BUFN; i++) { g_store[i] = (i >= (unsigned) (BUFN - in.len)) ? in.buf[i - (BUFN - in.len)] : 0; }
    vr_ret = tls13ImportPublicValue(&g_ssl, g_store + (BUFN - in.len), in.len, in.group);
    POSTS(NATIVE_CHECK)
#ifdef CANARY
    PLAIN_ASSERT(CANARY, vr_ret != MATRIXSSL_SUCCESS)
#endif
HARNESS_END
