/*@UNIT
{
  "property": "C19",
  "properties": ["C18"],
  "unit": "get_readbuf_of_size",
  "function": "matrixSslGetReadbufOfSize",
  "source": "matrixssl/matrixsslApi.c",
  "assumed": ["malloc / realloc / free (cbmc models; any allocation may fail)"],
  "mode": "bounded",
  "bounds": "receive buffer of every size 1..64 with every fill level, requests of 1..128 bytes; loop-free (the bound is on the allocation sizes only); cases: empty buffer (free + malloc path) and buffer holding data (realloc path)",
  "cases": [{"name": "empty", "defs": ["MODE_EMPTY=1"]}, {"name": "holding_data", "defs": ["MODE_EMPTY=0"]}],
  "malloc_may_fail": true,
  "leak_check": true,
  "native_replay": false,
  "object_bits": 10,
  "timeout": 300
}
@*/
/* C19  the receive buffer's representation invariant survives every outcome of
 * matrixSslGetReadbufOfSize, in particular a failed allocation:
 *     INV:  either no buffer (inbuf == NULL, insize == 0, inlen == 0)
 *           or inbuf is a LIVE allocation of exactly insize bytes and 0 <= inlen <= insize.
 * matrixSslDeleteSession frees inbuf unconditionally and a retry of this call frees it again: a
 * pointer to a block that was already released would be a double free.  Nothing leaks: when the
 * application lets go of the session (the harness frees inbuf, as DeleteSession does) no block
 * is left (cbmc --memory-leak-check).
 * C18  bytes already received stay where they are when the buffer grows. */
#include "verif.h"
#include "matrixssl/matrixsslImpl.h"

struct __attribute__((packed)) inputs { uint32_t insize, inlen, req; uint8_t k, first; };
static struct inputs g_in;
static ssl_t g_ssl;
static unsigned char *g_buf;

#define LIVE (g_ssl.inbuf != NULL && __CPROVER_r_ok(g_ssl.inbuf, 1) && __CPROVER_OBJECT_SIZE(g_ssl.inbuf) == (unsigned long) g_ssl.insize && __CPROVER_POINTER_OFFSET(g_ssl.inbuf) == 0 && \
              g_ssl.inlen >= 0 && g_ssl.inlen <= g_ssl.insize && g_ssl.insize >= 1)
#define NONE (g_ssl.inbuf == NULL && g_ssl.insize == 0 && g_ssl.inlen == 0)
#define POSTS(P) \
    P(buffer_invariant_holds_after_every_outcome, LIVE || NONE) \
    P(C19_allocation_failure_is_reported,         IMPLIES(NONE, RET == PS_MEM_FAIL)) \
    P(success_hands_out_room_of_the_requested_size, IMPLIES(RET > 0, LIVE && RET >= (int32) g_in.req && __CPROVER_same_object(g_buf, g_ssl.inbuf) && \
                                                            __CPROVER_POINTER_OFFSET(g_buf) == (unsigned long) g_ssl.inlen && g_ssl.inlen + RET <= g_ssl.insize)) \
    P(C18_received_bytes_are_kept,                IMPLIES(RET > 0, g_ssl.inlen == (int32) g_in.inlen && IMPLIES(g_in.k < g_in.inlen, g_ssl.inbuf[g_in.k] == g_in.first)))

int32 matrixSslGetReadbufOfSize(ssl_t *ssl, int32 size, unsigned char **buf)
__CPROVER_requires(ssl == &g_ssl && buf == &g_buf && size == (int32) g_in.req)
__CPROVER_requires(g_ssl.inbuf != NULL && __CPROVER_OBJECT_SIZE(g_ssl.inbuf) == (unsigned long) g_ssl.insize && g_ssl.inlen >= 0 && g_ssl.inlen <= g_ssl.insize && g_ssl.insize >= 1)
POSTS(ENSURES_CLAUSE)
CANARY_CLAUSE(__CPROVER_return_value <= 0 || g_ssl.insize == (int32) g_in.insize)
__CPROVER_assigns(g_buf, g_ssl.inbuf, g_ssl.insize, g_ssl.inlen, __CPROVER_object_whole(g_ssl.inbuf))
__CPROVER_frees(g_ssl.inbuf)
;

#include "matrixssl/hsNegotiateVersion.c"
#include "matrixssl/matrixsslApi.c"

#ifndef NATIVE_REPLAY
struct inputs nondet_in(void);
#endif

HARNESS_BEGIN
    HARNESS_INPUTS(struct inputs, in);
    __CPROVER_assume(in.insize >= 1 && in.insize <= 64 && in.inlen <= in.insize && in.req >= 1 && in.req <= 128);
#if MODE_EMPTY
    in.inlen = 0;
#else
    __CPROVER_assume(in.inlen >= 1);
#endif
    g_in = in;
    g_ssl.bufferPool = NULL;
    g_ssl.insize = (int32) in.insize;
    g_ssl.inlen = (int32) in.inlen;
    g_ssl.inbuf = malloc(in.insize);
    __CPROVER_assume(g_ssl.inbuf != NULL);
    if (in.k < in.inlen) { g_ssl.inbuf[in.k] = in.first; }
    matrixSslGetReadbufOfSize(&g_ssl, (int32) in.req, &g_buf);
    /* the application deletes the session: matrixSslDeleteSession frees inbuf unconditionally */
    free(g_ssl.inbuf);
HARNESS_END
