/*@UNIT
{
  "property": "C19",
  "properties": ["C08", "C18"],
  "unit": "get_writebuf",
  "function": "matrixSslGetWritebuf",
  "source": "matrixssl/matrixsslApi.c",
  "replace": ["matrixSslGetEncodedSize"],
  "assumed": ["matrixSslGetEncodedSize (contract: encoded size = plaintext length + a cipher-dependent overhead of between 24 and 96 bytes (it always covers MAC or tag plus explicit IV or nonce))", "realloc (cbmc model; may fail)"],
  "mode": "bounded",
  "bounds": "output buffer of every size 1..64 with every fill level, requests of every length; TLS 1.2, no BEAST workaround; loop-free (the bound is on the allocation sizes only)",
  "malloc_may_fail": true,
  "native_replay": false,
  "object_bits": 10,
  "timeout": 300
}
@*/
/* C19 / C08  the output buffer's representation invariant survives every outcome of
 * matrixSslGetWritebuf, in particular a failed realloc:
 *     INV:  outbuf is a live allocation of exactly outsize bytes  and  0 <= outlen <= outsize.
 * Everything downstream (encode, closure alert, GetOutdata, DeleteSession's zeroisation) trusts
 * outsize; if it is updated before the allocation result is known, a PS_MEM_FAIL leaves the
 * session with a size larger than its block.  On success the region handed to the caller
 * (*buf .. *buf + returned length + room for the record overhead) lies inside the buffer. */
#include "verif.h"
#include "matrixssl/matrixsslImpl.h"

struct __attribute__((packed)) inputs { uint32_t flags; uint32_t outsize, outlen, req; uint32_t overhead; uint8_t blockSize; };
static struct inputs g_in;
static ssl_t g_ssl;
static unsigned char *g_buf;
static struct { int calls; } gh;

int32 matrixSslGetEncodedSize(ssl_t *ssl, uint32 len)
__CPROVER_requires(ssl == &g_ssl)
__CPROVER_assigns(gh.calls)
__CPROVER_ensures(gh.calls == __CPROVER_old(gh.calls) + 1 && (uint32) __CPROVER_return_value == len + 5 + g_in.overhead)
;

#define INV (g_ssl.outbuf != NULL && __CPROVER_OBJECT_SIZE(g_ssl.outbuf) == (unsigned long) g_ssl.outsize && __CPROVER_POINTER_OFFSET(g_ssl.outbuf) == 0 && \
             g_ssl.outlen >= 0 && g_ssl.outlen <= g_ssl.outsize)
#define POSTS(P) \
    P(buffer_invariant_holds_after_every_outcome, INV) \
    P(C19_allocation_failure_changes_nothing,     IMPLIES(RET == PS_MEM_FAIL, g_ssl.outsize == (int32) g_in.outsize && g_ssl.outlen == (int32) g_in.outlen)) \
    P(C08_returned_region_lies_in_the_buffer,     IMPLIES(RET >= 0, __CPROVER_same_object(g_buf, g_ssl.outbuf) && __CPROVER_POINTER_OFFSET(g_buf) >= (unsigned long) g_ssl.outlen && \
                                                          __CPROVER_POINTER_OFFSET(g_buf) + (unsigned long) RET <= (unsigned long) g_ssl.outsize)) \
    P(C18_queued_bytes_are_untouched,             g_ssl.outlen == (int32) g_in.outlen)

int32 matrixSslGetWritebuf(ssl_t *ssl, unsigned char **buf, uint32 requestedLen)
__CPROVER_requires(ssl == &g_ssl && buf == &g_buf && requestedLen == g_in.req && gh.calls == 0)
__CPROVER_requires(g_ssl.outbuf != NULL && __CPROVER_OBJECT_SIZE(g_ssl.outbuf) == (unsigned long) g_ssl.outsize && g_ssl.outlen >= 0 && g_ssl.outlen <= g_ssl.outsize && g_ssl.outsize >= 1)
POSTS(ENSURES_CLAUSE)
CANARY_CLAUSE(__CPROVER_return_value < 0)
__CPROVER_assigns(gh, g_buf, g_ssl.outbuf, g_ssl.outsize, g_ssl.bFlags, g_ssl.tls13PadLen, __CPROVER_object_whole(g_ssl.outbuf))
__CPROVER_frees(g_ssl.outbuf)
;

#include "matrixssl/hsNegotiateVersion.c"
#include "matrixssl/matrixsslApi.c"

#ifndef NATIVE_REPLAY
struct inputs nondet_in(void);
#endif

HARNESS_BEGIN
    HARNESS_INPUTS(struct inputs, in);
    g_in = in;
    gh.calls = 0;
    __CPROVER_assume(in.outsize >= 1 && in.outsize <= 64 && in.outlen <= in.outsize && in.overhead >= 24 && in.overhead <= 96 && in.req <= 0x10000);
    g_ssl.activeVersion = v_tls_1_2 | v_tls_negotiated;
    g_ssl.flags = in.flags;
    g_ssl.bFlags = 0;
    g_ssl.maxPtFrag = SSL_MAX_PLAINTEXT_LEN;
    g_ssl.enBlockSize = in.blockSize;
    __CPROVER_assume(in.blockSize == 0 || in.blockSize == 8 || in.blockSize == 16);
    g_ssl.enMacSize = 20;
    g_ssl.recordHeadLen = 5;
    g_ssl.bufferPool = NULL;
    g_ssl.outsize = (int32) in.outsize;
    g_ssl.outlen = (int32) in.outlen;
    g_ssl.outbuf = malloc(in.outsize);
    __CPROVER_assume(g_ssl.outbuf != NULL);
    matrixSslGetWritebuf(&g_ssl, &g_buf, in.req);
HARNESS_END
