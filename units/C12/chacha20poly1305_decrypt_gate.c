/*@UNIT
{
  "property": "C12",
  "unit": "chacha20poly1305_decrypt_gate",
  "function": "psCrypto_aead_chacha20poly1305_ietf_decrypt_detached",
  "source": "crypto/aead/chacha20poly1305ietf/aead_chacha20poly1305.c",
  "keep_bodies": [],
  "replace": [],
  "assumed": ["psCrypto_stream_chacha20_ietf, psCrypto_stream_chacha20_ietf_xor_ic (models: log arguments and order)", "psCrypto_onetimeauth_poly1305_init/_update/_final (models: log key pointer, every update's pointer, length and 8-byte value; the MAC is an arbitrary value from the harness input)", "psCrypto_verify_16 (model: logs its arguments, returns 0 or -1 from the harness input)", "psSodium_memzero (model: memset)"],
  "mode": "bounded",
  "bounds": "ciphertext <= 80 bytes, AAD <= 32 bytes (size of the harness buffers; the function is loop-free once the primitives are modelled)",
  "native_replay": false,
  "timeout": 300
}
@*/
/* C12.U6  ChaCha20-Poly1305 (RFC 8439 s.2.8) open: MAC layout and the gate.
 *
 * The enforced function is the one that decides: psChacha20Poly1305IetfDecrypt
 * -> psChacha20Poly1305IetfDecryptDetached -> this function (the two wrappers
 * only split ciphertext||tag and map the result to PS_AUTH_FAIL; they are not
 * under contract: ps_chacha20poly1305ietf.c needs -I crypto, which the driver
 * does not pass).  Contract:
 *   - the one-time key is the first ChaCha20 block (counter 0) under (key, nonce),
 *     the MAC input is  AAD || pad16 || ciphertext || pad16 || le64(|AAD|) || le64(N);
 *   - success (0) only after ONE 16-byte constant-time comparison of the computed
 *     MAC with the given tag returned 0; the keystream (counter 1) is applied
 *     only after that;
 *   - on a mismatch the result is -1, the keystream is never applied and the
 *     plaintext buffer holds zeros;  m == NULL is verification only.
 * ChaCha20, Poly1305 and the 16-byte comparison are assumed.
 */
#include "verif.h"
#include "crypto/cryptoImpl.h"
#include "crypto/aead/chacha20poly1305ietf/crypto_onetimeauth_poly1305.h"

#define MAXCT 80
#define MAXAAD 32
static unsigned char g_key[32], g_tag[16];
static unsigned char g_ct[MAXCT], g_pt[MAXCT], g_aad[MAXAAD], g_iv[12];
static unsigned long long g_ctlen, g_aadlen;   /* g_ctlen: ciphertext only */
static unsigned g_m_null;
static unsigned char g_mac[16];           /* model MAC (harness input) */
static int g_verify;                      /* model result of the comparison (harness input: 0 or -1) */
static unsigned g_j;                      /* ghost index over the plaintext */

#define MAXUPD 8
static struct
{
    unsigned stream_calls, stream_ok, init_calls, init_ok, nupd, final_calls, final_ok;
    unsigned verify_calls, verify_ok, xor_calls, xor_ok;
    const unsigned char *block0, *macbuf;
    struct { const unsigned char *p; unsigned long long len, le64; } upd[MAXUPD];
} gh;

int psCrypto_stream_chacha20_ietf(unsigned char *c, unsigned long long clen, const unsigned char *n, const unsigned char *k)
{
    gh.stream_ok = (clen == 64 && n == g_iv && k == g_key && gh.init_calls == 0);
    gh.block0 = c;
    gh.stream_calls++;
    return 0;
}
int psCrypto_onetimeauth_poly1305_init(crypto_onetimeauth_poly1305_state *state, const unsigned char *key)
{
    gh.init_ok = (gh.stream_calls == 1 && key == gh.block0 && gh.nupd == 0);
    gh.init_calls++;
    return 0;
}
int psCrypto_onetimeauth_poly1305_update(crypto_onetimeauth_poly1305_state *state, const unsigned char *in, unsigned long long inlen)
{
    unsigned n = gh.nupd;
    gh.nupd++;
    if (n < MAXUPD && gh.init_calls == 1 && gh.final_calls == 0)
    {
        gh.upd[n].p = in; gh.upd[n].len = inlen; gh.upd[n].le64 = 0;
        if (inlen == 8)
        {
            int i;
            for (i = 7; i >= 0; i--) { gh.upd[n].le64 = (gh.upd[n].le64 << 8) | in[i]; }
        }
    }
    return 0;
}
int psCrypto_onetimeauth_poly1305_final(crypto_onetimeauth_poly1305_state *state, unsigned char *out)
{
    int i;
    gh.final_ok = (gh.init_calls == 1 && gh.verify_calls == 0);
    gh.macbuf = out;
    gh.final_calls++;
    for (i = 0; i < 16; i++) { out[i] = g_mac[i]; }
    return 0;
}
int psCrypto_verify_16(const unsigned char *x, const unsigned char *y)
{
    gh.verify_ok = (gh.final_calls == 1 && gh.xor_calls == 0 &&
                    ((x == gh.macbuf && y == g_tag) || (y == gh.macbuf && x == g_tag)));
    gh.verify_calls++;
    return g_verify;
}
int psCrypto_stream_chacha20_ietf_xor_ic(unsigned char *c, const unsigned char *m, unsigned long long mlen,
                                         const unsigned char *n, uint32_t ic, const unsigned char *k)
{
    gh.xor_ok = (gh.verify_calls == 1 && c == g_pt && m == g_ct && mlen == g_ctlen && n == g_iv && ic == 1 && k == g_key);
    gh.xor_calls++;
    return 0;
}
void psSodium_memzero(void * const pnt, const size_t len) { memset(pnt, 0, len); }

#define NPT     (g_ctlen)
#define MAC_LAYOUT_RFC8439 (gh.stream_calls == 1 && gh.stream_ok && gh.init_calls == 1 && gh.init_ok && gh.nupd == 6 && gh.final_calls == 1 && gh.final_ok && \
     gh.upd[0].p == g_aad && gh.upd[0].len == g_aadlen && gh.upd[1].len == ((16 - g_aadlen) & 15) && \
     gh.upd[2].p == g_ct && gh.upd[2].len == NPT && gh.upd[3].len == ((16 - NPT) & 15) && \
     gh.upd[4].len == 8 && gh.upd[4].le64 == g_aadlen && gh.upd[5].len == 8 && gh.upd[5].le64 == NPT)

#define POSTS(P) \
    P(mac_input_is_rfc8439_layout,       MAC_LAYOUT_RFC8439) \
    P(tag_compared_exactly_once,         gh.verify_calls == 1 && gh.verify_ok) \
    P(success_only_after_tag_verified,   IMPLIES(RET == 0, g_verify == 0 && (g_m_null ? gh.xor_calls == 0 : (gh.xor_calls == 1 && gh.xor_ok)))) \
    P(bad_tag_fails_without_plaintext,   IMPLIES(g_verify != 0, RET != 0 && gh.xor_calls == 0 && IMPLIES(!g_m_null && g_j < NPT, g_pt[g_j] == 0))) \
    P(good_tag_succeeds,                 IMPLIES(g_verify == 0, RET == 0))

int psCrypto_aead_chacha20poly1305_ietf_decrypt_detached(unsigned char *m, unsigned char *nsec, const unsigned char *c, unsigned long long clen,
        const unsigned char *mac, const unsigned char *ad, unsigned long long adlen, const unsigned char *npub, const unsigned char *k)
__CPROVER_requires(m == (g_m_null ? (unsigned char *) 0 : g_pt) && c == g_ct && clen == g_ctlen && mac == g_tag && ad == g_aad && adlen == g_aadlen && npub == g_iv && k == g_key)
__CPROVER_requires(g_ctlen <= MAXCT && g_aadlen <= MAXAAD && g_j < MAXCT && (g_verify == 0 || g_verify == -1))
__CPROVER_requires(gh.stream_calls == 0 && gh.init_calls == 0 && gh.nupd == 0 && gh.final_calls == 0 && gh.verify_calls == 0 && gh.xor_calls == 0)
POSTS(ENSURES_CLAUSE)
CANARY_CLAUSE(__CPROVER_return_value != 0)
__CPROVER_assigns(gh, __CPROVER_object_whole(g_pt))
;

#include "crypto/aead/chacha20poly1305ietf/aead_chacha20poly1305.c"

struct __attribute__((packed)) inputs
{
    uint32_t ctlen, aadlen;
    unsigned char mac[16];
    int32_t verify;
    uint32_t j;
    unsigned char m_null;
};
#ifndef NATIVE_REPLAY
struct inputs nondet_in(void);
#endif

HARNESS_BEGIN
    HARNESS_INPUTS(struct inputs, in);
    int vr_ret;
    g_ctlen = in.ctlen; g_aadlen = in.aadlen; g_verify = in.verify; g_j = in.j; g_m_null = in.m_null & 1;
    memcpy(g_mac, in.mac, 16);
    /* buffers, key and nonce stay havocked (DFCC): they are only handed to the assumed primitives */
    /* input domain = the requires clauses above */
    __CPROVER_assume(g_ctlen <= MAXCT && g_aadlen <= MAXAAD && g_j < MAXCT && (g_verify == 0 || g_verify == -1));
    vr_ret = psCrypto_aead_chacha20poly1305_ietf_decrypt_detached(g_m_null ? (unsigned char *) 0 : g_pt, (unsigned char *) 0, g_ct, g_ctlen, g_tag, g_aad, g_aadlen, g_iv, g_key);
    (void) vr_ret;
    POSTS(NATIVE_CHECK)
HARNESS_END
