/*@UNIT
{
  "property": "C12",
  "unit": "aes_cbc_encrypt",
  "function": "psAesEncryptCBC",
  "source": "crypto/symmetric/aesCBC.c",
  "keep_bodies": [],
  "replace": [],
  "assumed": ["psAesEncryptBlock (model: logs key pointer and input byte g_k of every call; the output block is an arbitrary value from the harness input)", "memset_s (model: memset)"],
  "mode": "bounded",
  "bounds": "len <= 64 bytes (4 blocks), a multiple of 16; out-of-place and exactly-in-place (pt == ct) as two cases; every IV and content",
  "cases": [
    {"name": "separate", "defs": []},
    {"name": "inplace",  "defs": ["INPLACE=1"]}
  ],
  "unwind": 18,
  "unwindset": ["psAesEncryptCBC_wrapped_for_contract_checking.2:6"],
  "native_replay": true,
  "timeout": 600
}
@*/
/* C12.U5  CBC encryption chaining (NIST SP 800-38A s.6.2):
 *     C_0 = IV;   C_i = E_K(P_i xor C_{i-1});   new IV = C_n
 * The block cipher is an assumed model whose outputs are arbitrary blocks
 * g_E[i]; "C_{i-1}" in the input of call i is therefore exactly what call i-1
 * returned.  Ghost indices: g_b (block), g_k (byte in block).
 */
#include "verif.h"
#include "crypto/cryptoImpl.h"

#define MAXBLK 4
static psAesCbc_t g_ctx;
static unsigned char g_pt[16 * MAXBLK], g_ct[16 * MAXBLK];
static unsigned char g_p0[16 * MAXBLK];   /* ghost copy of the plaintext (in-place case overwrites it) */
static unsigned char g_c0[16 * MAXBLK];   /* ghost copy of the output buffer before the call */
static uint32_t g_len;
static unsigned char g_E[MAXBLK][16];     /* model outputs (harness input) */
static unsigned g_b, g_k;

static unsigned gh_n, gh_key_ok;
static unsigned char gh_in[MAXBLK];       /* input byte g_k of call i */

void psAesEncryptBlock(psAesKey_t *key, const unsigned char *pt, unsigned char *ct)
{
    int i;
    unsigned n = gh_n;
    gh_n++;
    if (n >= MAXBLK) { return; }
    gh_key_ok = gh_key_ok && (key == &g_ctx.key);
    gh_in[n] = pt[g_k];
    for (i = 0; i < 16; i++) { ct[i] = g_E[n][i]; }
}
errno_t memset_s(void *s, rsize_t smax, int c, rsize_t n) { (void) smax; memset(s, c, n); return 0; }

#ifdef INPLACE
# define PT g_ct
#else
# define PT g_pt
#endif
#define NB (g_len / 16)
/* byte g_k of C_{g_b - 1} */
#define PREV_C ((unsigned char) (g_b == 0 ? OLD(g_ctx, IV[g_k]) : g_E[(g_b - 1) % MAXBLK][g_k]))

#define POSTS(P) \
    P(one_cipher_call_per_block,     gh_n == NB && gh_key_ok) \
    P(cipher_input_is_pt_xor_prev_ct, IMPLIES(g_b < NB, gh_in[g_b] == (g_p0[16 * g_b + g_k] ^ PREV_C))) \
    P(ct_block_is_cipher_output,     IMPLIES(g_b < NB, g_ct[16 * g_b + g_k] == g_E[g_b][g_k])) \
    P(iv_becomes_last_ct_block,      g_ctx.IV[g_k] == (NB == 0 ? OLD(g_ctx, IV[g_k]) : g_E[(NB - 1) % MAXBLK][g_k])) \
    P(bytes_beyond_len_untouched,    IMPLIES(g_b >= NB, g_ct[16 * g_b + g_k] == g_c0[16 * g_b + g_k]))

void psAesEncryptCBC(psAesCbc_t *ctx, const unsigned char *pt, unsigned char *ct, uint32_t len)
__CPROVER_requires(ctx == &g_ctx && pt == PT && ct == g_ct && len == g_len)
/* CBC is defined on whole blocks (callers: the TLS record layer pads first) */
__CPROVER_requires(len <= 16 * MAXBLK && (len & 15) == 0)
__CPROVER_requires(g_b < MAXBLK && g_k < 16 && gh_n == 0 && gh_key_ok == 1)
__CPROVER_requires(g_p0[16 * g_b + g_k] == PT[16 * g_b + g_k] && g_c0[16 * g_b + g_k] == g_ct[16 * g_b + g_k])
POSTS(ENSURES_CLAUSE)
CANARY_CLAUSE(gh_n != 3)
__CPROVER_assigns(g_ctx.IV, __CPROVER_object_whole(g_ct), gh_n, gh_key_ok, __CPROVER_object_whole(gh_in))
;

#include "crypto/symmetric/aesCBC.c"

struct __attribute__((packed)) inputs
{
    unsigned char iv[16];
    unsigned char pt[16 * MAXBLK], ct[16 * MAXBLK];
    uint32_t len;
    unsigned char E[MAXBLK][16];
    uint32_t b, k;
};
#ifndef NATIVE_REPLAY
struct inputs nondet_in(void);
#endif
DECL_SNAPSHOT(psAesCbc_t, g_ctx);

HARNESS_BEGIN
    HARNESS_INPUTS(struct inputs, in);
    int vr_ret = 0;
    memcpy(g_ctx.IV, in.iv, 16);
    memcpy(g_pt, in.pt, sizeof(g_pt));
    memcpy(g_ct, in.ct, sizeof(g_ct));
    memcpy(g_p0, PT, sizeof(g_p0));
    memcpy(g_c0, g_ct, sizeof(g_c0));
    memcpy(g_E, in.E, sizeof(g_E));
    g_len = in.len; g_b = in.b; g_k = in.k;
    gh_key_ok = 1;
    /* g_ctx.key stays zero: the key schedule is only handed to the (modelled) block cipher */
    /* input domain = the requires clauses above */
    __CPROVER_assume(g_len <= 16 * MAXBLK && (g_len & 15) == 0 && g_b < MAXBLK && g_k < 16);
    SNAPSHOT(g_ctx);
    psAesEncryptCBC(&g_ctx, PT, g_ct, g_len);
    (void) vr_ret;
    POSTS(NATIVE_CHECK)
HARNESS_END
