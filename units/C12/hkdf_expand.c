/*@UNIT
{
  "property": "C12",
  "unit": "hkdf_expand",
  "function": "psHkdfExpand",
  "source": "crypto/digest/hkdf.c",
  "keep_bodies": ["psGetOutputBlockLength"],
  "replace": [],
  "assumed": ["psHmac (model: logs algorithm, key pointer/length, input length and the input byte at ghost index g_k of every call; result and MAC are arbitrary values from the harness input)"],
  "mode": "bounded",
  "bounds": "accepted output length L <= 2*HashLen+7 (three T blocks: first, chained, truncated) and, separately, every L > 255*HashLen up to 65535 (must be refused); info <= 96 bytes, PRK <= 64 bytes; algorithm enumerated by cases",
  "cases": [
    {"name": "sha256", "defs": ["ALG=HMAC_SHA256", "HLEN=32"]},
    {"name": "sha384", "defs": ["ALG=HMAC_SHA384", "HLEN=48"]},
    {"name": "sha1",   "defs": ["ALG=HMAC_SHA1", "HLEN=20"]},
    {"name": "md5",    "defs": ["ALG=HMAC_MD5", "HLEN=16"], "tier": "thorough"},
    {"name": "other",  "defs": ["ALG_OTHER=1", "HLEN=32"]}
  ],
  "unwind": 66,
  "unwindset": ["psHkdfExpand_wrapped_for_contract_checking.0:5"],
  "native_replay": true,
  "timeout": 900
}
@*/
/* C12.U4  HKDF-Expand (RFC 5869 s.2.3).
 *
 *   N = ceil(L/HashLen);  T(0) = empty;  T(i) = HMAC(PRK, T(i-1) || info || i)  (i = 1..N, one octet)
 *   OKM = first L octets of T(1) || ... || T(N);        L <= 255*HashLen, else refused.
 *
 * HMAC is an assumed model that logs its calls and returns arbitrary MACs
 * g_T[i] (so "T(i-1)" in the input of call i is exactly what call i-1
 * returned).  The implementation may make one surplus call (it does, when L is
 * a multiple of HashLen); the contract only speaks about the N calls whose
 * output is used and about every octet of OKM (ghost indices g_i, g_k, g_j).
 */
#include "verif.h"
#include "crypto/cryptoImpl.h"

#ifndef HLEN
# define HLEN 32
# define ALG HMAC_SHA256
#endif
#define MAXL (2 * HLEN + 7)
#define MAXCALLS 4
#define MAXINFO 96
#define MAXIN (64 + 80 + 1)

static unsigned char g_prk[64], g_info[MAXINFO], g_okm[MAXL];
static psSize_t g_prklen, g_infolen, g_okmlen;
static int32_t g_alg;
static unsigned g_info_null;
static unsigned char g_T[MAXCALLS][64];    /* model MACs (harness input) */
static int32_t g_rc[MAXCALLS];             /* model results (harness input) */
static unsigned g_i, g_k, g_j;             /* ghost indices: call, HMAC input byte, OKM byte */

static struct { int32_t alg; const unsigned char *key; uint32_t keylen, len; unsigned char bk; } gh_log[MAXCALLS];
static unsigned gh_n;

int32_t psHmac(psCipherType_e type, const unsigned char *key, psSize_t keyLen,
    const unsigned char *buf, uint32_t len, unsigned char hash[MAX_HASHLEN])
{
    int i;
    unsigned n = gh_n;
    gh_n++;
    if (n >= MAXCALLS) { return PS_FAILURE; }
    gh_log[n].alg = type; gh_log[n].key = key; gh_log[n].keylen = keyLen; gh_log[n].len = len;
    gh_log[n].bk = (g_k < len) ? buf[g_k] : 0;
    if (g_rc[n] < 0) { return g_rc[n]; }
    for (i = 0; i < HLEN; i++) { hash[i] = g_T[n][i]; }
    return PS_SUCCESS;
}

#ifdef ALG_OTHER
# define KNOWN_ALG 0
#else
# define KNOWN_ALG 1
#endif
#define OKML        ((unsigned) g_okmlen)
#define NEEDED   ((OKML + HLEN - 1) / HLEN)
#define PARAMS_OK (KNOWN_ALG && g_infolen <= 80 && g_prklen >= HLEN && OKML <= 255 * HLEN && !(g_info_null && g_infolen != 0))
/* the model failed one of the calls that are needed */
#define HMAC_FAILED ((NEEDED > 0 && g_rc[0] < 0) || (NEEDED > 1 && g_rc[1] < 0) || (NEEDED > 2 && g_rc[2] < 0))
/* octet g_k of the RFC 5869 input of call g_i (0-based; T(i) of the RFC is call i-1) */
#define TOFF     (g_i > 0 ? HLEN : 0)
#define RFC_LEN  (TOFF + g_infolen + 1)
#define RFC_BYTE ((unsigned char) ((g_i > 0 && g_k < HLEN) ? g_T[(g_i - 1) % MAXCALLS][g_k % 64] : \
                                   (g_k - TOFF < g_infolen ? g_info[(g_k - TOFF) % MAXINFO] : (g_k - TOFF == g_infolen ? g_i + 1 : 0))))

/* must-fail canaries: "three T blocks and success" is unreachable / "refusal" is unreachable (case other) */
#ifdef ALG_OTHER
# define CANARY_COND (__CPROVER_return_value != PS_ARG_FAIL)
#else
# define CANARY_COND (!(__CPROVER_return_value == PS_SUCCESS && gh_n == 3))
#endif

#define POSTS(P) \
    P(output_longer_than_255_blocks_is_refused, IMPLIES(OKML > 255 * HLEN, RET < 0 && gh_n == 0)) \
    P(unknown_algorithm_is_refused,  IMPLIES(!KNOWN_ALG, RET < 0 && gh_n == 0)) \
    P(valid_request_succeeds,        IMPLIES(PARAMS_OK && !HMAC_FAILED && g_rc[NEEDED % MAXCALLS] >= 0, RET == PS_SUCCESS)) \
    P(hmac_failure_is_honoured,      IMPLIES(PARAMS_OK && HMAC_FAILED, RET < 0)) \
    P(success_only_for_valid_request, IMPLIES(RET >= 0, PARAMS_OK && !HMAC_FAILED && gh_n >= NEEDED)) \
    P(every_T_is_keyed_with_prk,     IMPLIES(RET >= 0 && g_i < NEEDED, gh_log[g_i].alg == g_alg && gh_log[g_i].key == g_prk && gh_log[g_i].keylen == g_prklen)) \
    P(T_input_is_prev_info_counter,  IMPLIES(RET >= 0 && g_i < NEEDED, gh_log[g_i].len == RFC_LEN && IMPLIES(g_k < RFC_LEN, gh_log[g_i].bk == RFC_BYTE))) \
    P(okm_is_truncated_concatenation, IMPLIES(RET >= 0 && g_j < OKML, g_okm[g_j] == g_T[(g_j / HLEN) % MAXCALLS][g_j % HLEN]))

int32_t psHkdfExpand(psCipherType_e hmacAlg, const unsigned char *prk, psSize_t prkLen,
        const unsigned char *info, psSize_t infoLen, unsigned char *okm, psSize_t okmLen)
__CPROVER_requires(hmacAlg == g_alg && prk == g_prk && prkLen == g_prklen && prkLen <= 64)
__CPROVER_requires(info == (g_info_null ? (const unsigned char *) 0 : g_info) && infoLen == g_infolen && infoLen <= MAXINFO)
__CPROVER_requires(okm == g_okm && okmLen == g_okmlen && (okmLen <= MAXL || okmLen > 255 * HLEN))
__CPROVER_requires(g_i < MAXCALLS && g_k < MAXIN && g_j < MAXL && gh_n == 0)
POSTS(ENSURES_CLAUSE)
CANARY_CLAUSE(CANARY_COND)
__CPROVER_assigns(__CPROVER_object_whole(g_okm), __CPROVER_object_whole(gh_log), gh_n)
;

#include "crypto/common/alg_info.c"
#include "crypto/digest/hkdf.c"

struct __attribute__((packed)) inputs
{
    unsigned char prk[64], info[MAXINFO];
    uint16_t prklen, infolen, okmlen;
    int32_t alg;
    unsigned char info_null;
    unsigned char T[MAXCALLS][64];
    int32_t rc[MAXCALLS];
    uint32_t i, k, j;
};
#ifndef NATIVE_REPLAY
struct inputs nondet_in(void);
#endif

HARNESS_BEGIN
    HARNESS_INPUTS(struct inputs, in);
    int32_t vr_ret;
    memcpy(g_prk, in.prk, 64);
    memcpy(g_info, in.info, MAXINFO);
    memcpy(g_T, in.T, sizeof(g_T));
    memcpy(g_rc, in.rc, sizeof(g_rc));
    g_prklen = in.prklen; g_infolen = in.infolen; g_okmlen = in.okmlen;
    g_info_null = in.info_null & 1;
    g_i = in.i; g_k = in.k; g_j = in.j;
#ifdef ALG_OTHER
    g_alg = in.alg;
    __CPROVER_assume(g_alg != HMAC_MD5 && g_alg != HMAC_SHA1 && g_alg != HMAC_SHA256 && g_alg != HMAC_SHA384);
#else
    g_alg = ALG;
#endif
    /* input domain = the requires clauses above */
    __CPROVER_assume(g_prklen <= 64 && g_infolen <= MAXINFO && (g_okmlen <= MAXL || g_okmlen > 255 * HLEN));
    __CPROVER_assume(g_i < MAXCALLS && g_k < MAXIN && g_j < MAXL);
    vr_ret = psHkdfExpand((psCipherType_e) g_alg, g_prk, g_prklen, g_info_null ? (const unsigned char *) 0 : g_info, g_infolen, g_okm, g_okmlen);
    (void) vr_ret;
    POSTS(NATIVE_CHECK)
HARNESS_END
