/*@UNIT
{
  "property": "C12",
  "unit": "des3_cbc_decrypt",
  "function": "psDes3Decrypt",
  "source": "crypto/symmetric/des3.c",
  "plain": true,
  "frame_check": "none: harness-checked contract (VERIF_PLAIN_CONTRACT): psDes3DecryptBlock is a static function of the file and is redirected to a model with goto-instrument --replace-calls",
  "replace_calls": ["psDes3DecryptBlock:model_des3_decrypt_block"],
  "assumed": ["psDes3DecryptBlock (model: logs key pointer and input byte g_k of every call; the output block is an arbitrary value from the harness input)", "memset_s (model: memset)"],
  "mode": "bounded",
  "bounds": "len <= 32 bytes (4 blocks), a multiple of 8; out-of-place and exactly-in-place (pt == ct) as two cases; every IV and content",
  "cases": [
    {"name": "separate", "defs": []},
    {"name": "inplace",  "defs": ["INPLACE=1"]}
  ],
  "unwind": 10,
  "native_replay": false,
  "timeout": 600
}
@*/
/* C12  3DES-CBC decryption chaining (same statement as aes_cbc_decrypt, 8-byte blocks; used for encrypted PEM / PKCS#8 keys and the 3DES suites)
 * CBC decryption chaining (NIST SP 800-38A s.6.2):
 *     C_0 = IV;   P_i = D_K(C_i) xor C_{i-1};   new IV = C_n
 * also when pt == ct (the ciphertext block must be saved before it is
 * overwritten).  The block cipher is an assumed model whose outputs are
 * arbitrary blocks g_E[i].  Ghost indices: g_b (block), g_k (byte in block).
 */
#define VERIF_PLAIN_CONTRACT
#include "verif.h"
#include "crypto/cryptoImpl.h"

#define MAXBLK 4
static psDes3_t g_ctx;
static unsigned char g_pt[8 * MAXBLK], g_ct[8 * MAXBLK];
static unsigned char g_p0[8 * MAXBLK];   /* ghost copy of the ciphertext (in-place case overwrites it) */
static unsigned char g_c0[8 * MAXBLK];   /* ghost copy of the output buffer (g_pt) before the call */
static uint32_t g_len;
static unsigned char g_E[MAXBLK][8];     /* model outputs (harness input) */
static unsigned g_b, g_k;

static unsigned gh_n, gh_key_ok;
static unsigned char gh_in[MAXBLK];       /* input byte g_k of call i */

void model_des3_decrypt_block(const unsigned char *ct, unsigned char *pt, psDes3Key_t *key)
{
    int i;
    unsigned n = gh_n;
    gh_n++;
    if (n >= MAXBLK) { return; }
    gh_key_ok = gh_key_ok && (key == &g_ctx.key);
    gh_in[n] = ct[g_k];
    for (i = 0; i < 8; i++) { pt[i] = g_E[n][i]; }
}
errno_t memset_s(void *s, rsize_t smax, int c, rsize_t n) { (void) smax; memset(s, c, n); return 0; }

#ifdef INPLACE
# define CT g_pt
#else
# define CT g_ct
#endif
#define NB (g_len / 8)
/* byte g_k of C_{g_b - 1} */
#define PREV_C ((unsigned char) (g_b == 0 ? OLD(g_ctx, IV[g_k]) : g_p0[8 * (g_b - 1) + g_k]))

#define POSTS(P) \
    P(one_cipher_call_per_block,     gh_n == NB && gh_key_ok) \
    P(cipher_input_is_ct_block,      IMPLIES(g_b < NB, gh_in[g_b] == g_p0[8 * g_b + g_k])) \
    P(pt_block_is_output_xor_prev_ct, IMPLIES(g_b < NB, g_pt[8 * g_b + g_k] == (g_E[g_b][g_k] ^ PREV_C))) \
    P(iv_becomes_last_ct_block,      g_ctx.IV[g_k] == (NB == 0 ? OLD(g_ctx, IV[g_k]) : g_p0[8 * ((NB - 1) % MAXBLK) + g_k])) \
    P(bytes_beyond_len_untouched,    IMPLIES(g_b >= NB, g_pt[8 * g_b + g_k] == g_c0[8 * g_b + g_k]))

void psDes3Decrypt(psDes3_t *ctx, const unsigned char *ct, unsigned char *pt, uint32_t len)
__CPROVER_requires(ctx == &g_ctx && ct == CT && pt == g_pt && len == g_len)
/* CBC is defined on whole blocks (callers: the TLS record layer pads first) */
__CPROVER_requires(len <= 8 * MAXBLK && (len & 7) == 0)
__CPROVER_requires(g_b < MAXBLK && g_k < 8 && gh_n == 0 && gh_key_ok == 1)
__CPROVER_requires(g_p0[8 * g_b + g_k] == CT[8 * g_b + g_k] && g_c0[8 * g_b + g_k] == g_pt[8 * g_b + g_k])
/* PREV_C and the new IV refer to the previous / last ciphertext block */
__CPROVER_requires(g_b == 0 || g_p0[8 * (g_b - 1) + g_k] == CT[8 * (g_b - 1) + g_k])
__CPROVER_requires(g_len == 0 || g_p0[8 * ((g_len / 8 - 1) % MAXBLK) + g_k] == CT[8 * ((g_len / 8 - 1) % MAXBLK) + g_k])
POSTS(ENSURES_CLAUSE)
CANARY_CLAUSE(gh_n != 3)
__CPROVER_assigns(g_ctx.IV, __CPROVER_object_whole(g_pt), gh_n, gh_key_ok, __CPROVER_object_whole(gh_in))
;

#include "crypto/symmetric/des3.c"

struct __attribute__((packed)) inputs
{
    unsigned char iv[8];
    unsigned char pt[8 * MAXBLK], ct[8 * MAXBLK];
    uint32_t len;
    unsigned char E[MAXBLK][8];
    uint32_t b, k;
};
#ifndef NATIVE_REPLAY
struct inputs nondet_in(void);
#endif
DECL_SNAPSHOT(psDes3_t, g_ctx);

HARNESS_BEGIN
    HARNESS_INPUTS(struct inputs, in);
    int vr_ret = 0;
    memcpy(g_ctx.IV, in.iv, 8);
    memcpy(g_pt, in.pt, sizeof(g_pt));
    memcpy(g_ct, in.ct, sizeof(g_ct));
    memcpy(g_p0, CT, sizeof(g_p0));
    memcpy(g_c0, g_pt, sizeof(g_c0));
    memcpy(g_E, in.E, sizeof(g_E));
    g_len = in.len; g_b = in.b; g_k = in.k;
    gh_key_ok = 1;
    /* g_ctx.key stays zero: the key schedule is only handed to the (modelled) block cipher */
    /* input domain = the requires clauses above */
    __CPROVER_assume(g_len <= 8 * MAXBLK && (g_len & 7) == 0 && g_b < MAXBLK && g_k < 8);
    SNAPSHOT(g_ctx);
    psDes3Decrypt(&g_ctx, CT, g_pt, g_len);
    (void) vr_ret;
    POSTS(NATIVE_CHECK)
#ifdef CANARY
    PLAIN_ASSERT(CANARY, gh_n != 3)
#endif
HARNESS_END
