/*@UNIT
{
 "property": "C12",
 "unit": "aes_gcm_ctr_buffering",
 "function": "psAesEncryptGCMx",
 "source": "crypto/symmetric/aesGCM.c",
 "replace": [
  "psGhashUpdate"
 ],
 "assumed": [
  "psAesEncryptBlock (model: a fixed injective function of the counter block - the buffering argument holds for any block function)",
  "psGhashUpdate (contract: reads its input, records the call; GHASH itself is trusted)"
 ],
 "mode": "bounded",
 "bounds": "proof over the 16 enumerated offsets inside the keystream block (3 in the quick tier), for each: one call of every length <= 32 bytes at any block counter below 2^16; the relation is inductive over calls, so any split of a message into calls yields the one-shot keystream; loop unwound 34 with unwinding assertion",
 "unwind": 34,
 "native_replay": true,
 "object_bits": 10,
 "timeout": 300,
 "cases": [
  {
   "name": "off0",
   "defs": [
    "OFF=0"
   ],
   "tier": "quick",
   "canary": false
  },
  {
   "name": "off1",
   "defs": [
    "OFF=1"
   ],
   "tier": "thorough",
   "canary": false
  },
  {
   "name": "off2",
   "defs": [
    "OFF=2"
   ],
   "tier": "thorough",
   "canary": false
  },
  {
   "name": "off3",
   "defs": [
    "OFF=3"
   ],
   "tier": "thorough",
   "canary": false
  },
  {
   "name": "off4",
   "defs": [
    "OFF=4"
   ],
   "tier": "thorough",
   "canary": false
  },
  {
   "name": "off5",
   "defs": [
    "OFF=5"
   ],
   "tier": "thorough",
   "canary": false
  },
  {
   "name": "off6",
   "defs": [
    "OFF=6"
   ],
   "tier": "thorough",
   "canary": false
  },
  {
   "name": "off7",
   "defs": [
    "OFF=7"
   ],
   "tier": "quick",
   "canary": true
  },
  {
   "name": "off8",
   "defs": [
    "OFF=8"
   ],
   "tier": "thorough",
   "canary": false
  },
  {
   "name": "off9",
   "defs": [
    "OFF=9"
   ],
   "tier": "thorough",
   "canary": false
  },
  {
   "name": "off10",
   "defs": [
    "OFF=10"
   ],
   "tier": "thorough",
   "canary": false
  },
  {
   "name": "off11",
   "defs": [
    "OFF=11"
   ],
   "tier": "thorough",
   "canary": false
  },
  {
   "name": "off12",
   "defs": [
    "OFF=12"
   ],
   "tier": "thorough",
   "canary": false
  },
  {
   "name": "off13",
   "defs": [
    "OFF=13"
   ],
   "tier": "thorough",
   "canary": false
  },
  {
   "name": "off14",
   "defs": [
    "OFF=14"
   ],
   "tier": "thorough",
   "canary": false
  },
  {
   "name": "off15",
   "defs": [
    "OFF=15"
   ],
   "tier": "quick",
   "canary": false
  }
 ]
}
@*/
/* C12  AES-GCM "however the input is split across calls": the CTR part of GCM as an inductive
 * relation over calls.  Abstract view of a context in mid-message:  pos = bytes processed so far;
 *   INV(pos):  OutputBufferCount == (16 - pos % 16) % 16,  EncCtr == ctr0 + ceil(pos / 16),
 *              and, when pos % 16 != 0, CtrBlock == E(ctr0 + pos / 16)  (the partly used block).
 * One call with len bytes:  requires INV(pos);  ensures  out[k] == in[k] ^ E(ctr0 + (pos+k)/16)[(pos+k)%16]
 * for every k < len (ghost index) and INV(pos + len).  By induction every split of a message over
 * update calls produces the keystream of the one-shot call; a chunk boundary inside a block must
 * neither drop nor repeat keystream bytes. */
#include "verif.h"
#include "crypto/cryptoImpl.h"

#define NMAX 32
struct __attribute__((packed)) inputs
{
    uint32_t ctr0lo; uint8_t ctrhi[12];
    uint32_t blk; uint8_t off;  /* position in the message: pos = 16 * blk + off, off < 16 */
    uint32_t len;
    uint8_t k;
    int8_t direction;
    unsigned char in[NMAX];
};
static struct inputs g_in;
static psAesGcm_t g_ctx;
static unsigned char g_inb[NMAX], g_outb[NMAX];
static struct { int ghash; unsigned ghashLen; } gh;

/* E: any fixed function of the counter block will do for the buffering argument */
#define E_BYTE(ctrbyte, i) ((unsigned char) ((ctrbyte) * 5u + (i) * 7u + 13u))
void psAesEncryptBlock(psAesKey_t *key, const unsigned char *pt, unsigned char *ct)
{
    int i;
    for (i = 0; i < 16; i++) { ct[i] = E_BYTE(pt[i], i); }
}
static void psGhashUpdate(psAesGcm_t *ctx, const unsigned char *data, uint32_t len, int dataType)
__CPROVER_requires(len == 0 || __CPROVER_r_ok(data, len))
__CPROVER_assigns(gh.ghash, gh.ghashLen)
__CPROVER_ensures(gh.ghash == __CPROVER_old(gh.ghash) + 1 && gh.ghashLen == len)
;

/* byte j (0..15, big endian) of the counter block  ctr0 + n  (only the low 32 bits move: n < 2^32 - ctr0lo) */
#define CTR_BYTE(n, j) ((j) < 12 ? g_in.ctrhi[(j) % 12] : (unsigned char) (((g_in.ctr0lo + (n)) >> (8 * (15 - (j)))) & 0xff))
/* position p is counted from the start of block blk: p = off + k */
#define KS(p) E_BYTE(CTR_BYTE(g_in.blk + ((p) >> 4), (p) & 15), (p) & 15)
#define ENCCTR_IS(n) (g_ctx.EncCtr[12] == CTR_BYTE(n, 12) && g_ctx.EncCtr[13] == CTR_BYTE(n, 13) && g_ctx.EncCtr[14] == CTR_BYTE(n, 14) && g_ctx.EncCtr[15] == CTR_BYTE(n, 15) && \
                      g_ctx.EncCtr[0] == g_in.ctrhi[0] && g_ctx.EncCtr[11] == g_in.ctrhi[11])
#define END ((unsigned) g_in.off + g_in.len)   /* relative to the start of block blk */
#define POSTS(P) \
    P(output_is_input_xor_the_one_shot_keystream, IMPLIES(g_in.k < g_in.len, g_outb[g_in.k & 31] == (unsigned char) (g_in.in[g_in.k & 31] ^ KS((unsigned) g_in.off + g_in.k)))) \
    P(buffer_count_tracks_position,               g_ctx.OutputBufferCount == ((16 - (END & 15)) & 15)) \
    P(counter_tracks_position,                    ENCCTR_IS(g_in.blk + ((END + 15) >> 4))) \
    P(partial_block_is_kept_for_the_next_call,    IMPLIES((END & 15) != 0, g_ctx.CtrBlock[g_in.k & 15] == E_BYTE(CTR_BYTE(g_in.blk + (END >> 4), g_in.k & 15), g_in.k & 15))) \
    P(ghash_sees_the_whole_chunk_once,            gh.ghash == 1 && gh.ghashLen == g_in.len)

static void psAesEncryptGCMx(psAesGcm_t *ctx, const unsigned char *pt, unsigned char *ct, uint32_t len, int8_t direction)
__CPROVER_requires(ctx == &g_ctx && pt == g_inb && ct == g_outb && len == g_in.len && len <= NMAX && direction == g_in.direction && gh.ghash == 0)
POSTS(ENSURES_CLAUSE)
CANARY_CLAUSE(g_in.len == 0)
__CPROVER_assigns(gh, __CPROVER_object_whole(g_outb), g_ctx.OutputBufferCount, g_ctx.EncCtr, g_ctx.CtrBlock)
;

#include "crypto/symmetric/aesGCM.c"

#ifndef NATIVE_REPLAY
struct inputs nondet_in(void);
#endif

HARNESS_BEGIN
    HARNESS_INPUTS(struct inputs, in);
    unsigned i, n;
    g_in = in;
    g_in.off = OFF;          /* mode enumeration: the offset inside the block is a constant of the case */
    in.off = OFF;
    gh.ghash = 0; gh.ghashLen = 0;
    __CPROVER_assume(in.len <= NMAX && in.off < 16 && in.blk <= 0xFFFF && in.ctr0lo < 0xFFFE0000u && (in.direction == 0 || in.direction == 1));
    for (i = 0; i < NMAX; i++) { g_inb[i] = in.in[i]; }
    /* a context in mid-message at position pos: INV(pos) */
    n = in.blk + ((in.off + 15u) >> 4);
    for (i = 0; i < 12; i++) { g_ctx.EncCtr[i] = in.ctrhi[i]; }
    for (i = 12; i < 16; i++) { g_ctx.EncCtr[i] = (unsigned char) (((in.ctr0lo + n) >> (8 * (15 - i))) & 0xff); }
    g_ctx.OutputBufferCount = (16 - in.off) & 15;
    if (in.off != 0)
    {
        for (i = 0; i < 16; i++) { g_ctx.CtrBlock[i] = E_BYTE(CTR_BYTE(in.blk, i), i); }
    }
    psAesEncryptGCMx(&g_ctx, g_inb, g_outb, in.len, in.direction);
    POSTS(NATIVE_CHECK)
HARNESS_END
