/*@UNIT
{
  "property": "C12",
  "unit": "sha256_final",
  "function": "psSha256Final",
  "source": "crypto/digest/sha256.c",
  "keep_bodies": [],
  "replace": ["sha256_compress"],
  "assumed": ["sha256_compress (assumed contract: records byte g_k of the block and state word g_k&7 it was given, per call, in ghosts; new chaining state is an arbitrary value from the harness input)"],
  "mode": "proof",
  "why_proof": "all loops are bounded by the 64-byte block (zero fill up to 64 / up to 56, 8 output words), fully unwound with unwinding assertions; every curlen in [0,63], every length and every buffer content is covered symbolically",
  "unwind": 66,
  "native_replay": false,
  "timeout": 600
}
@*/
/* C12.U2  SHA-256 finalisation = FIPS 180-4 s.5.1.1 padding, for every number
 * of pending bytes.
 *
 * Abstract view of a context: (bits already compressed = length, pending bytes
 * buf[0..curlen)).  With c = curlen, T = length + 8c the padded tail is
 *     buf[0..c) || 0x80 || 0 ... 0 || be64(T)
 * of 64 bytes if c <= 55 and of 128 bytes otherwise.  The contract says that
 * sha256_compress is called exactly once / twice, that byte g_k (ghost index,
 * arbitrary in [0,64)) of each block it receives is the byte of that string,
 * that the chaining state is threaded (call 0 gets the context state, call 1
 * gets the result of call 0), and that the digest is the big-endian encoding
 * of the state returned by the last call.  sha256_compress itself is an
 * ASSUMED contract (the compression function is trusted, KAT-tested only).
 */
#include "verif.h"
#include "crypto/cryptoImpl.h"

static psSha256_t g_ctx;
static unsigned char g_hash[SHA256_HASHLEN];
static unsigned g_k;                      /* ghost index over block bytes */
static uint32 g_st[2][8];                 /* model result of compress call 0 / 1 (harness input) */

/* ghosts written by the compress contract */
static unsigned gh_n;                     /* number of compress calls */
static unsigned char gh_b0, gh_b1;        /* byte g_k of the block given to call 0 / 1 */
static uint32 gh_s0, gh_s1;               /* state word g_k&7 on entry to call 0 / 1 */
static unsigned gh_buf_ok;                /* every block came from the context buffer */

static void sha256_compress(psSha256_t *sha256, const unsigned char *buf)
__CPROVER_requires(sha256 == &g_ctx)
__CPROVER_requires(__CPROVER_r_ok(buf, 64))
__CPROVER_assigns(gh_n, gh_b0, gh_b1, gh_s0, gh_s1, gh_buf_ok, sha256->state)
__CPROVER_ensures(gh_n == __CPROVER_old(gh_n) + 1)
__CPROVER_ensures(gh_b0 == (__CPROVER_old(gh_n) == 0 ? buf[g_k] : __CPROVER_old(gh_b0)))
__CPROVER_ensures(gh_b1 == (__CPROVER_old(gh_n) == 1 ? buf[g_k] : __CPROVER_old(gh_b1)))
__CPROVER_ensures(gh_s0 == (__CPROVER_old(gh_n) == 0 ? __CPROVER_old(sha256->state[g_k & 7]) : __CPROVER_old(gh_s0)))
__CPROVER_ensures(gh_s1 == (__CPROVER_old(gh_n) == 1 ? __CPROVER_old(sha256->state[g_k & 7]) : __CPROVER_old(gh_s1)))
__CPROVER_ensures(gh_buf_ok == (__CPROVER_old(gh_buf_ok) && buf == g_ctx.buf))
__CPROVER_ensures(sha256->state[0] == g_st[__CPROVER_old(gh_n) & 1][0] && sha256->state[1] == g_st[__CPROVER_old(gh_n) & 1][1])
__CPROVER_ensures(sha256->state[2] == g_st[__CPROVER_old(gh_n) & 1][2] && sha256->state[3] == g_st[__CPROVER_old(gh_n) & 1][3])
__CPROVER_ensures(sha256->state[4] == g_st[__CPROVER_old(gh_n) & 1][4] && sha256->state[5] == g_st[__CPROVER_old(gh_n) & 1][5])
__CPROVER_ensures(sha256->state[6] == g_st[__CPROVER_old(gh_n) & 1][6] && sha256->state[7] == g_st[__CPROVER_old(gh_n) & 1][7])
;

#define OLDC   OLD(g_ctx, curlen)
#define OLDT   (OLD(g_ctx, length) + (((uint64) OLD(g_ctx, curlen)) << 3))
#define NBLK   (OLDC <= 55 ? 1u : 2u)
#define LENBYTE ((unsigned char) ((OLDT >> (((63 - g_k) & 7) * 8)) & 0xff))
/* byte g_k of the first / second block of the FIPS 180-4 padded tail */
#define PAD0   ((unsigned char) (g_k < OLDC ? OLD(g_ctx, buf[g_k]) : (g_k == OLDC ? 0x80 : ((NBLK == 1 && g_k >= 56) ? LENBYTE : 0))))
#define PAD1   ((unsigned char) (g_k >= 56 ? LENBYTE : 0))
#define DIGEST_BYTE ((unsigned char) ((g_st[NBLK - 1][(g_k & 31) >> 2] >> ((3 - (g_k & 3)) * 8)) & 0xff))

#define POSTS(P) \
    P(one_block_iff_curlen_le_55,   gh_n == NBLK) \
    P(blocks_come_from_context_buffer, gh_buf_ok) \
    P(first_block_is_fips_padding,  gh_b0 == PAD0) \
    P(second_block_is_fips_padding, IMPLIES(NBLK == 2, gh_b1 == PAD1)) \
    P(first_call_gets_context_state, gh_s0 == OLD(g_ctx, state[g_k & 7])) \
    P(second_call_gets_chained_state, IMPLIES(NBLK == 2, gh_s1 == g_st[0][g_k & 7])) \
    P(digest_is_be_of_last_state,   g_hash[g_k & 31] == DIGEST_BYTE)

void psSha256Final(psSha256_t *sha256, unsigned char hash[SHA256_HASHLEN])
__CPROVER_requires(sha256 == &g_ctx && hash == g_hash)
/* type invariant of a context (established by psSha256Init, kept by psSha256Update: unit sha256_update) */
__CPROVER_requires(g_ctx.curlen < 64)
__CPROVER_requires(g_k < 64 && gh_n == 0 && gh_buf_ok == 1)
POSTS(ENSURES_CLAUSE)
CANARY_CLAUSE(gh_n != 2)
__CPROVER_assigns(g_ctx, __CPROVER_object_whole(g_hash), gh_n, gh_b0, gh_b1, gh_s0, gh_s1, gh_buf_ok)
;

#include "crypto/digest/sha256.c"

struct __attribute__((packed)) inputs
{
    uint64_t length;
    uint32_t state[8];
    uint32_t curlen;
    unsigned char buf[64];
    uint32_t st[2][8];
    uint32_t k;
};
#ifndef NATIVE_REPLAY
struct inputs nondet_in(void);
#endif
DECL_SNAPSHOT(psSha256_t, g_ctx);

HARNESS_BEGIN
    HARNESS_INPUTS(struct inputs, in);
    int vr_ret = 0;
    g_ctx.length = in.length;
    Memcpy(g_ctx.state, in.state, sizeof(g_ctx.state));
    g_ctx.curlen = in.curlen;
    Memcpy(g_ctx.buf, in.buf, 64);
    Memcpy(g_st, in.st, sizeof(g_st));
    g_k = in.k;
    gh_buf_ok = 1;
    /* input domain = the requires clause above */
    __CPROVER_assume(g_ctx.curlen < 64 && g_k < 64);
    SNAPSHOT(g_ctx);
    psSha256Final(&g_ctx, g_hash);
    (void) vr_ret;
    POSTS(NATIVE_CHECK)
HARNESS_END
