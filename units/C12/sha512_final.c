/*@UNIT
{
  "property": "C12",
  "unit": "sha512_final",
  "function": "psSha512Final",
  "source": "crypto/digest/sha512.c",
  "keep_bodies": [],
  "replace": ["sha512_compress"],
  "assumed": ["sha512_compress (assumed contract: records byte g_k of the block and state word g_k&7 it was given, per call, in ghosts; new chaining state is an arbitrary value from the harness input)", "psBurnStack (model: no effect)"],
  "mode": "proof",
  "why_proof": "all loops are bounded by the 128-byte block (zero fill up to 128 / up to 120, 8 output words), fully unwound with unwinding assertions; every curlen in [0,127], every length below 2^64-1024 bits and every buffer content is covered symbolically",
  "cases": [
    {"name": "curlen_000_055", "defs": ["CLO=0", "CHI=55"]},
    {"name": "curlen_056_111", "defs": ["CLO=56", "CHI=111"]},
    {"name": "curlen_112_127", "defs": ["CLO=112", "CHI=127"]}
  ],
  "unwind": 130,
  "native_replay": false,
  "timeout": 600
}
@*/
/* C12.U2  SHA-512 finalisation = FIPS 180-4 s.5.1.2 padding for every number
 * of pending bytes.  With c = curlen, T = length + 8c the padded tail is
 *     buf[0..c) || 0x80 || 0 ... 0 || be128(T)
 * of 128 bytes if c <= 111 and of 256 bytes otherwise (the 111/112 boundary).
 * The context keeps a 64-bit bit counter, so the upper 8 bytes of the 128-bit
 * length field must be 0; that is the standard's value as long as the message
 * is shorter than 2^64 bits (requires clause).  Scheme as in sha256_final.c.
 */
#include "verif.h"
#include "crypto/cryptoImpl.h"

#ifndef CLO
# define CLO 0
# define CHI 127
#endif

static psSha512_t g_ctx;
static unsigned char g_hash[SHA512_HASHLEN];
static unsigned g_k;                      /* ghost index over block bytes */
static uint64 g_st[2][8];                 /* model result of compress call 0 / 1 (harness input) */

static unsigned gh_n;                     /* number of compress calls */
static unsigned char gh_b0, gh_b1;        /* byte g_k of the block given to call 0 / 1 */
static uint64 gh_s0, gh_s1;               /* state word g_k&7 on entry to call 0 / 1 */
static unsigned gh_buf_ok;                /* every block came from the context buffer */

void psBurnStack(uint32 len) { (void) len; }

static void sha512_compress(psSha512_t *sha512, const unsigned char *buf)
__CPROVER_requires(sha512 == &g_ctx)
__CPROVER_requires(__CPROVER_r_ok(buf, 128))
__CPROVER_assigns(gh_n, gh_b0, gh_b1, gh_s0, gh_s1, gh_buf_ok, sha512->state)
__CPROVER_ensures(gh_n == __CPROVER_old(gh_n) + 1)
__CPROVER_ensures(gh_b0 == (__CPROVER_old(gh_n) == 0 ? buf[g_k] : __CPROVER_old(gh_b0)))
__CPROVER_ensures(gh_b1 == (__CPROVER_old(gh_n) == 1 ? buf[g_k] : __CPROVER_old(gh_b1)))
__CPROVER_ensures(gh_s0 == (__CPROVER_old(gh_n) == 0 ? __CPROVER_old(sha512->state[g_k & 7]) : __CPROVER_old(gh_s0)))
__CPROVER_ensures(gh_s1 == (__CPROVER_old(gh_n) == 1 ? __CPROVER_old(sha512->state[g_k & 7]) : __CPROVER_old(gh_s1)))
__CPROVER_ensures(gh_buf_ok == (__CPROVER_old(gh_buf_ok) && buf == g_ctx.buf))
__CPROVER_ensures(sha512->state[0] == g_st[__CPROVER_old(gh_n) & 1][0] && sha512->state[1] == g_st[__CPROVER_old(gh_n) & 1][1])
__CPROVER_ensures(sha512->state[2] == g_st[__CPROVER_old(gh_n) & 1][2] && sha512->state[3] == g_st[__CPROVER_old(gh_n) & 1][3])
__CPROVER_ensures(sha512->state[4] == g_st[__CPROVER_old(gh_n) & 1][4] && sha512->state[5] == g_st[__CPROVER_old(gh_n) & 1][5])
__CPROVER_ensures(sha512->state[6] == g_st[__CPROVER_old(gh_n) & 1][6] && sha512->state[7] == g_st[__CPROVER_old(gh_n) & 1][7])
;

#define OLDC   OLD(g_ctx, curlen)
#define OLDT   (OLD(g_ctx, length) + (((uint64) OLD(g_ctx, curlen)) << 3))
#define NBLK   (OLDC <= 111 ? 1u : 2u)
/* byte g_k (>= 112) of the 16-byte big-endian length field: high 8 bytes are 0 */
#define LENBYTE ((unsigned char) (g_k < 120 ? 0 : ((OLDT >> (((127 - g_k) & 7) * 8)) & 0xff)))
#define PAD0   ((unsigned char) (g_k < OLDC ? OLD(g_ctx, buf[g_k]) : (g_k == OLDC ? 0x80 : ((NBLK == 1 && g_k >= 112) ? LENBYTE : 0))))
#define PAD1   ((unsigned char) (g_k >= 112 ? LENBYTE : 0))
#define DJ     (g_k & 63)
#define DIGEST_BYTE ((unsigned char) ((g_st[NBLK - 1][DJ >> 3] >> ((7 - (DJ & 7)) * 8)) & 0xff))

#define POSTS(P) \
    P(one_block_iff_curlen_le_111,  gh_n == NBLK) \
    P(blocks_come_from_context_buffer, gh_buf_ok) \
    P(first_block_is_fips_padding,  gh_b0 == PAD0) \
    P(second_block_is_fips_padding, IMPLIES(NBLK == 2, gh_b1 == PAD1)) \
    P(first_call_gets_context_state, gh_s0 == OLD(g_ctx, state[g_k & 7])) \
    P(second_call_gets_chained_state, IMPLIES(NBLK == 2, gh_s1 == g_st[0][g_k & 7])) \
    P(digest_is_be_of_last_state,   g_hash[DJ] == DIGEST_BYTE)

void psSha512Final(psSha512_t *sha512, unsigned char out[SHA512_HASHLEN])
__CPROVER_requires(sha512 == &g_ctx && out == g_hash)
/* type invariant of a context (psSha512Init; kept by psSha512Update) */
__CPROVER_requires(g_ctx.curlen < 128)
/* message shorter than 2^64 bits (the context has a 64-bit counter) */
__CPROVER_requires(g_ctx.length <= 0xFFFFFFFFFFFFFFFFULL - 1024)
__CPROVER_requires(g_k < 128 && gh_n == 0 && gh_buf_ok == 1)
POSTS(ENSURES_CLAUSE)
CANARY_CLAUSE(gh_n != (CHI <= 111 ? 1 : 2))
__CPROVER_assigns(g_ctx, __CPROVER_object_whole(g_hash), gh_n, gh_b0, gh_b1, gh_s0, gh_s1, gh_buf_ok)
;

#include "crypto/digest/sha512.c"

struct __attribute__((packed)) inputs
{
    uint64_t length;
    uint64_t state[8];
    uint64_t curlen;
    unsigned char buf[128];
    uint64_t st[2][8];
    uint32_t k;
};
#ifndef NATIVE_REPLAY
struct inputs nondet_in(void);
#endif
DECL_SNAPSHOT(psSha512_t, g_ctx);

HARNESS_BEGIN
    HARNESS_INPUTS(struct inputs, in);
    int vr_ret = 0;
    g_ctx.length = in.length;
    Memcpy(g_ctx.state, in.state, sizeof(g_ctx.state));
    /* case split over curlen (measured: one symbolic run 250 s; three ranges 40-115 s each);
       the three ranges [CLO,CHI] = [0,55], [56,111], [112,127] cover every curlen < 128 */
    g_ctx.curlen = CLO + (in.curlen % (CHI - CLO + 1));
    Memcpy(g_ctx.buf, in.buf, 128);
    Memcpy(g_st, in.st, sizeof(g_st));
    g_k = in.k;
    gh_buf_ok = 1;
    /* input domain = the requires clauses above */
    __CPROVER_assume(g_ctx.curlen < 128 && g_k < 128 && g_ctx.length <= 0xFFFFFFFFFFFFFFFFULL - 1024);
    SNAPSHOT(g_ctx);
    psSha512Final(&g_ctx, g_hash);
    (void) vr_ret;
    POSTS(NATIVE_CHECK)
HARNESS_END
