/*@UNIT
{
  "property": "C12",
  "unit": "md5_update",
  "function": "psMd5Update",
  "source": "crypto/digest/md5.c",
  "keep_bodies": [],
  "replace": ["md5_compress"],
  "assumed": ["md5_compress (assumed contract: compares byte g_k of the context buffer with the ghost message, records the state word it was given, per call; new chaining state is an arbitrary value from the harness input)"],
  "mode": "bounded",
  "bounds": "input length per call <= MAXLEN bytes (quick 8: buffer fill, block completion, wrap; thorough 65: a whole block in one call); the update loop runs at most twice for len <= 65 (unwind 3, unwinding assertion on); every curlen in [0,63], every bit length, every content",
  "defs_quick": ["MAXLEN=8"],
  "defs_thorough": ["MAXLEN=65"],
  "unwind": 20,
  "unwindset": ["psMd5Update_wrapped_for_contract_checking.0:3"],
  "solver": "cadical",
  "native_replay": false,
  "timeout": 900,
  "mem_gb": 10,
  "weight_gb": 5
}
@*/
/* C12.U1  MD5 buffering against a ghost message (scheme: see sha256_update.c;
 * md5_compress(ctx) reads the block from ctx->buf and there is no direct
 * whole-block path).
 *
 * Abstract view of a context = (bits already compressed, pending bytes
 * buf[0..curlen)).  The ghost message seen by one call is
 *     GMSG = pending bytes  ||  the len input bytes
 * The contract: md5_compress is called exactly floor((curlen+len)/64)
 * times, call i receives exactly GMSG[64i .. 64i+64) (ghost index g_k over
 * the block bytes) and the chaining state left by call i-1 (call 0: the
 * context's), afterwards the pending bytes are the rest of GMSG, curlen < 64
 * and the bit counter advanced by 512 per block.  Since pre- and post-state
 * are the same abstract relation the contract is inductive over calls: every
 * split of a message into update calls feeds the same block sequence to the
 * compression function (chunking independence).  The compression function is
 * ASSUMED (trusted, KAT only).
 */
#include "verif.h"
#include "crypto/cryptoImpl.h"

#ifndef MAXLEN
# define MAXLEN 8
#endif
#define MAXCALLS ((63 + MAXLEN) / 64)
#define NST (MAXCALLS + 1)
#define IDX(i) ((i) < NST ? (i) : 0)

static psMd5_t g_ctx;
static unsigned char g_in[MAXLEN];
static uint32_t g_len;
static unsigned g_k;                      /* ghost index over block bytes */
static uint32 g_st[NST][4];               /* model results of the compress calls (harness input) */
static unsigned char g_oldbuf[64];        /* pending bytes before the call (ghost copy) */
static uint32 g_oldcur;

/* the ghost message of this call */
#define GMSG(j) ((j) < g_oldcur ? g_oldbuf[(j) & 63] : g_in[((j) - g_oldcur) < MAXLEN ? ((j) - g_oldcur) : 0])

static unsigned gh_n;                     /* number of compress calls */
static unsigned gh_blocks_ok;             /* every block so far was GMSG[64i..64i+64) at index g_k */
static unsigned gh_chain_ok;              /* every call so far got the state left by its predecessor */

static void md5_compress(psMd5_t *md5)
__CPROVER_requires(md5 == &g_ctx)
__CPROVER_assigns(gh_n, gh_blocks_ok, gh_chain_ok, md5->state)
__CPROVER_ensures(gh_n == __CPROVER_old(gh_n) + 1)
__CPROVER_ensures(gh_blocks_ok == (__CPROVER_old(gh_blocks_ok) && md5->buf[g_k] == GMSG(64 * __CPROVER_old(gh_n) + g_k)))
__CPROVER_ensures(gh_chain_ok == (__CPROVER_old(gh_chain_ok) && __CPROVER_old(md5->state[g_k & 3]) == g_st[IDX(__CPROVER_old(gh_n))][g_k & 3]))
__CPROVER_ensures(md5->state[0] == g_st[IDX(__CPROVER_old(gh_n) + 1)][0])
__CPROVER_ensures(md5->state[1] == g_st[IDX(__CPROVER_old(gh_n) + 1)][1])
__CPROVER_ensures(md5->state[2] == g_st[IDX(__CPROVER_old(gh_n) + 1)][2])
__CPROVER_ensures(md5->state[3] == g_st[IDX(__CPROVER_old(gh_n) + 1)][3])
;

#define TOTAL (g_oldcur + g_len)

#define POSTS(P) \
    P(one_compress_per_full_block,   gh_n == (TOTAL >> 6)) \
    P(blocks_are_consecutive_message_blocks, gh_blocks_ok) \
    P(chaining_state_is_threaded,    gh_chain_ok) \
    P(curlen_is_remainder,           g_ctx.curlen == (TOTAL & 63)) \
    P(pending_bytes_are_message_tail, IMPLIES(g_k < (TOTAL & 63), g_ctx.buf[g_k] == GMSG(64 * ((TOTAL >> 6)) + g_k))) \
    P(bit_length_advances_512_per_block, g_ctx.length == OLD(g_ctx, length) + 512 * (uint64) ((TOTAL >> 6))) \
    P(state_is_last_compress_result, g_ctx.state[g_k & 3] == g_st[IDX(TOTAL >> 6)][g_k & 3])

void psMd5Update(psMd5_t *md5, const unsigned char *buf, uint32_t len)
__CPROVER_requires(md5 == &g_ctx && buf == g_in && len == g_len && len <= MAXLEN)
/* type invariant of a context (psMd5Init; re-established by this contract: curlen_is_remainder) */
__CPROVER_requires(g_ctx.curlen < 64)
/* ghost set-up: g_st[0] is the state on entry, g_oldbuf/g_oldcur the pending bytes on entry */
__CPROVER_requires(g_oldcur == g_ctx.curlen && g_k < 64 && gh_n == 0 && gh_blocks_ok == 1 && gh_chain_ok == 1)
__CPROVER_requires(g_oldbuf[g_k] == g_ctx.buf[g_k] && g_st[0][g_k & 3] == g_ctx.state[g_k & 3])
POSTS(ENSURES_CLAUSE)
CANARY_CLAUSE(gh_n == 0)
__CPROVER_assigns(g_ctx, gh_n, gh_blocks_ok, gh_chain_ok)
;

#include "crypto/digest/md5.c"

struct __attribute__((packed)) inputs
{
    uint64_t length;
    uint32_t state[4];
    uint32_t curlen;
    unsigned char buf[64];
    unsigned char data[MAXLEN];
    uint32_t len;
    uint32_t st[NST][4];
    uint32_t k;
};
#ifndef NATIVE_REPLAY
struct inputs nondet_in(void);
#endif
DECL_SNAPSHOT(psMd5_t, g_ctx);

HARNESS_BEGIN
    HARNESS_INPUTS(struct inputs, in);
    int vr_ret = 0;
    g_ctx.length = in.length;
    memcpy(g_ctx.state, in.state, sizeof(g_ctx.state));
    g_ctx.curlen = in.curlen;
    memcpy(g_ctx.buf, in.buf, 64);
    memcpy(g_oldbuf, in.buf, 64);
    memcpy(g_in, in.data, sizeof(g_in));
    memcpy(g_st, in.st, sizeof(g_st));
    memcpy(g_st[0], in.state, sizeof(g_st[0]));
    g_len = in.len;
    g_oldcur = in.curlen;
    g_k = in.k;
    gh_blocks_ok = gh_chain_ok = 1;
    /* input domain = the requires clauses above */
    __CPROVER_assume(g_ctx.curlen < 64 && g_k < 64 && g_len <= MAXLEN);
    SNAPSHOT(g_ctx);
    psMd5Update(&g_ctx, g_in, g_len);
    (void) vr_ret;
    POSTS(NATIVE_CHECK)
HARNESS_END
