/*@UNIT
{
  "property": "C12",
  "unit": "aes_gcm_decrypt_gate",
  "function": "psAesDecryptGCM",
  "source": "crypto/symmetric/aesGCM.c",
  "keep_bodies": [],
  "replace": ["psAesEncryptGCMx", "psAesGetGCMTag"],
  "assumed": ["psAesEncryptGCMx (assumed contract: CTR decryption + GHASH update; logs its arguments and call order)", "psAesGetGCMTag (assumed contract: writes tagBytes bytes of tag; logs length, buffer and call order)", "memcmpct (model: logs its arguments, returns an arbitrary value from the harness input)"],
  "mode": "bounded",
  "bounds": "the function is loop-free once its callees are replaced; ctLen, ptLen <= 320 (size of the harness buffers, chosen above 2^8 so that the uint8 narrowing of the tag length in the psAesGetGCMTag call is exercised; the uint16 narrowing at 2^16 is not)",
  "native_replay": false,
  "timeout": 120
}
@*/
/* C12.U6  AES-GCM open: the accept/reject gate.
 *
 * ct = ciphertext(ptLen) || tag(T), T = ctLen - ptLen is the tag length the
 * caller asks for.  Contract:
 *   - success is returned only after ONE constant-time comparison of exactly T
 *     bytes between the tag computed over the whole ciphertext (decrypt/GHASH
 *     call first, tag call second) and ct + ptLen, and only if it returned 0;
 *   - a mismatch gives PS_AUTH_FAIL;
 *   - T == 0 (or ctLen < ptLen) and T > 16 (GCM tags are at most one block,
 *     NIST SP 800-38D 5.2.1.2) are refused before anything is processed.
 * CTR/GHASH/tag computation and the comparison loop are assumed.
 * Not claimed: the plaintext buffer is written before the comparison (decrypt-
 * then-verify) and is not wiped on PS_AUTH_FAIL; "released" here means the
 * success return value.
 */
#include "verif.h"
#include "crypto/cryptoImpl.h"

#define BUFSZ 320
static psAesGcm_t g_ctx;
static unsigned char g_ct[BUFSZ], g_pt[BUFSZ];
static uint32_t g_ctlen, g_ptlen;
static int32 g_cmp_result;                 /* model result of memcmpct (harness input) */

static struct
{
    unsigned dec_calls, tag_calls, cmp_calls;
    unsigned dec_args_ok, tag_after_dec, cmp_after_tag, cmp_args_ok;
    unsigned tag_bytes;
    size_t cmp_len;
    const unsigned char *tagptr;
} gh;

static void psAesEncryptGCMx(psAesGcm_t *ctx, const unsigned char *pt, unsigned char *ct, uint32_t len, int8_t direction)
__CPROVER_requires(ctx == &g_ctx)
__CPROVER_assigns(gh, __CPROVER_object_upto(ct, len))
__CPROVER_ensures(gh.dec_calls == __CPROVER_old(gh.dec_calls) + 1 && gh.tag_calls == __CPROVER_old(gh.tag_calls) && gh.cmp_calls == __CPROVER_old(gh.cmp_calls))
__CPROVER_ensures(gh.dec_args_ok == (pt == g_ct && ct == g_pt && len == g_ptlen && direction == 0 && __CPROVER_old(gh.tag_calls) == 0 && __CPROVER_old(gh.cmp_calls) == 0))
__CPROVER_ensures(gh.tag_after_dec == __CPROVER_old(gh.tag_after_dec) && gh.cmp_after_tag == __CPROVER_old(gh.cmp_after_tag) && gh.cmp_args_ok == __CPROVER_old(gh.cmp_args_ok))
__CPROVER_ensures(gh.tag_bytes == __CPROVER_old(gh.tag_bytes) && gh.cmp_len == __CPROVER_old(gh.cmp_len) && gh.tagptr == __CPROVER_old(gh.tagptr))
;

void psAesGetGCMTag(psAesGcm_t *ctx, uint8_t tagBytes, unsigned char tag[AES_BLOCKLEN])
__CPROVER_requires(ctx == &g_ctx)
__CPROVER_assigns(gh, __CPROVER_object_upto(tag, tagBytes))
__CPROVER_ensures(gh.tag_calls == __CPROVER_old(gh.tag_calls) + 1 && gh.dec_calls == __CPROVER_old(gh.dec_calls) && gh.cmp_calls == __CPROVER_old(gh.cmp_calls))
__CPROVER_ensures(gh.tag_after_dec == (__CPROVER_old(gh.dec_calls) == 1 && __CPROVER_old(gh.cmp_calls) == 0))
__CPROVER_ensures(gh.tag_bytes == tagBytes && gh.tagptr == tag)
__CPROVER_ensures(gh.dec_args_ok == __CPROVER_old(gh.dec_args_ok) && gh.cmp_after_tag == __CPROVER_old(gh.cmp_after_tag) && gh.cmp_args_ok == __CPROVER_old(gh.cmp_args_ok) && gh.cmp_len == __CPROVER_old(gh.cmp_len))
;

int32 memcmpct(const void *s1, const void *s2, size_t len)
{
    gh.cmp_after_tag = (gh.tag_calls == 1 && gh.dec_calls == 1 && gh.cmp_calls == 0);
    gh.cmp_args_ok = ((s1 == (const void *) gh.tagptr && s2 == (const void *) (g_ct + g_ptlen)) ||
                      (s2 == (const void *) gh.tagptr && s1 == (const void *) (g_ct + g_ptlen)));
    gh.cmp_len = len;
    gh.cmp_calls++;
    return g_cmp_result;
}

#define HAS_TAG   (g_ctlen > g_ptlen)
#define T         (g_ctlen - g_ptlen)
#define T_VALID   (HAS_TAG && T <= 16)
#define COMPARED_AS_SPECIFIED (gh.dec_calls == 1 && gh.dec_args_ok && gh.tag_calls == 1 && gh.tag_after_dec && gh.tag_bytes == T && \
                               gh.cmp_calls == 1 && gh.cmp_after_tag && gh.cmp_args_ok && gh.cmp_len == T)

#define POSTS(P) \
    P(missing_tag_is_refused,        IMPLIES(!HAS_TAG, RET == PS_ARG_FAIL && gh.dec_calls == 0 && gh.cmp_calls == 0)) \
    P(tag_longer_than_a_block_is_refused, IMPLIES(HAS_TAG && T > 16, RET < 0 && gh.dec_calls == 0 && gh.tag_calls == 0 && gh.cmp_calls == 0)) \
    P(success_only_after_matching_full_tag_compare, IMPLIES(RET >= 0 && T_VALID, RET == PS_SUCCESS && COMPARED_AS_SPECIFIED && g_cmp_result == 0)) \
    P(tag_mismatch_is_auth_fail,     IMPLIES(T_VALID && g_cmp_result != 0, RET == PS_AUTH_FAIL && COMPARED_AS_SPECIFIED)) \
    P(tag_match_succeeds,            IMPLIES(T_VALID && g_cmp_result == 0, RET == PS_SUCCESS))

int32_t psAesDecryptGCM(psAesGcm_t *ctx, const unsigned char *ct, uint32_t ctLen, unsigned char *pt, uint32_t ptLen)
__CPROVER_requires(ctx == &g_ctx && ct == g_ct && pt == g_pt && ctLen == g_ctlen && ptLen == g_ptlen)
__CPROVER_requires(ctLen <= BUFSZ && ptLen <= BUFSZ)
__CPROVER_requires(gh.dec_calls == 0 && gh.tag_calls == 0 && gh.cmp_calls == 0)
POSTS(ENSURES_CLAUSE)
CANARY_CLAUSE(__CPROVER_return_value != PS_SUCCESS)
__CPROVER_assigns(gh, __CPROVER_object_whole(g_pt))
;

#include "crypto/symmetric/aesGCM.c"

struct __attribute__((packed)) inputs
{
    uint32_t ctlen, ptlen;
    int32_t cmp_result;
};
#ifndef NATIVE_REPLAY
struct inputs nondet_in(void);
#endif

HARNESS_BEGIN
    HARNESS_INPUTS(struct inputs, in);
    int32_t vr_ret;
    g_ctlen = in.ctlen; g_ptlen = in.ptlen; g_cmp_result = in.cmp_result;
    /* buffer contents and g_ctx stay havocked (DFCC) / are only handed to the assumed callees */
    /* input domain = the requires clauses above */
    __CPROVER_assume(g_ctlen <= BUFSZ && g_ptlen <= BUFSZ);
    vr_ret = psAesDecryptGCM(&g_ctx, g_ct, g_ctlen, g_pt, g_ptlen);
    (void) vr_ret;
    POSTS(NATIVE_CHECK)
HARNESS_END
