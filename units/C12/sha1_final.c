/*@UNIT
{
  "property": "C12",
  "unit": "sha1_final",
  "function": "psSha1Final",
  "source": "crypto/digest/sha1.c",
  "keep_bodies": [],
  "replace": ["sha1_compress"],
  "assumed": ["sha1_compress (assumed contract: records byte g_k of the context buffer and state word g_k%5 it was given, per call, in ghosts; new chaining state is an arbitrary value from the harness input)"],
  "mode": "proof",
  "why_proof": "all loops are bounded by the 64-byte block (zero fill up to 64 / up to 56, 5 output words), fully unwound with unwinding assertions; every curlen in [0,63], every length and every buffer content is covered symbolically",
  "unwind": 66,
  "native_replay": false,
  "timeout": 600
}
@*/
/* C12.U2  SHA-1 finalisation = FIPS 180-4 s.5.1.1 padding for every number of
 * pending bytes; see sha256_final.c for the scheme.  sha1_compress(ctx) reads
 * the block from ctx->buf, so the contract records ctx->buf[g_k] at each call.
 */
#include "verif.h"
#include "crypto/cryptoImpl.h"

static psSha1_t g_ctx;
static unsigned char g_hash[SHA1_HASHLEN];
static unsigned g_k;                      /* ghost index over block bytes */
static uint32 g_st[2][5];                 /* model result of compress call 0 / 1 (harness input) */

static unsigned gh_n;                     /* number of compress calls */
static unsigned char gh_b0, gh_b1;        /* byte g_k of the block seen by call 0 / 1 */
static uint32 gh_s0, gh_s1;               /* state word g_k%5 on entry to call 0 / 1 */

static void sha1_compress(psSha1_t *sha1)
__CPROVER_requires(sha1 == &g_ctx)
__CPROVER_assigns(gh_n, gh_b0, gh_b1, gh_s0, gh_s1, sha1->state)
__CPROVER_ensures(gh_n == __CPROVER_old(gh_n) + 1)
__CPROVER_ensures(gh_b0 == (__CPROVER_old(gh_n) == 0 ? sha1->buf[g_k] : __CPROVER_old(gh_b0)))
__CPROVER_ensures(gh_b1 == (__CPROVER_old(gh_n) == 1 ? sha1->buf[g_k] : __CPROVER_old(gh_b1)))
__CPROVER_ensures(gh_s0 == (__CPROVER_old(gh_n) == 0 ? __CPROVER_old(sha1->state[g_k % 5]) : __CPROVER_old(gh_s0)))
__CPROVER_ensures(gh_s1 == (__CPROVER_old(gh_n) == 1 ? __CPROVER_old(sha1->state[g_k % 5]) : __CPROVER_old(gh_s1)))
__CPROVER_ensures(sha1->state[0] == g_st[__CPROVER_old(gh_n) & 1][0] && sha1->state[1] == g_st[__CPROVER_old(gh_n) & 1][1])
__CPROVER_ensures(sha1->state[2] == g_st[__CPROVER_old(gh_n) & 1][2] && sha1->state[3] == g_st[__CPROVER_old(gh_n) & 1][3])
__CPROVER_ensures(sha1->state[4] == g_st[__CPROVER_old(gh_n) & 1][4])
;

#define OLDC   OLD(g_ctx, curlen)
#define OLDT   (OLD(g_ctx, length) + (((uint64) OLD(g_ctx, curlen)) << 3))
#define NBLK   (OLDC <= 55 ? 1u : 2u)
#define LENBYTE ((unsigned char) ((OLDT >> (((63 - g_k) & 7) * 8)) & 0xff))
#define PAD0   ((unsigned char) (g_k < OLDC ? OLD(g_ctx, buf[g_k]) : (g_k == OLDC ? 0x80 : ((NBLK == 1 && g_k >= 56) ? LENBYTE : 0))))
#define PAD1   ((unsigned char) (g_k >= 56 ? LENBYTE : 0))
#define DJ     (g_k % 20)
#define DIGEST_BYTE ((unsigned char) ((g_st[NBLK - 1][DJ >> 2] >> ((3 - (DJ & 3)) * 8)) & 0xff))

#define POSTS(P) \
    P(one_block_iff_curlen_le_55,   gh_n == NBLK) \
    P(first_block_is_fips_padding,  gh_b0 == PAD0) \
    P(second_block_is_fips_padding, IMPLIES(NBLK == 2, gh_b1 == PAD1)) \
    P(first_call_gets_context_state, gh_s0 == OLD(g_ctx, state[g_k % 5])) \
    P(second_call_gets_chained_state, IMPLIES(NBLK == 2, gh_s1 == g_st[0][g_k % 5])) \
    P(digest_is_be_of_last_state,   g_hash[DJ] == DIGEST_BYTE)

void psSha1Final(psSha1_t *sha1, unsigned char hash[SHA1_HASHLEN])
__CPROVER_requires(sha1 == &g_ctx && hash == g_hash)
/* type invariant of a context (psSha1Init; kept by psSha1Update: unit sha1_update) */
__CPROVER_requires(g_ctx.curlen < 64)
__CPROVER_requires(g_k < 64 && gh_n == 0)
POSTS(ENSURES_CLAUSE)
CANARY_CLAUSE(gh_n != 2)
__CPROVER_assigns(g_ctx, __CPROVER_object_whole(g_hash), gh_n, gh_b0, gh_b1, gh_s0, gh_s1)
;

#include "crypto/digest/sha1.c"

struct __attribute__((packed)) inputs
{
    uint64_t length;
    uint32_t state[5];
    uint32_t curlen;
    unsigned char buf[64];
    uint32_t st[2][5];
    uint32_t k;
};
#ifndef NATIVE_REPLAY
struct inputs nondet_in(void);
#endif
DECL_SNAPSHOT(psSha1_t, g_ctx);

HARNESS_BEGIN
    HARNESS_INPUTS(struct inputs, in);
    int vr_ret = 0;
    g_ctx.length = in.length;
    Memcpy(g_ctx.state, in.state, sizeof(g_ctx.state));
    g_ctx.curlen = in.curlen;
    Memcpy(g_ctx.buf, in.buf, 64);
    Memcpy(g_st, in.st, sizeof(g_st));
    g_k = in.k;
    /* input domain = the requires clause above */
    __CPROVER_assume(g_ctx.curlen < 64 && g_k < 64);
    SNAPSHOT(g_ctx);
    psSha1Final(&g_ctx, g_hash);
    (void) vr_ret;
    POSTS(NATIVE_CHECK)
HARNESS_END
