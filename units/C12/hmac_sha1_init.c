/*@UNIT
{
  "property": "C12",
  "unit": "hmac_sha1_init",
  "function": "psHmacSha1Init",
  "source": "crypto/digest/hmac.c",
  "keep_bodies": [],
  "replace": [],
  "assumed": ["psSha1Init / psSha1Update / psSha1Final (models: log every call with context pointer, length and the bytes at the ghost indices; the digest is an arbitrary value from the harness input)", "psBurnStack (model: no effect)"],
  "mode": "bounded",
  "bounds": "key length <= 128 bytes (two hash blocks); every key content",
  "unwind": 130,
  "native_replay": true,
  "timeout": 600
}
@*/
/* C12.U3  HMAC-SHA1 key schedule (used by psPkcs5Pbkdf2 with the user's password as key)
 * - same contract as hmac_sha256_init.c.  HMAC key schedule (RFC 2104 s.2, FIPS 198-1 s.4 steps 1-4 and 7).
 *
 *   K0    = key || 0^(B-len)            if len <= B (B = 64)
 *         = H(key) || 0^(B-20)          if len >  B
 *   inner hash is started with  K0 xor ipad(0x36),  ctx->pad keeps K0 xor opad(0x5c).
 *
 * The hash is an assumed model that logs its calls.  The property statement
 * ("exactly the standard's output for every key") does not leave room for a
 * key the function silently mishandles; for a long key the contract accepts
 * either the standard's K0 or a refusal (negative return, nothing hashed).
 */
#include "verif.h"
#include "crypto/cryptoImpl.h"

#define MAXKEY 128
#define MAXLOG 8
enum { OP_INIT = 1, OP_UPDATE = 2, OP_FINAL = 3 };

static psHmacSha1_t g_ctx;
static unsigned char g_key[MAXKEY];
static psSize_t g_keylen;
static unsigned g_k;                      /* ghost index over a block, < 64 */
static unsigned g_j;                      /* ghost index over the key, < MAXKEY */
static unsigned char g_dig[SHA1_HASHLEN]; /* model digest (harness input) */

static struct { unsigned op; const void *ctx; const unsigned char *ptr; uint32_t len; unsigned char bk, bj; } gh_log[MAXLOG];
static unsigned gh_n;

int32_t psSha1Init(psSha1_t *sha1)
{
    if (gh_n < MAXLOG) { gh_log[gh_n].op = OP_INIT; gh_log[gh_n].ctx = sha1; }
    gh_n++;
    return PS_SUCCESS;
}
void psSha1Update(psSha1_t *sha1, const unsigned char *buf, uint32_t len)
{
    if (gh_n < MAXLOG)
    {
        gh_log[gh_n].op = OP_UPDATE; gh_log[gh_n].ctx = sha1; gh_log[gh_n].ptr = buf; gh_log[gh_n].len = len;
        gh_log[gh_n].bk = (g_k < len) ? buf[g_k] : 0;
        gh_log[gh_n].bj = (g_j < len) ? buf[g_j] : 0;
    }
    gh_n++;
}
void psSha1Final(psSha1_t *sha1, unsigned char hash[SHA1_HASHLEN])
{
    int i;
    if (gh_n < MAXLOG) { gh_log[gh_n].op = OP_FINAL; gh_log[gh_n].ctx = sha1; }
    gh_n++;
    for (i = 0; i < SHA1_HASHLEN; i++) { hash[i] = g_dig[i]; }
}
void psBurnStack(uint32 len) { (void) len; }

#define SHORT   (g_keylen <= 64)
/* byte g_k of K0 */
#define K0_SHORT ((unsigned char) (g_k < g_keylen ? g_key[g_k] : 0))
#define K0_LONG  ((unsigned char) (g_k < SHA1_HASHLEN ? g_dig[g_k] : 0))
#define INNER_STARTED(at, k0) (gh_log[at].op == OP_INIT && gh_log[at].ctx == &g_ctx.sha1 && \
                               gh_log[(at) + 1].op == OP_UPDATE && gh_log[(at) + 1].ctx == &g_ctx.sha1 && gh_log[(at) + 1].len == 64 && \
                               gh_log[(at) + 1].bk == ((k0) ^ 0x36))
#define KEY_HASHED (gh_log[0].op == OP_INIT && gh_log[1].op == OP_UPDATE && gh_log[1].ctx == gh_log[0].ctx && gh_log[1].len == g_keylen && \
                    gh_log[1].bj == (g_j < g_keylen ? g_key[g_j] : 0) && gh_log[2].op == OP_FINAL && gh_log[2].ctx == gh_log[0].ctx)

#define POSTS(P) \
    P(short_key_succeeds,             IMPLIES(SHORT, RET == PS_SUCCESS)) \
    P(short_key_inner_hash_starts_with_ipad_block, IMPLIES(SHORT, gh_n == 2 && INNER_STARTED(0, K0_SHORT))) \
    P(short_key_pad_is_opad_block,    IMPLIES(SHORT, g_ctx.pad[g_k] == (K0_SHORT ^ 0x5c))) \
    P(long_key_is_hashed_or_refused,  IMPLIES(!SHORT, (RET < 0 && gh_n == 0) || \
                                              (RET == PS_SUCCESS && gh_n == 5 && KEY_HASHED && INNER_STARTED(3, K0_LONG) && g_ctx.pad[g_k] == (K0_LONG ^ 0x5c))))

int32_t psHmacSha1Init(psHmacSha1_t *ctx, const unsigned char *key, psSize_t keyLen)
__CPROVER_requires(ctx == &g_ctx && key == g_key && keyLen == g_keylen && keyLen <= MAXKEY)
__CPROVER_requires(g_k < 64 && g_j < MAXKEY && gh_n == 0)
POSTS(ENSURES_CLAUSE)
CANARY_CLAUSE(__CPROVER_return_value != PS_SUCCESS)
__CPROVER_assigns(g_ctx, __CPROVER_object_whole(gh_log), gh_n)
;

#include "crypto/digest/hmac.c"

struct __attribute__((packed)) inputs
{
    unsigned char key[MAXKEY];
    uint16_t keylen;
    unsigned char dig[SHA1_HASHLEN];
    uint32_t k, j;
};
#ifndef NATIVE_REPLAY
struct inputs nondet_in(void);
#endif
DECL_SNAPSHOT(psHmacSha1_t, g_ctx);

HARNESS_BEGIN
    HARNESS_INPUTS(struct inputs, in);
    int32_t vr_ret;
    memcpy(g_key, in.key, MAXKEY);
    memcpy(g_dig, in.dig, SHA1_HASHLEN);
    g_keylen = in.keylen;
    g_k = in.k;
    g_j = in.j;
    /* input domain = the requires clauses above */
    __CPROVER_assume(g_keylen <= MAXKEY && g_k < 64 && g_j < MAXKEY);
    SNAPSHOT(g_ctx);
    vr_ret = psHmacSha1Init(&g_ctx, g_key, g_keylen);
    (void) vr_ret;
    POSTS(NATIVE_CHECK)
HARNESS_END
