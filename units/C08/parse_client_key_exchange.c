/*@UNIT
{
  "property": "C08",
  "properties": ["C04", "C19"],
  "unit": "parse_client_key_exchange",
  "function": "parseClientKeyExchange",
  "source": "matrixssl/hsDecode.c",
  "plain": true,
  "frame_check": "none: harness-checked contract (VERIF_PLAIN_CONTRACT, DESIGN 9.2)",
  "assumed": ["Malloc/Free (units/common/vr_alloc.h)",
              "matrixSslPskGetKey (model: demands a readable identity; a key of <= 16 bytes or none)",
              "psEccNewKey, psEccX963ImportKey, psEccGenSharedSecret, psEccDeleteKey, psDhImportPubKey, psDhGenSharedSecret, psDhClearKey (models: demand readable inputs, write at most the announced output size, verdict from the input)",
              "psRsaDecryptPriv (model: demands a readable ciphertext, writes the 48-byte output or fails), psGetPrngLocked (model: fills with the harness's R or fails)",
              "tlsExtendedDeriveKeys, sslCreateKeys, matrixUpdateSession (models: verdict from the input)"],
  "mode": "bounded",
  "bounds": "TLS 1.2 or SSL 3.0 server (case), ClientKeyExchange body of every length <= N = 24 with every content and every hsLen, every combination of the key-exchange flags and both static-ECDH suite types; own DH prime <= 32 bytes, PSK <= 16 bytes; every allocation may fail",
  "cases": [{"name": "tls12", "defs": ["MODE_VER=(v_tls_1_2|v_tls_negotiated)"]}, {"name": "ssl3", "defs": ["MODE_VER=(v_ssl_3_0|v_tls_negotiated)"], "tier": "thorough"}],
  "defs": ["BUFN=24"],
  "unwind": 52,
  "object_bits": 10,
  "native_replay": false,
  "timeout": 600
}
@*/
/* C08  the server's ClientKeyExchange parser on arbitrary bytes from an unauthenticated client: no
 * access outside the message, premaster writes inside its allocation, documented verdicts.
 * C04  RSA key transport (RFC 5246 7.4.7.1): a failed decryption of the encrypted premaster is not
 * reported - the handshake goes on with client_version || R for a fresh random R (Bleichenbacher
 * counter-measure); with a good decryption the premaster is client_version || M[2..47].
 * C19  a failed allocation is an error return. */
#define VERIF_PLAIN_CONTRACT
#include "verif.h"
#define VR_CAP 256
#include "vr_alloc.h"
#include "matrixssl/matrixsslImpl.h"

#ifndef BUFN
# define BUFN 24
#endif
struct __attribute__((packed)) inputs
{
    uint32_t flags; uint16_t len; int32_t hsLen; uint8_t cipherType; uint8_t dhPLen, pskLen, hasPsk, ems;
    int32_t psk_rc, newKey_rc, import_rc, eccShared_rc, dhImport_rc, dhShared_rc, rsa_rc, prng_rc, keys_rc; uint8_t sharedLen;
    unsigned char R[46], M[48], k;
    unsigned char buf[BUFN];
};
static struct inputs g_in;
static ssl_t g_ssl;
static sslKeys_t g_keys;
static sslIdentity_t g_id;
static sslCipherSpec_t g_cipher;
static psEccKey_t g_eccPriv, g_eccPub;
static psEccCurve_t g_curve;
static psDhKey_t g_dhPriv;
static unsigned char g_store[BUFN], g_psk[16];
static unsigned char *g_cur;
static struct { int rsa, prng; } gh;

int32_t matrixSslPskGetKey(ssl_t *ssl, const unsigned char id[SSL_PSK_MAX_ID_SIZE], uint8_t idLen, unsigned char *key[SSL_PSK_MAX_KEY_SIZE], uint8_t *keyLen)
{
    if (idLen > 0) { __CPROVER_assert(__CPROVER_r_ok(id, idLen), "PSK identity lies inside the message"); }
    if (g_in.psk_rc < 0) { return PS_FAILURE; }
    *key = g_in.hasPsk ? (unsigned char *) g_psk : NULL;
    *keyLen = g_in.pskLen;
    return PS_SUCCESS;
}
int32_t psEccNewKey(psPool_t *pool, psEccKey_t **key, const psEccCurve_t *curve) { if (g_in.newKey_rc < 0) { return PS_MEM_FAIL; } *key = &g_eccPub; return PS_SUCCESS; }
int32_t psEccX963ImportKey(psPool_t *pool, const unsigned char *in, psSize_t inlen, psEccKey_t *key, const psEccCurve_t *curve)
{
    if (inlen > 0) { __CPROVER_assert(__CPROVER_r_ok(in, inlen), "ECDH point lies inside the message"); }
    return g_in.import_rc < 0 ? PS_FAILURE : PS_SUCCESS;
}
int32_t psEccGenSharedSecret(psPool_t *pool, const psEccKey_t *privKey, const psEccKey_t *pubKey, unsigned char *outbuf, psSize_t *outlen, void *usrData)
{
    if (g_in.eccShared_rc < 0) { return PS_FAILURE; }
    __CPROVER_assert(__CPROVER_w_ok(outbuf, *outlen), "ECDH secret buffer is as large as announced");
    return PS_SUCCESS;
}
void psEccDeleteKey(psEccKey_t **key) { *key = NULL; }
int32_t psDhImportPubKey(psPool_t *pool, const unsigned char *inbuf, psSize_t inlen, psDhKey_t *key)
{
    if (inlen > 0) { __CPROVER_assert(__CPROVER_r_ok(inbuf, inlen), "DH public value lies inside the message"); }
    return g_in.dhImport_rc < 0 ? PS_FAILURE : PS_SUCCESS;
}
int32_t psDhGenSharedSecret(psPool_t *pool, const psDhKey_t *privKey, const psDhKey_t *pubKey, const unsigned char *pBin, psSize_t pBinLen, unsigned char *out, psSize_t *outlen, void *usrData)
{
    if (g_in.dhShared_rc < 0) { return PS_FAILURE; }
    __CPROVER_assert(__CPROVER_w_ok(out, *outlen), "DH secret buffer is as large as announced");
    /* the secret is at most as long as the prime */
    __CPROVER_assert(*outlen >= pBinLen, "DH secret buffer holds a value as long as the prime");
    *outlen = g_in.sharedLen < pBinLen ? g_in.sharedLen : pBinLen;
    return PS_SUCCESS;
}
void psDhClearKey(psDhKey_t *key) { }
int32_t psRsaDecryptPriv(psPool_t *pool, psRsaKey_t *key, unsigned char *in, psSize_t inlen, unsigned char *out, psSize_t outlen, void *data)
{
    unsigned i;
    gh.rsa++;
    if (inlen > 0) { __CPROVER_assert(__CPROVER_r_ok(in, inlen), "encrypted premaster lies inside the message"); }
    if (g_in.rsa_rc < 0) { return PS_FAILURE; }
    __CPROVER_assert(outlen == 48 && __CPROVER_w_ok(out, 48), "premaster buffer holds 48 bytes");
    for (i = 0; i < 48; i++) { out[i] = g_in.M[i]; }
    return 48;
}
int32_t psGetPrngLocked(unsigned char *bytes, psSize_t size, void *userPtr)
{
    unsigned i;
    gh.prng++;
    if (g_in.prng_rc < 0) { return PS_FAILURE; }
    for (i = 0; i < 46; i++) { if (i < size) { bytes[i] = g_in.R[i]; } }
    return size;
}
errno_t memset_s(void *s, rsize_t smax, int c, rsize_t n) { memset(s, c, n); return 0; }
int32 tlsExtendedDeriveKeys(ssl_t *ssl) { return g_in.keys_rc < 0 ? -1 : 0; }
int32 sslCreateKeys(ssl_t *ssl) { return g_in.keys_rc < 0 ? -1 : 0; }
int32 matrixUpdateSession(ssl_t *ssl) { return 0; }

#define START (BUFN - g_in.len)
#define OK (RET == PS_SUCCESS)
#define RSA_MODE (!(g_in.flags & (SSL_FLAGS_DHE_KEY_EXCH | SSL_FLAGS_PSK_CIPHER)) && g_in.cipherType != CS_ECDH_ECDSA && g_in.cipherType != CS_ECDH_RSA)
#define GK (g_in.k < 46 ? g_in.k : 0)
#define POSTS(P) \
    P(verdict_is_documented,               OK || RET == MATRIXSSL_ERROR || RET == SSL_MEM_ERROR) \
    P(C19_session_keeps_no_pointer_to_freed_memory, VR_LIVE(g_ssl.sec.premaster) && VR_LIVE(g_ssl.sec.dhKeyPub) && VR_LIVE(g_ssl.sec.dhP) && VR_LIVE(g_ssl.sec.dhG) && VR_LIVE(g_ssl.sec.dhKeyPriv)) /* what matrixSslDeleteSession / the next handshake will free again */ \
    P(success_leaves_cursor_in_message,    IMPLIES(OK, __CPROVER_same_object(g_cur, g_store) && __CPROVER_POINTER_OFFSET(g_cur) >= START && __CPROVER_POINTER_OFFSET(g_cur) <= BUFN)) \
    P(success_moves_to_finished_or_certificate_verify, IMPLIES(OK, g_ssl.hsState == ((g_in.flags & SSL_FLAGS_CLIENT_AUTH) ? SSL_HS_CERTIFICATE_VERIFY : SSL_HS_FINISHED))) \
    P(C04_rsa_decrypt_failure_is_not_reported, IMPLIES(RSA_MODE && gh.rsa == 1 && g_in.prng_rc >= 0 && g_in.keys_rc >= 0, OK)) \
    P(C04_rsa_failed_decrypt_continues_with_random_premaster, IMPLIES(RSA_MODE && OK && g_in.rsa_rc < 0 && g_ssl.sec.premaster != NULL, g_ssl.sec.premaster[2 + GK] == g_in.R[GK] && gh.prng == 1)) \
    P(C04_rsa_good_decrypt_keeps_the_clients_secret, IMPLIES(RSA_MODE && OK && g_in.rsa_rc >= 0 && g_ssl.sec.premaster != NULL, g_ssl.sec.premaster[2 + GK] == g_in.M[2 + GK])) \
    P(C04_rsa_premaster_starts_with_the_offered_version, IMPLIES(RSA_MODE && OK && g_ssl.sec.premaster != NULL, g_ssl.sec.premaster[0] == psEncodeVersionMaj(g_ssl.peerHelloVersion) && g_ssl.sec.premaster[1] == psEncodeVersionMin(g_ssl.peerHelloVersion)))

int32 parseClientKeyExchange(ssl_t *ssl, int32 hsLen, unsigned char **cp, unsigned char *end)
__CPROVER_requires(ssl == &g_ssl && hsLen == g_in.hsLen && cp == &g_cur && g_cur == g_store + (BUFN - g_in.len) && end == g_store + BUFN && g_in.len <= BUFN)
POSTS(ENSURES_CLAUSE)
__CPROVER_assigns(g_cur, gh, __CPROVER_object_whole(&g_ssl))
;

#include "matrixssl/hsNegotiateVersion.c"
#include "matrixssl/hsDecode.c"

struct inputs nondet_in(void);
ssl_t nondet_ssl(void);

HARNESS_BEGIN
    HARNESS_INPUTS(struct inputs, in);
    int32 vr_ret;
    unsigned i;
    __CPROVER_assume(in.len <= BUFN && in.hsLen >= 0 && in.dhPLen <= 32 && in.pskLen <= 16 && in.sharedLen <= 32);
    /* flag combinations of the suite table: no suite is both ECC and PSK (matrixSslSetKexFlags) */
    __CPROVER_assume(!((in.flags & SSL_FLAGS_ECC_CIPHER) && (in.flags & SSL_FLAGS_PSK_CIPHER)));
    g_in = in;
    g_ssl = nondet_ssl();
    g_ssl.flags = in.flags | SSL_FLAGS_SERVER;
    g_ssl.activeVersion = MODE_VER;
    g_ssl.err = SSL_ALERT_NONE;
    g_ssl.hsPool = NULL; g_ssl.userPtr = NULL;
    g_ssl.keys = &g_keys; g_ssl.chosenIdentity = &g_id;
    g_cipher.type = in.cipherType; g_ssl.cipher = &g_cipher;
    g_curve.size = 32; g_eccPriv.curve = &g_curve; g_id.privKey.key.ecc.curve = &g_curve;
    g_ssl.sec.eccKeyPriv = &g_eccPriv; g_ssl.sec.eccKeyPub = NULL;
    g_ssl.sec.dhKeyPriv = &g_dhPriv; g_ssl.sec.dhKeyPub = NULL; g_ssl.sec.dhPLen = in.dhPLen; g_ssl.sec.dhP = NULL; g_ssl.sec.dhG = NULL;
    g_ssl.sec.premaster = NULL; g_ssl.sec.cert = NULL; g_ssl.ckeMsg = NULL;
    g_ssl.extFlags.extended_master_secret = in.ems & 1;
    gh.rsa = 0; gh.prng = 0;
    for (i = 0; i < BUFN; i++) { g_store[i] = (i >= (unsigned) (BUFN - in.len)) ? in.buf[i - (BUFN - in.len)] : 0; }
    g_cur = g_store + (BUFN - in.len);
    vr_ret = parseClientKeyExchange(&g_ssl, in.hsLen, &g_cur, g_store + BUFN);
    POSTS(NATIVE_CHECK)
#ifdef CANARY
    PLAIN_ASSERT(CANARY, vr_ret != PS_SUCCESS || gh.rsa == 0)
#endif
HARNESS_END
