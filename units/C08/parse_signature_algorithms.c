/*@UNIT
{
  "property": "C08",
  "unit": "parse_signature_algorithms",
  "function": "tlsParseSignatureAlgorithms",
  "source": "matrixssl/extDecode.c",
  "assumed": ["findFromUint16Array (model: index of the first match in our list of at most 4 algorithms, or PS_FAILURE)"],
  "mode": "bounded",
  "bounds": "signature_algorithms extension body of every length up to 132 bytes (the parser's own cap is 130: 64 entries, twice the capacity of the array it fills), every content; any number of entries already stored by an earlier extension or handshake (0..32); our own list <= 4 entries; loop unwound 67 with unwinding assertion",
  "unwind": 67,
  "unwindset": ["harness.0:134"],
  "native_replay": true,
  "object_bits": 10,
  "timeout": 600
}
@*/
/* C08  the TLS <= 1.2 server's parser of the ClientHello signature_algorithms extension: reads
 * only inside the extLen bytes it was given, and the number of entries it records never exceeds
 * the capacity of ssl->sec.keySelect.peerSigAlgs[] (the next field behind the array is the
 * length of the neighbouring array) - also when entries from an earlier call are still there. */
#include "verif.h"
#include "matrixssl/matrixsslImpl.h"

#define BUFN 132
struct __attribute__((packed)) inputs { uint16_t extLen; uint16_t have; uint8_t nOurs; uint16_t ours[4]; unsigned char buf[BUFN]; };
static struct inputs g_in;
static ssl_t g_ssl;
static unsigned char g_store[BUFN];

int32_t findFromUint16Array(const uint16_t *a, psSize_t aLen, const uint16_t b)
{
    psSize_t i;
    for (i = 0; i < 4; i++) { if (i < aLen && a[i] == b) { return i; } }
    return PS_FAILURE;
}

#define KS (g_ssl.sec.keySelect)
#define POSTS(P) \
    P(verdict_is_success_or_error,            RET == MATRIXSSL_SUCCESS || RET == MATRIXSSL_ERROR) \
    P(recorded_count_fits_the_array,          KS.peerSigAlgsLen <= TLS_MAX_SIGNATURE_ALGORITHMS) \
    P(recorded_count_only_grows,              KS.peerSigAlgsLen >= g_in.have) \
    P(neighbouring_length_field_untouched,    KS.peerCertSigAlgsLen == OLD(g_ssl, sec.keySelect.peerCertSigAlgsLen)) \
    P(malformed_length_is_a_decode_error,     IMPLIES(g_in.extLen < 4 || (g_in.extLen & 1) || g_in.extLen > 130, RET == MATRIXSSL_ERROR && g_ssl.err == SSL_ALERT_DECODE_ERROR))

int32_t tlsParseSignatureAlgorithms(ssl_t *ssl, const unsigned char *c, unsigned short extLen)
__CPROVER_requires(ssl == &g_ssl && extLen == g_in.extLen && extLen <= BUFN && c == g_store + (BUFN - g_in.extLen))
__CPROVER_requires(g_ssl.sec.keySelect.peerSigAlgsLen <= TLS_MAX_SIGNATURE_ALGORITHMS)   /* invariant: preserved by this function (post) and by parseCertificateRequest */
POSTS(ENSURES_CLAUSE)
CANARY_CLAUSE(g_ssl.sec.keySelect.peerSigAlgsLen != TLS_MAX_SIGNATURE_ALGORITHMS || g_in.have != 0)
__CPROVER_assigns(g_ssl.err, g_ssl.hashSigAlg, g_ssl.peerSigAlg, __CPROVER_object_whole(&g_ssl.sec.keySelect))
;

#include "matrixssl/extDecode.c"

#ifndef NATIVE_REPLAY
struct inputs nondet_in(void);
#endif
DECL_SNAPSHOT(ssl_t, g_ssl);

HARNESS_BEGIN
    HARNESS_INPUTS(struct inputs, in);
    int32_t vr_ret;
    unsigned i;
    g_in = in;
    __CPROVER_assume(in.extLen <= BUFN && in.have <= TLS_MAX_SIGNATURE_ALGORITHMS && in.nOurs <= 4);
    /* the extension body is the tail of the store: one byte past it is outside the object */
    for (i = 0; i < BUFN; i++) { g_store[i] = (i >= (unsigned) (BUFN - in.extLen)) ? in.buf[i - (BUFN - in.extLen)] : 0; }
    g_ssl.sec.keySelect.peerSigAlgsLen = in.have;
    g_ssl.supportedSigAlgsLen = in.nOurs;
    for (i = 0; i < 4; i++) { g_ssl.supportedSigAlgs[i] = in.ours[i]; }
    g_ssl.err = SSL_ALERT_NONE;
    SNAPSHOT(g_ssl);
    vr_ret = tlsParseSignatureAlgorithms(&g_ssl, g_store + (BUFN - in.extLen), in.extLen);
    (void) vr_ret;
    POSTS(NATIVE_CHECK)
HARNESS_END
