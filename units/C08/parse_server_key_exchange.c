/*@UNIT
{
  "property": "C08",
  "properties": ["C04", "C19", "C07"],
  "unit": "parse_server_key_exchange",
  "function": "parseServerKeyExchange",
  "source": "matrixssl/hsDecode.c",
  "plain": true,
  "frame_check": "none: harness-checked contract (VERIF_PLAIN_CONTRACT, DESIGN 9.2): many allocations of symbolic size and writes through ssl-> made the DFCC form intractable",
  "assumed": ["Malloc/Free (units/common/vr_alloc.h: constant-size blocks, tail placement, request checked, may fail)",
              "tlsVerify (model: demands that the signed range and the signature range are readable, records both and the key; verdict and consumed length from the input)",
              "psIsEcdheGroup, getEccParamById (models: verdict from the input; one 32-byte curve)", "psEccNewKey, psEccX963ImportKey, psDhImportPubKey (models: demand a readable key range; verdict from the input)"],
  "mode": "bounded",
  "bounds": "TLS 1.2 client, ServerKeyExchange body of every length <= N = 24 with every content, every combination of the key-exchange flags (DHE, ECC, PSK, anonymous); loops (memcpy only) unwound with unwinding assertions; every allocation may fail; case ecdhe_x25519: ECDHE (no PSK) ServerKeyExchange of every length <= 44 that starts named_curve, x25519 (the 36-byte key block does not fit the 24 bytes of the default case)",
  "cases": [{"name": "default", "defs": ["BUFN=24"]},
            {"name": "ecdhe_x25519", "defs": ["BUFN=44", "MODE_X25519=1"], "unwind": 48}],
  "unwind": 28,
  "object_bits": 10,
  "native_replay": false,
  "timeout": 600
}
@*/
/* C08  the TLS <= 1.2 client's ServerKeyExchange parser on arbitrary bytes from the server: no access
 * outside the message, documented verdicts, cursor inside the message on success.
 * C04  "the peer proved possession of the leaf certificate's private key over ... key-exchange
 * parameters": a non-anonymous (EC)DHE ServerKeyExchange is accepted only after the signature
 * check ran over exactly the parameter bytes of this message, under the public key of the leaf
 * certificate, and answered with a non-negative verdict.
 * C19  a failed allocation is an error return. */
#define VERIF_PLAIN_CONTRACT
#include "verif.h"
#define VR_CAP 128
#include "vr_alloc.h"
#include "matrixssl/matrixsslImpl.h"

#ifndef BUFN
# define BUFN 24
#endif
struct __attribute__((packed)) inputs
{
    uint32_t flags; uint16_t len; uint16_t minDhBits;
    uint8_t isGroup, curveOk, newKeyOk, importOk, dhImportOk; int32_t verify_rc;
    unsigned char buf[BUFN];
};
static struct inputs g_in;
static ssl_t g_ssl;
static psX509Cert_t g_cert;
static unsigned char g_store[BUFN], g_hash[SHA512_HASH_SIZE];
static unsigned char *g_cur;
static psEccKey_t g_eccKey;
static psEccCurve_t g_curve;
static struct { int verify; const unsigned char *tbs; unsigned long tbsLen; const unsigned char *sig, *sigEnd; psPubKey_t *key; } gh;

psBool_t psIsEcdheGroup(uint16_t namedGroup) { return g_in.isGroup ? PS_TRUE : PS_FALSE; }
int32_t getEccParamById(psCurve16_t curveId, const psEccCurve_t **curve)
{
    if (!g_in.curveOk) { return PS_FAILURE; }
    *curve = &g_curve;
    return PS_SUCCESS;
}
int32_t psEccNewKey(psPool_t *pool, psEccKey_t **key, const psEccCurve_t *curve)
{
    if (!g_in.newKeyOk) { return PS_MEM_FAIL; }
    *key = &g_eccKey;
    return PS_SUCCESS;
}
int32_t psEccX963ImportKey(psPool_t *pool, const unsigned char *in, psSize_t inlen, psEccKey_t *key, const psEccCurve_t *curve)
{
    if (inlen > 0) { __CPROVER_assert(__CPROVER_r_ok(in, inlen), "ECDHE point lies inside the message"); }
    return g_in.importOk ? PS_SUCCESS : PS_FAILURE;
}
int32_t psDhImportPubKey(psPool_t *pool, const unsigned char *inbuf, psSize_t inlen, psDhKey_t *key)
{
    if (inlen > 0) { __CPROVER_assert(__CPROVER_r_ok(inbuf, inlen), "DH public value lies inside the message"); }
    return g_in.dhImportOk ? PS_SUCCESS : PS_FAILURE;
}
int32_t tlsVerify(ssl_t *ssl, const unsigned char *tbs, psSizeL_t tbsLen, const unsigned char *c, const unsigned char *end, psPubKey_t *pubKey, psVerifyOptions_t *opts)
{
    unsigned long room = (unsigned long) (end - c);
    gh.verify++; gh.tbs = tbs; gh.tbsLen = tbsLen; gh.sig = c; gh.sigEnd = end; gh.key = pubKey;
    if (tbsLen > 0) { __CPROVER_assert(__CPROVER_r_ok(tbs, tbsLen), "signed parameters lie inside the message"); }
    if (g_in.verify_rc < 0) { ssl->err = SSL_ALERT_DECRYPT_ERROR; return MATRIXSSL_ERROR; }
    return (unsigned long) g_in.verify_rc <= room ? g_in.verify_rc : (int32_t) room;
}

#define START (BUFN - g_in.len)
#define OK (RET == PS_SUCCESS)
#define DHE ((g_in.flags & SSL_FLAGS_DHE_KEY_EXCH) != 0)
#define ANON ((g_in.flags & SSL_FLAGS_ANON_CIPHER) != 0)
/* C07  "the key-exchange group in force was ... offered by the client in that handshake": the named curve of an
 * accepted ECDHE ServerKeyExchange (ssl->sec.peerCurveId, which selects the client's own ephemeral key) is one of the
 * curves this session enables - ssl->ecInfo.ecFlags, the set matrixSslEncodeClientHello writes into
 * supported_groups (all compiled-in curves when the options name none; the re-handshake ClientHello offers a
 * superset).  Curve numbers and flags: RFC 4492 5.1.1 / crypto/pubkey/pubkey.h.  x25519 (29) is never in a
 * TLS <= 1.2 ClientHello of this library. */
static uint32_t g_ecFlags0;
static int vr_curve_offered(unsigned id, uint32_t flags)
{
    switch (id)
    {
    case 19: return (flags & IS_SECP192R1) != 0;
    case 21: return (flags & IS_SECP224R1) != 0;
    case 23: return (flags & IS_SECP256R1) != 0;
    case 24: return (flags & IS_SECP384R1) != 0;
    case 25: return (flags & IS_SECP521R1) != 0;
    case 26: return (flags & IS_BRAIN256R1) != 0;
    case 27: return (flags & IS_BRAIN384R1) != 0;
    case 28: return (flags & IS_BRAIN512R1) != 0;
    case 255: return (flags & IS_BRAIN224R1) != 0;
    }
    return 0;
}
#define ECC ((g_in.flags & SSL_FLAGS_ECC_CIPHER) != 0)
#define POSTS(P) \
    P(C07_accepted_named_curve_was_offered_by_this_client, IMPLIES(OK && DHE && ECC && g_ssl.sec.peerCurveId != namedgroup_x25519, vr_curve_offered(g_ssl.sec.peerCurveId, g_ecFlags0))) \
    P(C07_x25519_is_accepted_only_if_offered, IMPLIES(OK && DHE && ECC, g_ssl.sec.peerCurveId != namedgroup_x25519)) \
    P(verdict_is_documented,                 OK || RET == MATRIXSSL_ERROR || RET == SSL_MEM_ERROR) \
    P(success_leaves_cursor_in_message,      IMPLIES(OK, __CPROVER_same_object(g_cur, g_store) && __CPROVER_POINTER_OFFSET(g_cur) >= START && __CPROVER_POINTER_OFFSET(g_cur) <= BUFN)) \
    P(success_has_no_pending_alert,          IMPLIES(OK, g_ssl.err == SSL_ALERT_NONE)) \
    P(C04_signed_key_exchange_was_verified,  IMPLIES(OK && DHE && !ANON, gh.verify == 1 && gh.key == &g_cert.publicKey && g_in.verify_rc >= 0)) \
    P(C04_signature_covers_the_parameters_of_this_message, IMPLIES(gh.verify >= 1, __CPROVER_same_object(gh.tbs, g_store) && __CPROVER_POINTER_OFFSET(gh.tbs) >= START && \
                                                                   gh.tbs + gh.tbsLen == gh.sig && gh.sigEnd == g_store + BUFN && gh.tbsLen >= 4)) \
    P(C19_session_keeps_no_pointer_to_freed_memory, VR_LIVE(g_ssl.sec.hint) && VR_LIVE(g_ssl.sec.dhP) && VR_LIVE(g_ssl.sec.dhG) && VR_LIVE(g_ssl.sec.dhKeyPub) && VR_LIVE(g_ssl.sec.premaster) && VR_LIVE(g_ssl.sec.x25519KeyPub)) /* what matrixSslDeleteSession / the next handshake frees again */ \
    P(C19_allocation_failure_is_an_error,    IMPLIES(OK && DHE && !(g_in.flags & SSL_FLAGS_ECC_CIPHER), g_ssl.sec.dhP != NULL && g_ssl.sec.dhG != NULL && g_ssl.sec.dhKeyPub != NULL && g_ssl.sec.premaster != NULL))

int32 parseServerKeyExchange(ssl_t *ssl, unsigned char hsMsgHash[SHA512_HASH_SIZE], unsigned char **cp, unsigned char *end)
__CPROVER_requires(ssl == &g_ssl && hsMsgHash == g_hash && cp == &g_cur && g_cur == g_store + (BUFN - g_in.len) && end == g_store + BUFN && g_in.len <= BUFN)
POSTS(ENSURES_CLAUSE)
__CPROVER_assigns(g_cur, gh, __CPROVER_object_whole(&g_ssl))
;

#include "matrixssl/hsDecode.c"
#include "matrixssl/matrixsslKeys.c"     /* psTestUserEcID */

struct inputs nondet_in(void);
ssl_t nondet_ssl(void);

HARNESS_BEGIN
    HARNESS_INPUTS(struct inputs, in);
    int32 vr_ret;
    unsigned i;
    __CPROVER_assume(in.len <= BUFN);
#ifdef MODE_X25519
    __CPROVER_assume((in.flags & SSL_FLAGS_ECC_CIPHER) && (in.flags & SSL_FLAGS_DHE_KEY_EXCH) && !(in.flags & SSL_FLAGS_PSK_CIPHER));
    in.buf[0] = 3; in.buf[1] = 0; in.buf[2] = 29;
#endif
    g_in = in;
    g_ssl = nondet_ssl();
    g_ssl.flags = in.flags & ~SSL_FLAGS_SERVER;
    g_ssl.activeVersion = v_tls_1_2 | v_tls_negotiated;
    g_ssl.err = SSL_ALERT_NONE;
    g_ssl.hsPool = NULL; g_ssl.sec.eccDhKeyPool = NULL;
    g_ssl.minDhBits = in.minDhBits;
    g_ssl.sec.cert = &g_cert;
    /* nothing left over from an earlier key exchange */
    g_ssl.sec.hint = NULL; g_ssl.sec.dhP = NULL; g_ssl.sec.dhG = NULL; g_ssl.sec.dhKeyPub = NULL; g_ssl.sec.premaster = NULL; g_ssl.sec.eccKeyPub = NULL;
    g_ssl.sec.x25519KeyPub = NULL;
    g_curve.size = 32;
    g_ecFlags0 = g_ssl.ecInfo.ecFlags;
    Memset(&gh, 0, sizeof(gh));
    for (i = 0; i < BUFN; i++) { g_store[i] = (i >= (unsigned) (BUFN - in.len)) ? in.buf[i - (BUFN - in.len)] : 0; }
    g_cur = g_store + (BUFN - in.len);
    vr_ret = parseServerKeyExchange(&g_ssl, g_hash, &g_cur, g_store + BUFN);
    POSTS(NATIVE_CHECK)
#ifdef CANARY
    PLAIN_ASSERT(CANARY, vr_ret != PS_SUCCESS || gh.verify == 0)
#endif
HARNESS_END
