/*@UNIT
{
  "property": "C08",
  "properties": ["C19"],
  "unit": "parse_certificate_request",
  "function": "parseCertificateRequest",
  "source": "matrixssl/hsDecode.c",
  "assumed": ["matrixSslChooseClientKeys (model: any verdict, no effect on the parse state)", "psCalloc/psFree (model: constant-size blocks of BUFN/3+1 entries, request size checked against it, either allocation may fail)"],
  "mode": "bounded",
  "bounds": "TLS 1.2 client. Case any_message: CertificateRequest body of every length <= 24 with every content, loops unwound 16 with unwinding assertions (80 bytes never finished: 600 s timeout). Case long_sigalg_list: bodies up to 80 bytes whose certificate_types list is empty and whose CA list is empty, i.e. up to 37 signature algorithms with every content - five more than the session can store; allocations may fail",
  "cases": [{"name": "any_message", "defs": ["BUFN=24"], "unwind": 16},
            {"name": "long_sigalg_list", "defs": ["BUFN=80", "LONG_SIGALGS=1"], "unwind": 44}],
  "native_replay": true,
  "object_bits": 10,
  "timeout": 600,
  "weight_gb": 3
}
@*/
/* C08 / C19  the CertificateRequest parser of a TLS <= 1.2 client on arbitrary bytes from the
 * server: no access outside the message or outside the session object (the list of signature
 * algorithms is stored in a fixed array of TLS_MAX_SIGNATURE_ALGORITHMS entries), recorded
 * counts fit their arrays, the cursor ends inside the message, every CA name recorded lies
 * inside the message, and a failed allocation is an internal_error alert. */
#include "verif.h"
#include "matrixssl/matrixsslImpl.h"

#ifndef BUFN
# define BUFN 80
#endif
struct __attribute__((packed)) inputs
{
    uint32_t flags;
    uint32_t len;
    int32_t choose_rc;
    uint8_t k;
    uint8_t fail;
    unsigned char buf[BUFN];
};
static struct inputs g_in;
static ssl_t g_ssl;
static unsigned char g_buf[BUFN];
static unsigned char *g_cur;

/* allocation model: constant-size blocks (a block of symbolic size never finished the SAT conversion);
 * the request must fit the block (checked), either request may fail */
#define MAXCAS (BUFN / 3 + 1)
static const unsigned char *g_names[MAXCAS];
static psSize_t g_lens[MAXCAS];
static unsigned g_ncalloc;
static void *verif_calloc(size_t n, size_t sz)
{
    void *r = NULL;
    __CPROVER_assert(n <= MAXCAS, "CA name count fits the modelled block");
    if (g_ncalloc == 0 && !(g_in.fail & 1)) { Memset(g_names, 0, sizeof(g_names)); r = g_names; }
    if (g_ncalloc == 1 && !(g_in.fail & 2)) { Memset(g_lens, 0, sizeof(g_lens)); r = g_lens; }
    g_ncalloc++;
    return r;
}
#undef psCalloc
#define psCalloc(pool, n, sz) verif_calloc((n), (sz))
/* Free: each of the two blocks may be freed once; VLIVE(p): p is NULL or a block that has not been freed */
static unsigned char g_freed_names, g_freed_lens;
static void verif_free(const void *p)
{
    if (p == (const void *) g_names) { __CPROVER_assert(!g_freed_names, "allocation is freed at most once (double free)"); g_freed_names = 1; }
    if (p == (const void *) g_lens) { __CPROVER_assert(!g_freed_lens, "allocation is freed at most once (double free)"); g_freed_lens = 1; }
}
#undef psFree
#define psFree(p, pool) verif_free(p)
#define VLIVE(p) ((p) == NULL || ((const void *) (p) == (const void *) g_names ? !g_freed_names : (const void *) (p) == (const void *) g_lens ? !g_freed_lens : 1))

int32_t matrixSslChooseClientKeys(ssl_t *ssl, sslKeySelectInfo_t *keySelect) { return g_in.choose_rc; }

#define KS (g_ssl.sec.keySelect)
#define POSTS(P) \
    P(sigalg_count_fits_its_array,      KS.peerSigAlgsLen <= TLS_MAX_SIGNATURE_ALGORITHMS) \
    P(success_leaves_cursor_in_message, IMPLIES(RET == PS_SUCCESS, __CPROVER_same_object(g_cur, g_buf) && __CPROVER_POINTER_OFFSET(g_cur) <= g_in.len)) \
    P(success_moves_to_server_hello_done, IMPLIES(RET == PS_SUCCESS, g_ssl.hsState == SSL_HS_SERVER_HELLO_DONE)) \
    P(recorded_ca_name_lies_in_message, IMPLIES(RET == PS_SUCCESS && !(g_in.flags & SSL_FLAGS_PSK_CIPHER) && g_in.k < KS.nCas && KS.caNames != NULL, \
                                                __CPROVER_same_object(KS.caNames[g_in.k], g_buf) && __CPROVER_POINTER_OFFSET(KS.caNames[g_in.k]) + KS.caNameLens[g_in.k] <= g_in.len)) \
    P(C19_session_keeps_no_pointer_to_freed_memory, VLIVE(KS.caNames) && VLIVE(KS.caNameLens)) /* matrixSslDeleteSession frees both again */ \
    P(C19_failure_sets_an_alert,        IMPLIES(RET != PS_SUCCESS, RET == MATRIXSSL_ERROR && g_ssl.err != SSL_ALERT_NONE))

int32 parseCertificateRequest(ssl_t *ssl, int32 hsLen, unsigned char **cp, unsigned char *end)
__CPROVER_requires(ssl == &g_ssl && cp == &g_cur && g_cur == g_buf && end == g_buf + g_in.len && hsLen == (int32) g_in.len && g_in.len <= BUFN)
POSTS(ENSURES_CLAUSE)
CANARY_CLAUSE(__CPROVER_return_value != PS_SUCCESS || (g_ssl.sec.keySelect.nCas == 0 && g_ssl.sec.keySelect.peerSigAlgsLen < 32))
__CPROVER_assigns(g_cur, g_ncalloc, g_freed_names, g_freed_lens, __CPROVER_object_whole(&g_ssl), __CPROVER_object_whole(g_names), __CPROVER_object_whole(g_lens))
;

#include "matrixssl/hsDecode.c"

#ifndef NATIVE_REPLAY
struct inputs nondet_in(void);
#endif

HARNESS_BEGIN
    HARNESS_INPUTS(struct inputs, in);
    int32 vr_ret;
    unsigned i;
    g_in = in;
    g_ssl.flags = in.flags & ~SSL_FLAGS_SERVER;
    g_ssl.activeVersion = v_tls_1_2 | v_tls_negotiated;
    g_ssl.err = SSL_ALERT_NONE;
    g_ssl.hsPool = NULL;
    g_ssl.chosenIdentity = NULL;
    Memset(&g_ssl.sec.keySelect, 0, sizeof(g_ssl.sec.keySelect));
    __CPROVER_assume(in.len <= BUFN);
#ifdef LONG_SIGALGS
    /* certificate_types empty, the signature algorithm list takes everything up to an empty CA list */
    __CPROVER_assume(in.len >= 5 && in.buf[0] == 0 && ((in.buf[1] << 8) | in.buf[2]) == in.len - 5 &&
                     in.buf[in.len - 2] == 0 && in.buf[in.len - 1] == 0);
#endif
    Memcpy(g_buf, in.buf, BUFN);
    g_cur = g_buf;
    g_ncalloc = 0; g_freed_names = 0; g_freed_lens = 0;
    vr_ret = parseCertificateRequest(&g_ssl, (int32) in.len, &g_cur, g_buf + in.len);
    (void) vr_ret;
    POSTS(NATIVE_CHECK)
HARNESS_END
