/*@UNIT
{
  "property": "C08",
  "unit": "tls13_decode_safe",
  "function": "matrixSslDecodeTls13",
  "source": "matrixssl/tls13Decode.c",
  "keep_bodies": ["tls13ParseRecordHeader", "tls13ValidateRecordHeader", "tls13ValidateRecordType", "tls13ParseChangeCipherSpec", "tls13ParseAndHandleAlert", "tls13HandleAlert", "psParse* (core/src/psbuf.c, core/include/psbuf.h)"],
  "replace": ["tls13ParseHandshakeMessage"],
  "assumed": ["ssl->decrypt (model = the contract proved for the AEAD openers in C02: fails for records shorter than the tag, else verdict chosen by the input)",
              "tls13ParseHandshakeMessage (contract: advances the cursor inside the record, by >= 4 bytes when it returns >= 0; may change hsState, flags, err, decState)",
              "tls13EncodeAlert, sslEncodeResponse (models: write only into the buffer they are given; SSL_FULL / PS_* error / success)"],
  "mode": "bounded",
  "bounds": "receive buffer of N bytes holding every len <= N received bytes with every content (N=40 quick, 72 thorough); loops unwound with unwinding assertions: padding strip N+2, ignored 6-byte ChangeCipherSpec records N/6+2, handshake messages (>= 4 bytes each) N/4+2",
  "defs_quick": ["BUFN=40"],
  "defs_thorough": ["BUFN=72"],
  "unwind_quick": 42, "unwind_thorough": 74,
  "unwindset_quick": ["matrixSslDecodeTls13_wrapped_for_contract_checking.0:9", "matrixSslDecodeTls13_wrapped_for_contract_checking.2:12"],
  "unwindset_thorough": ["matrixSslDecodeTls13_wrapped_for_contract_checking.0:15", "matrixSslDecodeTls13_wrapped_for_contract_checking.2:20"],
  "remove_function_pointers": true,
  "native_replay": true,
  "object_bits": 10,
  "timeout": 400,
  "weight_gb": 4
}
@*/
/* C08  TLS 1.3 record decoder on arbitrary received bytes: no access outside the
 * receive buffer / output buffer (cbmc pointer and bounds checks on every
 * dereference, memmove/memset preconditions), no undefined arithmetic, all loops
 * bounded by the amount of data (unwinding assertions), and a documented verdict. */
#define POSTS(P) \
    P(verdict_is_documented, RET == MATRIXSSL_SUCCESS || RET == SSL_SEND_RESPONSE || RET == SSL_PARTIAL || RET == SSL_FULL || RET == SSL_PROCESS_DATA || RET == SSL_ALERT || RET == SSL_NO_TLS_1_3 || (RET < 0 && RET > -50)) \
    P(output_length_fits_buffer, IMPLIES(RET == SSL_SEND_RESPONSE || RET == SSL_PROCESS_DATA || RET == SSL_ALERT, g_len <= g_size)) \
    P(cursor_stays_in_buffer, IMPLIES(RET != SSL_PARTIAL && !(RET < 0 && RET > -50), __CPROVER_same_object(g_inp, g_buf) && __CPROVER_POINTER_OFFSET(g_inp) <= g_size))
#define CANARY_COND (__CPROVER_return_value != SSL_ALERT)
#include "tls13_decode.h"
