/*@UNIT
{
  "property": "C08",
  "unit": "dtls_hash_frag_msg",
  "function": "dtlsHsHashFragMsg",
  "source": "matrixssl/dtls.c",
  "plain": true,
  "frame_check": "none: harness-checked contract (VERIF_PLAIN_CONTRACT)",
  "assumed": ["sslUpdateHSHash (model: demands a readable range, counts the calls)", "the receive path stores no zero-length fragment (parseSSLHandshake, DTLS arm: `if (fragLen == 0) return` in front of the store, added by fix 916f296; by reading - that arm is not under a unit; findings/F59-dtls-hang/demo.c exercises it through the public API)"],
  "mode": "bounded",
  "bounds": "up to 2 stored fragment headers (the other 14 slots unused), reassembly buffer of up to 32 bytes, every combination of offsets and lengths the receive path of parseSSLHandshake can store (distinct offsets, offset + length inside the buffer, lengths summing to the message length); the scan loop unwound 56 times with unwinding assertion",
  "unwind": 56,
  "object_bits": 10,
  "native_replay": true,
  "timeout": 300
}
@*/
/* C08  "no ... hang ... on any network input": when the last DTLS handshake fragment has arrived,
 * the transcript update walks the stored fragment headers in offset order.  For every set of
 * headers the receive path can have stored it reads only inside the reassembly buffer and
 * finishes, hashing each stored fragment at most once.  (Before fix 916f296 the receive path also
 * stored zero-length fragments - offset + 0 <= length passes its bounds test - and one whose offset
 * equals the message length was visited for ever: F59.) */
#define VERIF_PLAIN_CONTRACT
#include "verif.h"
#include "matrixssl/matrixsslImpl.h"

#define NF 2
#define CAP 32
struct __attribute__((packed)) inputs { uint8_t off[NF]; uint8_t len[NF]; uint8_t n; uint8_t total; };
static struct inputs g_in;
static ssl_t g_ssl;
static unsigned char g_msg[CAP];
static unsigned char g_hdr[NF][12];
static struct { int updates; } gh;

int32_t sslUpdateHSHash(ssl_t *ssl, const unsigned char *in, psSize_t len)
{
    if (len > 0) { __CPROVER_assert(__CPROVER_r_ok(in, len), "hashed range is readable"); }
    gh.updates++;
    __CPROVER_assert(gh.updates <= 1 + NF, "each stored fragment is hashed at most once (the walk terminates)");
    return 0;
}

#define POSTS(P) \
    P(walk_finishes_and_returns, RET == 0)

int32 dtlsHsHashFragMsg(ssl_t *ssl)
__CPROVER_requires(ssl == &g_ssl)
POSTS(ENSURES_CLAUSE)
__CPROVER_assigns(gh)
;

#include "matrixssl/dtls.c"

#ifndef NATIVE_REPLAY
struct inputs nondet_in(void);
ssl_t nondet_ssl(void);
#endif

HARNESS_BEGIN
    HARNESS_INPUTS(struct inputs, in);
    int32 vr_ret;
    unsigned i, j;
    int sum = 0, has0 = 0;
    /* what the receive path guarantees for the headers it stored (parseSSLHandshake, DTLS arm):
       slots are filled from 0 upwards; a fragment is stored only if its offset was not seen before
       (dtlsSeenFrag) and offset + length <= message length <= buffer; reassembly is declared complete when
       the lengths add up to the message length */
    __CPROVER_assume(in.n >= 1 && in.n <= NF && in.total >= 1 && in.total <= CAP);
    for (i = 0; i < NF; i++)
    {
        if (i < in.n)
        {
            __CPROVER_assume(in.off[i] <= CAP && in.len[i] >= 1 /* empty fragments are not stored: parseSSLHandshake returns before storing one (fix 916f296) */ && in.len[i] <= CAP && in.off[i] + in.len[i] <= in.total);
            for (j = 0; j < NF; j++) { if (j < i) { __CPROVER_assume(in.off[j] != in.off[i]); } }
            sum += in.len[i];
            if (in.off[i] == 0) { has0 = 1; }
        }
    }
    __CPROVER_assume(sum == in.total && has0);
    g_in = in;
#ifndef NATIVE_REPLAY
    g_ssl = nondet_ssl();
#endif
    g_ssl.fragMessage = g_msg;
    g_ssl.fragTotal = in.total;
    for (i = 0; i < MAX_FRAGMENTS; i++)
    {
        g_ssl.fragHeaders[i].offset = -1; g_ssl.fragHeaders[i].fragLen = 0; g_ssl.fragHeaders[i].hsHeader = NULL;
    }
    for (i = 0; i < NF; i++)
    {
        if (i < in.n)
        {
            g_ssl.fragHeaders[i].offset = in.off[i]; g_ssl.fragHeaders[i].fragLen = in.len[i]; g_ssl.fragHeaders[i].hsHeader = g_hdr[i];
            /* every fragment header repeats the total length of the message */
            g_hdr[i][0] = SSL_HS_CERTIFICATE; g_hdr[i][1] = 0; g_hdr[i][2] = 0; g_hdr[i][3] = in.total;
        }
    }
    gh.updates = 0;
    vr_ret = dtlsHsHashFragMsg(&g_ssl);
    POSTS(NATIVE_CHECK)
#if defined(CANARY) && !defined(NATIVE_REPLAY)
    PLAIN_ASSERT(CANARY, gh.updates < 3)
#endif
HARNESS_END
