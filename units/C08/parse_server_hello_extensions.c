/*@UNIT
{
  "property": "C08",
  "properties": ["C07"],
  "unit": "parse_server_hello_extensions",
  "function": "parseServerHelloExtensions",
  "source": "matrixssl/extDecode.c",
  "plain": true,
  "frame_check": "none: harness-checked contract (VERIF_PLAIN_CONTRACT, DESIGN 9.2)",
  "keep_bodies": ["ServerHelloExt"],
  "assumed": ["memcmpct (model)", "no extension callback registered (ssl->extCb == NULL)"],
  "mode": "bounded",
  "bounds": "TLS 1.2 client, extension block of every length <= N = 14 with every content (one to three extensions of every type), every hsLen, any request/extension state; loops unwound with unwinding assertions",
  "defs": ["BUFN=14"],
  "unwind": 18,
  "unwindset": ["parseServerHelloExtensions.0:5"],
  "object_bits": 10,
  "native_replay": false,
  "timeout": 600
}
@*/
/* C08  the TLS <= 1.2 client's ServerHello extension parser on arbitrary bytes from the server: no
 * access outside the len bytes it was given, documented verdicts, a refusal carries an alert. */
#define VERIF_PLAIN_CONTRACT
#include "verif.h"
#include "matrixssl/matrixsslImpl.h"

#ifndef BUFN
# define BUFN 14
#endif
struct __attribute__((packed)) inputs { uint16_t len; int32_t hsLen; uint16_t extDataBack; uint32_t flags; uint8_t hasSid; unsigned char buf[BUFN]; };
static struct inputs g_in;
static ssl_t g_ssl;
static sslSessionId_t g_sid;
#define PRE 80   /* room for the ServerHello body in front of the extension block */
static unsigned char g_store[PRE + BUFN];
static unsigned char *g_cur;

int32 memcmpct(const void *s1, const void *s2, size_t len) { return memcmp(s1, s2, len) != 0; }

/* C07  "the server only responds with an extension the client requested" (RFC 5246 7.4.1.4: unsupported_extension
 * otherwise).  (Not demanded: "each at most once" - status_request and
 * elliptic_curves are accepted twice, which RFC 5246 forbids but C07 does not speak about.)  The request flags are the ones matrixSslEncodeClientHello set when it wrote
 * the extension; g_ext0 is their value on entry. */
static __typeof__(g_ssl.extFlags) g_ext0;
#define T0 ((unsigned) ((g_in.buf[2] << 8) | g_in.buf[3]))
#define L0 ((unsigned) ((g_in.buf[4] << 8) | g_in.buf[5]))
#define T1 ((unsigned) ((g_in.buf[6 + L0] << 8) | g_in.buf[7 + L0]))
#define HAS_FIRST  (g_in.len > 2)
#define HAS_SECOND (L0 <= 2 && g_in.len > 6 + L0)
static int vr_requested(unsigned t)
{
    switch (t)
    {
    case EXT_SNI: return g_ext0.req_sni;
    case EXT_MAX_FRAGMENT_LEN: return g_ext0.req_max_fragment_len;
    case EXT_TRUNCATED_HMAC: return g_ext0.req_truncated_hmac;
    case EXT_EXTENDED_MASTER_SECRET: return g_ext0.req_extended_master_secret;
    case EXT_ELLIPTIC_CURVE: return g_ext0.req_elliptic_curve;
    case EXT_ELLIPTIC_POINTS: return g_ext0.req_elliptic_points;
    case EXT_ALPN: return g_ext0.req_alpn;
    case EXT_SESSION_TICKET: return g_ext0.req_session_ticket;
    case EXT_RENEGOTIATION_INFO: return g_ext0.req_renegotiation_info;
    case EXT_STATUS_REQUEST: return g_ext0.req_status_request;
    }
    return 0;      /* everything else was not sent by this client (no extension callback in this unit) */
}
/* does the extension block (2-byte total length, then type16 | len16 | body entries) contain an extension of type t
   among its first three entries (the bound of this unit) */
static int vr_has_ext(unsigned t)
{
    unsigned off = 2, k;
    for (k = 0; k < 3; k++)
    {
        if (off + 4 > g_in.len) { return 0; }
        if ((unsigned) ((g_in.buf[off] << 8) | g_in.buf[off + 1]) == t) { return 1; }
        off += 4 + (unsigned) ((g_in.buf[off + 2] << 8) | g_in.buf[off + 3]);
    }
    return 0;
}
#define OK (RET >= 0)
#define POSTS(P) \
    P(C07_ems_is_switched_on_only_if_the_server_sent_it, IMPLIES(OK && g_ssl.extFlags.extended_master_secret && !g_ext0.extended_master_secret, vr_has_ext(EXT_EXTENDED_MASTER_SECRET))) \
    P(C07_required_ems_is_enforced,                IMPLIES(OK && g_ext0.require_extended_master_secret && g_ext0.req_extended_master_secret, g_ssl.extFlags.extended_master_secret == 1 && vr_has_ext(EXT_EXTENDED_MASTER_SECRET))) \
    P(C07_accepted_first_extension_was_requested,  IMPLIES(OK && HAS_FIRST, vr_requested(T0))) \
    P(C07_accepted_second_extension_was_requested, IMPLIES(OK && HAS_FIRST && HAS_SECOND, vr_requested(T1))) \
    P(verdict_is_documented,           OK || RET == MATRIXSSL_ERROR) \
    P(refusal_carries_an_alert,        IMPLIES(!OK, g_ssl.err != SSL_ALERT_NONE)) \
    P(acceptance_has_no_pending_alert, IMPLIES(OK, g_ssl.err == SSL_ALERT_NONE))

int32 parseServerHelloExtensions(ssl_t *ssl, int32 hsLen, unsigned char *extData, unsigned char **cp, unsigned short len)
__CPROVER_requires(ssl == &g_ssl && cp == &g_cur && g_cur == g_store + PRE + (BUFN - g_in.len) && len == g_in.len && len <= BUFN && hsLen == g_in.hsLen)
POSTS(ENSURES_CLAUSE)
__CPROVER_assigns(g_cur, __CPROVER_object_whole(&g_ssl), g_sid.sessionTicketState)
;

#include "matrixssl/hsNegotiateVersion.c"
#include "matrixssl/extDecode.c"

struct inputs nondet_in(void);
ssl_t nondet_ssl(void);

HARNESS_BEGIN
    HARNESS_INPUTS(struct inputs, in);
    int32 vr_ret;
    unsigned i;
    __CPROVER_assume(in.len <= BUFN);
    /* parseServerHello: extData is the start of the ServerHello body, the extension block starts somewhere behind it
       and hsLen is the length of that body, which ends where the block ends */
    __CPROVER_assume(in.extDataBack <= PRE && in.hsLen >= 0 && in.hsLen == (int32_t) in.extDataBack + in.len);
    g_in = in;
    g_ssl = nondet_ssl();
    g_ssl.flags = in.flags & ~SSL_FLAGS_SERVER;
    g_ssl.activeVersion = v_tls_1_2 | v_tls_negotiated;
    g_ssl.err = SSL_ALERT_NONE;
    g_ssl.extCb = NULL;
    g_ssl.sid = in.hasSid ? &g_sid : NULL;
    for (i = 0; i < BUFN; i++) { g_store[PRE + i] = (i >= (unsigned) (BUFN - in.len)) ? in.buf[i - (BUFN - in.len)] : 0; }
    g_cur = g_store + PRE + (BUFN - in.len);
    g_ext0 = g_ssl.extFlags;
    vr_ret = parseServerHelloExtensions(&g_ssl, in.hsLen, g_cur - in.extDataBack, &g_cur, in.len);
    POSTS(NATIVE_CHECK)
#ifdef CANARY
    PLAIN_ASSERT(CANARY, vr_ret < 0)
#endif
HARNESS_END
