/*@UNIT
{
  "property": "C08",
  "properties": ["C07"],
  "unit": "tls13_parse_key_share",
  "function": "tls13ParseKeyShare",
  "source": "matrixssl/tls13DecodeExt.c",
  "plain": true,
  "frame_check": "none: harness-checked contract (VERIF_PLAIN_CONTRACT, DESIGN 9.2)",
  "keep_bodies": ["psParseTlsVariableLengthVec (core/src/psbuf.c)", "tls13AddPeerKeyShareGroup, tls13WeSupportGroup (matrixssl/tls13KeyAgree.c)"],
  "replace_calls": ["tls13ImportPublicValue:model_tls13ImportPublicValue"],
  "assumed": ["tls13ImportPublicValue (model body, calls redirected with goto-instrument --replace-calls: demands a readable key_exchange range, records group and range; verdict from the input; the real function is unit C19/tls13_import_public_value)"],
  "mode": "bounded",
  "bounds": "server side, key_share extension body of every length <= N = 18 with every content (up to three KeyShareEntry), our supported_groups list arbitrary (32 entries), peer key-share list as left by earlier extensions arbitrary; loops unwound with unwinding assertions",
  "defs": ["BUFN=18"],
  "solver": "cadical",
  "unwind": 34,
  "unwindset": ["tls13ParseKeyShare.0:5", "psParseTlsVariableLengthVec.0:4"],
  "object_bits": 10,
  "native_replay": false,
  "timeout": 300
}
@*/
/* C08  the TLS 1.3 server's parser of the ClientHello key_share extension on arbitrary bytes: no access outside
 * the extension body, documented verdicts, a refusal carries an alert, the key_exchange range handed to the
 * import lies inside the body.
 * C07  "the key-exchange group in force was enabled by both endpoints and offered by the client": the group the
 * parser records as negotiated (ssl->tls13NegotiatedGroup) is one of OUR supported groups and is the group of
 * the KeyShareEntry whose value was imported. */
#define VERIF_PLAIN_CONTRACT
#include "verif.h"
#include "matrixssl/matrixsslImpl.h"

#ifndef BUFN
# define BUFN 18
#endif
struct __attribute__((packed)) inputs { uint16_t len; uint8_t allowStateChange; int32_t import_rc; unsigned char buf[BUFN]; };
static struct inputs g_in;
static ssl_t g_ssl;
static psParseBuf_t g_pb;
static unsigned char g_store[BUFN];
static uint16_t g_ng0;
static struct { int n; const unsigned char *p; unsigned len; uint16_t group; } gh;

int32_t model_tls13ImportPublicValue(ssl_t *ssl, const unsigned char *keyExchangeData, psSize_t keyExchangeDataLen, uint16_t namedGroup)
{
    gh.n++; gh.p = keyExchangeData; gh.len = keyExchangeDataLen; gh.group = namedGroup;
    __CPROVER_assert(keyExchangeDataLen >= 1 && __CPROVER_r_ok(keyExchangeData, keyExchangeDataLen), "key_exchange value lies inside the extension body");
    if (g_in.import_rc < 0) { ssl->err = SSL_ALERT_HANDSHAKE_FAILURE; return MATRIXSSL_ERROR; }
    return PS_SUCCESS;
}

static int vr_ours(uint16_t g)
{
    unsigned i;
    for (i = 0; i < TLS_1_3_MAX_GROUPS; i++) { if (i < g_ssl.tls13SupportedGroupsLen && g != 0 && g_ssl.tls13SupportedGroups[i] == g) { return 1; } }
    return 0;
}
#define START (BUFN - g_in.len)
#define OK (RET == MATRIXSSL_SUCCESS)
/* the first KeyShareEntry: body = len16 | group16 | klen16 | key... */
#define G0 ((uint16_t) ((g_in.buf[2] << 8) | g_in.buf[3]))
#define K0 ((unsigned) ((g_in.buf[4] << 8) | g_in.buf[5]))
#define POSTS(P) \
    P(verdict_is_documented,            OK || RET == MATRIXSSL_ERROR) \
    P(refusal_carries_an_alert,         IMPLIES(!OK, g_ssl.err != SSL_ALERT_NONE)) \
    P(acceptance_has_no_pending_alert,  IMPLIES(OK, g_ssl.err == SSL_ALERT_NONE)) \
    P(at_most_one_value_is_imported,    gh.n <= 1 && IMPLIES(!g_in.allowStateChange, gh.n == 0)) \
    P(C07_negotiated_group_is_one_of_ours,            IMPLIES(OK && g_ssl.tls13NegotiatedGroup != g_ng0, vr_ours(g_ssl.tls13NegotiatedGroup))) \
    P(C07_negotiated_group_is_the_group_of_the_imported_share, IMPLIES(OK && gh.n == 1, g_ssl.tls13NegotiatedGroup == gh.group && vr_ours(gh.group))) \
    P(C07_first_share_of_a_supported_group_wins,      IMPLIES(OK && vr_ours(G0), g_ssl.tls13NegotiatedGroup == G0 && IMPLIES(g_in.allowStateChange, gh.n == 1 && gh.group == G0 && gh.len == K0 && gh.p == g_store + START + 6)))

int32_t tls13ParseKeyShare(ssl_t *ssl, psParseBuf_t *pb, psBool_t allowStateChange)
__CPROVER_requires(ssl == &g_ssl && pb == &g_pb && g_pb.buf.start == g_store + (BUFN - g_in.len) && g_pb.buf.end == g_store + BUFN && g_in.len <= BUFN)
__CPROVER_requires(allowStateChange == (g_in.allowStateChange ? PS_TRUE : PS_FALSE))
POSTS(ENSURES_CLAUSE)
__CPROVER_assigns(gh, __CPROVER_object_whole(&g_ssl))
;

#include "core/src/psbuf.c"
#include "matrixssl/tls13KeyAgree.c"
#include "matrixssl/tls13DecodeExt.c"

struct inputs nondet_in(void);
ssl_t nondet_ssl(void);

HARNESS_BEGIN
    HARNESS_INPUTS(struct inputs, in);
    int32 vr_ret;
    unsigned i;
    __CPROVER_assume(in.len <= BUFN);
    g_in = in;
    g_ssl = nondet_ssl();
    g_ssl.flags |= SSL_FLAGS_SERVER;
    g_ssl.err = SSL_ALERT_NONE;
    g_ssl.hsPool = NULL;
    /* invariant of our list (initSupportedGroups / tls13GetDefaultGroups on the zeroed session): Len entries, the rest 0 */
    __CPROVER_assume(g_ssl.tls13SupportedGroupsLen <= TLS_1_3_MAX_GROUPS);
    for (i = 0; i < TLS_1_3_MAX_GROUPS; i++) { if (i >= g_ssl.tls13SupportedGroupsLen) { g_ssl.tls13SupportedGroups[i] = 0; } }
    g_ng0 = g_ssl.tls13NegotiatedGroup;
    Memset(&gh, 0, sizeof(gh));
    Memset(&g_pb, 0, sizeof(g_pb));
    for (i = 0; i < BUFN; i++) { g_store[i] = (i >= (unsigned) (BUFN - in.len)) ? in.buf[i - (BUFN - in.len)] : 0; }
    g_pb.buf.buf = g_store; g_pb.buf.start = g_store + (BUFN - in.len); g_pb.buf.end = g_store + BUFN; g_pb.buf.size = BUFN;
    vr_ret = tls13ParseKeyShare(&g_ssl, &g_pb, in.allowStateChange ? PS_TRUE : PS_FALSE);
    POSTS(NATIVE_CHECK)
#ifdef CANARY
    PLAIN_ASSERT(CANARY, vr_ret != MATRIXSSL_SUCCESS || gh.n == 0)
#endif
HARNESS_END
