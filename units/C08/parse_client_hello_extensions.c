/*@UNIT
{
  "property": "C08",
  "properties": ["C19", "C07"],
  "unit": "parse_client_hello_extensions",
  "function": "parseClientHelloExtensions",
  "source": "matrixssl/extDecode.c",
  "plain": true,
  "frame_check": "none: harness-checked contract (VERIF_PLAIN_CONTRACT, DESIGN 9.2)",
  "keep_bodies": ["ClientHelloExt", "tlsParseSignatureAlgorithms", "tlsParseSupportedGroups"],
  "assumed": ["Malloc/Free (units/common/vr_alloc.h)",
              "matrixUnlockSessionTicket, tls13ParseSupportedVersions (models: demand a readable extension body; verdict from the input; tls13ParseSupportedVersions is enforced in C07/parse_supported_versions)",
              "tls13AddPeerSupportedGroup, psTestUserEcID, curveIdToFlag, findFromUint16Array, memcmpct, memchr (models)",
              "no ALPN callback registered (dealWithAlpnExt not reached)"],
  "mode": "bounded",
  "bounds": "TLS 1.2 server, extension block of every length <= N = 14 with every content (one to three extensions of every type; N = 24 ran out of memory), any session extension state; loops unwound N+2 with unwinding assertions; every allocation may fail",
  "defs": ["BUFN=14"],
  "unwind": 18,
  "unwindset": ["parseClientHelloExtensions.0:5"],
  "object_bits": 10,
  "native_replay": false,
  "timeout": 900
}
@*/
/* C08  the TLS <= 1.2 server's ClientHello extension parser on arbitrary bytes from an
 * unauthenticated client: no access outside the len bytes it was given (every extension body is
 * handed to its parser with its own length), documented verdicts, cursor at the end of the block on
 * success, a refusal carries an alert, and what it records stays inside its arrays (server name as a
 * terminated string of the recorded length, signature algorithm count).
 * C19  a failed allocation (server name, session structure) is an error return. */
#define VERIF_PLAIN_CONTRACT
#include "verif.h"
#define VR_CAP 128
#include "vr_alloc.h"
#include "matrixssl/matrixsslImpl.h"

#ifndef BUFN
# define BUFN 14
#endif
struct __attribute__((packed)) inputs { uint16_t len; uint32_t flags; int32_t unlock_rc, sv_rc, grp_rc; uint8_t hasSid, hasTickets, find, ecok; unsigned char buf[BUFN]; };
static struct inputs g_in;
static ssl_t g_ssl;
static sslKeys_t g_keys;
static sslSessionId_t g_sid;
static unsigned char g_store[BUFN];
static unsigned char *g_cur;

int32 matrixUnlockSessionTicket(ssl_t *ssl, unsigned char *in, int32 inLen)
{
    if (inLen > 0) { __CPROVER_assert(__CPROVER_r_ok(in, inLen), "ticket lies inside the extension"); }
    return g_in.unlock_rc < 0 ? PS_FAILURE : PS_SUCCESS;
}
int32_t tls13ParseSupportedVersions(ssl_t *ssl, const unsigned char **c, psSize_t len)
{
    if (len > 0) { __CPROVER_assert(__CPROVER_r_ok(*c, len), "supported_versions body lies inside the extension"); }
    if (g_in.sv_rc < 0) { ssl->err = SSL_ALERT_DECODE_ERROR; return MATRIXSSL_ERROR; }
    return len;
}
int32_t tls13AddPeerSupportedGroup(ssl_t *ssl, uint16_t namedGroup) { return g_in.grp_rc < 0 ? PS_FAILURE : PS_SUCCESS; }
int32 psTestUserEcID(int32 id, int32 ecFlags) { return g_in.ecok ? 0 : -1; }
int32 curveIdToFlag(int32 id) { return 1 << (id & 15); }
int32_t findFromUint16Array(const uint16_t *a, psSize_t aLen, const uint16_t b) { return g_in.find ? 0 : PS_FAILURE; }
void *memchr(const void *s, int c, size_t n)
{
    const unsigned char *p = s; size_t i;
    for (i = 0; i < BUFN; i++) { if (i < n && p[i] == (unsigned char) c) { return (void *) (p + i); } }
    return NULL;
}
int32 memcmpct(const void *s1, const void *s2, size_t len) { return memcmp(s1, s2, len) != 0; }

/* does the extension block (2-byte total length, then type16 | len16 | body entries) contain an extension of type t
   among its first three entries (the bound of this unit) */
static int vr_has_ext(unsigned t)
{
    unsigned off = 2, k;
    for (k = 0; k < 3; k++)
    {
        if (off + 4 > g_in.len) { return 0; }
        if ((unsigned) ((g_in.buf[off] << 8) | g_in.buf[off + 1]) == t) { return 1; }
        off += 4 + (unsigned) ((g_in.buf[off + 2] << 8) | g_in.buf[off + 3]);
    }
    return 0;
}
static unsigned g_require_ems0;
#define START (BUFN - g_in.len)
#define OK (RET == PS_SUCCESS)
/* C07  extended master secret (RFC 7627) is "in force" only if the client offered it in this ClientHello, and a
 * server configured to require it refuses a ClientHello without it */
#define POSTS(P) \
    P(C07_ems_is_recorded_only_if_the_client_offered_it, IMPLIES(OK && g_ssl.extFlags.extended_master_secret, vr_has_ext(EXT_EXTENDED_MASTER_SECRET))) \
    P(C07_required_ems_is_enforced,    IMPLIES(OK && g_require_ems0, g_ssl.extFlags.extended_master_secret == 1)) \
    P(verdict_is_documented,           OK || RET == MATRIXSSL_ERROR) \
    P(refusal_carries_an_alert,        IMPLIES(!OK, g_ssl.err != SSL_ALERT_NONE)) \
    P(acceptance_has_no_pending_alert, IMPLIES(OK, g_ssl.err == SSL_ALERT_NONE)) \
    P(sigalg_count_fits_its_array,     g_ssl.sec.keySelect.peerSigAlgsLen <= TLS_MAX_SIGNATURE_ALGORITHMS) \
    P(server_name_is_a_terminated_string_of_at_most_255_bytes, IMPLIES(OK && g_ssl.extFlags.sni_in_last_client_hello && g_ssl.expectedName != NULL, \
                                            __CPROVER_POINTER_OFFSET(g_ssl.expectedName) < VR_CAP && ((unsigned char *) g_ssl.expectedName)[VR_CAP - 1 - __CPROVER_POINTER_OFFSET(g_ssl.expectedName)] == 0)) \
    P(C19_session_structure_present_when_ticket_state_is_used, IMPLIES(OK && g_ssl.extFlags.session_ticket, g_ssl.sid != NULL))

int32 parseClientHelloExtensions(ssl_t *ssl, unsigned char **cp, unsigned short len)
__CPROVER_requires(ssl == &g_ssl && cp == &g_cur && g_cur == g_store + (BUFN - g_in.len) && len == g_in.len && len <= BUFN)
__CPROVER_requires(g_ssl.sec.keySelect.peerSigAlgsLen <= TLS_MAX_SIGNATURE_ALGORITHMS)
POSTS(ENSURES_CLAUSE)
__CPROVER_assigns(g_cur, __CPROVER_object_whole(&g_ssl))
;

#include "matrixssl/hsNegotiateVersion.c"
#include "matrixssl/extDecode.c"

struct inputs nondet_in(void);
ssl_t nondet_ssl(void);

HARNESS_BEGIN
    HARNESS_INPUTS(struct inputs, in);
    int32 vr_ret;
    unsigned i;
    __CPROVER_assume(in.len <= BUFN);
    g_in = in;
    g_ssl = nondet_ssl();
    g_ssl.flags = in.flags | SSL_FLAGS_SERVER;
    g_ssl.activeVersion = v_tls_1_2 | v_tls_negotiated;
    g_ssl.err = SSL_ALERT_NONE;
    g_ssl.sPool = NULL;
    g_ssl.keys = &g_keys; g_keys.sessTickets = in.hasTickets ? (psSessionTicketKeys_t *) &g_keys : NULL; g_keys.OCSPResponseBuf = NULL; g_keys.OCSPResponseBufLen = 0;
    g_ssl.sid = in.hasSid ? &g_sid : NULL;
    g_ssl.expectedName = NULL;
    __CPROVER_assume(g_ssl.sec.keySelect.peerSigAlgsLen <= TLS_MAX_SIGNATURE_ALGORITHMS && g_ssl.sessionIdLen <= SSL_MAX_SESSION_ID_SIZE && g_ssl.supportedSigAlgsLen <= TLS_MAX_SIGNATURE_ALGORITHMS);
    for (i = 0; i < BUFN; i++) { g_store[i] = (i >= (unsigned) (BUFN - in.len)) ? in.buf[i - (BUFN - in.len)] : 0; }
    g_cur = g_store + (BUFN - in.len);
    g_require_ems0 = g_ssl.extFlags.require_extended_master_secret;
    vr_ret = parseClientHelloExtensions(&g_ssl, &g_cur, in.len);
    POSTS(NATIVE_CHECK)
#ifdef CANARY
    PLAIN_ASSERT(CANARY, vr_ret != PS_SUCCESS || !g_ssl.extFlags.sni_in_last_client_hello)
#endif
HARNESS_END
