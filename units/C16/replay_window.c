/*@UNIT
{
  "property": "C16",
  "unit": "replay_window",
  "function": "dtlsChkReplayWindow",
  "source": "matrixssl/dtls.c",
  "keep_bodies": ["dtlsCompareEpoch"],
  "replace": [],
  "assumed": [],
  "mode": "proof",
  "why_proof": "loop-free apart from dtlsCompareEpoch's constant 2-iteration loop (fully unwound, unwinding assertion on)",
  "unwind": 4,
  "native_replay": true,
  "timeout": 300
}
@*/
/* C16.U1  anti-replay window of the DTLS record layer.
 *
 * Abstract view of (lastRsn, dtlsBitmap) for the records of ONE epoch:
 *     blocked(s)  :=  s <= last  and  (last - s >= 32  or  bit (last - s) of the bitmap is set)
 * i.e. the set of record sequence numbers that must not be accepted (any more).
 * "Never accept a record twice" is the induction
 *     accept  =>  not blocked before,  blocked afterwards,  and the blocked set only grows;
 *     reject  =>  window unchanged.
 * The contract is stated for records of an authenticated epoch (epoch != 0:
 * epoch 0 is plaintext, there is nothing a replay check could protect) that
 * belong to the same epoch as the window contents (ghost: the caller,
 * sslDecode.c:715-846, reaches the call only with rec.epoch == expectedEpoch).
 */
#include "verif.h"
#include "matrixssl/matrixsslImpl.h"

static ssl_t g_ssl;
static unsigned char g_seq[8];
static uint32_t g_k;                 /* ghost index: an arbitrary sequence number */

#define SEQ32(p) ((((uint32_t) (p)[2]) << 24) | (((uint32_t) (p)[3]) << 16) | (((uint32_t) (p)[4]) << 8) | ((uint32_t) (p)[5]))
#define BLOCKED(last, map, s) ((s) <= (last) && ((last) - (s) >= 32 || ((((map) >> (((last) - (s)) & 31)) & 1) != 0)))

#define NEW_LAST SEQ32(g_ssl.lastRsn)
#define OLD_LAST ((((uint32_t) OLD(g_ssl, lastRsn[2])) << 24) | (((uint32_t) OLD(g_ssl, lastRsn[3])) << 16) | (((uint32_t) OLD(g_ssl, lastRsn[4])) << 8) | ((uint32_t) OLD(g_ssl, lastRsn[5])))
#define OLD_MAP OLD(g_ssl, dtlsBitmap)
#define NEW_MAP g_ssl.dtlsBitmap
#define SEQ SEQ32(g_seq)

#define POSTS(P) \
    P(ret_is_0_or_1, RET == 0 || RET == 1) \
    P(seq0_accept_was_not_blocked,  IMPLIES(RET == 1 && SEQ == 0, !BLOCKED(OLD_LAST, OLD_MAP, SEQ))) \
    P(seqpos_accept_was_not_blocked, IMPLIES(RET == 1 && SEQ != 0, !BLOCKED(OLD_LAST, OLD_MAP, SEQ))) \
    P(seq0_accept_is_recorded,      IMPLIES(RET == 1 && SEQ == 0, BLOCKED(NEW_LAST, NEW_MAP, SEQ))) \
    P(inwindow_accept_is_recorded,  IMPLIES(RET == 1 && SEQ != 0 && (SEQ <= OLD_LAST || SEQ - OLD_LAST < 32), BLOCKED(NEW_LAST, NEW_MAP, SEQ))) \
    P(jump_accept_is_recorded,      IMPLIES(RET == 1 && SEQ != 0 && SEQ > OLD_LAST && SEQ - OLD_LAST >= 32, BLOCKED(NEW_LAST, NEW_MAP, SEQ))) \
    P(seq0_blocked_set_only_grows,  IMPLIES(RET == 1 && SEQ == 0 && BLOCKED(OLD_LAST, OLD_MAP, g_k), BLOCKED(NEW_LAST, NEW_MAP, g_k))) \
    P(seqpos_blocked_set_only_grows, IMPLIES(RET == 1 && SEQ != 0 && BLOCKED(OLD_LAST, OLD_MAP, g_k), BLOCKED(NEW_LAST, NEW_MAP, g_k))) \
    P(reject_leaves_window_unchanged, IMPLIES(RET == 0, NEW_LAST == OLD_LAST && NEW_MAP == OLD_MAP))

int32 dtlsChkReplayWindow(ssl_t *ssl, unsigned char *seq64)
__CPROVER_requires(ssl == &g_ssl && seq64 == g_seq)
/* same, authenticated epoch */
__CPROVER_requires(g_ssl.rec.epoch[0] == g_ssl.expectedEpoch[0] && g_ssl.rec.epoch[1] == g_ssl.expectedEpoch[1])
__CPROVER_requires(g_ssl.rec.epoch[0] != 0 || g_ssl.rec.epoch[1] != 0)
/* type invariant of the window: only the low 32 bits are ever meaningful */
POSTS(ENSURES_CLAUSE)
CANARY_CLAUSE(__CPROVER_return_value != 1)
__CPROVER_assigns(g_ssl.lastRsn, g_ssl.dtlsBitmap)
;

#include "matrixssl/dtls.c"

struct __attribute__((packed)) inputs
{
    unsigned char lastRsn[6];
    unsigned char epoch[2];
    unsigned char seq[8];
    unsigned long bitmap;
    uint32_t k;
};
#ifndef NATIVE_REPLAY
struct inputs nondet_in(void);
#endif
DECL_SNAPSHOT(ssl_t, g_ssl);

HARNESS_BEGIN
    HARNESS_INPUTS(struct inputs, in);
    int32 vr_ret;
    Memcpy(g_ssl.lastRsn, in.lastRsn, 6);
    Memcpy(g_ssl.rec.epoch, in.epoch, 2);
    Memcpy(g_ssl.expectedEpoch, in.epoch, 2);
    Memcpy(g_seq, in.seq, 8);
    g_ssl.dtlsBitmap = in.bitmap;
    g_k = in.k;
#ifdef NATIVE_REPLAY
    __CPROVER_assume(in.epoch[0] != 0 || in.epoch[1] != 0);
#endif
    SNAPSHOT(g_ssl);
    vr_ret = dtlsChkReplayWindow(&g_ssl, g_seq);
    (void) vr_ret;
    POSTS(NATIVE_CHECK)
HARNESS_END
