/*@UNIT
{
  "property": "C07",
  "unit": "server_hello_version",
  "function": "checkServerHelloVersion",
  "source": "matrixssl/hsNegotiateVersion.c",
  "keep_bodies": [],
  "replace": [],
  "assumed": [],
  "mode": "proof",
  "why_proof": "loop-free",
  "unwind": 4,
  "native_replay": true,
  "timeout": 300
}
@*/
/* C07.U2  client-side check of ServerHello.server_version (hsDecode.c:1568).
 *
 * Statement -> obligations: the version the client commits to is ONE version,
 * it is exactly the version the server wrote, and the client has it enabled
 * (a legacy ClientHello offers every enabled version up to client_version, so
 * "enabled" is "offered" - see NOTES.md for the part of "offered" that this
 * function cannot see).  An unknown encoding (v_undefined) is refused.
 * Refusal raises protocol_version and does not touch the active version.
 */
#include "verif.h"
#include "matrixssl/matrixsslImpl.h"
#include "c07_common.h"

static ssl_t g_ssl;

#define PEER g_ssl.peerHelloVersion
#define OURS g_ssl.supportedVersions
#define ACT  g_ssl.activeVersion
#define NG   RAWV(ACT)
#define OK   (RET == MATRIXSSL_SUCCESS)

#define POSTS(P) \
    P(ret_is_success_or_error,           RET == MATRIXSSL_SUCCESS || RET == MATRIXSSL_ERROR) \
    P(accepted_version_is_enabled,       IMPLIES(OK, ONEVER(NG) && (NG & OURS) != 0)) \
    P(accepted_version_is_servers,       IMPLIES(OK, NG == PEER && (ACT & 0xff000000u) == v_tls_negotiated)) \
    P(enabled_version_is_accepted,       IMPLIES((PEER & OURS) != 0, OK)) \
    P(refusal_alerts_and_keeps_version,  IMPLIES(!OK, ACT == OLD(g_ssl, activeVersion) && g_ssl.err == SSL_ALERT_PROTOCOL_VERSION))

int32_t checkServerHelloVersion(ssl_t *ssl)
__CPROVER_requires(ssl == &g_ssl)
/* range of psVerFromEncoding (unit ver_from_encoding), hsDecode.c:1561 */
__CPROVER_requires(PEER == v_undefined || ONEVER(PEER))
POSTS(ENSURES_CLAUSE)
CANARY_CLAUSE(__CPROVER_return_value != MATRIXSSL_SUCCESS)
__CPROVER_assigns(g_ssl.activeVersion, g_ssl.err)
;

#include "matrixssl/hsNegotiateVersion.c"

struct __attribute__((packed)) inputs
{
    uint32_t supportedVersions;
    uint32_t peerHelloVersion;
    uint32_t activeVersion;
};
#ifndef NATIVE_REPLAY
struct inputs nondet_in(void);
#endif
DECL_SNAPSHOT(ssl_t, g_ssl);

/* all other fields of g_ssl: havocked by DFCC in the cbmc run, zero in the native replay; not read by the function */
HARNESS_BEGIN
    HARNESS_INPUTS(struct inputs, in);
    int32_t vr_ret;
    g_ssl.supportedVersions = in.supportedVersions;
    g_ssl.peerHelloVersion = in.peerHelloVersion;
    g_ssl.activeVersion = in.activeVersion;
#ifdef NATIVE_REPLAY
    __CPROVER_assume(PEER == v_undefined || ONEVER(PEER));
#endif
    SNAPSHOT(g_ssl);
    vr_ret = checkServerHelloVersion(&g_ssl);
    (void) vr_ret;
    POSTS(NATIVE_CHECK)
HARNESS_END
