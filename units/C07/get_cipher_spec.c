/*@UNIT
{
  "property": "C07",
  "unit": "get_cipher_spec",
  "function": "sslGetCipherSpec",
  "source": "matrixssl/cipherSuite.c",
  "plain": true,
  "frame_check": "none: harness-checked contract (VERIF_PLAIN_CONTRACT): the suite table is a static constant of the file, which goto-instrument's contract instrumentation would make nondeterministic; run on the harness, cbmc keeps its initialiser",
  "assumed": ["haveKeyMaterial (model body, calls redirected with goto-instrument --replace-calls: verdict from the input)"],
  "replace_calls": ["haveKeyMaterial:model_haveKeyMaterial"],
  "mode": "proof",
  "why_proof": "the loops run over the compiled-in suite table (constant) and the 32 per-session slots; fully unwound with unwinding assertions; id, role, flags, version state and the disabled lists fully symbolic",
  "unwind": 70,
  "object_bits": 10,
  "native_replay": false,
  "timeout": 600
}
@*/
/* C07  "cipher suite ... enabled by both endpoints (build and per-session options)": the one function
 * through which every suite id is admitted (server choice, client acceptance of the server's
 * choice, ClientHello list) answers only with the table entry of exactly that id, and never with a
 * suite the application disabled for this session - in whichever of the 32 slots the id sits
 * (matrixSslSetCipherSuiteEnabledStatus re-enables by zeroing a slot in place, so the list has
 * holes) - nor with a suite of the wrong protocol generation once the version is negotiated. */
#define VERIF_PLAIN_CONTRACT
#include "verif.h"
#include "matrixssl/matrixsslImpl.h"

struct __attribute__((packed)) inputs { uint16_t id; uint32_t flags, activeVersion, supportedVersions; uint16_t disabled[SSL_MAX_DISABLED_CIPHERS]; uint8_t j, keyOk, hasKeys; };
static struct inputs g_in;
static ssl_t g_ssl;
static sslKeys_t g_keys;

int32_t model_haveKeyMaterial(const ssl_t *ssl, const sslCipherSpec_t *cipher, short reallyTest) { return g_in.keyOk ? PS_SUCCESS : PS_FAILURE; }

#define GJ (g_in.j < SSL_MAX_DISABLED_CIPHERS ? g_in.j : 0)
#define SRV ((g_in.flags & SSL_FLAGS_SERVER) != 0)
#define NGTD13 ((g_in.activeVersion & v_tls_negotiated) && (g_in.activeVersion & v_tls_1_3_any))
#define POSTS(P) \
    P(answer_is_the_entry_of_that_id,           IMPLIES(vr_res != NULL, vr_res->ident == g_in.id)) \
    P(suite_disabled_for_the_session_is_refused, IMPLIES(SRV && g_in.id != 0 && g_in.disabled[GJ] == g_in.id, vr_res == NULL)) \
    P(tls13_session_gets_only_tls13_suites,     IMPLIES(vr_res != NULL && g_in.supportedVersions != 0 && NGTD13, vr_res->type == CS_TLS13 || vr_res->type == CS_NULL)) \
    P(server_without_tls13_refuses_tls13_suites, IMPLIES(vr_res != NULL && g_in.supportedVersions != 0 && SRV && !(g_in.supportedVersions & v_tls_1_3_any), vr_res->type != CS_TLS13)) \
    P(server_answer_has_key_material,           IMPLIES(vr_res != NULL && SRV && g_in.hasKeys, g_in.keyOk))

const sslCipherSpec_t *sslGetCipherSpec(const ssl_t *ssl, uint16_t id)
__CPROVER_requires(ssl == &g_ssl && id == g_in.id)
__CPROVER_assigns()
;

#include "matrixssl/hsNegotiateVersion.c"
#include "matrixssl/cipherSuite.c"

struct inputs nondet_in(void);
ssl_t nondet_ssl(void);

HARNESS_BEGIN
    HARNESS_INPUTS(struct inputs, in);
    const sslCipherSpec_t *vr_res;
    unsigned i;
    g_in = in;
    g_ssl = nondet_ssl();
    g_ssl.flags = in.flags;
    g_ssl.activeVersion = in.activeVersion;
    g_ssl.supportedVersions = in.supportedVersions;
    g_ssl.keys = in.hasKeys ? &g_keys : NULL;
    for (i = 0; i < SSL_MAX_DISABLED_CIPHERS; i++) { g_ssl.disabledCiphers[i] = in.disabled[i]; }
    vr_res = sslGetCipherSpec(&g_ssl, in.id);
    POSTS(NATIVE_CHECK)
#ifdef CANARY
    PLAIN_ASSERT(CANARY, vr_res == NULL)
#endif
HARNESS_END
