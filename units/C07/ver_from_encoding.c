/*@UNIT
{
  "property": "C07",
  "unit": "ver_from_encoding",
  "function": "psVerFromEncoding",
  "source": "matrixssl/hsNegotiateVersion.c",
  "keep_bodies": ["psEncodeVersion (called from the postcondition)"],
  "replace": [],
  "assumed": [],
  "mode": "proof",
  "why_proof": "loop-free",
  "unwind": 4,
  "native_replay": true,
  "timeout": 300
}
@*/
/* C07.U5a  wire encoding -> internal version id.  Every version that enters a
 * negotiation decision comes through this function (hsDecode.c:178, 1561,
 * tls13Decode.c:1155, 1336, tls13DecodeExt.c:546, 595), so its range is the
 * type invariant the other C07 units require of peerHelloVersion and of the
 * peer's list: v_undefined or exactly ONE assigned version bit; and it is
 * injective on the known encodings (round trip through psEncodeVersion), so
 * two different wire versions are never confused.
 */
#include "verif.h"
#include "matrixssl/matrixsslImpl.h"
#include "c07_common.h"

static uint16_t g_enc;

#define POSTS(P) \
    P(result_is_undefined_or_one_version, RET == v_undefined || ONEVER(RET)) \
    P(round_trip_to_the_same_encoding,    IMPLIES(RET != v_undefined, psEncodeVersion(RET) == g_enc)) \
    P(tls_encodings_are_tls_versions,     IMPLIES(RET != v_undefined, ISDTLS(RET) == ((g_enc >> 8) == 0xfe))) \
    P(undefined_never_has_an_encoding,    psEncodeVersion(v_undefined) == 0) \
    P(known_encodings_are_decoded,        IMPLIES(g_enc == 0x0301 || g_enc == 0x0302 || g_enc == 0x0303 || g_enc == 0x0304 || g_enc == 0xfeff || g_enc == 0xfefd, RET != v_undefined))

psProtocolVersion_t psVerFromEncoding(uint16_t enc)
__CPROVER_requires(enc == g_enc)
POSTS(ENSURES_CLAUSE)
CANARY_CLAUSE(__CPROVER_return_value == v_undefined)
__CPROVER_assigns()
;

#include "matrixssl/hsNegotiateVersion.c"

struct __attribute__((packed)) inputs
{
    uint16_t enc;
};
#ifndef NATIVE_REPLAY
struct inputs nondet_in(void);
#endif

HARNESS_BEGIN
    HARNESS_INPUTS(struct inputs, in);
    psProtocolVersion_t vr_ret;
    g_enc = in.enc;
    vr_ret = psVerFromEncoding(g_enc);
    (void) vr_ret;
    POSTS(NATIVE_CHECK)
HARNESS_END
