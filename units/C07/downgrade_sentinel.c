/*@UNIT
{
  "property": "C07",
  "unit": "downgrade_sentinel",
  "function": "performTls13DowngradeCheck",
  "source": "matrixssl/hsNegotiateVersion.c",
  "keep_bodies": ["weOnlySupportTls13"],
  "replace": [],
  "assumed": ["Memcmp over 8 bytes (CBMC's memcmp model)"],
  "mode": "proof",
  "why_proof": "loop-free apart from two 8-byte memcmp calls (constant length, fully unwound with unwinding assertions)",
  "unwind": 10,
  "native_replay": true,
  "timeout": 300
}
@*/
/* C07.U4  client-side TLS 1.3 downgrade protection (RFC 8446 4.1.3), called
 * from parseServerHello (hsDecode.c:1768) when a version below TLS 1.3 was
 * negotiated.
 *
 * RFC 8446 4.1.3: a server that supports 1.3 and negotiates 1.2 sets the last
 * 8 bytes of server_random to "DOWNGRD\x01", for 1.1 or below to
 * "DOWNGRD\x00"; "TLS 1.3 clients receiving a ServerHello indicating TLS 1.2
 * or below MUST check that the last 8 bytes are not equal to either of these
 * values".  Statement: "a downgrade below TLS 1.3 that both endpoints could
 * have avoided makes the handshake fail".
 *
 * Obligations: the check succeeds only if NOT (we enable TLS 1.3 and the
 * sentinel is present); a client that enables nothing below 1.3 never accepts
 * a lower version; completeness (no sentinel and something below 1.3 enabled
 * => accepted); refusal raises illegal_parameter (sentinel) or
 * protocol_version (1.3-only) and nothing else is written.
 * The server half (the sentinel is written) is unit server_random_sentinel.
 */
#include "verif.h"
#include "matrixssl/matrixsslImpl.h"
#include "c07_common.h"

static ssl_t g_ssl;

#define SR(i) g_ssl.sec.serverRandom[24 + (i)]
#define DOWNGRD_PREFIX (SR(0) == 0x44 && SR(1) == 0x4f && SR(2) == 0x57 && SR(3) == 0x4e && SR(4) == 0x47 && SR(5) == 0x52 && SR(6) == 0x44)
#define SENTINEL (DOWNGRD_PREFIX && (SR(7) == 0x01 || SR(7) == 0x00))
#define OURS g_ssl.supportedVersions
#define ONLY_13 ((OURS & v_tls_1_3_any) != 0 && (OURS & (v_tls_1_0 | v_tls_1_1 | v_tls_1_2)) == 0)
#define OK (RET == MATRIXSSL_SUCCESS)

#define POSTS(P) \
    P(ret_is_success_or_error,          RET == MATRIXSSL_SUCCESS || RET == MATRIXSSL_ERROR) \
    P(sentinel_refused_when_tls13_enabled, IMPLIES(OK, !((OURS & v_tls_1_3) != 0 && SENTINEL))) \
    P(tls13_only_client_never_downgrades, IMPLIES(OK, !ONLY_13)) \
    P(accepts_without_sentinel,         IMPLIES(!ONLY_13 && !SENTINEL, OK)) \
    P(accepts_when_tls13_not_enabled,   IMPLIES(!ONLY_13 && (OURS & v_tls_1_3) == 0, OK)) \
    P(sentinel_alert_is_illegal_parameter, IMPLIES(!OK && !ONLY_13, g_ssl.err == SSL_ALERT_ILLEGAL_PARAMETER)) \
    P(tls13_only_alert_is_protocol_version, IMPLIES(ONLY_13, !OK && g_ssl.err == SSL_ALERT_PROTOCOL_VERSION))

int32_t performTls13DowngradeCheck(ssl_t *ssl)
__CPROVER_requires(ssl == &g_ssl)
POSTS(ENSURES_CLAUSE)
CANARY_CLAUSE(__CPROVER_return_value != MATRIXSSL_SUCCESS)
__CPROVER_assigns(g_ssl.err)
;

/* weOnlySupportTls13 lives in tls.c: the whole real file is included, only the
   reachable 10-line body is symbolically executed */
#include "matrixssl/tls.c"
#include "matrixssl/hsNegotiateVersion.c"

struct __attribute__((packed)) inputs
{
    uint32_t supportedVersions;
    unsigned char serverRandom[SSL_HS_RANDOM_SIZE];
    uint32_t err;
};
#ifndef NATIVE_REPLAY
struct inputs nondet_in(void);
#endif
DECL_SNAPSHOT(ssl_t, g_ssl);

/* all other fields of g_ssl: havocked by DFCC in the cbmc run, zero in the native replay; not read by the two functions */
HARNESS_BEGIN
    HARNESS_INPUTS(struct inputs, in);
    int32_t vr_ret;
    g_ssl.supportedVersions = in.supportedVersions;
    Memcpy(g_ssl.sec.serverRandom, in.serverRandom, SSL_HS_RANDOM_SIZE);
    g_ssl.err = in.err;
    SNAPSHOT(g_ssl);
    vr_ret = performTls13DowngradeCheck(&g_ssl);
    (void) vr_ret;
    POSTS(NATIVE_CHECK)
HARNESS_END
