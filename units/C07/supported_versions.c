/*@UNIT
{
  "property": "C07",
  "unit": "supported_versions",
  "function": "checkSupportedVersions",
  "source": "matrixssl/hsNegotiateVersion.c",
  "keep_bodies": [],
  "replace": ["tls13IntersectionPrioritySelect"],
  "assumed": [],
  "mode": "bounded",
  "bounds": "both version lists <= N entries, N = 6 (quick) / 8 (thorough): the function itself is loop-free once tls13IntersectionPrioritySelect is replaced by its contract, but that contract is enforced (unit intersection_select) only up to N",
  "defs_quick": ["C07_CAP=6"],
  "defs_thorough": ["C07_CAP=8"],
  "unwind": 18,
  "cases": [{"name": "no_tls13_suite", "defs": ["GOT13_CONST=0"]}, {"name": "tls13_suite", "defs": ["GOT13_CONST=1"]}],
  "native_replay": true,
  "timeout": 600,
  "mem_gb": 8
}
@*/
/* C07.U3  server-side version choice from the supported_versions extension
 * (hsDecode.c:469); the call to tls13IntersectionPrioritySelect
 * (tls13KeyAgree.c) is replaced by the contract in c07_select_contract.h,
 * which unit intersection_select enforces on the real body (inlining the body
 * here costs > 10 min: 85 s of symbolic execution plus a hard SAT instance).
 *
 * Statement -> obligations:
 *   "enabled by both endpoints and offered by the client in that handshake":
 *       the selected version is ONE version, enabled by us, and an element of
 *       the list the client sent in supported_versions.
 *   never a TLS 1.3 draft (this build has no USE_TLS_1_3_DRAFT_SPEC), never
 *       any TLS 1.3 when the client offered no TLS 1.3 cipher suite.
 *   "by default the version is the highest both enabled" / downgrade refusal:
 *       TLS 1.3 is selected whenever both sides list it and the client offered
 *       a 1.3 suite; with both lists in the default descending order nothing
 *       common and permitted is higher than the selection (ghost indices).
 *   completeness: refusal only if there is no common permitted version.
 * Preconditions: LIST_INV of our list (unit init_versions) and of the peer's
 * list (unit parse_supported_versions).
 */
#include "verif.h"
#include "matrixssl/matrixsslImpl.h"
#include "c07_common.h"
#include "c07_select_contract.h"     /* also defines the ghost indices g_i (ours), g_k (peer's) */

static ssl_t g_ssl;

#define OURS  g_ssl.supportedVersions
#define PRIO  g_ssl.supportedVersionsPriority
#define LEN   g_ssl.supportedVersionsPriorityLen
#define PSET  g_ssl.supportedVersionsPeer
#define PPRIO g_ssl.peerSupportedVersionsPriority
#define PLEN  g_ssl.peerSupportedVersionsPriorityLen
#define GOT13 (g_ssl.gotTls13CiphersuiteInCH != 0)
#define ACT   g_ssl.activeVersion
#define NG    RAWV(ACT)
#define OK    (RET == PS_SUCCESS)
#define A_I   PRIO[g_i < 16 ? g_i : 0]
#define B_K   PPRIO[g_k < 16 ? g_k : 0]
#define IK_COMMON (g_i < LEN && g_i < 16 && g_k < PLEN && g_k < 16 && A_I == B_K)
/* what the server may select at all: no draft in this build, no 1.3 without a 1.3 suite */
#ifdef USE_TLS_1_3_DRAFT_SPEC
# define PERMITTED(v) (GOT13 || ((v) & v_tls_1_3_any) == 0)
#else
# define PERMITTED(v) (((v) & v_tls_1_3_draft_any) == 0 && (GOT13 || ((v) & v_tls_1_3) == 0))
#endif

static int in_peer_list(uint32_t v)
{
    unsigned i;

    for (i = 0; i < TLS_MAX_SUPPORTED_VERSIONS; i++)
    {
        if (i < PLEN && PPRIO[i] == v)
        {
            return 1;
        }
    }
    return 0;
}

/* supportedVersionsPeer holds exactly the versions of the current list: true for
   the first ClientHello of a session (the word starts at 0); after a
   HelloRetryRequest the word is the union of both ClientHello lists because
   nothing ever resets it (tls13ResetState clears only the list) - see NOTES.md */
static int peer_set_is_current_list(void)
{
    unsigned i;
    uint32_t u = 0;

    for (i = 0; i < TLS_MAX_SUPPORTED_VERSIONS; i++)
    {
        if (i < PLEN)
        {
            u |= PPRIO[i];
        }
    }
    return u == PSET;
}

#define POSTS(P) \
    P(ret_is_success_or_error,            RET == PS_SUCCESS || RET == MATRIXSSL_ERROR) \
    P(success_sets_negotiated_attribute,  IMPLIES(OK, (ACT & 0xff000000u) == v_tls_negotiated)) \
    P(selected_is_one_enabled_version,    IMPLIES(OK, ONEVER(NG) && (NG & OURS) != 0)) \
    P(selected_was_offered_by_client,     IMPLIES(OK, (NG & PSET) != 0)) \
    P(selected_is_in_clients_list,        IMPLIES(OK && peer_set_is_current_list(), in_peer_list(NG))) \
    P(selected_is_permitted,              IMPLIES(OK, PERMITTED(NG))) \
    P(tls13_wins_when_both_list_it,       IMPLIES(GOT13 && (OURS & v_tls_1_3) != 0 && in_peer_list(v_tls_1_3), OK && NG == v_tls_1_3)) \
    P(default_order_picks_highest,        IMPLIES(OK && c07_list_desc(PRIO, LEN) && c07_list_desc(PPRIO, PLEN) && IK_COMMON && PERMITTED(A_I), A_I <= NG)) \
    P(refuses_only_without_common_version, IMPLIES(!OK && IK_COMMON, !PERMITTED(A_I))) \
    P(refusal_alerts_and_keeps_version,   IMPLIES(!OK, ACT == OLD(g_ssl, activeVersion) && g_ssl.err == SSL_ALERT_PROTOCOL_VERSION))

int32_t checkSupportedVersions(ssl_t *ssl)
__CPROVER_requires(ssl == &g_ssl)
__CPROVER_requires(c07_list_inv(PRIO, LEN, OURS))
__CPROVER_requires(c07_list_inv(PPRIO, PLEN, PSET))
__CPROVER_requires(LEN <= C07_CAP && PLEN <= C07_CAP)      /* the bound of this unit */
POSTS(ENSURES_CLAUSE)
CANARY_CLAUSE(__CPROVER_return_value != PS_SUCCESS)
__CPROVER_assigns(g_ssl.activeVersion, g_ssl.err)
;

int32_t tls13IntersectionPrioritySelect(const uint32_t *a, psSize_t aLen, const uint32_t *b, psSize_t bLen,
        const uint32_t *f, psSize_t fLen, uint32_t *selectedElement)
SELECT_CONTRACT
;

#include "matrixssl/tls13KeyAgree.c"
#include "matrixssl/hsNegotiateVersion.c"

struct __attribute__((packed)) inputs
{
    uint32_t supportedVersions;
    uint32_t prio[TLS_MAX_SUPPORTED_VERSIONS];
    uint32_t len;
    uint32_t supportedVersionsPeer;
    uint32_t pprio[TLS_MAX_SUPPORTED_VERSIONS];
    uint16_t plen;
    uint8_t got13;
    uint32_t activeVersion;
    uint32_t i, k;
};
#ifndef NATIVE_REPLAY
struct inputs nondet_in(void);
#endif
DECL_SNAPSHOT(ssl_t, g_ssl);

/* all other fields of g_ssl: havocked by DFCC in the cbmc run, zero in the native replay; not read by the two functions */
HARNESS_BEGIN
    HARNESS_INPUTS(struct inputs, in);
    int32_t vr_ret;
    int i;
    g_ssl.supportedVersions = in.supportedVersions;
    g_ssl.supportedVersionsPeer = in.supportedVersionsPeer;
    for (i = 0; i < TLS_MAX_SUPPORTED_VERSIONS; i++)
    {
        g_ssl.supportedVersionsPriority[i] = in.prio[i];
        g_ssl.peerSupportedVersionsPriority[i] = in.pprio[i];
    }
    g_ssl.supportedVersionsPriorityLen = in.len;
    g_ssl.peerSupportedVersionsPriorityLen = in.plen;
    /* mode enumeration (DESIGN 1.4): the flag is a constant per case so that the
       length of the forbidden list is a constant; the two cases are exhaustive */
    (void) in.got13;
    g_ssl.gotTls13CiphersuiteInCH = GOT13_CONST ? PS_TRUE : PS_FALSE;
    g_ssl.activeVersion = in.activeVersion;
    g_i = in.i;
    g_k = in.k;
#ifdef NATIVE_REPLAY
    __CPROVER_assume(c07_list_inv(PRIO, LEN, OURS));
    __CPROVER_assume(c07_list_inv(PPRIO, PLEN, PSET));
    __CPROVER_assume(LEN <= C07_CAP && PLEN <= C07_CAP);
#endif
    SNAPSHOT(g_ssl);
    vr_ret = checkSupportedVersions(&g_ssl);
    (void) vr_ret;
    POSTS(NATIVE_CHECK)
HARNESS_END
