/*@UNIT
{
  "property": "C07",
  "unit": "client_hello_version",
  "function": "checkClientHelloVersion",
  "source": "matrixssl/hsNegotiateVersion.c",
  "keep_bodies": [],
  "replace": [],
  "assumed": [],
  "mode": "proof",
  "why_proof": "the only loop runs over supportedVersionsPriority (constant capacity TLS_MAX_SUPPORTED_VERSIONS = 16, length constrained by the list invariant), fully unwound with unwinding assertions",
  "unwind": 18,
  "native_replay": true,
  "timeout": 300
}
@*/
/* C07.U1  server-side version choice from ClientHello.client_version
 * (legacy_version), the mechanism used whenever the client sent no
 * supported_versions extension.
 *
 * Statement -> obligations:
 *   "version ... enabled by both endpoints and offered by the client":
 *       the negotiated version is ONE version, it is in our enabled set, and
 *       it is not above the version the client announced (a legacy client
 *       offers "everything up to client_version"), of the same TLS/DTLS family.
 *   "by default the version is the highest both enabled":
 *       if we enable the client's exact version it is chosen; with the default
 *       (descending) priority order nothing enabled lies between the choice
 *       and the client's version (ghost index g_k over our list).
 *   completeness (so that "failure" is not a trivial way to satisfy the above):
 *       the function refuses only if no enabled version of the client's family
 *       is <= client_version.
 * Precondition: LIST_INV of our version list (c07_common.h; established by
 * unit init_versions) and peerHelloVersion in the range of psVerFromEncoding
 * (hsDecode.c:178; range enforced in unit ver_from_encoding).
 */
#include "verif.h"
#include "matrixssl/matrixsslImpl.h"
#include "c07_common.h"

static ssl_t g_ssl;
static uint32_t g_k;                 /* ghost index into our priority list */

#define PEER g_ssl.peerHelloVersion
#define OURS g_ssl.supportedVersions
#define PRIO g_ssl.supportedVersionsPriority
#define LEN  g_ssl.supportedVersionsPriorityLen
#define ACT  g_ssl.activeVersion
#define NG   RAWV(ACT)
#define OK   (RET == PS_SUCCESS)
#define K_IS_CANDIDATE (g_k < LEN && g_k < TLS_MAX_SUPPORTED_VERSIONS && ISDTLS(PRIO[g_k < 16 ? g_k : 0]) == ISDTLS(PEER))
#define PRIO_K PRIO[g_k < 16 ? g_k : 0]

#define POSTS(P) \
    P(ret_is_success_or_error,            RET == PS_SUCCESS || RET == MATRIXSSL_ERROR) \
    P(success_sets_negotiated_attribute,  IMPLIES(OK, (ACT & 0xff000000u) == v_tls_negotiated)) \
    P(negotiated_is_one_enabled_version,  IMPLIES(OK, ONEVER(NG) && (NG & OURS) != 0)) \
    P(negotiated_not_above_client_version, IMPLIES(OK, NG <= PEER)) \
    P(no_tls_dtls_crossover,              IMPLIES(OK, ISDTLS(NG) == ISDTLS(PEER))) \
    P(exact_client_version_if_enabled,    IMPLIES(OK && (OURS & PEER) != 0, NG == PEER)) \
    P(default_order_picks_highest,        IMPLIES(OK && c07_list_desc(PRIO, LEN) && K_IS_CANDIDATE && PRIO_K <= PEER, PRIO_K <= NG)) \
    P(refuses_only_without_candidate,     IMPLIES(!OK && K_IS_CANDIDATE, PRIO_K > PEER)) \
    P(refusal_alerts_and_keeps_version,   IMPLIES(!OK, ACT == OLD(g_ssl, activeVersion) && g_ssl.err == SSL_ALERT_PROTOCOL_VERSION))

int32_t checkClientHelloVersion(ssl_t *ssl)
__CPROVER_requires(ssl == &g_ssl)
__CPROVER_requires(c07_list_inv(PRIO, LEN, OURS))
__CPROVER_requires(PEER == v_undefined || ONEVER(PEER))
POSTS(ENSURES_CLAUSE)
CANARY_CLAUSE(__CPROVER_return_value != PS_SUCCESS)
__CPROVER_assigns(g_ssl.activeVersion, g_ssl.err)
;

#include "matrixssl/hsNegotiateVersion.c"

struct __attribute__((packed)) inputs
{
    uint32_t supportedVersions;
    uint32_t prio[TLS_MAX_SUPPORTED_VERSIONS];
    uint32_t len;
    uint32_t peerHelloVersion;
    uint32_t activeVersion;
    uint32_t k;
};
#ifndef NATIVE_REPLAY
struct inputs nondet_in(void);
#endif
DECL_SNAPSHOT(ssl_t, g_ssl);

/* fields of g_ssl not assigned here (havocked by DFCC in the cbmc run, zero in the native replay): everything else; the function reads only the
   five fields set below (flags is read by a trace macro that expands to nothing) */
HARNESS_BEGIN
    HARNESS_INPUTS(struct inputs, in);
    int32_t vr_ret;
    int i;
    g_ssl.supportedVersions = in.supportedVersions;
    for (i = 0; i < TLS_MAX_SUPPORTED_VERSIONS; i++) { g_ssl.supportedVersionsPriority[i] = in.prio[i]; }
    g_ssl.supportedVersionsPriorityLen = in.len;
    g_ssl.peerHelloVersion = in.peerHelloVersion;
    g_ssl.activeVersion = in.activeVersion;
    g_k = in.k;
#ifdef NATIVE_REPLAY
    /* mirror of the requires clauses */
    __CPROVER_assume(c07_list_inv(PRIO, LEN, OURS));
    __CPROVER_assume(PEER == v_undefined || ONEVER(PEER));
#endif
    SNAPSHOT(g_ssl);
    vr_ret = checkClientHelloVersion(&g_ssl);
    (void) vr_ret;
    POSTS(NATIVE_CHECK)
HARNESS_END
