/*@UNIT
{
  "property": "C07",
  "unit": "encode_version",
  "function": "psEncodeVersion",
  "source": "matrixssl/hsNegotiateVersion.c",
  "keep_bodies": ["psVerFromEncoding (called from the postcondition)"],
  "replace": [],
  "assumed": [],
  "mode": "proof",
  "why_proof": "loop-free",
  "unwind": 4,
  "native_replay": true,
  "timeout": 300
}
@*/
/* C07.U5b  internal version id -> wire encoding (what we write into hello
 * messages and into the record header).  Every single assigned version has an
 * encoding, the attribute bits do not matter, the encoding decodes back to the
 * same version ("both endpoints hold identical parameters": the version a peer
 * reads is the version we meant), and anything that is not a single version
 * encodes to 0.
 */
#include "verif.h"
#include "matrixssl/matrixsslImpl.h"
#include "c07_common.h"

static uint32_t g_ver;

#define POSTS(P) \
    P(every_single_version_has_an_encoding, IMPLIES(ONEVER(RAWV(g_ver)), RET != 0)) \
    P(round_trip_to_the_same_version,       IMPLIES(RET != 0, psVerFromEncoding(RET) == RAWV(g_ver))) \
    P(non_versions_encode_to_zero,          IMPLIES(!ONEVER(RAWV(g_ver)), RET == 0))

uint16_t psEncodeVersion(uint32_t ver)
__CPROVER_requires(ver == g_ver)
POSTS(ENSURES_CLAUSE)
CANARY_CLAUSE(__CPROVER_return_value == 0)
__CPROVER_assigns()
;

#include "matrixssl/hsNegotiateVersion.c"

struct __attribute__((packed)) inputs
{
    uint32_t ver;
};
#ifndef NATIVE_REPLAY
struct inputs nondet_in(void);
#endif

HARNESS_BEGIN
    HARNESS_INPUTS(struct inputs, in);
    uint16_t vr_ret;
    g_ver = in.ver;
    vr_ret = psEncodeVersion(g_ver);
    (void) vr_ret;
    POSTS(NATIVE_CHECK)
HARNESS_END
