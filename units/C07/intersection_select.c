/*@UNIT
{
  "property": "C07",
  "unit": "intersection_select",
  "function": "tls13IntersectionPrioritySelect",
  "source": "matrixssl/tls13KeyAgree.c",
  "keep_bodies": [],
  "replace": [],
  "assumed": [],
  "mode": "bounded",
  "bounds": "both lists <= N entries, N = 6 (quick) / 8 (thorough), forbidden list <= 6 entries, all contents; at the real capacity 16 the membership obligations exceed 10 min of SAT time (the ret/failure obligations do pass at 16, see NOTES.md)",
  "defs_quick": ["C07_CAP=6"],
  "defs_thorough": ["C07_CAP=8"],
  "unwind": 11,
  "native_replay": true,
  "solver": "cadical",
  "timeout": 600,
  "mem_gb": 8
}
@*/
/* C07.U3a  the selection primitive behind checkSupportedVersions.
 * Contract text: c07_select_contract.h (shared with the unit that replaces
 * the call).  The result is an element of both lists, not forbidden, and no
 * common permitted pair of positions has a smaller index sum than the first
 * occurrences of the result - which, for two descending lists, makes it the
 * highest common permitted element (that step is discharged in unit
 * supported_versions).
 */
#include "verif.h"
#include "matrixssl/matrixsslImpl.h"
#include "c07_select_contract.h"

static uint32_t g_a[C07_CAP], g_b[C07_CAP], g_f[C07_FMAX], g_sel;

#define POSTS(P) \
    P(sel_ret_is_success_or_arg_fail,    SEL_POST_1) \
    P(sel_result_is_in_first_list,       SEL_POST_2) \
    P(sel_result_is_in_second_list,      SEL_POST_3) \
    P(sel_result_is_not_forbidden,       SEL_POST_4) \
    P(sel_result_has_least_index_sum,    SEL_POST_5) \
    P(sel_failure_keeps_output,          SEL_POST_6) \
    P(sel_failure_only_if_all_forbidden, SEL_POST_7)

int32_t tls13IntersectionPrioritySelect(const uint32_t *a, psSize_t aLen, const uint32_t *b, psSize_t bLen,
        const uint32_t *f, psSize_t fLen, uint32_t *selectedElement)
SELECT_REQUIRES
POSTS(ENSURES_CLAUSE)
CANARY_CLAUSE(__CPROVER_return_value != PS_SUCCESS)
__CPROVER_assigns(*selectedElement)
;

#include "matrixssl/tls13KeyAgree.c"

struct __attribute__((packed)) inputs
{
    uint32_t a[C07_CAP], b[C07_CAP], f[C07_FMAX];
    uint16_t aLen, bLen, fLen;
    uint8_t f_is_null;
    uint32_t sel;
    uint32_t i, k;
};
#ifndef NATIVE_REPLAY
struct inputs nondet_in(void);
#endif
DECL_SNAPSHOT(uint32_t, g_sel);

HARNESS_BEGIN
    HARNESS_INPUTS(struct inputs, in);
    int32_t vr_ret;
    int j;
    const uint32_t *a = g_a, *b = g_b, *f;
    psSize_t aLen = in.aLen, bLen = in.bLen, fLen = in.fLen;
    uint32_t *selectedElement = &g_sel;
    for (j = 0; j < C07_CAP; j++) { g_a[j] = in.a[j]; g_b[j] = in.b[j]; }
    for (j = 0; j < C07_FMAX; j++) { g_f[j] = in.f[j]; }
    f = in.f_is_null ? NULL : g_f;
    g_sel = in.sel;
    g_i = in.i;
    g_k = in.k;
    /* mirror of the requires clause (list capacities) */
    __CPROVER_assume(aLen <= C07_CAP && bLen <= C07_CAP && fLen <= C07_FMAX);
    SNAPSHOT(g_sel);
    vr_ret = tls13IntersectionPrioritySelect(a, aLen, b, bLen, f, fLen, selectedElement);
    (void) vr_ret;
    POSTS(NATIVE_CHECK)
HARNESS_END
