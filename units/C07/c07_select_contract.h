/* Contract of tls13IntersectionPrioritySelect (tls13KeyAgree.c), shared by
 *   unit intersection_select   - ENFORCED on the real body, and
 *   unit supported_versions    - REPLACES the call in checkSupportedVersions.
 *
 * Capacity 16 = TLS_MAX_SUPPORTED_VERSIONS (lists of versions); the forbidden
 * list has at most C07_FMAX = 6 entries (hsNegotiateVersion.c passes 0, 5 or
 * 6) - checked at the call site because it is a `requires`.
 *
 * The universally quantified clauses use the ghost pair (g_i, g_k) that is
 * also the ghost pair of the caller's own postconditions, so the instance the
 * caller needs is exactly the instance the callee guarantees.
 */
#ifndef C07_SELECT_CONTRACT_H
#define C07_SELECT_CONTRACT_H

#ifndef C07_CAP
# define C07_CAP 16
#endif
#define C07_FMAX 6

static uint32_t g_i, g_k;            /* ghost indices: a[g_i], b[g_k] */

static int c07_in(const uint32_t *l, uint32_t len, uint32_t cap, uint32_t v)
{
    unsigned i;

    if (l == NULL)
    {
        return 0;
    }
    for (i = 0; i < cap; i++)
    {
        if (i < len && l[i] == v)
        {
            return 1;
        }
    }
    return 0;
}

/* index of the first occurrence, or cap if there is none */
static uint32_t c07_first(const uint32_t *l, uint32_t len, uint32_t cap, uint32_t v)
{
    unsigned i;

    for (i = 0; i < cap; i++)
    {
        if (i < len && l[i] == v)
        {
            return i;
        }
    }
    return cap;
}

#define SEL_OK   (RET == PS_SUCCESS)
#define SEL_GI   (g_i < C07_CAP ? g_i : 0)
#define SEL_GK   (g_k < C07_CAP ? g_k : 0)
#define SEL_COMMON (g_i < aLen && g_k < bLen && a[SEL_GI] == b[SEL_GK])
#ifdef NATIVE_REPLAY
# define SEL_OLD_OUT old_g_sel
#else
# define SEL_OLD_OUT __CPROVER_old(*selectedElement)
#endif

/* the postconditions, in the order in which unit intersection_select labels them */
#define SEL_POST_1 (RET == PS_SUCCESS || RET == PS_ARG_FAIL)
#define SEL_POST_2 IMPLIES(SEL_OK, c07_in(a, aLen, C07_CAP, *selectedElement))
#define SEL_POST_3 IMPLIES(SEL_OK, c07_in(b, bLen, C07_CAP, *selectedElement))
#define SEL_POST_4 IMPLIES(SEL_OK, !c07_in(f, fLen, C07_FMAX, *selectedElement))
#define SEL_POST_5 IMPLIES(SEL_OK && SEL_COMMON && !c07_in(f, fLen, C07_FMAX, a[SEL_GI]), c07_first(a, aLen, C07_CAP, *selectedElement) + c07_first(b, bLen, C07_CAP, *selectedElement) <= g_i + g_k)
#define SEL_POST_6 IMPLIES(!SEL_OK, *selectedElement == SEL_OLD_OUT)
#define SEL_POST_7 IMPLIES(!SEL_OK && SEL_COMMON, c07_in(f, fLen, C07_FMAX, a[SEL_GI]))

#define SELECT_REQUIRES \
    __CPROVER_requires(aLen <= C07_CAP && bLen <= C07_CAP && fLen <= C07_FMAX) \
    __CPROVER_requires(__CPROVER_r_ok(a, C07_CAP * sizeof(uint32_t)) && __CPROVER_r_ok(b, C07_CAP * sizeof(uint32_t))) \
    __CPROVER_requires(f == NULL || __CPROVER_r_ok(f, C07_FMAX * sizeof(uint32_t))) \
    __CPROVER_requires(__CPROVER_rw_ok(selectedElement, sizeof(uint32_t)))

/* complete contract for the replacing side */
#define SELECT_CONTRACT \
    SELECT_REQUIRES \
    __CPROVER_ensures(SEL_POST_1) __CPROVER_ensures(SEL_POST_2) __CPROVER_ensures(SEL_POST_3) __CPROVER_ensures(SEL_POST_4) \
    __CPROVER_ensures(SEL_POST_5) __CPROVER_ensures(SEL_POST_6) __CPROVER_ensures(SEL_POST_7) \
    __CPROVER_assigns(*selectedElement)

#endif
