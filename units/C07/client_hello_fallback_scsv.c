/*@UNIT
{
  "property": "C07",
  "properties": ["C08"],
  "unit": "client_hello_fallback_scsv",
  "function": "parseClientHello",
  "source": "matrixssl/hsDecode.c",
  "keep_bodies": ["checkClientHelloVersion", "psVerFromEncodingMajMin", "psVerGetHighestTls"],
  "assumed": ["parseClientHelloExtensions (model: always refuses, so the unit covers parseClientHello up to and including the compression-method check - the prefix that holds the TLS_FALLBACK_SCSV rule; everything behind the extension parser is outside this unit)"],
  "mode": "bounded",
  "bounds": "TLS (not DTLS) server, SSL3+ record, ClientHello body of every length <= N = 64 with every content (session id of any length, up to 12 cipher suites); loops unwound N/2+2 with unwinding assertions; the version list of the server is any list satisfying the C07 list invariant with TLS versions only",
  "defs": ["BUFN=64"],
  "unwind": 34,
  "native_replay": true,
  "object_bits": 10,
  "timeout": 600
}
@*/
/* C07  "an unjustified fallback (fallback SCSV) ... makes the handshake fail" (RFC 7507 s.3):
 * if TLS_FALLBACK_SCSV appears anywhere in ClientHello.cipher_suites and the highest TLS version
 * this server has enabled is above ClientHello.client_version, the ClientHello is refused with
 * inappropriate_fallback; a ClientHello whose client_version is not below our highest version is
 * never refused with that alert.
 * C08  the prefix of the ClientHello parser on arbitrary bytes: no access outside the message. */
#include "verif.h"
#include "matrixssl/matrixsslImpl.h"
#include "c07_common.h"

#ifndef BUFN
# define BUFN 64
#endif
struct __attribute__((packed)) inputs
{
    uint32_t supportedVersions;
    uint32_t prio[TLS_MAX_SUPPORTED_VERSIONS];
    uint32_t priolen;
    uint32_t flags;
    uint32_t len;
    uint16_t k;
    uint8_t myVerifyDataLen;
    unsigned char buf[BUFN];
};
static struct inputs g_in;
static ssl_t g_ssl;
static unsigned char g_buf[BUFN];
static unsigned char *g_cur;
static uint16_t g_k;    /* ghost: byte offset of one entry of the cipher suite list */

int32 parseClientHelloExtensions(ssl_t *ssl, unsigned char **cp, unsigned short len)
{
    ssl->err = SSL_ALERT_DECODE_ERROR;
    return MATRIXSSL_ERROR;
}

/* the ClientHello layout (RFC 5246 7.4.1.2) up to the cipher suite list, on the harness copy of the input */
#define B(i)        (g_in.buf[(i) < BUFN ? (i) : 0])
#define SIDLEN      ((uint32_t) B(34))
#define SUITES_AT   (35u + SIDLEN + 2u)
#define SUITELEN    ((((uint32_t) B(35u + SIDLEN)) << 8) | B(36u + SIDLEN))
#define WELLFORMED  (g_in.len >= 35 && SIDLEN <= SSL_MAX_SESSION_ID_SIZE && SUITES_AT <= g_in.len && SUITELEN > 0 && (SUITELEN & 1) == 0 && SUITES_AT + SUITELEN <= g_in.len)
#define K_IS_SCSV   ((g_k & 1) == 0 && g_k < SUITELEN && B(SUITES_AT + g_k) == (TLS_FALLBACK_SCSV >> 8) && B(SUITES_AT + g_k + 1u) == (TLS_FALLBACK_SCSV & 0xff))
#define CLIENT_VER  psVerFromEncodingMajMin(B(0), B(1))
#define OUR_HIGHEST psVerGetHighestTls(g_in.supportedVersions)

#define POSTS(P) \
    P(fallback_scsv_below_our_highest_version_is_refused, IMPLIES(WELLFORMED && K_IS_SCSV && CLIENT_VER < OUR_HIGHEST, RET == MATRIXSSL_ERROR && g_ssl.err == SSL_ALERT_INAPPROPRIATE_FALLBACK)) \
    P(justified_fallback_is_not_refused_as_fallback,      IMPLIES(CLIENT_VER >= OUR_HIGHEST, g_ssl.err != SSL_ALERT_INAPPROPRIATE_FALLBACK)) \
    P(inappropriate_fallback_only_with_a_suite_list,      IMPLIES(g_ssl.err == SSL_ALERT_INAPPROPRIATE_FALLBACK, RET == MATRIXSSL_ERROR && WELLFORMED)) \
    P(enabled_versions_unchanged,                         g_ssl.supportedVersions == g_in.supportedVersions) \
    P(refused_or_pending,                                 RET < 0)

int32 parseClientHello(ssl_t *ssl, unsigned char **cp, unsigned char *end)
__CPROVER_requires(ssl == &g_ssl && cp == &g_cur && g_cur == g_buf && end == g_buf + g_in.len && g_in.len <= BUFN)
__CPROVER_requires(c07_list_inv(g_ssl.supportedVersionsPriority, g_ssl.supportedVersionsPriorityLen, g_ssl.supportedVersions))
POSTS(ENSURES_CLAUSE)
CANARY_CLAUSE(g_ssl.err != SSL_ALERT_INAPPROPRIATE_FALLBACK)
__CPROVER_assigns(g_cur, __CPROVER_object_whole(&g_ssl))
;

#include "matrixssl/hsNegotiateVersion.c"
#include "matrixssl/hsDecode.c"

#ifndef NATIVE_REPLAY
struct inputs nondet_in(void);
#endif

HARNESS_BEGIN
    HARNESS_INPUTS(struct inputs, in);
    int32 vr_ret;
    int i;
    g_in = in;
    g_k = in.k;
    __CPROVER_assume(in.len <= BUFN);
    __CPROVER_assume((in.supportedVersions & v_dtls_any) == 0);
    g_ssl.flags = in.flags | SSL_FLAGS_SERVER;
    g_ssl.rec.majVer = SSL3_MAJ_VER; g_ssl.rec.minVer = TLS_1_2_MIN_VER;
    g_ssl.supportedVersions = in.supportedVersions;
    for (i = 0; i < TLS_MAX_SUPPORTED_VERSIONS; i++) { g_ssl.supportedVersionsPriority[i] = in.prio[i]; }
    g_ssl.supportedVersionsPriorityLen = in.priolen;
    /* before negotiation the active version is our highest (initSupportedVersions) */
    g_ssl.activeVersion = psVerGetHighestTls(in.supportedVersions);
    g_ssl.err = SSL_ALERT_NONE;
    g_ssl.userPtr = NULL;
#ifdef NATIVE_REPLAY
    __CPROVER_assume(c07_list_inv(g_ssl.supportedVersionsPriority, g_ssl.supportedVersionsPriorityLen, g_ssl.supportedVersions));
#endif
    Memcpy(g_buf, in.buf, BUFN);
    g_cur = g_buf;
    vr_ret = parseClientHello(&g_ssl, &g_cur, g_buf + in.len);
    (void) vr_ret;
    POSTS(NATIVE_CHECK)
HARNESS_END
