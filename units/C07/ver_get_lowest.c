/*@UNIT
{
  "property": "C07",
  "unit": "ver_get_lowest",
  "function": "psVerGetLowest",
  "source": "matrixssl/hsNegotiateVersion.c",
  "keep_bodies": [],
  "replace": [],
  "assumed": [],
  "mode": "proof",
  "why_proof": "one loop over the 24 version bits (constant bound VER_MAX_BIT), fully unwound with unwinding assertions",
  "unwind": 26,
  "native_replay": true,
  "timeout": 300
}
@*/
/* C07.U5d  lowest enabled version of a version set (twin of ver_get_highest;
 * the loop runs over all 24 bits including bit 0).  The result is a member of
 * the set, eligible (TLS unless DTLS is allowed), and no eligible member is
 * lower (ghost bit g_k).
 */
#include "verif.h"
#include "matrixssl/matrixsslImpl.h"
#include "c07_common.h"

static uint32_t g_ver, g_k;
static int g_allow;

#define ELIGIBLE(m) (g_allow || ((m) & v_tls_any) != 0)
#define KBIT (1u << (g_k < 24 ? g_k : 0))

#define POSTS(P) \
    P(result_is_undefined_or_one_bit,  RET == v_undefined || (RET != 0 && (RET & (RET - 1u)) == 0)) \
    P(result_is_member_and_eligible,   IMPLIES(RET != v_undefined, (RET & RAWV(g_ver)) != 0 && ELIGIBLE(RET))) \
    P(no_lower_eligible_member,        IMPLIES(g_k < 24 && (KBIT & RAWV(g_ver)) != 0 && ELIGIBLE(KBIT), RET != v_undefined && RET <= KBIT)) \
    P(attribute_bits_are_ignored,      (RET & 0xff000000u) == 0)

psProtocolVersion_t psVerGetLowest(psProtocolVersion_t ver, int allowDtls)
__CPROVER_requires(ver == g_ver && allowDtls == g_allow)
POSTS(ENSURES_CLAUSE)
CANARY_CLAUSE(__CPROVER_return_value == v_undefined)
__CPROVER_assigns()
;

#include "matrixssl/hsNegotiateVersion.c"

struct __attribute__((packed)) inputs
{
    uint32_t ver;
    uint32_t k;
    uint8_t allow;
};
#ifndef NATIVE_REPLAY
struct inputs nondet_in(void);
#endif

HARNESS_BEGIN
    HARNESS_INPUTS(struct inputs, in);
    psProtocolVersion_t vr_ret;
    g_ver = in.ver;
    g_k = in.k;
    g_allow = in.allow ? 1 : 0;
    vr_ret = psVerGetLowest(g_ver, g_allow);
    (void) vr_ret;
    POSTS(NATIVE_CHECK)
HARNESS_END
