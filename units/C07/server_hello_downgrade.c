/*@UNIT
{
  "property": "C07",
  "unit": "server_hello_downgrade",
  "function": "parseServerHello",
  "source": "matrixssl/hsDecode.c",
  "keep_bodies": ["checkServerHelloVersion", "performTls13DowngradeCheck", "weOnlySupportTls13 (tls.c)", "psVerFromEncodingMajMin", "psVerFromEncoding"],
  "replace": [],
  "assumed": ["parseServerHelloExtensions (model: consumes a harness-chosen part of the rest of the message, returns a harness-chosen result, does not touch the negotiated version or server_random)", "sslGetCipherSpec (model: NULL, one of two fixed suites, or the table entry whose ident is the id asked for - as chosen by the harness)", "matrixSslSetKexFlags (model: no effect on the fields this unit talks about)", "sslCreateKeys (model: harness-chosen result)", "Memcmp/Memcpy/Memset (CBMC models)"],
  "mode": "bounded",
  "bounds": "ServerHello body <= 80 bytes (version, random, session id <= 32, suite, compression and up to 8 bytes of extension data that only the extension model looks at), every content and every hsLen",
  "defs_quick": ["SHBUF=80"],
  "defs_thorough": ["SHBUF=80"],
  "unwind": 8,
  "unwindset": ["memcmp.0:34"],
  "object_bits": 10,
  "native_replay": true,
  "timeout": 300,
  "timeout_thorough": 1200
}
@*/
/* C07.U4c  the CALL SITE of the TLS 1.3 downgrade check: the legacy
 * (TLS <= 1.2) ServerHello parser of a client, reached directly by a client
 * without TLS 1.3 and through SSL_NO_TLS_1_3 by a TLS 1.3 client whose
 * server answered with a lower version (tls13Decode.c:1428-1436).
 *
 * Statement: "a downgrade below TLS 1.3 that both endpoints could have avoided
 * (server-random sentinel) makes the handshake fail".  RFC 8446 4.1.3: "TLS 1.3
 * clients receiving a ServerHello indicating TLS 1.2 or below MUST check that
 * the last 8 bytes are not equal to either of these values".
 * Obligation: if this function accepts the ServerHello (PS_SUCCESS), the
 * client enables TLS 1.3 and the version now negotiated is below 1.3, then
 * server_random does not end in a sentinel.  Units downgrade_sentinel and
 * server_random_sentinel establish that the check function and the server do
 * their part; this unit asks whether the check is actually reached.
 * "cipher suite ... offered by the client in that handshake" (RFC 5246 7.4.1.3: the single cipher
 * suite selected by the server from the list in ClientHello.cipher_suites): when the application gave
 * this client an explicit suite list, an accepted non-resumed ServerHello names one of them.
 * Further obligations: the accepted version is an enabled one, server_random
 * is the message's, a non-resumed session gets a real (non-NULL-suite) suite.
 * The native replay links the same models in front of the library (it is faithful whenever the extension parser is not reached).
 */
#include "verif.h"
#include "matrixssl/matrixsslImpl.h"
#include "c07_common.h"

static ssl_t g_ssl;
static sslSessionId_t g_sid;
static unsigned char g_buf[SHBUF], old_buf[SHBUF];
static unsigned char *g_c;
static uint32_t g_len;               /* length of the message body */
static int32 g_hslen;
static sslCipherSpec_t g_specA, g_specB, g_specC;
static psCipher16_t g_offered[4];    /* ghost: the explicit suite list this client's ClientHello carried (cipherSpecs[] of matrixSslNewClientSession -> matrixSslEncodeClientHello); the session keeps no copy of it in this build (ssl->tlsClientCipherSuites exists only with ENABLE_SECURE_REHANDSHAKES) */
static uint8_t g_noffered;
static uint32_t g_k;

static struct
{
    int32_t ext_rc, keys_rc;
    uint16_t ext_consumed;
    unsigned char spec_sel;
    unsigned ext_calls;
} md;

int32 parseServerHelloExtensions(ssl_t *ssl, int32 hsLen, unsigned char *extData, unsigned char **cp, unsigned short len)
{
    md.ext_calls++;
    if (md.ext_rc >= 0)
    {
        *cp = *cp + (md.ext_consumed <= len ? md.ext_consumed : len);
    }
    return md.ext_rc;
}
const sslCipherSpec_t *sslGetCipherSpec(const ssl_t *ssl, uint16_t id)
{
    if (md.spec_sel == 3)
    {
        /* the library's table entry for exactly this id (compiled in and not disabled) */
        g_specC.ident = id;
        return &g_specC;
    }
    return md.spec_sel == 0 ? NULL : (md.spec_sel == 1 ? &g_specA : &g_specB);
}
void matrixSslSetKexFlags(ssl_t *ssl)
{
}
int32 sslCreateKeys(ssl_t *ssl)
{
    return md.keys_rc;
}

#define SR(i) g_ssl.sec.serverRandom[24 + (i)]
#define DOWNGRD_PREFIX (SR(0) == 0x44 && SR(1) == 0x4f && SR(2) == 0x57 && SR(3) == 0x4e && SR(4) == 0x47 && SR(5) == 0x52 && SR(6) == 0x44)
#define SENTINEL (DOWNGRD_PREFIX && (SR(7) == 0x01 || SR(7) == 0x00))
#define OURS g_ssl.supportedVersions
#define ACT  g_ssl.activeVersion
#define NG   RAWV(ACT)
#define OK   (RET == PS_SUCCESS)
#define GK32 (g_k < 32 ? g_k : 0)

#define OFFERED(x) ((g_noffered > 0 && g_offered[0] == (x)) || (g_noffered > 1 && g_offered[1] == (x)) || (g_noffered > 2 && g_offered[2] == (x)) || (g_noffered > 3 && g_offered[3] == (x)))
#define POSTS(P) \
    P(accepted_suite_was_offered_by_this_client, IMPLIES(OK && (g_ssl.flags & SSL_FLAGS_RESUMED) == 0 && g_noffered > 0 && md.spec_sel == 3, g_ssl.cipher != NULL && OFFERED(g_ssl.cipher->ident))) \
    P(accepted_hello_has_no_avoidable_downgrade, IMPLIES(OK && (OURS & v_tls_1_3) != 0 && (ACT & v_tls_negotiated) != 0 && (ACT & v_tls_1_3_any) == 0, !SENTINEL)) \
    P(accepted_version_is_enabled,      IMPLIES(OK, ONEVER(NG) && (NG & OURS) != 0 && (ACT & v_tls_negotiated) != 0)) \
    P(accepted_version_is_the_messages, IMPLIES(OK, NG == psVerFromEncodingMajMin(old_buf[0], old_buf[1]))) \
    P(server_random_is_the_messages,    IMPLIES(OK, g_ssl.sec.serverRandom[GK32] == old_buf[2 + GK32])) \
    P(full_handshake_gets_a_real_suite, IMPLIES(OK && (g_ssl.flags & SSL_FLAGS_RESUMED) == 0, g_ssl.cipher != NULL && g_ssl.cipher->ident != SSL_NULL_WITH_NULL_NULL)) \
    P(ret_is_success_or_negative,       OK || RET < 0)

int32 parseServerHello(ssl_t *ssl, int32 hsLen, unsigned char **cp, unsigned char *end)
__CPROVER_requires(ssl == &g_ssl && cp == &g_c && g_c == g_buf && end == g_buf + g_len && hsLen == g_hslen && g_len <= SHBUF)
__CPROVER_requires(md.ext_calls == 0)
POSTS(ENSURES_CLAUSE)
CANARY_CLAUSE(__CPROVER_return_value != PS_SUCCESS)
__CPROVER_assigns(g_c, g_ssl.peerHelloVersion, g_ssl.activeVersion, g_ssl.err, g_ssl.sec.serverRandom, g_ssl.sec.masterSecret, g_ssl.sessionId, g_ssl.sessionIdLen,
                  g_ssl.flags, g_ssl.cipher, g_ssl.maxPtFrag, g_ssl.hsState, g_ssl.decState, g_ssl.extFlags, g_sid.sessionTicketState, md.ext_calls, g_specC.ident)
;

/* tls.c is included for the real weOnlySupportTls13; its sslCreateKeys (key
   derivation, irrelevant here) is renamed out of the way of the model above */
#define sslCreateKeys tls_c_sslCreateKeys
#include "matrixssl/tls.c"
#undef sslCreateKeys
#include "matrixssl/hsNegotiateVersion.c"
#include "matrixssl/hsDecode.c"

struct __attribute__((packed)) inputs
{
    unsigned char buf[SHBUF];
    uint32_t len;
    int32_t hslen;
    uint32_t supportedVersions, activeVersion, flags;
    unsigned char sessionIdLen, sessionId[SSL_MAX_SESSION_ID_SIZE];
    unsigned char ident_a_nonzero, spec_sel, has_sid;
    uint16_t identA, identB, ext_consumed, ticketState;
    int32_t ext_rc, keys_rc, maxPtFrag;
    uint32_t k;
    uint16_t offered[4]; uint8_t noffered;
};
#ifndef NATIVE_REPLAY
struct inputs nondet_in(void);
#endif
DECL_SNAPSHOT(ssl_t, g_ssl);

/* g_ssl fields not assigned below are havocked by DFCC (extFlags, maxPtFrag ...); every
   pointer the function may follow is assigned (cookie, helloExt, sid, cipher) */
HARNESS_BEGIN
    HARNESS_INPUTS(struct inputs, in);
    int32 vr_ret;
    Memcpy(g_buf, in.buf, SHBUF);
    Memcpy(old_buf, in.buf, SHBUF);
    g_len = in.len;
    __CPROVER_assume(g_len <= SHBUF);            /* the bound of this unit */
    g_hslen = in.hslen;
    g_c = g_buf;
    g_ssl.supportedVersions = in.supportedVersions;
    g_ssl.activeVersion = in.activeVersion;
    /* only the flag bits this function reads: RESUMED (client asked to resume), ANON/PSK cipher */
    g_ssl.flags = in.flags & (SSL_FLAGS_RESUMED | SSL_FLAGS_ANON_CIPHER | SSL_FLAGS_PSK_CIPHER);
    g_ssl.sessionIdLen = in.sessionIdLen;
    __CPROVER_assume(g_ssl.sessionIdLen <= SSL_MAX_SESSION_ID_SIZE);   /* type invariant of the field */
    Memcpy(g_ssl.sessionId, in.sessionId, SSL_MAX_SESSION_ID_SIZE);
    g_specA.ident = in.identA;
    g_specB.ident = in.identB;
    g_ssl.cipher = &g_specA;
    g_ssl.cookie = NULL;
    g_ssl.helloExt = NULL;
    g_ssl.sid = in.has_sid ? &g_sid : NULL;
    g_sid.sessionTicketState = in.ticketState;
    g_ssl.maxPtFrag = in.maxPtFrag;
    md.ext_rc = in.ext_rc; md.keys_rc = in.keys_rc; md.ext_consumed = in.ext_consumed; md.spec_sel = in.spec_sel; md.ext_calls = 0;
    g_k = in.k;
    g_offered[0] = in.offered[0]; g_offered[1] = in.offered[1]; g_offered[2] = in.offered[2]; g_offered[3] = in.offered[3];
    g_noffered = in.noffered;
    __CPROVER_assume(g_noffered <= 4);
    SNAPSHOT(g_ssl);
    vr_ret = parseServerHello(&g_ssl, g_hslen, &g_c, g_buf + g_len);
    (void) vr_ret;
    POSTS(NATIVE_CHECK)
HARNESS_END
