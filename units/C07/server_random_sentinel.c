/*@UNIT
{
  "property": "C07",
  "unit": "server_random_sentinel",
  "function": "psGenerateServerRandom",
  "source": "matrixssl/sslEncode.c",
  "keep_bodies": [],
  "replace": [],
  "assumed": ["psGetPrngLocked (model: fills the buffer with arbitrary bytes taken from the harness input, returns an arbitrary result)"],
  "mode": "proof",
  "why_proof": "loop-free apart from one 8-byte Memcpy and the 32-byte fill of the PRNG model (constant lengths, fully unwound with unwinding assertions)",
  "unwind": 34,
  "native_replay": true,
  "timeout": 300
}
@*/
/* C07.U4b  server half of the TLS 1.3 downgrade sentinel (RFC 8446 4.1.3):
 * "TLS 1.3 servers which negotiate TLS 1.2 or below in response to a
 * ClientHello MUST set the last 8 bytes of their Random value specially":
 * 44 4F 57 4E 47 52 44 01 for TLS 1.2, ...00 for TLS 1.1 or below.
 *
 * Obligations: success with TLS 1.3 enabled and a negotiated version below
 * 1.3 => server_random[24..31] is the sentinel of that version (DTLS 1.2
 * counts as 1.2, DTLS 1.0 as 1.1-or-below); a PRNG failure is not ignored;
 * when TLS 1.3 itself was negotiated the PRNG bytes are kept.
 */
#include "verif.h"
#include "matrixssl/matrixsslImpl.h"
#include "c07_common.h"

static ssl_t g_ssl;
static unsigned char g_prng_bytes[SSL_HS_RANDOM_SIZE];
static int32_t g_prng_result;
static unsigned gh_prng_calls;

int32_t psGetPrngLocked(unsigned char *bytes, psSize_t size, void *userPtr)
{
    unsigned i;

    gh_prng_calls++;
    for (i = 0; i < SSL_HS_RANDOM_SIZE; i++)
    {
        if (i < size)
        {
            bytes[i] = g_prng_bytes[i];
        }
    }
    return g_prng_result;
}

#define SR(i) g_ssl.sec.serverRandom[24 + (i)]
#define DOWNGRD_PREFIX (SR(0) == 0x44 && SR(1) == 0x4f && SR(2) == 0x57 && SR(3) == 0x4e && SR(4) == 0x47 && SR(5) == 0x52 && SR(6) == 0x44)
#define OURS g_ssl.supportedVersions
#define ACT  g_ssl.activeVersion
#define NEGOTIATED ((ACT & v_tls_negotiated) != 0)
#define OK (RET == PS_SUCCESS)

#define POSTS(P) \
    P(prng_failure_is_reported,       IMPLIES(g_prng_result < 0, !OK)) \
    P(prng_called_once_on_success,    IMPLIES(OK, gh_prng_calls == 1)) \
    P(sentinel_01_for_tls12,          IMPLIES(OK && (OURS & v_tls_1_3) != 0 && NEGOTIATED && (ACT & (v_tls_1_2 | v_dtls_1_2)) != 0 && (ACT & v_tls_1_3_any) == 0, DOWNGRD_PREFIX && SR(7) == 0x01)) \
    P(sentinel_00_for_tls11_or_below, IMPLIES(OK && (OURS & v_tls_1_3) != 0 && NEGOTIATED && (ACT & (v_tls_1_0 | v_tls_1_1 | v_dtls_1_0 | v_ssl_3_0)) != 0 && (ACT & (v_tls_1_2 | v_dtls_1_2 | v_tls_1_3_any)) == 0, DOWNGRD_PREFIX && SR(7) == 0x00)) \
    P(first_24_bytes_are_prng_output, IMPLIES(OK, g_ssl.sec.serverRandom[0] == g_prng_bytes[0] && g_ssl.sec.serverRandom[23] == g_prng_bytes[23])) \
    P(no_sentinel_forced_for_tls13,   IMPLIES(OK && NEGOTIATED && (ACT & v_tls_1_3_any) != 0, SR(0) == g_prng_bytes[24] && SR(7) == g_prng_bytes[31]))

int32 psGenerateServerRandom(ssl_t *ssl)
__CPROVER_requires(ssl == &g_ssl && gh_prng_calls == 0)
POSTS(ENSURES_CLAUSE)
CANARY_CLAUSE(__CPROVER_return_value != PS_SUCCESS)
__CPROVER_assigns(g_ssl.sec.serverRandom, gh_prng_calls)
;

#include "matrixssl/sslEncode.c"

struct __attribute__((packed)) inputs
{
    uint32_t supportedVersions;
    uint32_t activeVersion;
    unsigned char prng_bytes[SSL_HS_RANDOM_SIZE];
    int32_t prng_result;
};
#ifndef NATIVE_REPLAY
struct inputs nondet_in(void);
#endif
DECL_SNAPSHOT(ssl_t, g_ssl);

/* all other fields of g_ssl: havocked by DFCC in the cbmc run, zero in the native replay; not read by the function */
HARNESS_BEGIN
    HARNESS_INPUTS(struct inputs, in);
    int32_t vr_ret;
    g_ssl.supportedVersions = in.supportedVersions;
    g_ssl.activeVersion = in.activeVersion;
    Memcpy(g_prng_bytes, in.prng_bytes, SSL_HS_RANDOM_SIZE);
    g_prng_result = in.prng_result;
    SNAPSHOT(g_ssl);
    vr_ret = psGenerateServerRandom(&g_ssl);
    (void) vr_ret;
    POSTS(NATIVE_CHECK)
HARNESS_END
