/* Shared vocabulary of the C07 units (version negotiation).
 *
 * A "version" is one bit of psProtocolVersion_t (matrixsslApiVer.h: bits 0..11
 * are assigned, bits 12..23 are reserved, bits 24..31 are attributes).
 *
 *   ONEVER(v)      v is exactly one assigned version bit - the range of
 *                  psVerFromEncoding apart from v_undefined (enforced in
 *                  unit ver_from_encoding)
 *   RAWV(v)        version without the attribute bits (VER_GET_RAW)
 *   ISDTLS(v)      v is a DTLS version
 *
 * Data-structure invariant of the configured version list of a session
 * (LIST_INV): len <= 16 and every priority entry below len is one assigned
 * version bit that is also set in the `set` word.  It is ESTABLISHED by
 * initSupportedVersions (unit init_versions, with getDefaultVersions enforced
 * in unit default_versions) and by tls13ParseSupportedVersions for the peer's
 * list (unit parse_supported_versions); it is REQUIRED by the negotiation
 * units.
 */
#ifndef C07_COMMON_H
#define C07_COMMON_H

#define KNOWN_VERSION_BITS 0x00000fffu
#define RAWV(v)   ((v) & 0x00ffffffu)
#define ONEVER(v) ((v) != 0 && (((v) & ((v) - 1u)) == 0) && (((v) & KNOWN_VERSION_BITS) != 0))
#define ISDTLS(v) ((((v) & v_dtls_any) != 0) ? 1 : 0)

static int c07_list_inv(const uint32_t *prio, uint32_t len, uint32_t set)
{
    unsigned i;

    if (len > TLS_MAX_SUPPORTED_VERSIONS)
    {
        return 0;
    }
    for (i = 0; i < TLS_MAX_SUPPORTED_VERSIONS; i++)
    {
        if (i < len && !(ONEVER(prio[i]) && (prio[i] & set) != 0))
        {
            return 0;
        }
    }
    return 1;
}

/* strictly descending = the default priority order (latest first) */
static int c07_list_desc(const uint32_t *prio, uint32_t len)
{
    unsigned i;

    for (i = 0; i + 1 < TLS_MAX_SUPPORTED_VERSIONS; i++)
    {
        if (i + 1 < len && !(prio[i] > prio[i + 1]))
        {
            return 0;
        }
    }
    return 1;
}

#endif
