/*@UNIT
{
  "property": "C07",
  "unit": "parse_supported_versions",
  "function": "tls13ParseSupportedVersions",
  "source": "matrixssl/tls13DecodeExt.c",
  "keep_bodies": ["psVerFromEncodingMajMin", "psVerFromEncoding"],
  "replace": [],
  "assumed": [],
  "mode": "proof",
  "why_proof": "the parsing loop stops after TLS_MAX_SUPPORTED_VERSIONS = 16 entries whatever the extension length (constant bound, fully unwound with unwinding assertions); the extension body is a heap object of exactly `len` bytes for every 16-bit len",
  "unwind": 38,
  "solver": "cadical",
  "native_replay": true,
  "timeout": 300,
  "timeout_thorough": 1200
}
@*/
/* C07.U3b  parser of the ClientHello supported_versions extension
 * (extDecode.c:707, tls13DecodeExt.c:397): the producer of the peer's version
 * list.  It ESTABLISHES the invariant LIST_INV(peer list, supportedVersionsPeer)
 * that unit supported_versions REQUIRES, and it is the place where "offered by
 * the client in that handshake" gets its meaning:
 *   every list entry is the decoding of a 2-byte entry of the extension body
 *   (ghost index g_k into the list, ghost offset g_o into the body), and
 *   every known version in the body ends up in the list (as long as the list
 *   is not full).
 * Reads stay inside the `len` bytes of the extension body (pointer checks).
 */
#include "verif.h"
#include "matrixssl/matrixsslImpl.h"
#include "c07_common.h"

#define BUFMAX 36   /* 1 length byte + 16 entries + slack: the loop never reads further */
static ssl_t g_ssl;
static unsigned char *g_body;        /* exactly g_len bytes */
static const unsigned char *g_c;
static uint16_t g_len;
static uint32_t g_k, g_o;

#define PSET  g_ssl.supportedVersionsPeer
#define PPRIO g_ssl.peerSupportedVersionsPriority
#define PLEN  g_ssl.peerSupportedVersionsPriorityLen
#define ERR   (RET < 0)   /* a refusal is a negative value: that is what both callers test (rc < 0) */
#define PPRIO_K PPRIO[g_k < 16 ? g_k : 0]
/* an even offset of an entry inside the body: body[0] is the list length */
#define O_IS_ENTRY (g_o < 16 && 1 + 2 * g_o + 1 < g_len)
#define ENTRY_O psVerFromEncodingMajMin(g_body[1 + 2 * (g_o < 16 ? g_o : 0)], g_body[2 + 2 * (g_o < 16 ? g_o : 0)])

static int decoded_from_body(uint32_t v)
{
    unsigned o;

    for (o = 0; o < 16; o++)
    {
        if (2 + 2 * o < g_len && psVerFromEncodingMajMin(g_body[1 + 2 * o], g_body[2 + 2 * o]) == v)
        {
            return 1;
        }
    }
    return 0;
}

static int in_peer_list(uint32_t v)
{
    unsigned i;

    for (i = 0; i < TLS_MAX_SUPPORTED_VERSIONS; i++)
    {
        if (i < PLEN && PPRIO[i] == v)
        {
            return 1;
        }
    }
    return 0;
}

#define POSTS(P) \
    P(establishes_peer_list_invariant,  c07_list_inv(PPRIO, PLEN, PSET)) \
    P(set_only_grows,                   (PSET & OLD(g_ssl, supportedVersionsPeer)) == OLD(g_ssl, supportedVersionsPeer)) \
    P(entries_come_from_the_extension,  IMPLIES(!ERR && g_k < PLEN, decoded_from_body(PPRIO_K))) \
    P(known_versions_of_the_extension_are_listed, IMPLIES(!ERR && O_IS_ENTRY && ENTRY_O != v_undefined, in_peer_list(ENTRY_O))) \
    P(success_consumes_the_extension,   IMPLIES(!ERR, RET == g_len && g_c == g_body + g_len && g_ssl.extFlags.got_supported_versions == 1)) \
    P(malformed_length_is_refused,      IMPLIES(g_len < 3 || g_body[0] != g_len - 1 || (g_len & 1) == 0, ERR)) \
    P(refusal_sets_an_alert,            IMPLIES(ERR, g_ssl.err == SSL_ALERT_DECODE_ERROR || g_ssl.err == SSL_ALERT_INTERNAL_ERROR))

int32_t tls13ParseSupportedVersions(ssl_t *ssl, const unsigned char **c, psSize_t len)
__CPROVER_requires(ssl == &g_ssl && c == &g_c && g_c == g_body && len == g_len)
__CPROVER_requires(c07_list_inv(PPRIO, PLEN, PSET))
POSTS(ENSURES_CLAUSE)
CANARY_CLAUSE(__CPROVER_return_value < 0)
__CPROVER_assigns(g_c, g_ssl.supportedVersionsPeer, g_ssl.peerSupportedVersionsPriority, g_ssl.peerSupportedVersionsPriorityLen,
                  g_ssl.extFlags, g_ssl.err)
;

#include "matrixssl/hsNegotiateVersion.c"
#include "matrixssl/tls13DecodeExt.c"

struct __attribute__((packed)) inputs
{
    unsigned char body[BUFMAX];
    uint16_t len;
    uint32_t supportedVersionsPeer;
    uint32_t pprio[TLS_MAX_SUPPORTED_VERSIONS];
    uint16_t plen;
    uint32_t k, o;
};
#ifndef NATIVE_REPLAY
struct inputs nondet_in(void);
void *malloc(size_t);
#endif
DECL_SNAPSHOT(ssl_t, g_ssl);

/* all other fields of g_ssl: havocked by DFCC in the cbmc run, zero in the native replay; not read */
HARNESS_BEGIN
    HARNESS_INPUTS(struct inputs, in);
    int32_t vr_ret;
    int i;
    g_len = in.len;
    g_body = malloc(g_len ? g_len : 1);          /* a body of exactly len bytes */
    __CPROVER_assume(g_body != NULL);
    for (i = 0; i < BUFMAX; i++) { if (i < g_len) { g_body[i] = in.body[i]; } }
#ifdef NATIVE_REPLAY
    for (i = BUFMAX; i < g_len; i++) { g_body[i] = 0; }
    __CPROVER_assume(c07_list_inv(in.pprio, in.plen, in.supportedVersionsPeer));
#endif
    g_c = g_body;
    g_ssl.supportedVersionsPeer = in.supportedVersionsPeer;
    for (i = 0; i < TLS_MAX_SUPPORTED_VERSIONS; i++) { g_ssl.peerSupportedVersionsPriority[i] = in.pprio[i]; }
    g_ssl.peerSupportedVersionsPriorityLen = in.plen;
    g_k = in.k;
    g_o = in.o;
    SNAPSHOT(g_ssl);
    vr_ret = tls13ParseSupportedVersions(&g_ssl, &g_c, g_len);
    (void) vr_ret;
    POSTS(NATIVE_CHECK)
HARNESS_END
