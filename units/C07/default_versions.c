/*@UNIT
{
  "property": "C07",
  "unit": "default_versions",
  "function": "getDefaultVersions",
  "source": "matrixssl/tlsDefaults.c",
  "keep_bodies": ["addVersion (matrixsslInitVer.c)"],
  "replace": [],
  "assumed": [],
  "mode": "proof",
  "why_proof": "one loop over the 23 version bits (constant bound), fully unwound with unwinding assertions",
  "unwind": 26,
  "native_replay": true,
  "timeout": 300
}
@*/
/* C07.U0b  the default version set of a session whose application gave no
 * version list and no version flag ("by default ..." in the statement: with
 * default per-session options the enabled set is what the build enables).
 *
 * Obligations: LIST_INV is established, the default order is descending
 * (latest first - the hypothesis of the "highest both enabled" obligations of
 * units client_hello_version / supported_versions), only compiled-in versions
 * and no TLS 1.3 draft (this build has no USE_TLS_1_3_DRAFT_SPEC) are enabled,
 * and - completeness - every released TLS version of the build IS enabled
 * (ghost bit g_k), except TLS 1.3 for a client without TLS 1.3 cipher suites.
 */
#include "verif.h"
#include "matrixssl/matrixsslImpl.h"
#include "c07_common.h"

static ssl_t g_ssl;
static uint32_t g_k;

#define OURS g_ssl.supportedVersions
#define PRIO g_ssl.supportedVersionsPriority
#define LEN  g_ssl.supportedVersionsPriorityLen
#define KBIT (1u << (g_k < 24 ? g_k : 0))
#define CLIENT_WITHOUT_13 (((g_ssl.flags & SSL_FLAGS_SERVER) == 0) && !g_ssl.tls13CiphersuitesEnabledClient)
#define RELEASED_TLS (v_tls_1_0 | v_tls_1_1 | v_tls_1_2 | v_tls_1_3)

#define POSTS(P) \
    P(establishes_list_invariant,     c07_list_inv(PRIO, LEN, OURS)) \
    P(default_order_is_descending,    c07_list_desc(PRIO, LEN)) \
    P(enabled_only_if_compiled_in,    (OURS & ~(uint32_t) v_compiled_in) == 0) \
    P(no_draft_by_default,            (OURS & v_tls_1_3_draft_any) == 0) \
    P(client_without_13_suites_has_no_13, IMPLIES(CLIENT_WITHOUT_13, (OURS & v_tls_1_3_any) == 0)) \
    P(every_released_tls_version_of_the_build_is_enabled, IMPLIES(g_k < 24 && (KBIT & RELEASED_TLS & v_compiled_in) != 0 && !(CLIENT_WITHOUT_13 && KBIT == v_tls_1_3), (OURS & KBIT) != 0))

int32 getDefaultVersions(ssl_t *ssl)
__CPROVER_requires(ssl == &g_ssl)
/* nothing enabled yet: matrixsslInitVer.c:397 reaches the call only when the
   application gave neither a list nor a (recognised) flag */
__CPROVER_requires(OURS == 0 && LEN == 0)
POSTS(ENSURES_CLAUSE)
CANARY_CLAUSE(g_ssl.supportedVersions == 0)
__CPROVER_assigns(g_ssl.supportedVersions, g_ssl.supportedVersionsPriority, g_ssl.supportedVersionsPriorityLen)
;

#include "matrixssl/matrixsslInitVer.c"
#include "matrixssl/tlsDefaults.c"

struct __attribute__((packed)) inputs
{
    uint8_t is_server;
    uint8_t tls13suites;
    uint32_t k;
};
#ifndef NATIVE_REPLAY
struct inputs nondet_in(void);
#endif
DECL_SNAPSHOT(ssl_t, g_ssl);

/* all other fields of g_ssl: havocked by DFCC in the cbmc run, zero in the native replay; not read */
HARNESS_BEGIN
    HARNESS_INPUTS(struct inputs, in);
    int32 vr_ret;
    g_ssl.flags = in.is_server ? SSL_FLAGS_SERVER : 0;
    g_ssl.tls13CiphersuitesEnabledClient = in.tls13suites ? PS_TRUE : PS_FALSE;
    g_k = in.k;
    SNAPSHOT(g_ssl);
    vr_ret = getDefaultVersions(&g_ssl);
    (void) vr_ret;
    POSTS(NATIVE_CHECK)
HARNESS_END
