/*@UNIT
{
  "property": "C07",
  "unit": "ver_get_highest",
  "function": "psVerGetHighest",
  "source": "matrixssl/hsNegotiateVersion.c",
  "keep_bodies": [],
  "replace": [],
  "assumed": [],
  "mode": "proof",
  "why_proof": "one loop over the 24 version bits (constant bound VER_MAX_BIT), fully unwound with unwinding assertions",
  "unwind": 26,
  "native_replay": true,
  "timeout": 300
}
@*/
/* C07.U5c  highest enabled version of a version set.  Used as the reference
 * point of the TLS_FALLBACK_SCSV rule (hsDecode.c:384), for the version of the
 * first ClientHello / the activated version (matrixsslInitVer.c:416) and for
 * alert encoding.  Obligations: the result is a member of the set, eligible
 * (TLS unless DTLS is allowed), and no eligible compiled-in member is higher
 * (ghost bit g_k).  Bit 0 (SSL 3.0) is never looked at by the loop
 * (`i > 0`); SSL 3.0 is not compiled in (DISABLE_SSLV3), so the maximality
 * obligation is stated over v_compiled_in.
 */
#include "verif.h"
#include "matrixssl/matrixsslImpl.h"
#include "c07_common.h"

static uint32_t g_ver, g_k;
static int g_allow;

#define ELIGIBLE(m) (g_allow || ((m) & v_tls_any) != 0)
#define KBIT (1u << (g_k < 24 ? g_k : 0))

#define POSTS(P) \
    P(result_is_undefined_or_one_bit,  RET == v_undefined || (RET != 0 && (RET & (RET - 1u)) == 0)) \
    P(result_is_member_and_eligible,   IMPLIES(RET != v_undefined, (RET & RAWV(g_ver)) != 0 && ELIGIBLE(RET))) \
    P(no_higher_eligible_member,       IMPLIES(g_k < 24 && (KBIT & RAWV(g_ver) & v_compiled_in) != 0 && ELIGIBLE(KBIT), RET >= KBIT)) \
    P(attribute_bits_are_ignored,      (RET & 0xff000000u) == 0)

psProtocolVersion_t psVerGetHighest(psProtocolVersion_t ver, int allowDtls)
__CPROVER_requires(ver == g_ver && allowDtls == g_allow)
POSTS(ENSURES_CLAUSE)
CANARY_CLAUSE(__CPROVER_return_value == v_undefined)
__CPROVER_assigns()
;

#include "matrixssl/hsNegotiateVersion.c"

struct __attribute__((packed)) inputs
{
    uint32_t ver;
    uint32_t k;
    uint8_t allow;
};
#ifndef NATIVE_REPLAY
struct inputs nondet_in(void);
#endif

HARNESS_BEGIN
    HARNESS_INPUTS(struct inputs, in);
    psProtocolVersion_t vr_ret;
    g_ver = in.ver;
    g_k = in.k;
    g_allow = in.allow ? 1 : 0;
    vr_ret = psVerGetHighest(g_ver, g_allow);
    (void) vr_ret;
    POSTS(NATIVE_CHECK)
HARNESS_END
