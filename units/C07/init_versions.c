/*@UNIT
{
  "property": "C07",
  "unit": "init_versions",
  "function": "initSupportedVersions",
  "source": "matrixssl/matrixsslInitVer.c",
  "keep_bodies": ["addVersion", "getDefaultVersions (tlsDefaults.c)", "psVerGetHighest", "psVerGetHighestTls"],
  "replace": [],
  "assumed": [],
  "mode": "proof",
  "why_proof": "loops over options->supportedVersions (capacity 16), over the 23 version bits in getDefaultVersions and psVerGetHighest (constant bounds), fully unwound with unwinding assertions",
  "unwind": 26,
  "cases": [{"name": "flags_or_defaults", "defs": ["OPTLEN_ZERO=1"]}, {"name": "listed_versions", "defs": ["OPTLEN_ZERO=0"]}],
  "native_replay": true,
  "timeout": 600
}
@*/
/* C07.U0  session configuration: options -> (supportedVersions,
 * supportedVersionsPriority[]), called once per session from
 * matrixSslNewSession (matrixssl.c:687) on a zeroed ssl_t.
 *
 * This unit ESTABLISHES the data-structure invariant LIST_INV (c07_common.h)
 * that units client_hello_version and supported_versions REQUIRE, and ties
 * "enabled" to its two sources named in the statement ("build and per-session
 * options"):
 *   every enabled version is compiled in;
 *   if the application listed versions, every enabled version is one it listed;
 *   if it gave version flags only, every enabled version is one of the flags';
 *   the set word and the priority list describe the same set;
 *   a client without TLS 1.3 cipher suites never enables TLS 1.3 (it could not
 *   complete 1.3 and would then trip the downgrade sentinel);
 *   the activated (first-hello) version is an enabled one.
 * Domain: options->supportedVersions[i] are single TLS version identifiers
 * (what matrixSslSessOptsSet{Client,Server}TlsVersions accept from a
 * well-behaved application; they do not themselves reject a multi-bit word,
 * and DTLS is selected through SSL_FLAGS_DTLS only - NOTES.md).
 */
#include "verif.h"
#include "matrixssl/matrixsslImpl.h"
#include "c07_common.h"

static ssl_t g_ssl;
static sslSessOpts_t g_opts;
static uint32_t g_k;                 /* ghost: index into the list / bit number */

#define OURS g_ssl.supportedVersions
#define PRIO g_ssl.supportedVersionsPriority
#define LEN  g_ssl.supportedVersionsPriorityLen
#define ACT  g_ssl.activeVersion
#define OK   (RET == MATRIXSSL_SUCCESS)
#define KBIT (1u << (g_k < 24 ? g_k : 0))
#define PRIO_K PRIO[g_k < 16 ? g_k : 0]
#define IS_CLIENT ((g_ssl.flags & SSL_FLAGS_SERVER) == 0)

static int in_options(uint32_t v)
{
    unsigned i;

    for (i = 0; i < TLS_MAX_SUPPORTED_VERSIONS; i++)
    {
        if (i < g_opts.supportedVersionsLen && g_opts.supportedVersions[i] == v)
        {
            return 1;
        }
    }
    return 0;
}

static int in_list(uint32_t v)
{
    unsigned i;

    for (i = 0; i < TLS_MAX_SUPPORTED_VERSIONS; i++)
    {
        if (i < LEN && PRIO[i] == v)
        {
            return 1;
        }
    }
    return 0;
}

/* the version a deprecated version flag stands for (psFlagToVer semantics of
   the flags this function reads) */
static uint32_t flag_versions(uint32_t f)
{
    uint32_t v = 0;

    if (f & SSL_FLAGS_DTLS)
    {
        v |= v_dtls_1_0;
        if (f & SSL_FLAGS_TLS_1_2) { v |= v_dtls_1_2; }
        return v;
    }
    if (f & SSL_FLAGS_TLS_1_0) { v |= v_tls_1_0; }
    if (f & SSL_FLAGS_TLS_1_1) { v |= v_tls_1_1; }
    if (f & SSL_FLAGS_TLS_1_2) { v |= v_tls_1_2; }
    if (f & SSL_FLAGS_TLS_1_3) { v |= v_tls_1_3; }
    if (f & SSL_FLAGS_TLS_1_3_DRAFT_22) { v |= v_tls_1_3_draft_22; }
    if (f & SSL_FLAGS_TLS_1_3_DRAFT_23) { v |= v_tls_1_3_draft_23; }
    if (f & SSL_FLAGS_TLS_1_3_DRAFT_24) { v |= v_tls_1_3_draft_24; }
    if (f & SSL_FLAGS_TLS_1_3_DRAFT_26) { v |= v_tls_1_3_draft_26; }
    if (f & SSL_FLAGS_TLS_1_3_DRAFT_28) { v |= v_tls_1_3_draft_28; }
    return v;
}

#define USER_LISTED  (g_opts.supportedVersionsLen > 0)
#define USER_FLAGGED (!USER_LISTED && (g_opts.versionFlag & ANY_VERSION_FLAG) != 0)

#define POSTS(P) \
    P(ret_is_success_or_error,          RET == MATRIXSSL_SUCCESS || RET == MATRIXSSL_ERROR) \
    P(establishes_list_invariant,       IMPLIES(OK, c07_list_inv(PRIO, LEN, OURS))) \
    P(something_is_enabled,             IMPLIES(OK, OURS != 0 && LEN > 0)) \
    P(enabled_only_if_compiled_in,      IMPLIES(OK, (OURS & ~(uint32_t) v_compiled_in) == 0)) \
    P(set_bits_all_appear_in_list,      IMPLIES(OK && g_k < 24 && (OURS & KBIT) != 0, in_list(KBIT))) \
    P(listed_by_user_or_not_enabled,    IMPLIES(OK && USER_LISTED && g_k < LEN, in_options(PRIO_K))) \
    P(flagged_by_user_or_not_enabled,   IMPLIES(OK && USER_FLAGGED, (OURS & ~flag_versions(g_opts.versionFlag)) == 0)) \
    P(client_without_13_suites_has_no_13, IMPLIES(OK && IS_CLIENT && !g_ssl.tls13CiphersuitesEnabledClient, (OURS & v_tls_1_3_any) == 0)) \
    P(activated_version_is_enabled,     IMPLIES(OK, (ACT & OURS) != 0 && ONEVER(ACT))) \
    P(failure_only_if_nothing_usable,   IMPLIES(!OK, OURS == 0))

int32 initSupportedVersions(ssl_t *ssl, sslSessOpts_t *options)
__CPROVER_requires(ssl == &g_ssl && options == &g_opts)
/* fresh session (matrixSslNewSession memsets the structure) */
__CPROVER_requires(OURS == 0 && LEN == 0)
__CPROVER_requires(g_opts.supportedVersionsLen <= TLS_MAX_SUPPORTED_VERSIONS)
__CPROVER_requires(OPTLEN_ZERO || g_opts.supportedVersionsLen >= 1)     /* the two cases are exhaustive */
/* what matrixSslSessOptsSet{Client,Server}TlsVersions accept: single TLS (not DTLS, not SSL 3.0) versions */
__CPROVER_requires(c07_list_inv(g_opts.supportedVersions, g_opts.supportedVersionsLen, v_tls_any))
POSTS(ENSURES_CLAUSE)
CANARY_CLAUSE(__CPROVER_return_value != MATRIXSSL_SUCCESS)
__CPROVER_assigns(g_ssl.supportedVersions, g_ssl.supportedVersionsPriority, g_ssl.supportedVersionsPriorityLen,
                  g_ssl.activeVersion, g_ssl.hsState)
;

#include "matrixssl/hsNegotiateVersion.c"
#include "matrixssl/tlsDefaults.c"
#include "matrixssl/matrixsslInitVer.c"

struct __attribute__((packed)) inputs
{
    uint32_t optVersions[TLS_MAX_SUPPORTED_VERSIONS];
    uint16_t optLen;
    int32_t versionFlag;
    uint8_t is_server;
    uint8_t tls13suites;
    uint32_t k;
};
#ifndef NATIVE_REPLAY
struct inputs nondet_in(void);
#endif
DECL_SNAPSHOT(ssl_t, g_ssl);

/* fields of g_ssl not assigned here (havocked by DFCC in the cbmc run, zero in the native replay): everything but flags (only the SERVER bit is
   read) and tls13CiphersuitesEnabledClient; g_opts: everything but the version
   list and versionFlag */
HARNESS_BEGIN
    HARNESS_INPUTS(struct inputs, in);
    int32 vr_ret;
    int i;
    for (i = 0; i < TLS_MAX_SUPPORTED_VERSIONS; i++) { g_opts.supportedVersions[i] = in.optVersions[i]; }
    /* mode enumeration: an empty list (flags or defaults decide) is a constant 0 */
    g_opts.supportedVersionsLen = OPTLEN_ZERO ? 0 : in.optLen;
    g_opts.versionFlag = in.versionFlag;
    g_ssl.flags = in.is_server ? SSL_FLAGS_SERVER : 0;
    g_ssl.tls13CiphersuitesEnabledClient = in.tls13suites ? PS_TRUE : PS_FALSE;
    g_k = in.k;
#ifdef NATIVE_REPLAY
    __CPROVER_assume(g_opts.supportedVersionsLen <= TLS_MAX_SUPPORTED_VERSIONS);
    __CPROVER_assume(OPTLEN_ZERO || g_opts.supportedVersionsLen >= 1);
    __CPROVER_assume(c07_list_inv(g_opts.supportedVersions, g_opts.supportedVersionsLen, v_tls_any));
#endif
    SNAPSHOT(g_ssl);
    vr_ret = initSupportedVersions(&g_ssl, &g_opts);
    (void) vr_ret;
    POSTS(NATIVE_CHECK)
HARNESS_END
