/*@UNIT
{
  "property": "C06",
  "unit": "tls13_check_hs_state",
  "function": "tls13CheckHsState",
  "source": "matrixssl/tls13Decode.c",
  "replace": [],
  "assumed": [],
  "mode": "proof",
  "why_proof": "loop-free; message type, state and role fully symbolic",
  "native_replay": false,
  "object_bits": 10
}
@*/
/* C06.U1  the TLS 1.3 message/state gate: a handshake message is admitted if and only if
 * (message, state, role) is a row of the table below, which is RFC 8446 Appendix A.1/A.2
 * written in terms of MatrixSSL's "what am I waiting for" states; everything else is
 * refused with unexpected_message.  In particular NewSessionTicket is a post-handshake
 * message (RFC 8446 4.6.1): a client admits it only when its handshake is complete. */
#include "verif.h"
#include "matrixssl/matrixsslImpl.h"

static ssl_t g_ssl;
static unsigned char g_msg;

#define ST (OLD(g_ssl, hsState))
#define IS_CLIENT (!(OLD(g_ssl, flags) & SSL_FLAGS_SERVER))
#define T13 ( (g_msg == SSL_HS_CLIENT_HELLO        && ST == SSL_HS_TLS_1_3_START) \
           || (g_msg == SSL_HS_SERVER_HELLO        && ST == SSL_HS_TLS_1_3_WAIT_SH) \
           || (g_msg == SSL_HS_ENCRYPTED_EXTENSION && ST == SSL_HS_TLS_1_3_WAIT_EE) \
           || (g_msg == SSL_HS_CERTIFICATE_REQUEST && ST == SSL_HS_TLS_1_3_WAIT_CERT_CR) \
           || (g_msg == SSL_HS_CERTIFICATE         && (ST == SSL_HS_TLS_1_3_WAIT_CERT || ST == SSL_HS_TLS_1_3_WAIT_CERT_CR)) \
           || (g_msg == SSL_HS_CERTIFICATE_VERIFY  && ST == SSL_HS_TLS_1_3_WAIT_CV) \
           || (g_msg == SSL_HS_EOED                && ST == SSL_HS_TLS_1_3_WAIT_EOED) \
           || (g_msg == SSL_HS_FINISHED            && ST == SSL_HS_TLS_1_3_WAIT_FINISHED) \
           || (g_msg == SSL_HS_NEW_SESSION_TICKET  && ST == SSL_HS_DONE && IS_CLIENT) )

#define POSTS(P) \
    P(admitted_only_if_legal_in_this_state, IMPLIES(RET == PS_SUCCESS, T13)) \
    P(legal_message_is_admitted,            IMPLIES(T13, RET == PS_SUCCESS)) \
    P(refusal_is_unexpected_message,        IMPLIES(RET != PS_SUCCESS, RET == MATRIXSSL_ERROR && g_ssl.err == SSL_ALERT_UNEXPECTED_MESSAGE)) \
    P(gate_does_not_move_the_state,         g_ssl.hsState == OLD(g_ssl, hsState) && g_ssl.flags == OLD(g_ssl, flags))

static int32_t tls13CheckHsState(ssl_t *ssl, unsigned char msg)
__CPROVER_requires(ssl == &g_ssl && msg == g_msg)
POSTS(ENSURES_CLAUSE)
CANARY_CLAUSE(__CPROVER_return_value != PS_SUCCESS)
__CPROVER_assigns(g_ssl.err)
;

#include "matrixssl/tls13Decode.c"

HARNESS_BEGIN
    tls13CheckHsState(&g_ssl, g_msg);
HARNESS_END
