/*@UNIT
{
  "property": "C06",
  "properties": ["C08", "C18", "C19"],
  "unit": "tls13_hs_transitions",
  "function": "tls13ParseHandshakeMessage",
  "source": "matrixssl/tls13Decode.c",
  "keep_bodies": ["tls13CheckHsState", "tls13FragMessageReadInit", "tls13FragMessageReadContinue", "tls13FragMessageReadFinish", "psParseTlsHandshakeHeader", "psParseBufCopyN", "psParse* (psbuf)"],
  "replace": ["tls13ParseClientHello", "tls13ParseServerHello", "tls13ParseFinished", "tls13ParseNewSessionTicket", "tls13ParseCertificateRequest", "tls13ParseCertificate", "tls13ParseCertificateVerify", "tls13ClientActivateHsReadKeys"],
  "assumed": ["tls13ParseClientHello, tls13ParseServerHello, tls13ParseEncryptedExtensions, tls13ParseFinished, tls13ParseNewSessionTicket, tls13ParseCertificateRequest, tls13ParseCertificate, tls13ParseCertificateVerify (verdict chosen by the input; each call and the state it was made in recorded in ghosts)",
              "tlsServerNegotiateVersion (verdict and negotiated version from the input)",
              "tls13TranscriptHash*, tls13ActivateHsReadKeys, tls13ActivateAppReadKeys, tls13ClientActivateHsReadKeys, tls13DeriveResumptionMasterSecret, tls13ClearHsState (verdict from the input; key activation may set SSL_FLAGS_READ_SECURE)"],
  "mode": "bounded",
  "bounds": "record payload of every length <= N (N=24 quick, 40 thorough) with every content, with and without a pending fragment buffer (fragTotal <= 32); psbuf copy loops unwound N+2 with unwinding assertions",
  "defs_quick": ["BUFN=24"],
  "defs_thorough": ["BUFN=40"],
  "unwind_quick": 40, "unwind_thorough": 48,
  "malloc_may_fail": true,
  "native_replay": false,
  "object_bits": 10,
  "timeout": 150,
  "weight_gb": 4
}
@*/
/* C06.U2  the TLS 1.3 handshake state machine as a transition relation of ONE call of the
 * real tls13ParseHandshakeMessage.  The message parsers are models whose verdict is an
 * input; ghosts record which parser ran, in which state, and what it answered.
 *
 *  - a parser runs only for a message that the gate (tls13CheckHsState, unit
 *    tls13_check_hs_state) admits in the current state, and at most one runs per call;
 *  - the state moves only along RFC 8446 Appendix A edges, and only if the parser of that
 *    message succeeded: in particular DONE / SEND_FINISHED / SEND_NST are entered only from
 *    WAIT_FINISHED by a Finished whose verify_data check succeeded and with the application
 *    read keys activated; WAIT_FINISHED is entered from WAIT_EE only in PSK mode, otherwise
 *    only through Certificate -> CertificateVerify (WAIT_CV) or EndOfEarlyData;
 *  - any parser failure leaves the state where it was (the caller sends the alert).
 * C18/C08/C19  cursor clauses that the record decoder unit (tls13_decode) relies on: the
 * cursor only moves forward inside the record; success consumes >= 4 bytes (or completes a
 * pending fragment); SSL_PARTIAL consumes the whole rest of the record and changes neither
 * state nor keys; an allocation failure while buffering a fragment is an internal_error. */
#include "verif.h"
#include "matrixssl/matrixsslImpl.h"

#ifndef BUFN
# define BUFN 24
#endif
#define FRAGMAX 32

struct __attribute__((packed)) inputs
{
    uint32_t flags;
    uint8_t hsState;
    uint8_t usingPsk, hasTickets, incorrectDhe, bindersLen;
    int32_t rc_ch1, rc_ch2, rc_neg, rc_sh, rc_ee, rc_cr, rc_cert, rc_cv, rc_fin, rc_nst;
    int32_t rc_hskeys_c, rc_hskeys, rc_appkeys, rc_snap, rc_rms, rc_reinit;
    uint8_t neg_is_13;
    uint32_t len;
    uint8_t fragPending; uint32_t fragTotal, fragIndex;
    unsigned char buf[BUFN];
};
static struct inputs g_in;
static ssl_t g_ssl;
static sslKeys_t g_keys;
static unsigned char g_buf[BUFN];
static unsigned char *g_cur;

static struct {
    int ch_calls, sh, ee, cr, cert, cv, fin, nst, neg, hskeys_c, hskeys, appkeys, clear;
    uint8_t state_at_parser;     /* hsState when the (last) message parser was entered */
    uint8_t parser_type;         /* handshake type whose parser ran, 0xff = none */
    int parsers;                 /* number of message parsers that ran */
    int32_t parser_rc;
    uint8_t state_at_entry; uint32_t flags_at_entry; uint8_t frag_at_entry;
    int alloc_failed;
} gh;

#define PARSER(type, counter, rcfield) do { gh.counter++; gh.parsers++; gh.parser_type = (type); gh.state_at_parser = ssl->hsState; gh.parser_rc = g_in.rcfield; } while (0)
#define NEG(x) ((x) < 0 ? ((x) > -40 ? (x) : PS_FAILURE) : (x))

int32_t tlsServerNegotiateVersion(ssl_t *ssl)
{
    gh.neg++;
    if (g_in.rc_neg < 0) { return PS_FAILURE; }
    ssl->activeVersion = (g_in.neg_is_13 ? v_tls_1_3 : v_tls_1_2) | v_tls_negotiated;
    return PS_SUCCESS;
}
int32_t tls13ParseEncryptedExtensions(ssl_t *ssl, psParseBuf_t *pb)
{
    PARSER(SSL_HS_ENCRYPTED_EXTENSION, ee, rc_ee);
    return NEG(g_in.rc_ee) < 0 ? NEG(g_in.rc_ee) : 0;
}
int32_t tls13TranscriptHashInit(ssl_t *ssl) { return PS_SUCCESS; }
int32_t tls13TranscriptHashReinit(ssl_t *ssl) { return g_in.rc_reinit < 0 ? PS_FAILURE : PS_SUCCESS; }
int32_t tls13TranscriptHashUpdate(ssl_t *ssl, const unsigned char *in, psSize_t len) { return PS_SUCCESS; }
int32_t tls13TranscriptHashSnapshot(ssl_t *ssl, unsigned char *out) { return g_in.rc_snap < 0 ? PS_FAILURE : PS_SUCCESS; }
int32_t tls13ActivateHsReadKeys(ssl_t *ssl)
{
    gh.hskeys++;
    if (g_in.rc_hskeys < 0) { return PS_FAILURE; }
    ssl->flags |= SSL_FLAGS_READ_SECURE;
    return PS_SUCCESS;
}
int32_t tls13ActivateAppReadKeys(ssl_t *ssl)
{
    gh.appkeys++;
    if (g_in.rc_appkeys < 0) { return PS_FAILURE; }
    ssl->flags |= SSL_FLAGS_READ_SECURE;
    return PS_SUCCESS;
}
int32_t tls13DeriveResumptionMasterSecret(ssl_t *ssl) { return g_in.rc_rms < 0 ? PS_FAILURE : PS_SUCCESS; }
void tls13ClearHsState(ssl_t *ssl) { gh.clear++; }

/* static parsers of the same file: replaced by contracts that only record the call */
#define REC_CONTRACT(counter, typ) \
    __CPROVER_requires(ssl == &g_ssl) \
    __CPROVER_assigns(gh.counter, gh.parsers, gh.parser_type, gh.state_at_parser, gh.parser_rc, g_ssl.err) \
    __CPROVER_ensures(gh.counter == __CPROVER_old(gh.counter) + 1 && gh.parsers == __CPROVER_old(gh.parsers) + 1 && gh.parser_type == (typ) && \
                      gh.state_at_parser == g_ssl.hsState && gh.parser_rc == __CPROVER_return_value) \
    __CPROVER_ensures(__CPROVER_return_value > -40)
/* ClientHello is parsed twice: a dry run (no state change, not counted as "the parser") and the real one */
int32_t tls13ParseClientHello(ssl_t *ssl, psParseBuf_t *pb, psBool_t allowStateChange)
__CPROVER_requires(ssl == &g_ssl)
__CPROVER_assigns(gh.ch_calls, gh.parsers, gh.parser_type, gh.state_at_parser, gh.parser_rc, g_ssl.err)
__CPROVER_ensures(gh.ch_calls == __CPROVER_old(gh.ch_calls) + 1 && gh.state_at_parser == g_ssl.hsState)
__CPROVER_ensures(allowStateChange ? (gh.parsers == __CPROVER_old(gh.parsers) + 1 && gh.parser_type == SSL_HS_CLIENT_HELLO && gh.parser_rc == __CPROVER_return_value)
                                   : (gh.parsers == __CPROVER_old(gh.parsers) && gh.parser_type == __CPROVER_old(gh.parser_type) && gh.parser_rc == __CPROVER_old(gh.parser_rc)))
__CPROVER_ensures(__CPROVER_return_value > -40)
;
/* a HelloRetryRequest is reported as SSL_ENCODE_RESPONSE (with tls13IncorrectDheKeyShare set by the parser) */
int32_t tls13ParseServerHello(ssl_t *ssl, psParseBuf_t *pb)
__CPROVER_requires(ssl == &g_ssl)
__CPROVER_assigns(gh.sh, gh.parsers, gh.parser_type, gh.state_at_parser, gh.parser_rc, g_ssl.err, g_ssl.tls13IncorrectDheKeyShare)
__CPROVER_ensures(gh.sh == __CPROVER_old(gh.sh) + 1 && gh.parsers == __CPROVER_old(gh.parsers) + 1 && gh.parser_type == SSL_HS_SERVER_HELLO &&
                  gh.state_at_parser == g_ssl.hsState && gh.parser_rc == __CPROVER_return_value)
__CPROVER_ensures(__CPROVER_return_value > -40 || __CPROVER_return_value == SSL_ENCODE_RESPONSE)
;
static int32_t tls13ParseFinished(ssl_t *ssl, psParseBuf_t *pb) REC_CONTRACT(fin, SSL_HS_FINISHED);
static int32_t tls13ParseNewSessionTicket(ssl_t *ssl, psParseBuf_t *pb) REC_CONTRACT(nst, SSL_HS_NEW_SESSION_TICKET);
static int32_t tls13ParseCertificateRequest(ssl_t *ssl, psParseBuf_t *pb) REC_CONTRACT(cr, SSL_HS_CERTIFICATE_REQUEST);
static int32_t tls13ParseCertificate(ssl_t *ssl, psParseBuf_t *pb) REC_CONTRACT(cert, SSL_HS_CERTIFICATE);
static int32_t tls13ParseCertificateVerify(ssl_t *ssl, psParseBuf_t *pb) REC_CONTRACT(cv, SSL_HS_CERTIFICATE_VERIFY);
static int32_t tls13ClientActivateHsReadKeys(ssl_t *ssl)
__CPROVER_requires(ssl == &g_ssl)
__CPROVER_assigns(gh.hskeys_c, g_ssl.flags, g_ssl.err)
__CPROVER_ensures(gh.hskeys_c == __CPROVER_old(gh.hskeys_c) + 1)
__CPROVER_ensures(g_ssl.flags == __CPROVER_old(g_ssl.flags) || g_ssl.flags == (__CPROVER_old(g_ssl.flags) | SSL_FLAGS_READ_SECURE))
__CPROVER_ensures(__CPROVER_return_value > -40)
;

#define S0 (gh.state_at_entry)
#define S1 (g_ssl.hsState)
#define OK(cnt) (gh.cnt == 1 && gh.parser_rc >= 0)
#define ADV ((long) (__CPROVER_POINTER_OFFSET(g_cur) - __CPROVER_POINTER_OFFSET(g_buf)))
#define IS_SRV ((gh.flags_at_entry & SSL_FLAGS_SERVER) != 0)

#define POSTS(P) \
    P(at_most_one_message_parser_runs,     gh.parsers <= 1 && gh.sh <= 1 && gh.ee <= 1 && gh.fin <= 1) \
    P(parser_runs_only_for_admitted_message, IMPLIES(gh.parsers == 1, \
          (gh.parser_type == SSL_HS_CLIENT_HELLO && gh.state_at_parser == SSL_HS_TLS_1_3_START) || \
          (gh.parser_type == SSL_HS_SERVER_HELLO && gh.state_at_parser == SSL_HS_TLS_1_3_WAIT_SH) || \
          (gh.parser_type == SSL_HS_ENCRYPTED_EXTENSION && gh.state_at_parser == SSL_HS_TLS_1_3_WAIT_EE) || \
          (gh.parser_type == SSL_HS_CERTIFICATE_REQUEST && gh.state_at_parser == SSL_HS_TLS_1_3_WAIT_CERT_CR) || \
          (gh.parser_type == SSL_HS_CERTIFICATE && (gh.state_at_parser == SSL_HS_TLS_1_3_WAIT_CERT || gh.state_at_parser == SSL_HS_TLS_1_3_WAIT_CERT_CR)) || \
          (gh.parser_type == SSL_HS_CERTIFICATE_VERIFY && gh.state_at_parser == SSL_HS_TLS_1_3_WAIT_CV) || \
          (gh.parser_type == SSL_HS_FINISHED && gh.state_at_parser == SSL_HS_TLS_1_3_WAIT_FINISHED) || \
          (gh.parser_type == SSL_HS_NEW_SESSION_TICKET && gh.state_at_parser == SSL_HS_DONE && !IS_SRV))) \
    P(parser_sees_the_entry_state,         IMPLIES(gh.parsers == 1, gh.state_at_parser == S0)) \
    P(handshake_completes_only_by_verified_finished, IMPLIES(S1 != S0 && (S1 == SSL_HS_DONE || S1 == SSL_HS_TLS_1_3_SEND_FINISHED || S1 == SSL_HS_TLS_1_3_SEND_NST), \
          S0 == SSL_HS_TLS_1_3_WAIT_FINISHED && OK(fin) && gh.appkeys == 1 && g_in.rc_appkeys >= 0)) \
    P(finished_successor_matches_role,     IMPLIES(S1 != S0 && S0 == SSL_HS_TLS_1_3_WAIT_FINISHED, \
          IS_SRV ? (S1 == SSL_HS_DONE || S1 == SSL_HS_TLS_1_3_SEND_NST) : S1 == SSL_HS_TLS_1_3_SEND_FINISHED)) \
    P(wait_finished_entered_only_legally,  IMPLIES(S1 != S0 && S1 == SSL_HS_TLS_1_3_WAIT_FINISHED, \
          (S0 == SSL_HS_TLS_1_3_WAIT_EE && OK(ee) && g_in.usingPsk) || (S0 == SSL_HS_TLS_1_3_WAIT_CV && OK(cv)) || \
          (S0 == SSL_HS_TLS_1_3_WAIT_EOED && gh.hskeys == 1 && g_in.rc_hskeys >= 0))) \
    P(wait_cv_entered_only_by_certificate, IMPLIES(S1 != S0 && S1 == SSL_HS_TLS_1_3_WAIT_CV, (S0 == SSL_HS_TLS_1_3_WAIT_CERT || S0 == SSL_HS_TLS_1_3_WAIT_CERT_CR) && OK(cert))) \
    P(wait_cert_entered_only_by_cert_request, IMPLIES(S1 != S0 && S1 == SSL_HS_TLS_1_3_WAIT_CERT, S0 == SSL_HS_TLS_1_3_WAIT_CERT_CR && OK(cr))) \
    P(wait_cert_cr_entered_only_by_ee_without_psk, IMPLIES(S1 != S0 && S1 == SSL_HS_TLS_1_3_WAIT_CERT_CR, S0 == SSL_HS_TLS_1_3_WAIT_EE && OK(ee) && !g_in.usingPsk)) \
    P(wait_ee_entered_only_by_server_hello, IMPLIES(S1 != S0 && S1 == SSL_HS_TLS_1_3_WAIT_EE, S0 == SSL_HS_TLS_1_3_WAIT_SH && OK(sh) && gh.hskeys_c == 1 && RET >= 0)) \
    P(recvd_ch_entered_only_by_client_hello, IMPLIES(S1 != S0 && S1 == SSL_HS_TLS_1_3_RECVD_CH, S0 == SSL_HS_TLS_1_3_START && gh.ch_calls == 2 && gh.parser_rc >= 0 && g_in.neg_is_13)) \
    P(no_other_state_is_ever_entered,      IMPLIES(S1 != S0, S1 == SSL_HS_DONE || S1 == SSL_HS_TLS_1_3_SEND_FINISHED || S1 == SSL_HS_TLS_1_3_SEND_NST || S1 == SSL_HS_TLS_1_3_WAIT_FINISHED || \
          S1 == SSL_HS_TLS_1_3_WAIT_CV || S1 == SSL_HS_TLS_1_3_WAIT_CERT || S1 == SSL_HS_TLS_1_3_WAIT_CERT_CR || S1 == SSL_HS_TLS_1_3_WAIT_EE || S1 == SSL_HS_TLS_1_3_RECVD_CH || \
          (S1 == SSL_HS_TLS_1_3_START && S0 == SSL_HS_TLS_1_3_WAIT_SH && gh.sh == 1 && gh.parser_rc == SSL_ENCODE_RESPONSE) || \
          (S1 == SSL_HS_CLIENT_HELLO && S0 == SSL_HS_TLS_1_3_START && RET == SSL_NO_TLS_1_3 && !g_in.neg_is_13))) \
    P(failed_parser_leaves_the_state,      IMPLIES(gh.parsers == 1 && gh.parser_rc < 0 && !(gh.sh == 1 && gh.parser_rc == SSL_ENCODE_RESPONSE), S1 == S0 && RET < 0)) \
    P(success_needs_a_successful_parser,   IMPLIES(RET >= 0, (gh.parsers == 1 && gh.parser_rc >= 0) || (S0 == SSL_HS_TLS_1_3_WAIT_EOED && gh.hskeys == 1 && g_in.rc_hskeys >= 0))) \
    P(C18_cursor_only_moves_forward_inside_record, __CPROVER_same_object(g_cur, g_buf) && ADV >= 0 && ADV <= (long) g_in.len) \
    P(C18_success_consumes_a_message,      IMPLIES(RET >= 0, ADV >= 4 || (gh.frag_at_entry && g_ssl.fragMessage == NULL && ADV >= 1))) \
    P(C18_partial_consumes_rest_and_changes_nothing, IMPLIES(RET == SSL_PARTIAL, ADV == (long) g_in.len && g_ssl.flags == gh.flags_at_entry && S1 == S0 && gh.parsers == 0)) \
    P(C19_alloc_failure_is_internal_error, IMPLIES(RET == PS_MEM_FAIL && gh.parsers == 0 && gh.ch_calls == 0, g_ssl.err == SSL_ALERT_INTERNAL_ERROR && S1 == S0))

static int32_t tls13ParseHandshakeMessage(ssl_t *ssl, unsigned char **bufStart, unsigned char *bufEnd)
__CPROVER_requires(ssl == &g_ssl && bufStart == &g_cur && g_cur == g_buf && bufEnd == g_buf + g_in.len && g_in.len >= 1 && g_in.len <= BUFN)
__CPROVER_requires(gh.parsers == 0 && gh.ch_calls == 0 && gh.sh == 0 && gh.ee == 0 && gh.cr == 0 && gh.cert == 0 && gh.cv == 0 && gh.fin == 0 && gh.nst == 0 && \
                   gh.neg == 0 && gh.hskeys_c == 0 && gh.hskeys == 0 && gh.appkeys == 0 && gh.clear == 0 && gh.parser_type == 0xff)
__CPROVER_requires(gh.state_at_entry == g_ssl.hsState && gh.flags_at_entry == g_ssl.flags && gh.frag_at_entry == (g_ssl.fragMessage != NULL))
POSTS(ENSURES_CLAUSE)
CANARY_CLAUSE(g_ssl.hsState != SSL_HS_DONE || gh.state_at_entry == SSL_HS_DONE)
__CPROVER_assigns(g_cur, gh, __CPROVER_object_whole(&g_ssl); g_ssl.fragMessage != NULL: __CPROVER_object_whole(g_ssl.fragMessage))
__CPROVER_frees(g_ssl.fragMessage)
;

#include "core/src/psbuf.c"
#include "matrixssl/tls13Decode.c"

#ifndef NATIVE_REPLAY
struct inputs nondet_in(void);
#endif

HARNESS_BEGIN
    HARNESS_INPUTS(struct inputs, in);
    unsigned i;
    g_in = in;
    g_ssl.flags = in.flags;
    g_ssl.hsState = in.hsState;
    g_ssl.err = SSL_ALERT_NONE;
    g_ssl.activeVersion = v_tls_1_3 | v_tls_negotiated;
    g_ssl.sec.tls13UsingPsk = in.usingPsk ? PS_TRUE : PS_FALSE;
    g_ssl.tls13IncorrectDheKeyShare = in.incorrectDhe ? PS_TRUE : PS_FALSE;
    g_ssl.sec.tls13BindersLen = in.bindersLen;
    g_ssl.keys = &g_keys;
    g_keys.sessTickets = in.hasTickets ? (psSessionTicketKeys_t *) &g_keys : NULL;   /* only tested against NULL */
    __CPROVER_assume(in.len >= 1 && in.len <= BUFN);
    for (i = 0; i < BUFN; i++) { g_buf[i] = in.buf[i]; }
    g_cur = g_buf;
    /* reassembly state: either nothing pending, or a well-formed pending fragment buffer
       (invariant established by tls13FragMessageReadInit, see below) */
    g_ssl.fragMessage = NULL;
    g_ssl.fragTotal = 0;
    g_ssl.fragIndex = 0;
    if (in.fragPending)
    {
        /* tls13FragMessageReadInit runs only after the 4-byte handshake header was parsed from the
           first fragment and copies it: the buffer starts with that header and its length field is
           what fragTotal was computed from */
        __CPROVER_assume(in.fragTotal >= 5 && in.fragTotal <= FRAGMAX && in.fragIndex >= 4 && in.fragIndex < in.fragTotal);
        g_ssl.fragMessage = malloc(in.fragTotal);
        __CPROVER_assume(g_ssl.fragMessage != NULL);
        __CPROVER_assume(g_ssl.fragMessage[1] == 0 && g_ssl.fragMessage[2] == 0 && g_ssl.fragMessage[3] == (unsigned char) (in.fragTotal - 4));
        g_ssl.fragTotal = in.fragTotal;
        g_ssl.fragIndex = in.fragIndex;
    }
    Memset(&gh, 0, sizeof(gh));
    gh.parser_type = 0xff;
    gh.state_at_entry = g_ssl.hsState;
    gh.flags_at_entry = g_ssl.flags;
    gh.frag_at_entry = (g_ssl.fragMessage != NULL);
    tls13ParseHandshakeMessage(&g_ssl, &g_cur, g_buf + in.len);
HARNESS_END
