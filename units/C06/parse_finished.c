/*@UNIT
{
  "property": "C06",
  "properties": ["C08"],
  "unit": "parse_finished",
  "function": "parseFinished",
  "source": "matrixssl/hsDecode.c",
  "assumed": ["memcmpct (model: zero iff the two regions are equal)", "sslFreeHSHash, psX509FreeCert, dtlsInitFrag-style cleanup helpers (models: no effect on the fields of the clauses)"],
  "mode": "proof",
  "why_proof": "loop-free apart from the 12..36-byte comparison (fully unwound); role, flags, version and message fully symbolic",
  "unwind": 40,
  "native_replay": false,
  "object_bits": 10,
  "timeout": 300
}
@*/
/* C06  "no step skipped": the TLS <= 1.2 Finished message is accepted only after the peer's
 * ChangeCipherSpec (READ_SECURE set by the record layer), only with the exact length of verify_data
 * and only if its bytes equal the expected transcript value computed by the caller; acceptance
 * moves the session to DONE and consumes exactly the message.  Everything else is a fatal alert
 * and leaves the state where it was.
 * C08  reads only inside the message. */
#include "verif.h"
#include "matrixssl/matrixsslImpl.h"

#define BUFN 40
struct __attribute__((packed)) inputs { uint32_t flags, bflags, activeVersion; int32_t hsLen; uint32_t len; uint8_t k; unsigned char buf[BUFN]; unsigned char hash[SHA384_HASH_SIZE]; };
static struct inputs g_in;
static ssl_t g_ssl;
static sslSessionId_t g_sid;
static unsigned char g_buf[BUFN], g_hash[SHA384_HASH_SIZE];
static unsigned char *g_cur;

int32 memcmpct(const void *s1, const void *s2, size_t len) { return memcmp(s1, s2, len) != 0; }
void sslFreeHSHash(ssl_t *ssl) { }
void psX509FreeCert(psX509Cert_t *cert) { }

#define OK (RET == PS_SUCCESS || RET == SSL_PROCESS_DATA)
#define WANT ((g_in.activeVersion & v_ssl_3_0) && (g_in.activeVersion & v_tls_negotiated) ? (MD5_HASH_SIZE + SHA1_HASH_SIZE) : TLS_HS_FINISHED_SIZE)
#define GK (g_in.k < TLS_HS_FINISHED_SIZE ? g_in.k : 0)
#define POSTS(P) \
    P(verdict_is_accept_or_fatal,           OK || RET == MATRIXSSL_ERROR) \
    P(finished_only_after_change_cipher_spec, IMPLIES(OK, (g_in.flags & SSL_FLAGS_READ_SECURE) != 0)) \
    P(finished_has_exact_length,            IMPLIES(OK, g_in.hsLen == WANT && g_in.len >= (uint32_t) g_in.hsLen)) \
    P(finished_equals_expected_verify_data, IMPLIES(OK, g_in.buf[GK] == g_in.hash[GK])) \
    P(accept_moves_to_done_and_consumes_message, IMPLIES(OK, g_ssl.hsState == SSL_HS_DONE && __CPROVER_same_object(g_cur, g_buf) && __CPROVER_POINTER_OFFSET(g_cur) == (size_t) g_in.hsLen)) \
    P(refusal_is_an_alert_and_keeps_state,  IMPLIES(!OK, g_ssl.err != SSL_ALERT_NONE && g_ssl.hsState == SSL_HS_FINISHED && g_cur == g_buf)) \
    P(full_handshake_server_and_resumed_client_answer, IMPLIES(OK, (RET == SSL_PROCESS_DATA) == (((g_in.flags & SSL_FLAGS_SERVER) != 0) != ((g_in.flags & SSL_FLAGS_RESUMED) != 0))))

int32 parseFinished(ssl_t *ssl, int32 hsLen, unsigned char hsMsgHash[SHA384_HASH_SIZE], unsigned char **cp, unsigned char *end)
__CPROVER_requires(ssl == &g_ssl && hsLen == g_in.hsLen && hsMsgHash == g_hash && cp == &g_cur && g_cur == g_buf && end == g_buf + g_in.len && g_in.len <= BUFN)
__CPROVER_requires(hsLen >= 0 && hsLen <= SHA384_HASH_SIZE)     /* psAssert(hsLen <= SHA384_HASH_SIZE): parseSSLHandshake bounds hsLen by the record it came in; see unit tls12_hs_dispatch */
POSTS(ENSURES_CLAUSE)
CANARY_CLAUSE(__CPROVER_return_value == MATRIXSSL_ERROR)
__CPROVER_assigns(g_cur, __CPROVER_object_whole(&g_ssl), g_sid.sessionTicketState)
;

#include "matrixssl/hsNegotiateVersion.c"
#include "matrixssl/hsDecode.c"

#ifndef NATIVE_REPLAY
struct inputs nondet_in(void);
#endif

HARNESS_BEGIN
    HARNESS_INPUTS(struct inputs, in);
    g_in = in;
    __CPROVER_assume(in.len <= BUFN && in.hsLen >= 0 && in.hsLen <= SHA384_HASH_SIZE);
    g_ssl.flags = in.flags;
    g_ssl.bFlags = in.bflags | BFLAG_KEEP_PEER_CERTS;
    g_ssl.activeVersion = in.activeVersion & ~v_dtls_any;
    g_in.activeVersion = g_ssl.activeVersion;
    g_ssl.hsState = SSL_HS_FINISHED;
    g_ssl.err = SSL_ALERT_NONE;
    g_ssl.sid = &g_sid;
    g_ssl.sec.cert = NULL;
    /* handshake leftovers the function releases: none pending (free() of an arbitrary pointer is not what this unit is about) */
    g_ssl.sec.premaster = NULL; g_ssl.ckeMsg = NULL; g_ssl.certVerifyMsg = NULL; g_ssl.fragMessage = NULL; g_ssl.hsPool = NULL; g_ssl.sec.hint = NULL;
    Memcpy(g_buf, in.buf, BUFN);
    Memcpy(g_hash, in.hash, SHA384_HASH_SIZE);
    g_cur = g_buf;
    parseFinished(&g_ssl, in.hsLen, g_hash, &g_cur, g_buf + in.len);
HARNESS_END
