/*@UNIT
{
  "property": "C06",
  "properties": ["C08", "C18", "C19"],
  "unit": "tls12_hs_dispatch",
  "function": "parseSSLHandshake",
  "source": "matrixssl/sslDecode.c",
  "assumed": ["parseClientHello, parseClientKeyExchange, parseFinished, parseServerHello, parseCertificate, parseCertificateStatus, parseServerHelloDone, parseCertificateRequest, parseCertificateVerify, parseServerKeyExchange (hsDecode.c; models: verdict, cursor advance inside the message and successor state chosen by the input; every call recorded with the state it was made in) - parseCertificate, parseCertificateVerify have enforced contracts in C04",
              "sslInitHSHash, sslUpdateHSHash, sslSnapshotHSHash, sslResetContext, tls13TranscriptHashUpdate (models: verdict from the input; sslUpdateHSHash demands a readable range)"],
  "mode": "bounded",
  "plain": true,
  "frame_check": "none: harness-checked contract (VERIF_PLAIN_CONTRACT in verif.h; DESIGN 9.2) - under goto-instrument's frame instrumentation this unit ran out of memory. The assigns clause below is documentation only.",
  "bounds": "TLS (not DTLS) record payload of every length <= N (N=12), every content, with and without a pending reassembly buffer (12 bytes, any fill level); enumerated entry states (role x hsState: 4 quick, 20 thorough; the cases with a pending reassembly buffer are thorough only - quick covers reassembly in C08/tls12_hs_reassembly); at most 2 handshake messages per record (one of them may be the completion of the pending fragment) (goto parseHandshake loop unwound with unwinding assertion); allocations may fail",
  "cases_file": "common/tls12_hs_cases.json",
  "unwind": 16,
  "unwindset": ["parseSSLHandshake.0:4"],
  "malloc_may_fail": true,
  "native_replay": false,
  "object_bits": 10,
  "timeout": 900,
  "timeout_thorough": 3000,
  "weight_gb": 4
}
@*/
/* C06.U5  TLS <= 1.2 handshake dispatch: a message of type t is handed to its parser only if the
 * session expects it (hsState == t), or by one of the exceptions the protocol allows:
 *   CertificateRequest while waiting for ServerHelloDone, HelloRequest on a finished client,
 *   NewSessionTicket while waiting for Finished after the server announced one,
 *   ServerHelloDone instead of ServerKeyExchange for a PSK suite without DHE,
 *   ServerKeyExchange / ServerHelloDone instead of an optional CertificateStatus,
 *   a re-handshake ClientHello on a finished server (refused when re-handshakes are compiled out).
 * Everything else is unexpected_message and reaches no parser.
 * C08 / C18 / C19  reassembly of a handshake message split over records: every byte is written
 * inside the reassembly buffer (an allocation of exactly fragTotal bytes), fragIndex never passes
 * fragTotal, the parser sees exactly the reassembled message, parsing resumes behind the fragment;
 * an allocation failure is an internal_error alert. */
#define VERIF_PLAIN_CONTRACT
#include "verif.h"
#include "matrixssl/matrixsslImpl.h"

#ifndef BUFN
# define BUFN 12
#endif
#define FRAGTOT 12     /* size of the pending reassembly buffer when there is one (a constant: symbolic allocation sizes are too costly) */
#define NCALLS 3

struct __attribute__((packed)) inputs
{
    uint32_t flags;
    uint32_t len;
    uint8_t fragPending; uint32_t fragTotal, fragIndex;
    uint8_t hasSid, ticketState;
    int32_t rc[NCALLS]; uint32_t adv[NCALLS]; uint8_t next[NCALLS];
    int32_t snap_rc;
    unsigned char buf[BUFN];
};
static struct inputs g_in;
static ssl_t g_ssl;
static sslSessionId_t g_sid;
static unsigned char g_buf[BUFN];   /* the record payload: the first len bytes (static array: a symbolic-size allocation made the SAT instance explode) */
static struct { int calls; uint8_t type[NCALLS]; uint8_t state_at[NCALLS]; uint8_t entry_state; uint32_t entry_flags;
                const unsigned char *msg_start[NCALLS]; const unsigned char *msg_end[NCALLS]; int hash_updates; int reset; } gh;

/* one model for all message parsers: records the call, moves the cursor inside [*cp, end], picks the successor state */
static int32 parser_model(ssl_t *ssl, uint8_t type, unsigned char **cp, unsigned char *end)
{
    int i = gh.calls;
    int32 rc = 0;
    if (i < NCALLS)
    {
        gh.type[i] = type; gh.state_at[i] = ssl->hsState; gh.msg_start[i] = *cp; gh.msg_end[i] = end;
        rc = g_in.rc[i];
        if ((unsigned long) (end - *cp) >= g_in.adv[i]) { *cp += g_in.adv[i]; }
        /* successor state: any, except HELLO_VERIFY_REQUEST and NEW_SESSION_TICKET, which no parser of hsDecode.c assigns (static fact:
           grep 'hsState = ' hsDecode.c; the first is set only by the DTLS arm of parseSSLHandshake, the second only by its own admission
           test, which demands ssl->sid != NULL) */
        if ((rc >= 0 || rc == SSL_PROCESS_DATA) && g_in.next[i] != SSL_HS_HELLO_VERIFY_REQUEST && g_in.next[i] != SSL_HS_NEW_SESSION_TICKET) { ssl->hsState = g_in.next[i]; }
        else if (rc > -1 || rc < -49) { rc = MATRIXSSL_ERROR; }
    }
    gh.calls++;
    return rc;
}
int32 parseClientHello(ssl_t *ssl, unsigned char **cp, unsigned char *end) { return parser_model(ssl, SSL_HS_CLIENT_HELLO, cp, end); }
int32 parseClientKeyExchange(ssl_t *ssl, int32 hsLen, unsigned char **cp, unsigned char *end) { return parser_model(ssl, SSL_HS_CLIENT_KEY_EXCHANGE, cp, end); }
int32 parseFinished(ssl_t *ssl, int32 hsLen, unsigned char hsMsgHash[SHA384_HASH_SIZE], unsigned char **cp, unsigned char *end) { return parser_model(ssl, SSL_HS_FINISHED, cp, end); }
int32 parseServerHello(ssl_t *ssl, int32 hsLen, unsigned char **cp, unsigned char *end) { return parser_model(ssl, SSL_HS_SERVER_HELLO, cp, end); }
int32 parseCertificate(ssl_t *ssl, unsigned char **cp, unsigned char *end) { return parser_model(ssl, SSL_HS_CERTIFICATE, cp, end); }
int32 parseCertificateStatus(ssl_t *ssl, int32 hsLen, unsigned char **cp, unsigned char *end) { return parser_model(ssl, SSL_HS_CERTIFICATE_STATUS, cp, end); }
int32 parseServerHelloDone(ssl_t *ssl, int32 hsLen, unsigned char **cp, unsigned char *end) { return parser_model(ssl, SSL_HS_SERVER_HELLO_DONE, cp, end); }
int32 parseCertificateRequest(ssl_t *ssl, int32 hsLen, unsigned char **cp, unsigned char *end) { return parser_model(ssl, SSL_HS_CERTIFICATE_REQUEST, cp, end); }
int32 parseCertificateVerify(ssl_t *ssl, unsigned char hsMsgHash[SHA512_HASH_SIZE], unsigned char **cp, unsigned char *end) { return parser_model(ssl, SSL_HS_CERTIFICATE_VERIFY, cp, end); }
int32 parseServerKeyExchange(ssl_t *ssl, unsigned char hsMsgHash[SHA384_HASH_SIZE], unsigned char **cp, unsigned char *end) { return parser_model(ssl, SSL_HS_SERVER_KEY_EXCHANGE, cp, end); }

int32 sslInitHSHash(ssl_t *ssl) { return 0; }
int32_t sslUpdateHSHash(ssl_t *ssl, const unsigned char *in, psSize_t len)
{
    /* the transcript update reads in[0 .. len) */
    if (len > 0) { __CPROVER_assert(__CPROVER_r_ok(in, len), "C08_transcript_update_reads_inside_the_message"); }
    gh.hash_updates++;
    return 0;
}
int32 sslSnapshotHSHash(ssl_t *ssl, unsigned char *out, psBool_t senderFlag, psBool_t isFinishedHash) { return g_in.snap_rc <= 0 ? -1 : 32; }
void sslResetContext(ssl_t *ssl) { gh.reset++; }
void psBurnStack(uint32 len) { }
int32 memcmpct(const void *s1, const void *s2, size_t len) { return memcmp(s1, s2, len) != 0; }
int32_t tls13TranscriptHashUpdate(ssl_t *ssl, const unsigned char *in, psSize_t len) { return 0; }

#define SRV ((gh.entry_flags & SSL_FLAGS_SERVER) != 0)
/* the dispatch relation: parser of type t may run in state s (s = state when the parser was entered; the
   exception arms have already moved hsState to t by then, so s == t is what the code must have established) */
#define EXPECTED(i) (gh.state_at[i] == gh.type[i])
/* first message only: how may the entry state differ from the type that was finally dispatched */
#define FIRST_OK ( gh.type[0] == gh.entry_state \
    || (gh.type[0] == SSL_HS_CERTIFICATE_REQUEST && gh.entry_state == SSL_HS_SERVER_HELLO_DONE) \
    || (gh.type[0] == SSL_HS_SERVER_HELLO_DONE && gh.entry_state == SSL_HS_SERVER_KEY_EXCHANGE && (gh.entry_flags & SSL_FLAGS_PSK_CIPHER) && !(gh.entry_flags & SSL_FLAGS_DHE_KEY_EXCH)) \
    || ((gh.type[0] == SSL_HS_SERVER_HELLO_DONE || (gh.type[0] == SSL_HS_SERVER_KEY_EXCHANGE && (gh.entry_flags & SSL_FLAGS_DHE_KEY_EXCH))) && gh.entry_state == SSL_HS_CERTIFICATE_STATUS) )
#define POSTS(P) \
    P(C06_parser_runs_only_in_its_own_state,     IMPLIES(gh.calls >= 1, EXPECTED(0)) && IMPLIES(gh.calls >= 2, EXPECTED(1)) && IMPLIES(gh.calls >= 3, EXPECTED(2))) \
    P(C06_first_message_is_expected_or_an_allowed_exception, IMPLIES(gh.calls >= 1 && !g_in.fragPending, FIRST_OK)) \
    P(C06_client_parsers_never_run_on_a_server,  IMPLIES(gh.calls >= 1 && SRV, gh.type[0] != SSL_HS_SERVER_HELLO && gh.type[0] != SSL_HS_SERVER_KEY_EXCHANGE && gh.type[0] != SSL_HS_SERVER_HELLO_DONE && gh.type[0] != SSL_HS_CERTIFICATE_REQUEST)) \
    P(C06_unexpected_message_reaches_no_parser,  IMPLIES(g_ssl.err == SSL_ALERT_UNEXPECTED_MESSAGE && gh.calls == 0, RET == MATRIXSSL_ERROR)) \
    P(C06_rehandshake_is_refused_when_compiled_out, IMPLIES(gh.entry_state == SSL_HS_DONE && !g_in.fragPending, gh.calls == 0)) \
    P(C18_fragment_index_stays_inside_the_buffer, g_ssl.fragMessage == NULL || g_ssl.fragIndex <= g_ssl.fragTotal) \
    P(C18_pending_buffer_is_exactly_frag_total,   g_ssl.fragMessage == NULL || __CPROVER_OBJECT_SIZE(g_ssl.fragMessage) == g_ssl.fragTotal) \
    P(C18_incomplete_fragment_is_success_without_parsing, IMPLIES(g_in.fragPending && g_in.fragIndex + g_in.len < g_in.fragTotal, RET == MATRIXSSL_SUCCESS && gh.calls == 0 && g_ssl.fragIndex == g_in.fragIndex + g_in.len)) \
    P(C18_reassembled_message_is_parsed_from_the_buffer, IMPLIES(g_in.fragPending && g_in.fragIndex + g_in.len >= g_in.fragTotal && gh.calls >= 1 && gh.state_at[0] == gh.entry_state /* the first parser call is the one for the reassembled message (NewSessionTicket and HelloRequest are handled inline, without a parser) */, \
          __CPROVER_same_object(gh.msg_start[0], g_ssl.fragMessage) && __CPROVER_POINTER_OFFSET(gh.msg_start[0]) == 4 && __CPROVER_POINTER_OFFSET(gh.msg_end[0]) == g_in.fragTotal)) \
    P(C19_alloc_failure_is_internal_error,        IMPLIES(RET == MATRIXSSL_ERROR && g_ssl.err == SSL_ALERT_INTERNAL_ERROR && gh.calls == 0 && !g_in.fragPending, g_ssl.fragMessage == NULL || g_in.snap_rc <= 0))

static int32 parseSSLHandshake(ssl_t *ssl, char *inbuf, uint32 len)
__CPROVER_requires(ssl == &g_ssl && inbuf == (char *) g_buf && len == g_in.len && len >= 1 && len <= BUFN && gh.calls == 0)
POSTS(ENSURES_CLAUSE)
CANARY_CLAUSE(gh.calls == 0)
__CPROVER_assigns(gh, __CPROVER_object_whole(&g_ssl), g_sid.sessionTicketState, g_sid.sessionTicketLen, g_sid.sessionTicket, g_sid.sessionTicketLifetimeHint;
                  g_ssl.fragMessage != NULL: __CPROVER_object_whole(g_ssl.fragMessage))
__CPROVER_frees(g_ssl.fragMessage, g_sid.sessionTicket)
;

#include "matrixssl/hsNegotiateVersion.c"
#include "matrixssl/dtls.c"
#include "matrixssl/sslDecode.c"

#ifndef NATIVE_REPLAY
struct inputs nondet_in(void);
#endif

ssl_t nondet_ssl(void);
HARNESS_BEGIN
    HARNESS_INPUTS(struct inputs, in);
    unsigned i;
    g_ssl = nondet_ssl();     /* every field the harness does not set below is arbitrary (what DFCC does to statics) */
    g_in = in;
    g_in.fragPending = in.fragPending = MODE_FRAG;   /* mode enumeration: with / without a pending reassembly buffer */
    Memset(&gh, 0, sizeof(gh));
    /* mode: TLS 1.2, role and entry state are constants of the case */
    g_ssl.activeVersion = v_tls_1_2 | v_tls_negotiated;
    g_ssl.rec.majVer = 3; g_ssl.rec.minVer = 3;
    g_ssl.hshakeHeadLen = 4; g_ssl.recordHeadLen = 5;
    g_ssl.hsState = MODE_HSSTATE;
    g_ssl.flags = MODE_SERVER ? (in.flags | SSL_FLAGS_SERVER) : (in.flags & ~SSL_FLAGS_SERVER);
    g_ssl.err = SSL_ALERT_NONE;
    /* a TLS (not DTLS) session never stores a HelloVerifyRequest cookie (zeroed at creation, only the DTLS arm writes it) */
    g_ssl.haveCookie = 0; g_ssl.cookie = NULL; g_ssl.cookieLen = 0;
    g_ssl.hsPool = NULL;
    g_sid.sessionTicket = NULL; g_sid.sessionTicketLen = 0; g_sid.pool = NULL;
    g_sid.sessionTicketState = in.ticketState;
    g_ssl.sid = in.hasSid ? &g_sid : NULL;
    /* state NEW_SESSION_TICKET is entered only through the admission test of parseSSLHandshake (client, state FINISHED, ssl->sid != NULL,
       ticket state RECVD_EXT); a reassembly that started there is still in it */
    if (MODE_HSSTATE == SSL_HS_NEW_SESSION_TICKET) { __CPROVER_assume(in.hasSid && in.ticketState == SESS_TICKET_STATE_RECVD_EXT); }
    __CPROVER_assume(in.len >= 1 && in.len <= BUFN);
    for (i = 0; i < BUFN; i++) { g_buf[i] = in.buf[i]; }
    /* reassembly state: nothing pending, or the invariant established when the first fragment was stored:
       buffer of exactly fragTotal bytes, header (4 bytes) + part of the body already there */
    g_ssl.fragMessage = NULL; g_ssl.fragTotal = 0; g_ssl.fragIndex = 0;
    if (in.fragPending)
    {
        g_in.fragTotal = in.fragTotal = FRAGTOT;
        __CPROVER_assume(in.fragIndex >= 4 && in.fragIndex < FRAGTOT);
        g_ssl.fragMessage = malloc(FRAGTOT);
        __CPROVER_assume(g_ssl.fragMessage != NULL);
        g_ssl.fragTotal = in.fragTotal; g_ssl.fragIndex = in.fragIndex;
    }
    gh.entry_state = g_ssl.hsState;
    gh.entry_flags = g_ssl.flags;
    {
        int32 vr_ret = parseSSLHandshake(&g_ssl, (char *) g_buf, in.len);
        POSTS(NATIVE_CHECK)
#ifdef CANARY
        PLAIN_ASSERT(CANARY, gh.calls == 0 && vr_ret == MATRIXSSL_ERROR && (g_ssl.err == SSL_ALERT_UNEXPECTED_MESSAGE || g_ssl.err == SSL_ALERT_NO_RENEGOTIATION))   /* must fail: every entry state has a path that ends otherwise (a parser call, an incomplete fragment, a decode error) */
#endif
    }
HARNESS_END
