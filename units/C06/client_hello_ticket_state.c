/*@UNIT
{
  "property": "C06",
  "properties": ["C14", "C08", "C19"],
  "unit": "client_hello_ticket_state",
  "function": "matrixSslEncodeClientHello",
  "source": "matrixssl/sslEncode.c",
  "keep_bodies": ["psEncodeVersionMaj", "psEncodeVersionMin", "psVerGetHighestTls (hsNegotiateVersion.c)"],
  "replace": [],
  "plain": true,
  "frame_check": "none: harness-checked contract (VERIF_PLAIN_CONTRACT, DESIGN 9.2): under goto-instrument's frame instrumentation the unit timed out (600 s)",
  "replace_calls": ["writeRecordHeader:model_writeRecordHeader", "encryptRecord:model_encryptRecord", "sslGetCipherSpec:model_sslGetCipherSpec"],
  "assumed": ["writeRecordHeader (model body, calls redirected with goto-instrument --replace-calls: SSL_FULL unless the message fits; on success the cursor stands behind record + handshake header)",
              "encryptRecord (model body: any verdict; cursor stays in the buffer)",
              "sslGetCipherSpec (model body: the suite table entry or NULL)", "sslGetCipherSpecListLen, sslGetCipherSpecList (models)",
              "sslInitHSHash, psAddUserExtToSession, psGetTime (no-op models)", "psGetPrngLocked (model: fills or fails)",
              "eccSuitesSupported (model: 0 - the elliptic-curve extensions are not part of this unit)"],
  "mode": "bounded",
  "bounds": "mode: TLS 1.2 client in state SERVER_HELLO, one explicit cipher suite, no user extensions, first ClientHello (no renegotiation data), <= 4 signature algorithms; session id length / stored ticket length / bytes already queued in the output buffer enumerated as cases (32/8/0, 0/0/0, 0/16/40), every ticket state, every option combination of ticketResumption / truncHmac / extendedMasterSecret / OCSPstapling / maxFragLen; output buffer 256 bytes; allocations may fail",
  "unwind": 40,
  "cases": [{"name": "sid32_ticket8", "defs": ["MODE_SIDLEN=32", "MODE_TICKETLEN=8", "MODE_OUTUSED=0"]},
            {"name": "sid0_ticket0", "defs": ["MODE_SIDLEN=0", "MODE_TICKETLEN=0", "MODE_OUTUSED=0"]},
            {"name": "sid0_ticket16_queued", "defs": ["MODE_SIDLEN=0", "MODE_TICKETLEN=16", "MODE_OUTUSED=40"]}],
  "malloc_may_fail": true,
  "native_replay": false,
  "object_bits": 10,
  "timeout": 300,
  "weight_gb": 4
}
@*/
/* C06 / C14  the client's session-ticket state after encoding a ClientHello says what was sent:
 *   SESS_TICKET_STATE_SENT_TICKET  iff  a NON-EMPTY ticket that was marked USING went on the wire,
 *   SESS_TICKET_STATE_SENT_EMPTY   iff  only the empty SessionTicket extension went on the wire.
 * This is the invariant parseServerHello relies on when it decides - on SENT_TICKET alone - that a
 * ChangeCipherSpec directly after ServerHello may start an abbreviated handshake ("ticket limbo"):
 * if an empty offer were recorded as SENT_TICKET, a handshake without Certificate and key exchange
 * would complete from a master secret the client never had.
 * C08 / C19  the encoder writes only inside the output buffer, the announced sizes fit what is
 * written, and a failed allocation does not crash it. */
#define VERIF_PLAIN_CONTRACT
#include "verif.h"
#include "matrixssl/matrixsslImpl.h"

#define OUTSZ 256
#define TMAX 16
struct __attribute__((packed)) inputs
{
    uint32_t flags;
    uint8_t sessionIdLen;
    uint8_t hasSid, ticketLen, ticketState;
    int16_t ticketResumption, truncHmac, extendedMasterSecret, ocsp;
    int32_t maxFragLen;
    uint8_t nSigAlgs;
    uint8_t cipherKnown;
    int32_t hdr_rc, enc_rc, prng_rc;
    uint32_t outUsed;
};
static struct inputs g_in;
static ssl_t g_ssl;
static sslSessionId_t g_sid;
static sslSessOpts_t g_opts;
static sslCipherSpec_t g_cipher;
static sslBuf_t g_out;
static unsigned char g_outbuf[OUTSZ];
static unsigned char g_ticket[TMAX];
static psCipher16_t g_specs[1];
static uint32 g_reqLen;
static struct { int hdr, enc; unsigned msgSize; unsigned char *c_after_hdr; unsigned char *c_at_encrypt; } gh;

int32 sslInitHSHash(ssl_t *ssl) { return 0; }
void psAddUserExtToSession(ssl_t *ssl, const tlsExtension_t *ext) { }
int32_t eccSuitesSupported(const ssl_t *ssl, const psCipher16_t cipherSpecs[], uint8_t cipherSpecLen) { return 0; }
int32_t sslGetCipherSpecListLen(const ssl_t *ssl) { return 4; }
int32_t sslGetCipherSpecList(ssl_t *ssl, unsigned char *c, int32 len, int32 addScsv) { return 0; }
int32_t psGetPrngLocked(unsigned char *bytes, psSize_t size, void *userPtr)
{
    if (g_in.prng_rc < 0) { return PS_FAILURE; }
    return size;
}
int32 psGetTime(psTime_t *t, void *userPtr) { return 1000; }

const sslCipherSpec_t *model_sslGetCipherSpec(const ssl_t *ssl, uint16_t id)
{
    return g_in.cipherKnown ? &g_cipher : NULL;
}
/* the real function answers SSL_FULL when end - *c < *messageSize; otherwise it writes the 5 + 4 header bytes */
int32_t model_writeRecordHeader(ssl_t *ssl, uint8_t type, uint8_t hsType, psSize_t *messageSize, uint8_t *padLen,
    unsigned char **encryptStart, const unsigned char *end, unsigned char **c)
{
    gh.hdr++;
    gh.msgSize = *messageSize;
    if ((unsigned long) (end - *c) < *messageSize || g_in.hdr_rc != 0) { return SSL_FULL; }
    *encryptStart = *c + 5;
    *c += 9;
    gh.c_after_hdr = *c;
    *padLen = 0;
    return PS_SUCCESS;
}
int32 model_encryptRecord(ssl_t *ssl, int32 type, int32 hsMsgType, int32 messageSize, int32 padLen, unsigned char *pt, sslBuf_t *out, unsigned char **c)
{
    gh.enc++;
    gh.c_at_encrypt = *c;
    return g_in.enc_rc;
}

#define SID_USED (g_in.hasSid && g_in.ticketResumption == 1)
#define REAL_TICKET (g_in.ticketLen > 0 && g_in.ticketState == SESS_TICKET_STATE_USING_TICKET)
#define REACHED_EXTENSIONS (gh.enc == 1)
#define POSTS(P) \
    P(C06_sent_ticket_state_means_a_real_ticket_went_out,  IMPLIES(g_in.hasSid && g_sid.sessionTicketState == SESS_TICKET_STATE_SENT_TICKET && g_in.ticketState != SESS_TICKET_STATE_SENT_TICKET, SID_USED && REAL_TICKET && REACHED_EXTENSIONS)) \
    P(C06_empty_offer_is_recorded_as_sent_empty,           IMPLIES(REACHED_EXTENSIONS && SID_USED && !REAL_TICKET, g_sid.sessionTicketState == SESS_TICKET_STATE_SENT_EMPTY)) \
    P(C06_real_offer_is_recorded_as_sent_ticket,           IMPLIES(REACHED_EXTENSIONS && SID_USED && REAL_TICKET, g_sid.sessionTicketState == SESS_TICKET_STATE_SENT_TICKET)) \
    P(C14_ticket_state_untouched_without_offer,            IMPLIES(g_in.hasSid && !(REACHED_EXTENSIONS && SID_USED), g_sid.sessionTicketState == g_in.ticketState)) \
    P(C08_written_bytes_equal_announced_size,              IMPLIES(REACHED_EXTENSIONS, __CPROVER_same_object(gh.c_at_encrypt, g_outbuf) && \
                                                                   (unsigned long) (gh.c_at_encrypt - (gh.c_after_hdr - 9)) == gh.msgSize)) \
    P(C08_success_advances_output_inside_buffer,           IMPLIES(RET == MATRIXSSL_SUCCESS, __CPROVER_same_object(g_out.end, g_outbuf) && __CPROVER_POINTER_OFFSET(g_out.end) <= OUTSZ)) \
    P(C08_full_buffer_reports_required_size,               IMPLIES(RET == SSL_FULL && gh.enc == 0, g_reqLen == gh.msgSize))

int32_t matrixSslEncodeClientHello(ssl_t *ssl, sslBuf_t *out, const psCipher16_t cipherSpecs[], uint8_t cipherSpecLen,
    uint32 *requiredLen, tlsExtension_t *userExt, sslSessOpts_t *options)
__CPROVER_requires(ssl == &g_ssl && out == &g_out && cipherSpecs == g_specs && cipherSpecLen == 1 && requiredLen == &g_reqLen && userExt == NULL && options == &g_opts)
__CPROVER_requires(gh.hdr == 0 && gh.enc == 0)
POSTS(ENSURES_CLAUSE)
CANARY_CLAUSE(__CPROVER_return_value != MATRIXSSL_SUCCESS || g_sid.sessionTicketState != SESS_TICKET_STATE_SENT_TICKET)
__CPROVER_assigns(gh, g_reqLen, g_out.end, __CPROVER_object_whole(g_outbuf), __CPROVER_object_whole(&g_ssl), g_sid.sessionTicketState)
;

#include "matrixssl/hsNegotiateVersion.c"
#include "matrixssl/sslEncode.c"

#ifndef NATIVE_REPLAY
struct inputs nondet_in(void);
#endif

ssl_t nondet_ssl(void);
HARNESS_BEGIN
    HARNESS_INPUTS(struct inputs, in);
    unsigned i;
    g_ssl = nondet_ssl();     /* every field not set below is arbitrary */
    g_in = in;
    Memset(&gh, 0, sizeof(gh));
    /* mode (see "bounds") */
    g_ssl.activeVersion = v_tls_1_2;
    g_ssl.supportedVersions = v_tls_1_2;
    g_ssl.flags = in.flags & ~(SSL_FLAGS_SERVER | SSL_FLAGS_ERROR | SSL_FLAGS_CLOSED);
    g_ssl.hsState = SSL_HS_SERVER_HELLO;
    g_ssl.recordHeadLen = 5;
    g_ssl.hshakeHeadLen = 4;
    g_ssl.hsPool = NULL;
    /* lengths that feed memcpy are constants of the case: a copy of symbolic length into the 256-byte
       output array made cbmc's array post-processing produce 198 M clauses */
    g_in.sessionIdLen = in.sessionIdLen = MODE_SIDLEN;
    g_in.ticketLen = in.ticketLen = MODE_TICKETLEN;
    g_in.outUsed = in.outUsed = MODE_OUTUSED;
    __CPROVER_assume(in.sessionIdLen <= SSL_MAX_SESSION_ID_SIZE && in.nSigAlgs <= 4);
    g_ssl.sessionIdLen = in.sessionIdLen;
    g_ssl.supportedSigAlgsLen = in.nSigAlgs;
    g_specs[0] = 0x009c;
    /* stored session (ticket <= TMAX bytes in a buffer of that capacity) */
    __CPROVER_assume(in.ticketLen <= TMAX);
    g_sid.sessionTicket = g_ticket;
    g_sid.sessionTicketLen = in.ticketLen;
    g_sid.sessionTicketState = in.ticketState;
    g_ssl.sid = in.hasSid ? &g_sid : NULL;
    /* options */
    Memset(&g_opts, 0, sizeof(g_opts));
    g_opts.ticketResumption = in.ticketResumption;
    g_opts.truncHmac = in.truncHmac;
    g_opts.extendedMasterSecret = in.extendedMasterSecret;
    g_opts.OCSPstapling = in.ocsp;
    g_opts.maxFragLen = in.maxFragLen;
    g_opts.fallbackScsv = 0;
    /* output buffer with some bytes already queued */
    __CPROVER_assume(in.outUsed <= OUTSZ);
    g_out.buf = g_out.start = g_outbuf;
    g_out.end = g_outbuf + in.outUsed;
    g_out.size = OUTSZ;
    for (i = 0; i < 4; i++) { g_ssl.supportedSigAlgs[i] = (uint16_t) (0x0401 + i); }
    {
        int32_t vr_ret = matrixSslEncodeClientHello(&g_ssl, &g_out, g_specs, 1, &g_reqLen, NULL, &g_opts);
        POSTS(NATIVE_CHECK)
#ifdef CANARY
        PLAIN_ASSERT(CANARY, vr_ret != MATRIXSSL_SUCCESS || g_sid.sessionTicketState != SESS_TICKET_STATE_SENT_TICKET)
#endif
    }
HARNESS_END
