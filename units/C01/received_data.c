/*@UNIT
{
 "property": "C01",
 "properties": [
  "C08",
  "C15",
  "C18",
  "C19"
 ],
 "unit": "received_data",
 "function": "matrixSslReceivedData",
 "source": "matrixssl/matrixsslApi.c",
 "keep_bodies": [
  "matrixSslHandshakeIsComplete",
  "revertToDefaultBufsize"
 ],
 "replace": [],
 "assumed": [
  "matrixSslDecode (model body with the effects the decoder units prove: documented verdicts, cursor inside the data it was given, lengths inside the buffer, *error < 0 with MATRIXSSL_ERROR; buffer contents are not modelled: no postcondition of this unit observes them; no growth request beyond the buffer size in this tier)",
  "matrixSslGetSessionId (model: no effect on the buffers)",
  "realloc (cbmc model; may fail)"
 ],
 "mode": "bounded",
 "bounds": "proof over the enumerated verdict sequences of the decoder calls made by one API call (8 single verdicts + SUCCESS followed by each of the 8 other verdicts; the sequence SUCCESS, SUCCESS, ... exhausts memory in SAT and is not covered; the function's sanity counter allows at most two decodes for <= 12 bytes), receive buffer of 16 bytes holding every amount of data <= 12; the DECODE_MORE loop is bounded by the function's own sanity counter (inlen/9 <= 2): unwound 5 with unwinding assertion; verdicts that loop back without consuming input (SSL_FULL regrow, DTLS_RETRANSMIT) are not covered",
 "unwind": 24,
 "unwindset": [
  "matrixSslReceivedData_wrapped_for_contract_checking.0:4"
 ],
 "malloc_may_fail": true,
 "native_replay": false,
 "object_bits": 10,
 "solver": "cadical",
 "timeout": 300,
 "mem_gb": 12,
 "weight_gb": 4,
 "cases": [
  {
   "name": "process_data",
   "defs": [
    "MODE_RC1=(SSL_PROCESS_DATA)",
    "MODE_RC2=1"
   ],
   "tier": "quick",
   "canary": true
  },
  {
   "name": "alert",
   "defs": [
    "MODE_RC1=(SSL_ALERT)",
    "MODE_RC2=1"
   ],
   "tier": "quick",
   "canary": false
  },
  {
   "name": "send_response",
   "defs": [
    "MODE_RC1=(SSL_SEND_RESPONSE)",
    "MODE_RC2=1"
   ],
   "tier": "quick",
   "canary": false
  },
  {
   "name": "partial",
   "defs": [
    "MODE_RC1=(SSL_PARTIAL)",
    "MODE_RC2=1"
   ],
   "tier": "quick",
   "canary": false
  },
  {
   "name": "error",
   "defs": [
    "MODE_RC1=(MATRIXSSL_ERROR)",
    "MODE_RC2=1"
   ],
   "tier": "quick",
   "canary": false
  },
  {
   "name": "failure",
   "defs": [
    "MODE_RC1=(PS_FAILURE)",
    "MODE_RC2=1"
   ],
   "tier": "quick",
   "canary": false
  },
  {
   "name": "success_then_process_data",
   "defs": [
    "MODE_RC1=(MATRIXSSL_SUCCESS)",
    "MODE_RC2=(SSL_PROCESS_DATA)"
   ],
   "tier": "quick",
   "canary": false
  },
  {
   "name": "success_then_alert",
   "defs": [
    "MODE_RC1=(MATRIXSSL_SUCCESS)",
    "MODE_RC2=(SSL_ALERT)"
   ],
   "tier": "quick",
   "canary": false
  },
  {
   "name": "success_then_send_response",
   "defs": [
    "MODE_RC1=(MATRIXSSL_SUCCESS)",
    "MODE_RC2=(SSL_SEND_RESPONSE)"
   ],
   "tier": "quick",
   "canary": false
  },
  {
   "name": "success_then_partial",
   "defs": [
    "MODE_RC1=(MATRIXSSL_SUCCESS)",
    "MODE_RC2=(SSL_PARTIAL)"
   ],
   "tier": "quick",
   "canary": false
  },
  {
   "name": "success_then_error",
   "defs": [
    "MODE_RC1=(MATRIXSSL_SUCCESS)",
    "MODE_RC2=(MATRIXSSL_ERROR)"
   ],
   "tier": "quick",
   "canary": false
  },
  {
   "name": "success_then_failure",
   "defs": [
    "MODE_RC1=(MATRIXSSL_SUCCESS)",
    "MODE_RC2=(PS_FAILURE)"
   ],
   "tier": "quick",
   "canary": false
  }
 ],
 "model_justified_by": {
  "matrixSslDecode": "C15/decode_entry_guard (dispatch), C01/tls13_decode and C01/tls12_decode (verdicts, cursor inside the received data, lengths inside the buffer, ERROR/CLOSED flags, *error < 0 on MATRIXSSL_ERROR)"
 }
}
@*/
/* The public receive entry point, with the record decoder replaced by its contract.
 * C01  MATRIXSSL_APP_DATA is returned only if the decoder said SSL_PROCESS_DATA in this very
 *      call, and the plaintext handed to the application lies inside the receive buffer.
 * C15  a decoder error is a negative return; an alert that is sent arms close-after-send;
 *      a received alert is reported as MATRIXSSL_RECEIVED_ALERT, never as data or success.
 *      (not stated for the FALSE START arm, which the decoders take only with a handshake response, never an alert)
 * C18  after a consumed record the unconsumed bytes sit at the front of the receive buffer, in
 *      order, and inlen is exactly their number (the same bytes in any chunking reach the same
 *      buffer state).
 * C08/C19  no access outside the (re)allocated buffers, bounded number of decoder calls,
 *      allocation failure is PS_MEM_FAIL. */
#include "verif.h"
#include "matrixssl/matrixsslImpl.h"

#define INSZ 16
#define MAXIN 12

struct __attribute__((packed)) inputs
{
    uint32_t bytes, inlen0;
    uint32_t flags, bFlags;
    uint8_t hsState;
    uint32_t outlen;
    struct { int32_t rc; uint32_t adv, len, reqLen; int32_t error; uint8_t alertLevel, alertDesc; uint32_t flags; uint8_t hsState; } __attribute__((packed)) dec[3];
};
static struct inputs g_in;
static ssl_t g_ssl;
static unsigned char *g_ptbuf;
static uint32 g_ptlen;

static struct {
    int calls;
    int32 last_rc;
    unsigned char last_alertDesc;
    uint32 last_len;
    unsigned char *last_buf_in;       /* cursor given to the last decoder call */
    uint32 last_len_in;
    unsigned char *last_buf_out;
    unsigned char tracked;            /* value of the byte at ghost index k behind the cursor after the last SUCCESS verdict */
    int tracked_valid;
} gh;

int32 matrixSslGetSessionId(ssl_t *ssl, sslSessionId_t *sessionId) { return PS_SUCCESS; }

/* model of the record decoder = what the decoder units prove about it (a body rather than a contract:
   a contract would havoc the cursor, and every later access through it would case-split over all objects) */
int32 matrixSslDecode(ssl_t *ssl, unsigned char **buf, uint32 *len, uint32 size, uint32 *remaining,
    uint32 *requiredLen, int32 *error, unsigned char *alertLevel, unsigned char *alertDescription)
{
    int i = gh.calls < 3 ? gh.calls : 2;
    __typeof__(g_in.dec[0]) *o = &g_in.dec[i];
    int32 rc = o->rc;
    uint32 adv;
    __CPROVER_assert(ssl == &g_ssl && __CPROVER_same_object(*buf, g_ssl.inbuf) && *len <= size &&
                     __CPROVER_POINTER_OFFSET(*buf) + size <= (unsigned) g_ssl.insize, "C08_decoder_is_called_within_its_contract");
    if (gh.calls == 0 && MODE_RC1 != 1) { rc = MODE_RC1; }
    if (gh.calls == 1 && MODE_RC2 != 1) { rc = MODE_RC2; }
    /* documented verdicts only */
    if (!(rc == MATRIXSSL_SUCCESS || rc == SSL_SEND_RESPONSE || rc == SSL_PARTIAL || rc == SSL_FULL || rc == SSL_PROCESS_DATA ||
          rc == SSL_ALERT || rc == DTLS_RETRANSMIT || (rc < 0 && rc > -50))) { rc = MATRIXSSL_ERROR; }
    gh.last_buf_in = *buf; gh.last_len_in = *len;
    /* the cursor stays inside the data it was given; SSL_PARTIAL leaves it */
    adv = (rc == SSL_PARTIAL) ? 0 : (o->adv <= *len ? o->adv : *len);
    *buf = *buf + adv;
    *remaining = gh.last_len_in - adv;
    *error = (rc == MATRIXSSL_ERROR) ? (o->error < 0 ? o->error : PS_PROTOCOL_FAIL) : o->error;
    *alertLevel = o->alertLevel; *alertDescription = o->alertDesc;
    *requiredLen = (rc == SSL_PARTIAL) ? (o->reqLen > gh.last_len_in && o->reqLen <= INSZ ? o->reqLen : (gh.last_len_in < INSZ ? gh.last_len_in + 1 : INSZ)) : (o->reqLen <= INSZ ? o->reqLen : INSZ);
    if (rc == SSL_SEND_RESPONSE || rc == SSL_ALERT) { *len = (rc == SSL_ALERT) ? 2 : (o->len <= size ? o->len : size); }
    if (rc == SSL_PROCESS_DATA) { *len = o->len <= adv ? o->len : adv; }
    if (rc == SSL_FULL) { *len = 0; }
    ssl->flags = o->flags; ssl->hsState = o->hsState;
    gh.calls++; gh.last_rc = rc; gh.last_alertDesc = *alertDescription; gh.last_buf_out = *buf; gh.last_len = *len;
    return rc;
}

#define IN_INBUF(p, n) (__CPROVER_same_object((p), g_ssl.inbuf) && __CPROVER_POINTER_OFFSET(p) + (n) <= (unsigned) g_ssl.insize)
#define POSTS(P) \
    P(C01_app_data_only_on_process_data_verdict, IMPLIES(RET == MATRIXSSL_APP_DATA, gh.calls >= 1 && gh.last_rc == SSL_PROCESS_DATA)) \
    P(C01_app_data_lies_in_receive_buffer,  IMPLIES(RET == MATRIXSSL_APP_DATA, g_ptbuf != NULL && IN_INBUF(g_ptbuf, g_ptlen))) \
    P(C01_no_plaintext_without_app_data_or_alert, IMPLIES(RET != MATRIXSSL_APP_DATA && RET != MATRIXSSL_RECEIVED_ALERT, g_ptbuf == NULL && g_ptlen == 0)) \
    P(C15_decoder_error_is_negative_return, IMPLIES(gh.calls >= 1 && gh.last_rc == MATRIXSSL_ERROR, RET < 0)) \
    P(C15_unknown_failure_is_negative_return, IMPLIES(gh.calls >= 1 && gh.last_rc < 0 && gh.last_rc > -50, RET < 0)) \
    P(C15_alert_to_send_arms_close_after_sent, IMPLIES(gh.calls >= 1 && gh.last_rc == SSL_SEND_RESPONSE && gh.last_alertDesc != SSL_ALERT_NONE && RET >= 0 && !(g_ssl.flags & SSL_FLAGS_FALSE_START), (g_ssl.bFlags & BFLAG_CLOSE_AFTER_SENT) != 0 && RET == MATRIXSSL_REQUEST_SEND)) \
    P(C15_received_alert_is_reported_as_alert, IMPLIES(gh.calls >= 1 && gh.last_rc == SSL_ALERT, RET == MATRIXSSL_RECEIVED_ALERT && IN_INBUF(g_ptbuf, 2) && g_ptlen == 2)) \
    P(C15_success_codes_need_a_success_verdict, IMPLIES(RET == MATRIXSSL_HANDSHAKE_COMPLETE || RET == MATRIXSSL_SUCCESS, gh.calls == 0 || gh.last_rc == MATRIXSSL_SUCCESS)) \
    P(C18_inlen_counts_unconsumed_bytes,    IMPLIES(RET >= 0, g_ssl.inlen >= 0 && g_ssl.inlen <= g_ssl.insize)) \
    P(C18_everything_available_is_decoded_before_reporting, IMPLIES(RET >= 0 && gh.calls >= 1 && gh.last_rc == MATRIXSSL_SUCCESS, g_ssl.inlen == 0)) \
    P(C08_decoder_calls_are_bounded,        gh.calls <= 3) \
    P(C19_realloc_failure_is_mem_fail,      IMPLIES(RET == PS_MEM_FAIL, g_ptbuf == NULL))

int32 matrixSslReceivedData(ssl_t *ssl, uint32 bytes, unsigned char **ptbuf, uint32 *ptlen)
__CPROVER_requires(ssl == &g_ssl && ptbuf == &g_ptbuf && ptlen == &g_ptlen && bytes == g_in.bytes)
/* API precondition: the caller reports at most the room matrixSslGetReadbuf offered */
__CPROVER_requires(g_ssl.inlen >= 0 && (uint32) g_ssl.inlen + bytes <= MAXIN && g_ssl.insize == INSZ && g_ssl.outsize == INSZ && g_ssl.outlen >= 0 && g_ssl.outlen <= INSZ)
__CPROVER_requires(gh.calls == 0)
POSTS(ENSURES_CLAUSE)
CANARY_CLAUSE(__CPROVER_return_value != MATRIXSSL_APP_DATA)
__CPROVER_assigns(g_ptbuf, g_ptlen, gh, __CPROVER_object_whole(&g_ssl), __CPROVER_object_whole(g_ssl.inbuf), __CPROVER_object_whole(g_ssl.outbuf))
__CPROVER_frees(g_ssl.inbuf, g_ssl.outbuf)
;

#include "matrixssl/hsNegotiateVersion.c"
#include "matrixssl/matrixsslApi.c"

#ifndef NATIVE_REPLAY
struct inputs nondet_in(void);
#endif

HARNESS_BEGIN
    HARNESS_INPUTS(struct inputs, in);
    g_in = in;
    Memset(&gh, 0, sizeof(gh));
    g_ssl.flags = in.flags;
    g_ssl.bFlags = in.bFlags;
    g_ssl.hsState = in.hsState;
    g_ssl.activeVersion = v_tls_1_2 | v_tls_negotiated;
    g_ssl.enBlockSize = 0;
    g_ssl.deBlockSize = 0;
    g_ssl.insize = INSZ;
    g_ssl.outsize = INSZ;
    __CPROVER_assume(in.inlen0 <= MAXIN && in.bytes <= MAXIN && in.inlen0 + in.bytes <= MAXIN && in.outlen <= INSZ);
    g_ssl.inlen = (int32) in.inlen0;
    g_ssl.outlen = (int32) in.outlen;
    g_ssl.inbuf = malloc(INSZ);
    g_ssl.outbuf = malloc(INSZ);
    __CPROVER_assume(g_ssl.inbuf != NULL && g_ssl.outbuf != NULL);
    g_ssl.sid = NULL;
    g_ssl.bufferPool = NULL;
    matrixSslReceivedData(&g_ssl, in.bytes, &g_ptbuf, &g_ptlen);
HARNESS_END
