/*@UNIT
{
  "property": "C01",
  "unit": "tls13_decode_gate",
  "function": "matrixSslDecodeTls13",
  "source": "matrixssl/tls13Decode.c",
  "keep_bodies": ["tls13ParseRecordHeader", "tls13ValidateRecordHeader", "tls13ValidateRecordType", "tls13ParseChangeCipherSpec", "tls13ParseAndHandleAlert", "tls13HandleAlert", "psParse* (core/src/psbuf.c, core/include/psbuf.h)"],
  "replace": ["tls13ParseHandshakeMessage"],
  "assumed": ["ssl->decrypt (model = the contract proved for the AEAD openers in C02: fails for records shorter than the tag, else verdict chosen by the input)",
              "tls13ParseHandshakeMessage (contract: advances the cursor inside the record; may change hsState, flags, err, decState)",
              "tls13EncodeAlert, sslEncodeResponse (models: write only into the buffer they are given; SSL_FULL / error / success)"],
  "mode": "bounded",
  "bounds": "receive buffer of every size <= N bytes with every content (N=40 quick, 72 thorough); loops unwound with unwinding assertions: padding strip N+2, ignored 6-byte ChangeCipherSpec records N/6+2, handshake messages (>= 4 bytes each) N/4+2",
  "defs_quick": ["BUFN=40"],
  "defs_thorough": ["BUFN=72"],
  "unwind_quick": 42, "unwind_thorough": 74,
  "unwindset_quick": ["matrixSslDecodeTls13_wrapped_for_contract_checking.0:9", "matrixSslDecodeTls13_wrapped_for_contract_checking.2:12"],
  "unwindset_thorough": ["matrixSslDecodeTls13_wrapped_for_contract_checking.0:15", "matrixSslDecodeTls13_wrapped_for_contract_checking.2:20"],
  "remove_function_pointers": true,
  "native_replay": true,
  "object_bits": 10,
  "timeout": 400,
  "weight_gb": 4
}
@*/
/* C01.U1  TLS 1.3 record decoder: received bytes are reported as application data
 * (SSL_PROCESS_DATA -> MATRIXSSL_APP_DATA) only if this very record was opened
 * successfully under the active read keys AND the handshake is complete, or the
 * session is a server in the early-data window (state WAIT_EOED, which only a server
 * that enabled early data under a chosen PSK enters). */
#define POSTS(P) \
    P(app_data_only_from_an_opened_record, IMPLIES(RET == SSL_PROCESS_DATA, ENTRY_SECURE && gh_dec_calls == 1 && gh_dec_ok && !gh_dec_failed)) \
    P(app_data_only_after_handshake_done,  IMPLIES(RET == SSL_PROCESS_DATA, gh_hsstate_at_entry == SSL_HS_DONE || gh_hsstate_at_entry == SSL_HS_TLS_1_3_WAIT_EOED)) \
    P(app_data_leaves_state_alone,         IMPLIES(RET == SSL_PROCESS_DATA, g_ssl.hsState == gh_hsstate_at_entry && gh_hs_calls == 0)) \
    P(app_data_length_within_limit,        IMPLIES(RET == SSL_PROCESS_DATA, g_len <= 16384 && g_len <= g_size)) \
    P(app_data_lies_in_receive_buffer,     IMPLIES(RET == SSL_PROCESS_DATA, __CPROVER_same_object(g_inp, g_buf) && __CPROVER_POINTER_OFFSET(g_inp) <= g_size))
#define CANARY_COND (__CPROVER_return_value != SSL_PROCESS_DATA)
#include "tls13_decode.h"
