/*@UNIT
{
  "property": "C01",
  "properties": ["C15"],
  "unit": "encode_gate_tls13",
  "function": "tls13EncodeAppData",
  "source": "matrixssl/tls13Encode.c",
  "keep_bodies": ["isGoodStateForAppDataEncrypt"],
  "replace": ["tls13WriteRecordHeader", "tls13Encrypt"],
  "assumed": ["tls13WriteRecordHeader, tls13Encrypt (contracts: any verdict, calls counted; on success the cursors stay inside the output buffer)"],
  "mode": "proof",
  "why_proof": "loop-free; session state fully symbolic",
  "native_replay": false,
  "object_bits": 10
}
@*/
/* C01.U6 / C15.U4  TLS 1.3: application data is encrypted only on a live session whose
 * handshake is complete, or - the early-data exception of the property statement - on a
 * side that has early data enabled (client 0-RTT under a PSK, server 0.5-RTT after accepting
 * early data); never after a fatal error or closure. */
#include "verif.h"
#include "matrixssl/matrixsslImpl.h"

static ssl_t g_ssl;
static unsigned char g_out[64], g_pt[32];
static uint32_t g_len, g_size;
static struct { int hdr, enc; } gh;

static int32_t tls13WriteRecordHeader(ssl_t *ssl, uint8_t recordType, uint8_t handshakeMessageType, unsigned char *data,
    psSizeL_t dataLen, psSizeL_t hsLen, psSizeL_t *padLen, psSizeL_t fragId, psBool_t toBeEncrypted,
    unsigned char **c, const unsigned char *end, unsigned char **encryptStart, unsigned char **encryptEnd)
__CPROVER_requires(ssl == &g_ssl)
__CPROVER_assigns(gh.hdr, *padLen, *c, *encryptStart, *encryptEnd)
__CPROVER_ensures(gh.hdr == __CPROVER_old(gh.hdr) + 1)
__CPROVER_ensures(__CPROVER_return_value < 0 || (*c == g_out + 5 && *encryptStart == g_out + 5 && *encryptEnd == g_out + 5 + dataLen + 1))
;
static int32_t tls13Encrypt(ssl_t *ssl, unsigned char *pt, unsigned char *ct, psSize_t ptLen, unsigned char recordType, psSize_t recordLen)
__CPROVER_requires(ssl == &g_ssl)
__CPROVER_assigns(gh.enc)
__CPROVER_ensures(gh.enc == __CPROVER_old(gh.enc) + 1)
;

#define LIVE (!(OLD(g_ssl, flags) & (SSL_FLAGS_ERROR | SSL_FLAGS_CLOSED)))
#define DONE_OR_EARLY (OLD(g_ssl, hsState) == SSL_HS_DONE || OLD(g_ssl, tls13ClientEarlyDataEnabled) || OLD(g_ssl, tls13ServerEarlyDataEnabled))
#define POSTS(P) \
    P(C01_encrypts_only_after_handshake_or_as_early_data, IMPLIES(gh.hdr > 0 || gh.enc > 0, DONE_OR_EARLY)) \
    P(C15_encrypts_only_on_live_session, IMPLIES(gh.hdr > 0 || gh.enc > 0, LIVE)) \
    P(refused_call_is_an_error,          IMPLIES(!LIVE || !DONE_OR_EARLY, RET == MATRIXSSL_ERROR && gh.hdr == 0 && gh.enc == 0)) \
    P(success_needs_both_steps,          IMPLIES(RET > 0, gh.hdr == 1 && gh.enc == 1)) \
    P(C15_flags_untouched,               (g_ssl.flags & (SSL_FLAGS_ERROR | SSL_FLAGS_CLOSED)) == (OLD(g_ssl, flags) & (SSL_FLAGS_ERROR | SSL_FLAGS_CLOSED)) && g_ssl.hsState == OLD(g_ssl, hsState))

int32_t tls13EncodeAppData(ssl_t *ssl, unsigned char *buf, uint32_t size, unsigned char *ptBuf, uint32_t *len)
__CPROVER_requires(ssl == &g_ssl && buf == g_out && size == g_size && size <= 64 && ptBuf == g_pt && len == &g_len && g_len <= 32)
__CPROVER_requires(gh.hdr == 0 && gh.enc == 0 && g_ssl.recordHeadLen == 5)
POSTS(ENSURES_CLAUSE)
CANARY_CLAUSE(__CPROVER_return_value <= 0)
__CPROVER_assigns(gh, g_len, g_ssl.tls13EarlyDataStatus, __CPROVER_object_whole(g_out))
;

#include "matrixssl/tls13Encode.c"

HARNESS_BEGIN
    gh.hdr = 0; gh.enc = 0;
    g_ssl.recordHeadLen = 5;
    if (g_len > 32) { g_len = 32; }
    if (g_size > 64) { g_size = 64; }
    tls13EncodeAppData(&g_ssl, g_out, g_size, g_pt, &g_len);
HARNESS_END
