/*@UNIT
{
  "property": "C01",
  "properties": ["C02", "C06", "C08", "C15", "C16", "C18"],
  "unit": "tls12_decode",
  "function": "matrixSslDecodeTls12AndBelow",
  "source": "matrixssl/sslDecode.c",
  "keep_bodies": ["handleRecordHdr", "validateRecordHdrType", "validateRecordHdrVersion", "validateRecordHdrLen", "addCompressCount", "psVerFromEncodingMajMin", "dtlsCompareEpoch", "incrTwoByte"],
  "replace": ["parseSSLHandshake", "dtlsChkReplayWindow"],
  "assumed": ["ssl->decrypt (model: identity cipher moving the wire bytes to the plaintext position; verdict chosen by the input; AEAD decrypt fails for records shorter than nonce+tag as proved in C02; evaluates the RFC 5246 padding spec into a ghost)",
              "ssl->verifyMac (model: verdict chosen by the input, call counted)",
              "parseSSLHandshake (contract: any verdict; may change hsState, flags, err, decState, sec.anon, bFlags)",
              "dtlsChkReplayWindow (contract enforced in C16/replay_window: returns 0 or 1, touches only lastRsn and dtlsBitmap)",
              "sslActivateReadCipher, sslCreateKeys, sslEncodeResponse, matrixSslEncodeClientHello (models: verdict from the input; encode writes only into the buffer it is given and fails only with PS_* codes)",
              "psSha{1,256,384}{Init,Update,Final} (no-op models: the Lucky-13 blinding digests a local scratch buffer into a local context)"],
  "mode": "bounded",
  "bounds": "proof over the enumerated modes (version x cipher class x header format: units/common/tls12_cases.json; 10 in the quick tier, 16 in the thorough tier), each bounded in the receive buffer: every len <= BUFN (24..80 by mode) with every content; loops unwound with unwinding assertions (Lucky-13 dummy loops fully: 257; skipped DTLS records BUFN/13+2)",
  "cases_file": "common/tls12_cases.json",
  "unwind": 258,
  "unwindset": ["matrixSslDecodeTls12AndBelow_wrapped_for_contract_checking.7:8", "matrixSslDecodeTls12AndBelow_wrapped_for_contract_checking.4:4", "matrixSslDecodeTls12AndBelow_wrapped_for_contract_checking.5:4", "matrixSslDecodeTls12AndBelow_wrapped_for_contract_checking.6:4", "addCompressCount.0:4", "addCompressCount.1:4", "addCompressCount.2:4", "addCompressCount.3:4"],
  "remove_function_pointers": true,
  "native_replay": false,
  "object_bits": 10,
  "timeout": 900,
  "timeout_thorough": 3000,
  "mem_gb_thorough": 24,
  "weight_gb_thorough": 12,
  "mem_gb": 16,
  "weight_gb": 6
}
@*/
/* The TLS <= 1.2 / DTLS record decoder under one contract (labels carry the property they decide).
 *
 * C01  SSL_PROCESS_DATA only from a record decrypted under the active read cipher AND authenticated
 *      (AEAD tag, or HMAC verified and padding well-formed), handshake complete - or, the one documented
 *      exception, a client awaiting the ServerHello of a re-handshake on a secured connection.
 * C02  a record whose tag / MAC / padding is wrong yields no data and no handshake parsing, only a fatal
 *      alert; bad padding and bad MAC give the same alert and the MAC is computed either way (Lucky 13).
 * C06  ChangeCipherSpec activates the read cipher only in state FINISHED (or the three ticket-limbo cases).
 * C15  alerts sent or received kill the session; flags are sticky; errors are never success.
 * C16  DTLS: a record the replay window refuses is skipped without decrypting it or touching the state.
 * C18  an incomplete TLS record changes nothing.
 * C08  documented verdicts; lengths and cursor inside the buffer (+ cbmc safety checks). */
#define AEAD_MODE ((gh.flags_at_entry & SSL_FLAGS_AEAD_R) != 0)
#define AUTH_OK (gh.dec_ok && !gh.dec_failed && (AEAD_MODE ? 1 : (gh.mac_ok && !gh.mac_failed && gh.pad_ok)))
#define IN_BUF(limit) (__CPROVER_same_object(g_inp, g_buf) && __CPROVER_POINTER_OFFSET(g_inp) <= (limit))
#define IS_DTLS_MODE (MODE_HDR == 13)
#define LIMBO (g_in.hasSid && g_in.ticketState == SESS_TICKET_STATE_IN_LIMBO && \
               (gh.hsstate_at_entry == SSL_HS_CERTIFICATE || (gh.hsstate_at_entry == SSL_HS_SERVER_KEY_EXCHANGE && (gh.flags_at_entry & (SSL_FLAGS_ANON_CIPHER | SSL_FLAGS_PSK_CIPHER)))))
/* bytes of the protected record that precede the plaintext on the wire (GCM explicit nonce) */
#ifdef MODE_AEAD
# define WIRE_SKIP (MODE_NONCE ? 8 : 0)
#else
# define WIRE_SKIP 0
#endif
#define POSTS(P) \
    P(C01_app_data_only_when_read_secure,      IMPLIES(RET == SSL_PROCESS_DATA, ENTRY_SECURE)) \
    P(C01_app_data_only_from_authenticated_record, IMPLIES(RET == SSL_PROCESS_DATA, AUTH_OK)) \
    P(C01_app_data_only_after_handshake_done,  IMPLIES(RET == SSL_PROCESS_DATA, gh.hsstate_at_entry == SSL_HS_DONE || gh.hsstate_at_entry == SSL_HS_SERVER_HELLO)) \
    P(C01_app_data_leaves_handshake_state,     IMPLIES(RET == SSL_PROCESS_DATA, g_ssl.hsState == gh.hsstate_at_entry && gh.hs_calls == 0)) \
    P(C01_app_data_cursor_in_receive_buffer,   IMPLIES(RET == SSL_PROCESS_DATA, IN_BUF(g_in.len) && g_len <= g_size)) \
    P(C02_delivered_bytes_are_the_authenticated_record, IMPLIES(RET == SSL_PROCESS_DATA && g_in.k < g_len, g_buf[g_in.k] == g_in.buf[(gh.dec_off + WIRE_SKIP + g_in.k) % BUFN] && gh.dec_off + WIRE_SKIP + g_len <= BUFN)) \
    P(C02_failed_decrypt_yields_nothing,       IMPLIES(gh.dec_failed, RET != SSL_PROCESS_DATA && RET != SSL_ALERT && gh.hs_calls == 0 && gh.act_calls == 0 && (g_ssl.err != SSL_ALERT_NONE || IS_DTLS_MODE))) \
    P(C02_failed_mac_yields_nothing,           IMPLIES(gh.mac_failed, RET != SSL_PROCESS_DATA && RET != SSL_ALERT && gh.hs_calls == 0 && gh.act_calls == 0 && g_ssl.err == SSL_ALERT_BAD_RECORD_MAC)) \
    P(C02_bad_padding_yields_nothing_same_alert, IMPLIES(gh.dec_ok && ENTRY_SECURE && !AEAD_MODE && !gh.pad_ok, RET != SSL_PROCESS_DATA && RET != SSL_ALERT && gh.hs_calls == 0 && gh.act_calls == 0 && g_ssl.err == SSL_ALERT_BAD_RECORD_MAC)) \
    P(C02_mac_is_always_computed,              IMPLIES(gh.dec_ok && ENTRY_SECURE && !AEAD_MODE, gh.mac_calls == gh.dec_calls)) \
    P(C02_no_handshake_parsing_of_unauthenticated_protected_record, IMPLIES(ENTRY_SECURE && gh.hs_calls > 0, AUTH_OK)) \
    P(C02_plaintext_length_within_negotiated_limit, IMPLIES(RET == SSL_PROCESS_DATA, (int32) g_len <= (g_ssl.maxPtFrag == 0xFF ? SSL_MAX_PLAINTEXT_LEN : g_ssl.maxPtFrag) + MODE_BLOCK)) \
    P(C06_read_cipher_activated_only_when_expected, IMPLIES(gh.act_calls > 0, gh.act_calls == 1 && (gh.hsstate_at_entry == SSL_HS_FINISHED || LIMBO))) \
    P(C06_ccs_out_of_order_is_fatal_on_tls,    IMPLIES(!IS_DTLS_MODE && g_ssl.rec.type == SSL_RECORD_TYPE_CHANGE_CIPHER_SPEC && gh.act_calls == 0 && (ENTRY_SECURE ? AUTH_OK : gh.dec_ok) && gh.enc_calls > 0, g_ssl.err != SSL_ALERT_NONE)) \
    P(C15_alert_to_send_marks_session_failed,  IMPLIES(RET == SSL_SEND_RESPONSE && g_alertDesc != SSL_ALERT_NONE, g_alertLevel == SSL_ALERT_LEVEL_FATAL && (g_ssl.flags & SSL_FLAGS_ERROR) != 0)) \
    P(C15_pending_alert_never_reports_success, IMPLIES(g_ssl.err != SSL_ALERT_NONE && gh.hs_calls == 0, RET != MATRIXSSL_SUCCESS && RET != SSL_PROCESS_DATA && RET != SSL_ALERT)) \
    P(C15_received_fatal_alert_sets_error,     IMPLIES(RET == SSL_ALERT && g_alertLevel == SSL_ALERT_LEVEL_FATAL, (g_ssl.flags & SSL_FLAGS_ERROR) != 0)) \
    P(C15_received_close_notify_sets_closed,   IMPLIES(RET == SSL_ALERT && g_alertDesc == SSL_ALERT_CLOSE_NOTIFY, (g_ssl.flags & SSL_FLAGS_CLOSED) != 0)) \
    P(C15_error_and_closed_are_sticky,         (g_ssl.flags & (SSL_FLAGS_ERROR | SSL_FLAGS_CLOSED) & gh.flags_at_entry) == ((SSL_FLAGS_ERROR | SSL_FLAGS_CLOSED) & gh.flags_at_entry) || gh.hs_calls > 0) \
    P(C15_protocol_error_is_reported,          IMPLIES(RET == MATRIXSSL_ERROR, g_error < 0)) \
    P(C16_refused_record_is_not_decrypted,     IMPLIES(IS_DTLS_MODE, gh.dec_calls + gh.replay_refused <= gh.replay_calls || gh.dec_calls == 0)) \
    P(C18_partial_leaves_cursor_and_length,    IMPLIES(RET == SSL_PARTIAL && !IS_DTLS_MODE, g_inp == g_buf && g_len == g_in.len && g_remaining == g_in.len)) \
    P(C18_partial_leaves_session_state,        IMPLIES(RET == SSL_PARTIAL && !IS_DTLS_MODE, g_ssl.flags == gh.flags_at_entry && g_ssl.hsState == gh.hsstate_at_entry && g_ssl.err == SSL_ALERT_NONE && gh.dec_calls == 0 && gh.hs_calls == 0 && gh.enc_calls == 0 && gh.act_calls == 0)) \
    P(C18_partial_asks_for_more_than_present,  IMPLIES(RET == SSL_PARTIAL && !IS_DTLS_MODE, g_reqLen > g_in.len)) \
    P(C08_verdict_is_documented,               RET == MATRIXSSL_SUCCESS || RET == SSL_SEND_RESPONSE || RET == SSL_PARTIAL || RET == SSL_FULL || RET == SSL_PROCESS_DATA || RET == SSL_ALERT || RET == DTLS_RETRANSMIT || (RET < 0 && RET > -50)) \
    P(C08_output_length_fits_buffer,           IMPLIES(RET == SSL_SEND_RESPONSE || RET == SSL_PROCESS_DATA || RET == SSL_ALERT, g_len <= g_size)) \
    P(C08_cursor_stays_in_buffer,              IMPLIES(!(RET < 0 && RET > -50), IN_BUF(g_size)))
#define CANARY_COND (__CPROVER_return_value != CANARY_RET)
#include "tls12_decode.h"
