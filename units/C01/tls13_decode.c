/*@UNIT
{
  "property": "C01",
  "properties": ["C02", "C08", "C15", "C18"],
  "unit": "tls13_decode",
  "function": "matrixSslDecodeTls13",
  "source": "matrixssl/tls13Decode.c",
  "keep_bodies": ["tls13ParseRecordHeader", "tls13ValidateRecordHeader", "tls13ValidateRecordType", "tls13ParseChangeCipherSpec", "tls13ParseAndHandleAlert", "tls13HandleAlert", "psParse* (core/src/psbuf.c, core/include/psbuf.h)"],
  "replace": ["tls13ParseHandshakeMessage"],
  "replaced_contracts_enforced_in": {"tls13ParseHandshakeMessage": "C06/tls13_hs_transitions (cursor clauses C18_*; its effect on hsState/flags/err is left arbitrary here)"},
  "assumed": ["ssl->decrypt (model = the contract proved for the AEAD openers in C02: fails for records shorter than the tag, else verdict chosen by the input)",
              "tls13EncodeAlert, sslEncodeResponse (models: write only into the buffer they are given; SSL_FULL / PS_* error / success)"],
  "mode": "bounded",
  "bounds": "receive buffer of N bytes holding every len <= N received bytes with every content (N=40 quick, 72 thorough); loops unwound with unwinding assertions: padding strip N+2, ignored 6-byte ChangeCipherSpec records N/6+2, handshake messages (>= 4 bytes each) N/4+2",
  "defs_quick": ["BUFN=40"],
  "defs_thorough": ["BUFN=72"],
  "unwind_quick": 42, "unwind_thorough": 74,
  "unwindset_quick": ["matrixSslDecodeTls13_wrapped_for_contract_checking.0:9", "matrixSslDecodeTls13_wrapped_for_contract_checking.2:12"],
  "unwindset_thorough": ["matrixSslDecodeTls13_wrapped_for_contract_checking.0:15", "matrixSslDecodeTls13_wrapped_for_contract_checking.2:20"],
  "remove_function_pointers": true,
  "native_replay": true,
  "object_bits": 10,
  "timeout": 500,
  "timeout_thorough": 2400,
  "mem_gb_thorough": 28,
  "weight_gb_thorough": 24,
  "weight_gb": 4
}
@*/
/* The TLS 1.3 record decoder under one contract; each postcondition label carries the
 * property it decides (the driver attributes a failed label Cxx_... to property Cxx and
 * unlabeled memory-safety / arithmetic / unwinding obligations to C08).
 *
 * C01  bytes are reported as application data (SSL_PROCESS_DATA -> MATRIXSSL_APP_DATA) only if
 *      this very record was opened under the active read keys AND the handshake is complete,
 *      or the session is a server in the early-data window (WAIT_EOED).
 * C02  the bytes handed to the application are exactly the plaintext of the record that was opened
 *      (ghost index k; the decrypt model is the identity, so plaintext = wire bytes of that record);
 *      a record that fails to open never yields data (TLS: fatal alert).
 * C15  every way of failing kills the session: an alert handed out for sending leaves
 *      SSL_FLAGS_ERROR set, a received alert sets CLOSED or ERROR, no error path reports
 *      success (the only tolerated undecryptable records: early data being rejected by a
 *      server, within the limit), ERROR/CLOSED are never cleared.
 * C18  an incomplete record changes nothing (SSL_PARTIAL is side-effect free) and consumed
 *      bytes always lie inside the received data.
 * C08  documented verdicts, lengths and cursor inside the buffers (+ all cbmc safety checks). */
#define EARLY_SKIP_OK ((gh_flags_at_entry & SSL_FLAGS_SERVER) && !g_in.earlyEnabled && (g_in.gotEarlyData & 1) && \
                       g_ssl.tls13ReceivedEarlyDataLen <= g_ssl.tls13SessionMaxEarlyData)
#define IN_BUF(limit) (__CPROVER_same_object(g_inp, g_buf) && __CPROVER_POINTER_OFFSET(g_inp) <= (limit))
#define POSTS(P) \
    P(C01_app_data_only_from_an_opened_record, IMPLIES(RET == SSL_PROCESS_DATA, ENTRY_SECURE && gh_dec_calls == 1 && gh_dec_ok && !gh_dec_failed)) \
    P(C01_app_data_only_after_handshake_done,  IMPLIES(RET == SSL_PROCESS_DATA, gh_hsstate_at_entry == SSL_HS_DONE || gh_hsstate_at_entry == SSL_HS_TLS_1_3_WAIT_EOED)) \
    P(C01_app_data_leaves_state_alone,         IMPLIES(RET == SSL_PROCESS_DATA, g_ssl.hsState == gh_hsstate_at_entry && gh_hs_calls == 0)) \
    P(C01_app_data_length_within_limit,        IMPLIES(RET == SSL_PROCESS_DATA, g_len <= 16384 && g_len <= g_size)) \
    P(C01_app_data_lies_in_receive_buffer,     IMPLIES(RET == SSL_PROCESS_DATA, IN_BUF(g_in.len))) \
    P(C02_delivered_bytes_are_the_opened_record, IMPLIES(RET == SSL_PROCESS_DATA && g_in.k < g_len, g_buf[g_in.k] == g_in.buf[(gh_dec_off + g_in.k) % BUFN] && gh_dec_off + g_len <= BUFN)) \
    P(C02_decrypt_failure_never_yields_data,   IMPLIES(gh_dec_failed, RET != SSL_PROCESS_DATA && RET != SSL_ALERT && gh_hs_calls == 0)) \
    P(C02_decrypt_failure_is_fatal_unless_early_data_skip, IMPLIES(gh_dec_failed && !EARLY_SKIP_OK, (g_ssl.err == SSL_ALERT_BAD_RECORD_MAC && gh_alert_encoded == 1 && (g_ssl.flags & SSL_FLAGS_ERROR) != 0) || RET == SSL_FULL)) \
    P(C15_undecryptable_record_tolerated_only_as_rejected_early_data_within_limit, IMPLIES(gh_dec_failed && !EARLY_SKIP_OK, (g_ssl.err == SSL_ALERT_BAD_RECORD_MAC && gh_alert_encoded == 1 && (g_ssl.flags & SSL_FLAGS_ERROR) != 0) || RET == SSL_FULL)) \
    P(C15_alert_sent_marks_session_failed,     IMPLIES(gh_alert_encoded > 0, (g_ssl.flags & SSL_FLAGS_ERROR) != 0)) \
    P(C15_alert_to_send_is_reported_fatal,     IMPLIES(RET == SSL_SEND_RESPONSE && g_alertDesc != SSL_ALERT_NONE, g_alertLevel == SSL_ALERT_LEVEL_FATAL && (g_ssl.flags & SSL_FLAGS_ERROR) != 0)) \
    P(C15_received_alert_kills_session,        IMPLIES(RET == SSL_ALERT, (g_ssl.flags & (SSL_FLAGS_ERROR | SSL_FLAGS_CLOSED)) != 0)) \
    P(C15_received_fatal_alert_sets_error,     IMPLIES(RET == SSL_ALERT && g_alertDesc != SSL_ALERT_CLOSE_NOTIFY, (g_ssl.flags & SSL_FLAGS_ERROR) != 0)) \
    P(C15_error_and_closed_are_sticky,         (g_ssl.flags & (SSL_FLAGS_ERROR | SSL_FLAGS_CLOSED) & gh_flags_at_entry) == ((SSL_FLAGS_ERROR | SSL_FLAGS_CLOSED) & gh_flags_at_entry) || gh_hs_calls > 0) \
    P(C15_internal_error_is_reported,          IMPLIES(RET < 0 && RET > -50, g_error < 0 || RET == PS_FAILURE)) \
    P(C18_partial_leaves_cursor_and_length,    IMPLIES(RET == SSL_PARTIAL, g_inp == g_buf && g_len == g_in.len && g_remaining == g_in.len)) \
    P(C18_partial_leaves_session_state,        IMPLIES(RET == SSL_PARTIAL, g_ssl.flags == gh_flags_at_entry && g_ssl.hsState == gh_hsstate_at_entry && g_ssl.err == SSL_ALERT_NONE && g_ssl.outlen == g_in.outlen && gh_dec_calls == 0 && gh_hs_calls == 0 && gh_alert_encoded == 0)) \
    P(C18_partial_asks_for_more_than_present,  IMPLIES(RET == SSL_PARTIAL, g_reqLen > g_in.len || g_reqLen == TLS_REC_HDR_LEN)) \
    P(C18_consumed_bytes_lie_in_received_data, IMPLIES(RET == MATRIXSSL_SUCCESS || RET == SSL_PROCESS_DATA || RET == SSL_ALERT, IN_BUF(g_in.len))) \
    P(C08_verdict_is_documented,               RET == MATRIXSSL_SUCCESS || RET == SSL_SEND_RESPONSE || RET == SSL_PARTIAL || RET == SSL_FULL || RET == SSL_PROCESS_DATA || RET == SSL_ALERT || RET == SSL_NO_TLS_1_3 || (RET < 0 && RET > -50)) \
    P(C08_output_length_fits_buffer,           IMPLIES(RET == SSL_SEND_RESPONSE || RET == SSL_PROCESS_DATA || RET == SSL_ALERT, g_len <= g_size)) \
    P(C08_cursor_stays_in_buffer,              IMPLIES(RET != SSL_PARTIAL && !(RET < 0 && RET > -50), IN_BUF(g_size)))
#define CANARY_COND (__CPROVER_return_value != SSL_PROCESS_DATA)
#include "tls13_decode.h"
