/*@UNIT
{
  "property": "C01",
  "properties": ["C15"],
  "unit": "encode_gate_tls12",
  "function": "matrixSslEncode",
  "source": "matrixssl/sslEncode.c",
  "replace": ["tls13EncodeAppData", "writeRecordHeader", "encryptRecord"],
  "assumed": ["writeRecordHeader, encryptRecord (contracts: any verdict, calls counted; on success the cursor stays inside the output buffer)"],
  "replaced_contracts_enforced_in": {"tls13EncodeAppData": "C01/encode_gate_tls13"},
  "mode": "proof",
  "why_proof": "loop-free; session state fully symbolic, output buffer size symbolic up to 64",
  "native_replay": false,
  "object_bits": 10
}
@*/
/* C01.U5 / C15.U4  application data is encrypted only on a live session whose handshake
 * is complete: the record writer and the cipher are reached only if no fatal error / closure
 * is recorded and hsState == SSL_HS_DONE; TLS 1.3 sessions go to tls13EncodeAppData and
 * nowhere else; a refused call writes nothing and returns an error. */
#include "verif.h"
#include "matrixssl/matrixsslImpl.h"

static ssl_t g_ssl;
static unsigned char g_out[64], g_pt[32];
static uint32 g_len, g_size;
static struct { int hdr, enc, t13; } gh;

int32_t tls13EncodeAppData(ssl_t *ssl, unsigned char *buf, uint32_t size, unsigned char *ptBuf, uint32_t *len)
__CPROVER_requires(ssl == &g_ssl)
__CPROVER_assigns(gh.t13, g_len)
__CPROVER_ensures(gh.t13 == __CPROVER_old(gh.t13) + 1)
;
int32_t writeRecordHeader(ssl_t *ssl, uint8_t type, uint8_t hsType, psSize_t *messageSize, uint8_t *padLen,
    unsigned char **encryptStart, const unsigned char *end, unsigned char **c)
__CPROVER_requires(ssl == &g_ssl)
__CPROVER_assigns(gh.hdr, *messageSize, *padLen, *encryptStart, *c)
__CPROVER_ensures(gh.hdr == __CPROVER_old(gh.hdr) + 1)
__CPROVER_ensures(__CPROVER_return_value < 0 || (*c == g_out + g_ssl.recordHeadLen && *encryptStart == g_out + g_ssl.recordHeadLen))
;
int32 encryptRecord(ssl_t *ssl, int32 type, int32 hsMsgType, int32 messageSize, int32 padLen, unsigned char *pt, sslBuf_t *out, unsigned char **c)
__CPROVER_requires(ssl == &g_ssl)
__CPROVER_assigns(gh.enc, *c)
__CPROVER_ensures(gh.enc == __CPROVER_old(gh.enc) + 1)
__CPROVER_ensures(__CPROVER_return_value < 0 || (__CPROVER_same_object(*c, g_out) && __CPROVER_POINTER_OFFSET(*c) <= 64))
;

#define LIVE_AND_DONE (!(OLD(g_ssl, flags) & (SSL_FLAGS_ERROR | SSL_FLAGS_CLOSED)) && OLD(g_ssl, hsState) == SSL_HS_DONE)
#define IS13 ((OLD(g_ssl, activeVersion) & v_tls_1_3_any) != 0)
#define POSTS(P) \
    P(tls13_session_is_delegated,        IMPLIES(IS13, gh.t13 == 1 && gh.hdr == 0 && gh.enc == 0)) \
    P(C01_encrypts_only_after_handshake_done, IMPLIES(!IS13 && (gh.hdr > 0 || gh.enc > 0), OLD(g_ssl, hsState) == SSL_HS_DONE)) \
    P(C15_encrypts_only_on_live_session, IMPLIES(!IS13 && (gh.hdr > 0 || gh.enc > 0), !(OLD(g_ssl, flags) & (SSL_FLAGS_ERROR | SSL_FLAGS_CLOSED)))) \
    P(refused_call_is_an_error,          IMPLIES(!IS13 && !LIVE_AND_DONE, RET == MATRIXSSL_ERROR && gh.hdr == 0 && gh.enc == 0 && gh.t13 == 0)) \
    P(success_returns_record_length,     IMPLIES(!IS13 && RET > 0, gh.hdr >= 1 && gh.enc >= 1 && (uint32) RET == g_len && g_len <= 64)) \
    P(C15_flags_untouched,               (g_ssl.flags & (SSL_FLAGS_ERROR | SSL_FLAGS_CLOSED)) == (OLD(g_ssl, flags) & (SSL_FLAGS_ERROR | SSL_FLAGS_CLOSED)) && g_ssl.hsState == OLD(g_ssl, hsState))

int32 matrixSslEncode(ssl_t *ssl, unsigned char *buf, uint32 size, unsigned char *ptBuf, uint32 *len)
__CPROVER_requires(ssl == &g_ssl && buf == g_out && size == g_size && size <= 64 && ptBuf == g_pt && len == &g_len && g_len <= 32)
__CPROVER_requires(gh.hdr == 0 && gh.enc == 0 && gh.t13 == 0)
__CPROVER_requires(g_ssl.recordHeadLen == 5 || g_ssl.recordHeadLen == 13)
POSTS(ENSURES_CLAUSE)
CANARY_CLAUSE(__CPROVER_return_value <= 0)
__CPROVER_assigns(gh, g_len, g_ssl.bFlags, __CPROVER_object_whole(g_out))
;

#include "matrixssl/sslEncode.c"

HARNESS_BEGIN
    gh.hdr = 0; gh.enc = 0; gh.t13 = 0;
    if (g_ssl.recordHeadLen != 5) { g_ssl.recordHeadLen = 13; }
    if (g_len > 32) { g_len = 32; }
    if (g_size > 64) { g_size = 64; }
    matrixSslEncode(&g_ssl, g_out, g_size, g_pt, &g_len);
HARNESS_END
